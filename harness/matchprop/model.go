// Package matchprop decides C06: the streaming filter (match.Match driven by
// subscribe.UpdateNotification / subscribe.Server) offers an update to a
// subscriber iff the update path is compatible with one of the subscriber's
// paths, at most once per notification, never after removal, and without
// disturbing other subscribers registered at the same paths.
//
// The generated parts share this file's vocabulary:
//
//	exhaustive  all (subscription path, update path) pairs of length 0-4 over
//	            {a,b,*}, all two-registration triples of length 0-2, and the
//	            containment of ctree.Query's relation (c06_test.go)
//	random      operation sequences on a match.Match with recording clients
//	            (seq.go)
//	server      the real subscribe.Server (Subscribe / Update) with in-memory
//	            streams in a synctest bubble (server.go)
//	inflight    registrations removed / added WHILE Update / UpdateNotification
//	            calls are in flight: calls paused inside one of their callbacks
//	            (the harness owns the callbacks) and free-running rounds on the
//	            real scheduler, judged from sequence stamps (inflight.go)
//	atomic      container notifications (a prefix and 1-5 members, atomic or
//	            not) against subscribers placed around the container, judged at
//	            the match, server and real-cache layers (atomic.go)
//	size        table notifications of 1 - 1100 entries (counts sampled around
//	            64 / 128 / 1024; atomic or not; updates and/or deletes) against
//	            subscribers placed by the position of a cell in the notification,
//	            judged at the same three layers and at the match layer with the
//	            prefix/entry boundary at every position (size.go)
//
// The generators of the random, server and inflight parts are in gen_test.go /
// inflight_test.go; derive.go holds the path derivations (twins under a
// joiner, re-structuring into keyed elements) they use; dress.go holds the
// request fields the server does not implement (per-subscription mode,
// intervals, qos, encoding, models, extensions ...), which the server and
// atomic parts set to arbitrary values and compare with the undressed twin.
package matchprop

import (
	"sort"
	"strconv"
	"strings"

	pb "github.com/openconfig/gnmi/proto/gnmi"
)

// Glob is the wildcard element.
const Glob = "*"

// Names of the open-finding classes this engine knows how to exclude (the
// predicates are in seq.go / server.go). Nothing is excluded unless the
// known-findings file lists the class as open for C06.
const (
	// A single-entry notification and a client with >=2 distinct registered
	// paths compatible with it: only the exactly-once demand is lifted for
	// that client on that notification (it must still be offered).
	ClassSingleEntryDouble = "single-entry-notification-double-offer"
	// A Subscribe RPC that registered >=2 distinct paths has ended: only the
	// demand that none of ITS paths stays registered is lifted.
	ClassStaleAfterEnd = "multi-path-subscription-stale-after-end"
)

// key is an INJECTIVE encoding of an index path (every element is written as
// "<length>:<bytes>"), so that the model never confuses two paths whatever
// characters their elements contain: elements with '/', ':', NUL or the empty
// string are part of the generated alphabet, and a key made by joining with a
// separator would identify ["a/b"] with ["a","b"].
func key(p []string) string {
	var b strings.Builder
	for _, e := range p {
		b.WriteString(strconv.Itoa(len(e)))
		b.WriteByte(':')
		b.WriteString(e)
	}
	return b.String()
}

func unkey(k string) []string {
	out := []string{}
	for len(k) > 0 {
		i := strings.IndexByte(k, ':')
		if i < 0 {
			panic("matchprop: malformed path key " + strconv.Quote(k))
		}
		n, err := strconv.Atoi(k[:i])
		if err != nil || n < 0 || i+1+n > len(k) {
			panic("matchprop: malformed path key " + strconv.Quote(k))
		}
		out = append(out, k[i+1:i+1+n])
		k = k[i+1+n:]
	}
	return out
}

// Compatible is the relation of the property statement: the two paths agree
// on every element they both have; a wildcard on either side agrees with
// anything. Lengths do not matter.
func Compatible(q, p []string) bool {
	for i := 0; i < len(q) && i < len(p); i++ {
		if q[i] != Glob && p[i] != Glob && q[i] != p[i] {
			return false
		}
	}
	return true
}

func compatibleAny(q []string, entries [][]string) bool {
	for _, p := range entries {
		if Compatible(q, p) {
			return true
		}
	}
	return false
}

func hasGlob(p []string) bool {
	for _, e := range p {
		if e == Glob {
			return true
		}
	}
	return false
}

// allPaths returns every path of length 0..depth over alphabet.
func allPaths(alphabet []string, depth int) [][]string {
	out := [][]string{{}}
	level := [][]string{{}}
	for d := 0; d < depth; d++ {
		var next [][]string
		for _, p := range level {
			for _, a := range alphabet {
				next = append(next, append(append([]string{}, p...), a))
			}
		}
		out = append(out, next...)
		level = next
	}
	return out
}

func clonePath(p []string) []string { return append([]string{}, p...) }

// gNMI paths as plain data ------------------------------------------------------

// PElem is one path element: a name and optional list keys.
type PElem struct {
	Name string            `json:"n"`
	Keys map[string]string `json:"k,omitempty"`
}

// GPath is a gnmi.Path as scenario data. Legacy selects the deprecated
// `element` encoding (names only; generators give legacy paths no keys).
type GPath struct {
	Target string  `json:"target,omitempty"`
	Origin string  `json:"origin,omitempty"`
	Elems  []PElem `json:"elems,omitempty"`
	Legacy bool    `json:"legacy,omitempty"`
	// Stray: a structured path additionally carries deprecated string elements (which every
	// reader ignores when elem is present: "gracefully handled when PathElem doesn't exist").
	Stray bool `json:"stray,omitempty"`
}

func names(p []string) []PElem {
	out := make([]PElem, len(p))
	for i, n := range p {
		out[i] = PElem{Name: n}
	}
	return out
}

// proto builds the message handed to the code under test.
func (g *GPath) proto() *pb.Path {
	if g == nil {
		return nil
	}
	p := &pb.Path{Target: g.Target, Origin: g.Origin}
	if g.Legacy {
		for _, e := range g.Elems {
			p.Element = append(p.Element, e.Name)
		}
		return p
	}
	for _, e := range g.Elems {
		pe := &pb.PathElem{Name: e.Name}
		if len(e.Keys) > 0 {
			pe.Key = map[string]string{}
			for k, v := range e.Keys {
				pe.Key[k] = v
			}
		}
		p.Elem = append(p.Elem, pe)
	}
	if g.Stray && len(p.Elem) > 0 {
		p.Element = []string{"stray", "x"}
	}
	return p
}

// refIndex is the harness's own statement of path.ToStrings' documentation
// (decided by C19, a helper here): element names in order, each followed by
// its key values ordered by key name; target then origin first when asked
// for and non-empty. A nil path indexes to nothing.
func refIndex(g *GPath, withTargetOrigin bool) []string {
	out := []string{}
	if g == nil {
		return out
	}
	if withTargetOrigin {
		if g.Target != "" {
			out = append(out, g.Target)
		}
		if g.Origin != "" {
			out = append(out, g.Origin)
		}
	}
	for _, e := range g.Elems {
		out = append(out, e.Name)
		if g.Legacy {
			continue
		}
		ks := make([]string, 0, len(e.Keys))
		for k := range e.Keys {
			ks = append(ks, k)
		}
		sort.Strings(ks)
		for _, k := range ks {
			out = append(out, e.Keys[k])
		}
	}
	return out
}

// SubList is a gnmi.SubscriptionList as scenario data. A nil entry of Subs is
// a Subscription without a path: it addresses the prefix itself, in the
// registration as in the initial walk (path.CompletePath). (Until the repair
// recorded as D23 the server skipped it when registering.)
//
// Dress and SubDress (index-aligned with Subs; may be shorter) hold values of
// the request fields this server does not implement (dress.go).
type SubList struct {
	Prefix   *GPath     `json:"prefix"`
	Subs     []*GPath   `json:"subs"`
	Dress    *ListDress `json:"dress,omitempty"`
	SubDress []SubDress `json:"sub_dress,omitempty"`
}

func (l *SubList) proto(mode pb.SubscriptionList_Mode, updatesOnly bool) *pb.SubscriptionList {
	s := &pb.SubscriptionList{Prefix: l.Prefix.proto(), Mode: mode, UpdatesOnly: updatesOnly}
	if d := l.Dress; d != nil {
		if d.HasQos {
			s.Qos = &pb.QOSMarking{Marking: d.Qos}
		}
		s.AllowAggregation = d.AllowAgg
		s.Encoding = pb.Encoding(d.Encoding)
		for _, m := range d.Models {
			s.UseModels = append(s.UseModels, &pb.ModelData{Name: m.Name, Organization: m.Org, Version: m.Version})
		}
	}
	for i, g := range l.Subs {
		d := l.subDress(i)
		sub := &pb.Subscription{Path: g.proto(), Mode: pb.SubscriptionMode(d.Mode), SampleInterval: d.Sample,
			SuppressRedundant: d.Suppress, HeartbeatInterval: d.Heartbeat}
		if sub.Path != nil && d.PathTarget != "" {
			sub.Path.Target = d.PathTarget
		}
		s.Subscription = append(s.Subscription, sub)
	}
	return s
}

// refQuery states where the server registers one subscription of a list
// ("subscription path built from prefix (+origin) + path", subscribe.go
// addSubscription): the prefix's target, then the origin (the prefix's, or
// the path's when the prefix has none), then the prefix elements, then the
// path elements. Generators never put an origin in both places, nor a path
// origin together with prefix elements (gNMI mixed-schema rules; the
// server's own CompletePath rejects both), so the position of a path origin
// relative to prefix elements is never exercised.
func refQuery(prefix, sub *GPath) []string {
	q := refIndex(prefix, true)
	prefixOrigin := ""
	if prefix != nil {
		prefixOrigin = prefix.Origin
	}
	if prefixOrigin == "" && sub.Origin != "" {
		q = append(q, sub.Origin)
	}
	return append(q, refIndex(sub, false)...)
}

// refQueries lists the distinct registration paths of a list, in first-use order.
func refQueries(l *SubList) [][]string {
	var out [][]string
	seen := map[string]bool{}
	for _, g := range l.Subs {
		if g == nil {
			g = &GPath{}
		}
		q := refQuery(l.Prefix, g)
		if !seen[key(q)] {
			seen[key(q)] = true
			out = append(out, q)
		}
	}
	return out
}

// Notif is a gnmi.Notification as scenario data (paths only; values are irrelevant to C06).
//
// Atomic marks the notification as one atomic container (gnmi.Notification.atomic): it is stored
// and delivered as ONE unit, but WHETHER it is offered to a subscriber follows the same rule as
// for any other notification (some prefix+path of a contained update or delete agrees with one of
// the subscriber's paths) - the property makes no exception for it.
type Notif struct {
	Updates []GPath `json:"updates,omitempty"`
	Deletes []GPath `json:"deletes,omitempty"`
	Atomic  bool    `json:"atomic,omitempty"`
}

func (n *Notif) entries() int { return len(n.Updates) + len(n.Deletes) }

func (n *Notif) proto(ts int64, prefix *pb.Path) *pb.Notification {
	out := &pb.Notification{Timestamp: ts, Prefix: prefix, Atomic: n.Atomic}
	for i := range n.Updates {
		out.Update = append(out.Update, &pb.Update{
			Path: n.Updates[i].proto(),
			Val:  &pb.TypedValue{Value: &pb.TypedValue_IntVal{IntVal: ts}},
		})
	}
	for i := range n.Deletes {
		out.Delete = append(out.Delete, n.Deletes[i].proto())
	}
	return out
}

// entryPaths returns prefix+index(entry) for every update and delete.
func (n *Notif) entryPaths(prefix []string) [][]string {
	var out [][]string
	for i := range n.Updates {
		out = append(out, append(clonePath(prefix), refIndex(&n.Updates[i], false)...))
	}
	for i := range n.Deletes {
		out = append(out, append(clonePath(prefix), refIndex(&n.Deletes[i], false)...))
	}
	return out
}
