package matchprop

import "strings"

// Index strings are arbitrary strings: list key values such as "Ethernet1/1"
// or "10.0.0.0/8" contain '/', and nothing stops an element from containing
// ':' ',' ' ' '[' ']' '=' NUL or from being empty. Code that builds a map key
// or a textual path by JOINING index strings with a separator (or splits such
// a text again) confuses two different paths exactly when an element contains
// the separator: ["a/b"] and ["a","b"] are TWINS under '/'. The generators
// therefore (1) mix such strings into every alphabet and (2) derive paths from
// paths already in the scenario by moving an element boundary across a
// separator, so that twins are registered side by side - in one
// SubscriptionList, by different clients, across the prefix/path split and
// across the target/origin/element boundary.

// Joiners are the separators an implementation might join on or split by; ""
// stands for plain concatenation.
var Joiners = []string{"/", ":", "[", "]", "=", ",", " ", "\x00", ""}

// XForm derives an index path from another one (plain data; applied by the
// generators' resolve pass, never at run time).
//
//	copy      the same path again
//	merge     elements At and At+1 become the single element e1+Sep+e2
//	split     the At-th element that contains a joiner is cut in two there
//	          (an element without one is cut after its first byte)
//	extend    Extra is appended
//	truncate  only the first At%len elements are kept
//	glob      element At becomes "*"
//	subst     element At becomes Extra[0]
type XForm struct {
	Kind  string   `json:"kind"`
	At    int      `json:"at,omitempty"`
	Sep   string   `json:"sep,omitempty"`
	Extra []string `json:"extra,omitempty"`
}

func (x XForm) apply(base []string) []string {
	p := clonePath(base)
	at := x.At
	if at < 0 {
		at = -at
	}
	switch x.Kind {
	case "merge":
		if len(p) >= 2 {
			i := at % (len(p) - 1)
			merged := p[i] + x.Sep + p[i+1]
			p = append(append(clonePath(p[:i]), merged), p[i+2:]...)
		}
	case "split":
		type cut struct{ i, lo, hi int }
		var cuts []cut
		for i, e := range p {
			best := -1
			w := 0
			for _, j := range Joiners {
				if j == "" {
					continue
				}
				if k := strings.Index(e, j); k >= 0 && (best < 0 || k < best) {
					best, w = k, len(j)
				}
			}
			switch {
			case best >= 0:
				cuts = append(cuts, cut{i, best, best + w})
			case len(e) >= 2:
				cuts = append(cuts, cut{i, 1, 1})
			}
		}
		if len(cuts) > 0 {
			c := cuts[at%len(cuts)]
			e := p[c.i]
			p = append(append(clonePath(p[:c.i]), e[:c.lo], e[c.hi:]), p[c.i+1:]...)
		}
	case "extend":
		p = append(p, x.Extra...)
	case "truncate":
		if len(p) > 0 {
			p = p[:at%len(p)]
		}
	case "glob":
		if len(p) > 0 {
			p[at%len(p)] = Glob
		}
	case "subst":
		if len(p) > 0 && len(x.Extra) > 0 {
			p[at%len(p)] = x.Extra[0]
		}
	}
	return p
}

// structure turns index strings back into a gNMI path: string i becomes a key
// value of the element before it when bit i of shape is set (at most 3 keys
// per element; key names sort in the order of the values), otherwise a new
// element. legacy selects the deprecated encoding (names only).
func structure(flat []string, shape uint32, legacy bool) GPath {
	g := GPath{}
	if legacy {
		g.Legacy = len(flat) > 0
		g.Elems = names(flat)
		return g
	}
	for i, s := range flat {
		if n := len(g.Elems); n > 0 && shape&(1<<(uint(i)%32)) != 0 && len(g.Elems[n-1].Keys) < 3 {
			e := &g.Elems[n-1]
			if e.Keys == nil {
				e.Keys = map[string]string{}
			}
			e.Keys["k"+string(rune('0'+len(e.Keys)))] = s
			continue
		}
		g.Elems = append(g.Elems, PElem{Name: s})
	}
	return g
}

// twins reports whether two DIFFERENT paths of the set read the same when
// their elements are joined with one of the joiners.
func twins(paths [][]string) bool {
	for _, j := range Joiners {
		seen := map[string]string{}
		for _, p := range paths {
			k, t := key(p), strings.Join(p, j)
			if prev, ok := seen[t]; ok && prev != k {
				return true
			}
			seen[t] = k
		}
	}
	return false
}

func isOdd(s string) bool { return s != "a" && s != "b" && s != Glob }

func anyOdd(p []string) bool {
	for _, e := range p {
		if isOdd(e) {
			return true
		}
	}
	return false
}

func copyGPath(g *GPath) *GPath {
	if g == nil {
		return nil
	}
	out := &GPath{Target: g.Target, Origin: g.Origin, Legacy: g.Legacy}
	for _, e := range g.Elems {
		ne := PElem{Name: e.Name}
		if len(e.Keys) > 0 {
			ne.Keys = map[string]string{}
			for k, v := range e.Keys {
				ne.Keys[k] = v
			}
		}
		out.Elems = append(out.Elems, ne)
	}
	return out
}
