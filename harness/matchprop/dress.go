package matchprop

import (
	"encoding/json"
	"fmt"
	"sort"
	"strings"

	pb "github.com/openconfig/gnmi/proto/gnmi"
	extpb "github.com/openconfig/gnmi/proto/gnmi_ext"
)

// Dressing: the fields of a SubscribeRequest this server does NOT implement.
//
// What subscribe.Server reads of a request (subscribe.go, path.ToStrings,
// path.CompletePath) is: SubscriptionList.prefix (target, origin, elements),
// SubscriptionList.mode, SubscriptionList.updates_only and, of every
// Subscription, path.origin and the path's elements. Everything else is never
// looked at:
//
//	SubscriptionList  qos, allow_aggregation, use_models, encoding
//	Subscription      mode (TARGET_DEFINED / ON_CHANGE / SAMPLE), sample_interval,
//	                  suppress_redundant, heartbeat_interval
//	Path              target of a subscription path (indexed for prefixes only)
//	SubscribeRequest  extension (registered, master arbitration, history,
//	                  commit, depth, config subscription)
//
// The property quantifies over "the subscriber's paths" and nothing else:
// WHETHER a notification is offered, and that it is offered at most once per
// subscriber, may not depend on any of those fields. So they are a generated
// dimension: a finished scenario is "dressed" (gen_test.go sprinkleDress)
// with arbitrary values, per subscription independently - different modes,
// intervals and heartbeats on overlapping / identical / sibling paths of ONE
// request and across subscribers. The oracles are the ones every scenario is
// judged by, plus the relation "the dressed scenario is observed exactly like
// the same scenario without the dressing" (runServer).

// SubDress holds the unimplemented fields of one gnmi.Subscription.
type SubDress struct {
	Mode      int32  `json:"mode,omitempty"` // gnmi.SubscriptionMode as a number (also numbers the enum does not name)
	Sample    uint64 `json:"sample_ns,omitempty"`
	Suppress  bool   `json:"suppress_redundant,omitempty"`
	Heartbeat uint64 `json:"heartbeat_ns,omitempty"`
	// PathTarget goes into Path.target of the subscription path (not set when
	// the subscription has no path).
	PathTarget string `json:"path_target,omitempty"`
}

func (d SubDress) zero() bool { return d == SubDress{} }

// ModelDress is one gnmi.ModelData of use_models.
type ModelDress struct {
	Name    string `json:"name,omitempty"`
	Org     string `json:"org,omitempty"`
	Version string `json:"version,omitempty"`
}

// ExtDress is one gnmi_ext.Extension of the request.
//
//	empty       an Extension without a payload
//	registered  RegisteredExtension{id: N, msg: S}
//	master      MasterArbitration{role: S, election_id: {high: 0, low: N}}
//	snapshot    History{snapshot_time: N}
//	range       History{range: {start: N, end: N + M}}
//	commit      Commit{id: S, commit: {}}
//	depth       Depth{level: N}
//	config      ConfigSubscription{start: {}}
type ExtDress struct {
	Kind string `json:"kind"`
	N    int64  `json:"n,omitempty"`
	M    int64  `json:"m,omitempty"`
	S    string `json:"s,omitempty"`
}

// ListDress holds the unimplemented fields of a gnmi.SubscriptionList and the
// extensions of the SubscribeRequest carrying it.
type ListDress struct {
	HasQos   bool         `json:"has_qos,omitempty"`
	Qos      uint32       `json:"qos,omitempty"`
	AllowAgg bool         `json:"allow_aggregation,omitempty"`
	Models   []ModelDress `json:"use_models,omitempty"`
	Encoding int32        `json:"encoding,omitempty"`
	Ext      []ExtDress   `json:"ext,omitempty"`
}

func (d *ListDress) zero() bool {
	return d == nil || !d.HasQos && d.Qos == 0 && !d.AllowAgg && len(d.Models) == 0 && d.Encoding == 0 && len(d.Ext) == 0
}

func (d *ListDress) listFields() bool {
	return d != nil && (d.HasQos || d.AllowAgg || len(d.Models) > 0 || d.Encoding != 0)
}

// subDress returns the dressing of subscription i (the zero value when none).
func (l *SubList) subDress(i int) SubDress {
	if i < len(l.SubDress) {
		return l.SubDress[i]
	}
	return SubDress{}
}

// dressed: does the list carry any value in a field the server does not implement?
func (l *SubList) dressed() bool {
	if l == nil {
		return false
	}
	if !l.Dress.zero() {
		return true
	}
	for _, d := range l.SubDress {
		if !d.zero() {
			return true
		}
	}
	return false
}

func (e ExtDress) proto() *extpb.Extension {
	switch e.Kind {
	case "registered":
		return &extpb.Extension{Ext: &extpb.Extension_RegisteredExt{RegisteredExt: &extpb.RegisteredExtension{Id: extpb.ExtensionID(e.N), Msg: []byte(e.S)}}}
	case "master":
		return &extpb.Extension{Ext: &extpb.Extension_MasterArbitration{MasterArbitration: &extpb.MasterArbitration{
			Role: &extpb.Role{Id: e.S}, ElectionId: &extpb.Uint128{Low: uint64(e.N)}}}}
	case "snapshot":
		return &extpb.Extension{Ext: &extpb.Extension_History{History: &extpb.History{Request: &extpb.History_SnapshotTime{SnapshotTime: e.N}}}}
	case "range":
		return &extpb.Extension{Ext: &extpb.Extension_History{History: &extpb.History{Request: &extpb.History_Range{Range: &extpb.TimeRange{Start: e.N, End: e.N + e.M}}}}}
	case "commit":
		return &extpb.Extension{Ext: &extpb.Extension_Commit{Commit: &extpb.Commit{Id: e.S, Action: &extpb.Commit_Commit{Commit: &extpb.CommitRequest{}}}}}
	case "depth":
		return &extpb.Extension{Ext: &extpb.Extension_Depth{Depth: &extpb.Depth{Level: uint32(e.N)}}}
	case "config":
		return &extpb.Extension{Ext: &extpb.Extension_ConfigSubscription{ConfigSubscription: &extpb.ConfigSubscription{
			Action: &extpb.ConfigSubscription_Start{Start: &extpb.ConfigSubscriptionStart{}}}}}
	}
	return &extpb.Extension{}
}

// request builds the SubscribeRequest a subscriber opens its RPC with.
func (l *SubList) request(mode pb.SubscriptionList_Mode, updatesOnly bool) *pb.SubscribeRequest {
	req := &pb.SubscribeRequest{Request: &pb.SubscribeRequest_Subscribe{Subscribe: l.proto(mode, updatesOnly)}}
	if l.Dress != nil {
		for _, e := range l.Dress.Ext {
			req.Extension = append(req.Extension, e.proto())
		}
	}
	return req
}

// plainSrv returns the scenario without any dressing (a deep copy; everything
// else, virtual sleeps included, is kept).
func plainSrv(sc *SrvScenario) *SrvScenario {
	b, err := json.Marshal(sc)
	if err != nil {
		panic("matchprop: scenario does not marshal: " + err.Error())
	}
	out := &SrvScenario{}
	if err := json.Unmarshal(b, out); err != nil {
		panic("matchprop: scenario does not unmarshal: " + err.Error())
	}
	for i := range out.Ops {
		if l := out.Ops[i].List; l != nil {
			l.Dress, l.SubDress = nil, nil
		}
	}
	return out
}

func srvDressed(sc *SrvScenario) bool {
	for _, op := range sc.Ops {
		if op.Kind == "sub" && op.List.dressed() {
			return true
		}
	}
	return false
}

// dressStats: which dressed shapes a scenario actually produced.
type dressStats struct {
	any, listFields, ext, pathTarget, intervals, suppress, unknownMode bool
	// one list
	mixedModes   bool // subscriptions of one list carry >=2 different modes
	mixedDress   bool // ... >=2 different dressings (mode, intervals, ...)
	samePathDiff bool // one registration path listed twice with different dressings
	// one notification reaching one subscriber through >=2 of its paths ...
	hitDiffModes bool // ... whose subscriptions carry different modes
	hitDiffDress bool // ... whose subscriptions are dressed differently
	hitSamePath  bool // ... which are one path listed with different dressings
	// across subscribers
	hitDressedAndPlain bool // one notification offered to a dressed and to a plain subscriber
	slept, sleptLong   bool
	sameValue          bool
	twin               bool // the undressed twin scenario was run and compared
}

func (s dressStats) labels() []string {
	var l []string
	add := func(b bool, n string) {
		if b {
			l = append(l, n)
		}
	}
	add(s.any, "dressed-request")
	add(s.listFields, "dressed-list-fields-qos-aggregation-models-encoding")
	add(s.ext, "dressed-request-extensions")
	add(s.pathTarget, "dressed-subscription-path-target")
	add(s.intervals, "dressed-sample-or-heartbeat-interval")
	add(s.suppress, "dressed-suppress-redundant")
	add(s.unknownMode, "dressed-mode-number-outside-enum")
	add(s.mixedModes, "list-with-2plus-subscription-modes")
	add(s.mixedDress, "list-with-differently-dressed-subscriptions")
	add(s.samePathDiff, "list-repeats-a-path-with-different-dressing")
	add(s.hitDiffModes, "notification-compatible-with-2plus-paths-of-different-modes-of-one-subscriber")
	add(s.hitDiffDress, "notification-compatible-with-2plus-differently-dressed-paths-of-one-subscriber")
	add(s.hitSamePath, "notification-compatible-with-a-path-listed-under-2-dressings")
	add(s.hitDressedAndPlain, "notification-offered-to-dressed-and-plain-subscribers")
	add(s.slept, "virtual-sleep-between-ops")
	add(s.sleptLong, "virtual-sleep-of-a-minute-or-more")
	add(s.sameValue, "all-updates-carry-the-same-value")
	add(s.twin, "compared-with-undressed-twin")
	return l
}

// seeList records the shapes of one dressed list.
func (s *dressStats) seeList(l *SubList) {
	if !l.dressed() {
		return
	}
	s.any = true
	s.listFields = s.listFields || l.Dress.listFields()
	s.ext = s.ext || l.Dress != nil && len(l.Dress.Ext) > 0
	modes := map[int32]bool{}
	kinds := map[SubDress]bool{}
	byPath := map[string]SubDress{}
	for i, g := range l.Subs {
		d := l.subDress(i)
		if g == nil {
			d.PathTarget = "" // not sent
			g = &GPath{}
		}
		modes[d.Mode] = true
		kinds[d] = true
		s.pathTarget = s.pathTarget || d.PathTarget != ""
		s.intervals = s.intervals || d.Sample != 0 || d.Heartbeat != 0
		s.suppress = s.suppress || d.Suppress
		s.unknownMode = s.unknownMode || d.Mode < 0 || d.Mode > 2
		k := key(refQuery(l.Prefix, g))
		if prev, ok := byPath[k]; ok && prev != d {
			s.samePathDiff = true
		}
		byPath[k] = d
	}
	s.mixedModes = s.mixedModes || len(modes) >= 2
	s.mixedDress = s.mixedDress || len(kinds) >= 2
}

// subDresses lists, for every distinct registration path of l (the order of
// refQueries), the dressings of the subscriptions naming it.
func subDresses(l *SubList) map[string][]SubDress {
	out := map[string][]SubDress{}
	for i, g := range l.Subs {
		d := l.subDress(i)
		if g == nil {
			d.PathTarget = ""
			g = &GPath{}
		}
		k := key(refQuery(l.Prefix, g))
		out[k] = append(out[k], d)
	}
	return out
}

// seeHit records through which of its subscriptions one notification reached a subscriber.
func (s *dressStats) seeHit(byPath map[string][]SubDress, hit [][]string) {
	modes := map[int32]bool{}
	kinds := map[SubDress]bool{}
	for _, q := range hit {
		ds := byPath[key(q)]
		own := map[SubDress]bool{}
		for _, d := range ds {
			modes[d.Mode] = true
			kinds[d] = true
			own[d] = true
		}
		if len(own) >= 2 {
			s.hitSamePath = true
		}
	}
	if len(hit) >= 2 || s.hitSamePath {
		s.hitDiffModes = s.hitDiffModes || len(modes) >= 2
		s.hitDiffDress = s.hitDiffDress || len(kinds) >= 2
	}
}

// traceLine is one observation of the dressed-vs-plain comparison. Only what
// the property speaks about goes in: how often a notification was offered to
// each live subscriber, whether anything reached a subscriber that no
// notification of that step explains, which RPCs are alive, and the census of
// the subscription trie.
func traceLine(i int, kind string, parts []string) string {
	return fmt.Sprintf("op %d %s: %s", i, kind, strings.Join(parts, "; "))
}

func censusString(c map[string]int) string {
	var ks []string
	for k := range c {
		ks = append(ks, k)
	}
	sort.Strings(ks)
	var b strings.Builder
	for _, k := range ks {
		fmt.Fprintf(&b, " %q=%d", unkey(k), c[k])
	}
	if b.Len() == 0 {
		return " (empty)"
	}
	return b.String()
}

// compareTraces: the first step at which the dressed and the undressed run were observed differently.
func compareTraces(dressed, plain []string) error {
	for i := 0; i < len(dressed) || i < len(plain); i++ {
		d, p := "(nothing: the run had ended)", "(nothing: the run had ended)"
		if i < len(dressed) {
			d = dressed[i]
		}
		if i < len(plain) {
			p = plain[i]
		}
		if d != p {
			return fmt.Errorf("fields of the request that this server does not implement (per-subscription mode / sample_interval / suppress_redundant / heartbeat_interval, qos, allow_aggregation, use_models, encoding, path target of a subscription path, extensions) changed what subscribers are offered:\n   with them:    %s\n   without them: %s", d, p)
		}
	}
	return nil
}
