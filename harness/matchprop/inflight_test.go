package matchprop

import (
	"testing"

	"pgregory.net/rapid"
	"verif/harness/internal/vstat"
)

// in-flight part -----------------------------------------------------------------

type rawCAct struct {
	Remove bool
	Again  bool // remove: name a registration that an earlier step (in scenario order) removes already
	Pick   int  // remove: which of the removable registrations; add: which registration to copy
	Fresh  bool
	Client int
	Path   []string
}

type rawCRound struct {
	Round    CRound
	Mutators [][]rawCAct
	Gangs    []rawGang
}

// rawGang: the remove function of ONE registration is called by N mutator
// goroutines of the round as their first (Back: last) step, so that the calls
// overlap; member i calls it Again[i] more times directly afterwards.
type rawGang struct {
	Pick   int
	Prefer bool // prefer a registration compatible with a (pausing) call of the round
	N      int
	Again  []int
	Off    int // the members are mutators Off .. Off+N-1
	Back   bool
}

func (c cfg) rawCAct(t *rapid.T) rawCAct {
	a := rawCAct{Remove: rapid.IntRange(0, 2).Draw(t, "kind") < 2, Pick: rapid.IntRange(0, 30).Draw(t, "pick")}
	if !a.Remove {
		if a.Fresh = rapid.Bool().Draw(t, "fresh"); a.Fresh {
			a.Client = rapid.IntRange(0, 5).Draw(t, "client")
			a.Path = c.index(t, queryAlpha, 0, 4)
		}
	}
	return a
}

func (c cfg) cCall(t *rapid.T, paused bool) CCall {
	call := CCall{PauseAt: -1}
	if rapid.Bool().Draw(t, "notification") {
		call.Prefix = c.index(t, plainAlpha, 0, 1)
		call.Notif = c.notif(t, 3)
	} else {
		call.Path = c.index(t, updateAlpha, 0, 4)
	}
	if paused {
		call.PauseAt = rapid.SampledFrom([]int{0, 0, 0, 0, 1, 1, 2, 3, -1}).Draw(t, "pause-at")
	} else {
		call.Repeat = rapid.IntRange(1, 20).Draw(t, "repeat")
	}
	return call
}

func (c cfg) rawCRound(t *rapid.T) rawCRound {
	r := rawCRound{}
	paused := rapid.IntRange(0, 3).Draw(t, "mode") < 3
	if paused {
		r.Round.Mode = "paused"
		r.Round.WaitMicros = rapid.IntRange(100, 600).Draw(t, "wait-micros")
	} else {
		r.Round.Mode = "free"
		r.Round.Yield = rapid.IntRange(0, 3).Draw(t, "yield")
	}
	n := rapid.IntRange(1, 4).Draw(t, "calls")
	for i := 0; i < n; i++ {
		r.Round.Calls = append(r.Round.Calls, c.cCall(t, paused))
	}
	r.Mutators = rapid.SliceOfN(rapid.SliceOfN(rapid.Custom(c.rawCAct), 1, 4), 1, 3).Draw(t, "mutators")
	return r
}

// resolveConc turns the drawn picks into static registration ids; the result is plain data.
func resolveConc(regs []CReg, raw []rawCRound) *ConcScenario {
	sc := &ConcScenario{Regs: regs}
	type info struct {
		client         int
		path           []string
		round, mutator int
		taken          bool
	}
	var hs []*info
	for _, r := range regs {
		hs = append(hs, &info{client: r.Client, path: r.Path, round: -1})
	}
	for ri, rr := range raw {
		rd := rr.Round
		// gangs first: they name registrations of earlier rounds only, so
		// every mutator of the round may call the remove function
		front, back := map[int][]CAct{}, map[int][]CAct{}
		nMut := len(rr.Mutators)
		for _, g := range rr.Gangs {
			var cand, pref []int
			for id, h := range hs {
				if h.taken || h.round >= ri {
					continue
				}
				cand = append(cand, id)
				for _, call := range rd.Calls {
					if rd.Mode == "paused" && call.PauseAt < 0 {
						continue
					}
					entries := [][]string{call.Path}
					if call.Notif != nil {
						entries = call.Notif.entryPaths(call.Prefix)
					}
					if compatibleAny(h.path, entries) {
						pref = append(pref, id)
						break
					}
				}
			}
			if g.Prefer && len(pref) > 0 {
				cand = pref
			}
			if len(cand) == 0 {
				continue
			}
			id := cand[g.Pick%len(cand)]
			hs[id].taken = true
			for i := 0; i < g.N; i++ {
				mi := g.Off + i
				nMut = max(nMut, mi+1)
				n := 1
				if i < len(g.Again) {
					n += g.Again[i]
				}
				for k := 0; k < n; k++ {
					if g.Back {
						back[mi] = append(back[mi], CAct{Kind: "remove", Handle: id})
					} else {
						front[mi] = append(front[mi], CAct{Kind: "remove", Handle: id})
					}
				}
			}
		}
		for mi := 0; mi < nMut; mi++ {
			var mut []rawCAct
			if mi < len(rr.Mutators) {
				mut = rr.Mutators[mi]
			}
			acts := front[mi]
			for _, a := range mut {
				if a.Remove {
					var cand []int
					for id, h := range hs {
						if h.taken == a.Again && (h.round < ri || h.mutator == mi) {
							cand = append(cand, id)
						}
					}
					if len(cand) == 0 {
						continue
					}
					id := cand[a.Pick%len(cand)]
					hs[id].taken = true
					acts = append(acts, CAct{Kind: "remove", Handle: id})
					continue
				}
				client, path := a.Client, a.Path
				if !a.Fresh && len(hs) > 0 {
					src := hs[a.Pick%len(hs)]
					client, path = src.client, src.path
				}
				hs = append(hs, &info{client: client, path: path, round: ri, mutator: mi})
				acts = append(acts, CAct{Kind: "add", Client: client, Path: clonePath(path)})
			}
			acts = append(acts, back[mi]...)
			rd.Mutators = append(rd.Mutators, acts)
		}
		sc.Rounds = append(sc.Rounds, rd)
	}
	return sc
}

func genConcScenario(t *rapid.T) *ConcScenario {
	c := genCfg(t)
	regs := rapid.SliceOfN(rapid.Custom(func(t *rapid.T) CReg {
		return CReg{Client: rapid.IntRange(0, 5).Draw(t, "client"), Path: c.index(t, queryAlpha, 0, 4)}
	}), 1, 12).Draw(t, "regs")
	return resolveConc(regs, rapid.SliceOfN(rapid.Custom(c.rawCRound), 1, 3).Draw(t, "rounds"))
}

// TestC06InFlight: registrations are removed and added while Update /
// UpdateNotification calls are in flight (paused inside a callback, or running
// freely).
func TestC06InFlight(t *testing.T) {
	if !vstat.Enabled("C06") {
		t.Skip()
	}
	rec := vstat.New("C06", "inflight")
	rec.RunRapid(t, func(rt *rapid.T) {
		sc := genConcScenario(rt)
		rec.Current(sc)
		st, err := runConc(sc)
		rec.Case(sc, st.nontrivial, st.labels()...)
		if err != nil {
			rt.Fatalf("%s", rec.Fail(sc, "inflight", "%v", err))
		}
	})
}

// multi-remove part ---------------------------------------------------------------

func (c cfg) rawCActMulti(t *rapid.T) rawCAct {
	a := rawCAct{Pick: rapid.IntRange(0, 30).Draw(t, "pick")}
	switch rapid.IntRange(0, 4).Draw(t, "kind") {
	case 0, 1:
		a.Remove = true
	case 2:
		a.Remove, a.Again = true, true
	default:
		if a.Fresh = rapid.IntRange(0, 3).Draw(t, "fresh") == 0; a.Fresh {
			a.Client = rapid.IntRange(0, 5).Draw(t, "client")
			a.Path = c.index(t, queryAlpha, 0, 4)
		}
	}
	return a
}

func (c cfg) rawGang(t *rapid.T) rawGang {
	g := rawGang{
		Pick:   rapid.IntRange(0, 30).Draw(t, "gang-pick"),
		Prefer: rapid.IntRange(0, 3).Draw(t, "gang-prefer") > 0,
		N:      rapid.IntRange(2, 4).Draw(t, "gang-size"),
		Off:    rapid.SampledFrom([]int{0, 0, 0, 1, 2}).Draw(t, "gang-off"),
		Back:   rapid.IntRange(0, 5).Draw(t, "gang-back") == 0,
	}
	g.Again = rapid.SliceOfN(rapid.SampledFrom([]int{0, 0, 0, 1, 2}), g.N, g.N).Draw(t, "gang-again")
	return g
}

func (c cfg) rawCRoundMulti(t *rapid.T) rawCRound {
	r := rawCRound{}
	paused := rapid.IntRange(0, 3).Draw(t, "mode") < 3
	if paused {
		r.Round.Mode = "paused"
		r.Round.WaitMicros = rapid.IntRange(100, 600).Draw(t, "wait-micros")
	} else {
		r.Round.Mode = "free"
		r.Round.Yield = rapid.IntRange(0, 3).Draw(t, "yield")
	}
	n := rapid.IntRange(1, 4).Draw(t, "calls")
	for i := 0; i < n; i++ {
		r.Round.Calls = append(r.Round.Calls, c.cCall(t, paused))
	}
	r.Mutators = rapid.SliceOfN(rapid.SliceOfN(rapid.Custom(c.rawCActMulti), 0, 4), 0, 3).Draw(t, "mutators")
	r.Gangs = rapid.SliceOfN(rapid.Custom(c.rawGang), 0, 2).Draw(t, "gangs")
	return r
}

func genMultiScenario(t *rapid.T) *ConcScenario {
	c := genCfg(t)
	regs := rapid.SliceOfN(rapid.Custom(func(t *rapid.T) CReg {
		return CReg{Client: rapid.IntRange(0, 5).Draw(t, "client"), Path: c.index(t, queryAlpha, 0, 4)}
	}), 1, 12).Draw(t, "regs")
	return resolveConc(regs, rapid.SliceOfN(rapid.Custom(c.rawCRoundMulti), 1, 3).Draw(t, "rounds"))
}

// TestC06MultiRemove: the remove function of ONE registration is called from
// 2-4 goroutines at once, and again afterwards (also after the same pair was
// registered again), while Update / UpdateNotification calls are in flight
// (paused inside a callback, or running freely). Same runner and oracles as the
// in-flight part; never-after holds from the return of ANY of the calls.
func TestC06MultiRemove(t *testing.T) {
	if !vstat.Enabled("C06") {
		t.Skip()
	}
	rec := vstat.New("C06", "multiremove")
	rec.RunRapid(t, func(rt *rapid.T) {
		sc := genMultiScenario(rt)
		rec.Current(sc)
		st, err := runConc(sc)
		rec.Case(sc, st.multiNontrivial, st.labels()...)
		if err != nil {
			rt.Fatalf("%s", rec.Fail(sc, "inflight", "%v", err))
		}
	})
}
