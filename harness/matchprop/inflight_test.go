package matchprop

import (
	"testing"

	"pgregory.net/rapid"
	"verif/harness/internal/vstat"
)

// in-flight part -----------------------------------------------------------------

type rawCAct struct {
	Remove bool
	Pick   int // remove: which of the removable registrations; add: which registration to copy
	Fresh  bool
	Client int
	Path   []string
}

type rawCRound struct {
	Round    CRound
	Mutators [][]rawCAct
}

func (c cfg) rawCAct(t *rapid.T) rawCAct {
	a := rawCAct{Remove: rapid.IntRange(0, 2).Draw(t, "kind") < 2, Pick: rapid.IntRange(0, 30).Draw(t, "pick")}
	if !a.Remove {
		if a.Fresh = rapid.Bool().Draw(t, "fresh"); a.Fresh {
			a.Client = rapid.IntRange(0, 5).Draw(t, "client")
			a.Path = c.index(t, queryAlpha, 0, 4)
		}
	}
	return a
}

func (c cfg) cCall(t *rapid.T, paused bool) CCall {
	call := CCall{PauseAt: -1}
	if rapid.Bool().Draw(t, "notification") {
		call.Prefix = c.index(t, plainAlpha, 0, 1)
		call.Notif = c.notif(t, 3)
	} else {
		call.Path = c.index(t, updateAlpha, 0, 4)
	}
	if paused {
		call.PauseAt = rapid.SampledFrom([]int{0, 0, 0, 0, 1, 1, 2, 3, -1}).Draw(t, "pause-at")
	} else {
		call.Repeat = rapid.IntRange(1, 20).Draw(t, "repeat")
	}
	return call
}

func (c cfg) rawCRound(t *rapid.T) rawCRound {
	r := rawCRound{}
	paused := rapid.IntRange(0, 3).Draw(t, "mode") < 3
	if paused {
		r.Round.Mode = "paused"
		r.Round.WaitMicros = rapid.IntRange(100, 600).Draw(t, "wait-micros")
	} else {
		r.Round.Mode = "free"
		r.Round.Yield = rapid.IntRange(0, 3).Draw(t, "yield")
	}
	n := rapid.IntRange(1, 4).Draw(t, "calls")
	for i := 0; i < n; i++ {
		r.Round.Calls = append(r.Round.Calls, c.cCall(t, paused))
	}
	r.Mutators = rapid.SliceOfN(rapid.SliceOfN(rapid.Custom(c.rawCAct), 1, 4), 1, 3).Draw(t, "mutators")
	return r
}

// resolveConc turns the drawn picks into static registration ids; the result is plain data.
func resolveConc(regs []CReg, raw []rawCRound) *ConcScenario {
	sc := &ConcScenario{Regs: regs}
	type info struct {
		client         int
		path           []string
		round, mutator int
		taken          bool
	}
	var hs []*info
	for _, r := range regs {
		hs = append(hs, &info{client: r.Client, path: r.Path, round: -1})
	}
	for ri, rr := range raw {
		rd := rr.Round
		for mi, mut := range rr.Mutators {
			var acts []CAct
			for _, a := range mut {
				if a.Remove {
					var cand []int
					for id, h := range hs {
						if !h.taken && (h.round < ri || h.mutator == mi) {
							cand = append(cand, id)
						}
					}
					if len(cand) == 0 {
						continue
					}
					id := cand[a.Pick%len(cand)]
					hs[id].taken = true
					acts = append(acts, CAct{Kind: "remove", Handle: id})
					continue
				}
				client, path := a.Client, a.Path
				if !a.Fresh && len(hs) > 0 {
					src := hs[a.Pick%len(hs)]
					client, path = src.client, src.path
				}
				hs = append(hs, &info{client: client, path: path, round: ri, mutator: mi})
				acts = append(acts, CAct{Kind: "add", Client: client, Path: clonePath(path)})
			}
			rd.Mutators = append(rd.Mutators, acts)
		}
		sc.Rounds = append(sc.Rounds, rd)
	}
	return sc
}

func genConcScenario(t *rapid.T) *ConcScenario {
	c := genCfg(t)
	regs := rapid.SliceOfN(rapid.Custom(func(t *rapid.T) CReg {
		return CReg{Client: rapid.IntRange(0, 5).Draw(t, "client"), Path: c.index(t, queryAlpha, 0, 4)}
	}), 1, 12).Draw(t, "regs")
	return resolveConc(regs, rapid.SliceOfN(rapid.Custom(c.rawCRound), 1, 3).Draw(t, "rounds"))
}

// TestC06InFlight: registrations are removed and added while Update /
// UpdateNotification calls are in flight (paused inside a callback, or running
// freely).
func TestC06InFlight(t *testing.T) {
	if !vstat.Enabled("C06") {
		t.Skip()
	}
	rec := vstat.New("C06", "inflight")
	rec.RunRapid(t, func(rt *rapid.T) {
		sc := genConcScenario(rt)
		rec.Current(sc)
		st, err := runConc(sc)
		rec.Case(sc, st.nontrivial, st.labels()...)
		if err != nil {
			rt.Fatalf("%s", rec.Fail(sc, "inflight", "%v", err))
		}
	})
}
