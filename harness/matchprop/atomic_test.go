package matchprop

import (
	"testing"

	"pgregory.net/rapid"
	"verif/harness/internal/vstat"
)

// atomic part: generators -----------------------------------------------------------

// atomCont is a container the scenario's notifications and subscriptions are
// drawn around: target, optional origin, prefix strings P and member paths U
// (the update paths below the prefix).
type atomCont struct {
	Target, Origin string
	P              []string
	U              [][]string
}

var (
	contAlpha = []string{"a", "a", "b", "b", "c"}
	// where a subscription path lies relative to a container
	atomRels = []string{"at", "above", "member", "member", "member-prefix", "deeper", "deeper", "sibling", "sibling", "sibling", "diverge", "diverge", "fresh-below", "unrelated"}
)

func (c cfg) other(t *rapid.T, not string) string {
	for i := 0; ; i++ {
		if s := c.atom(t, contAlpha, "other"); s != not && s != Glob {
			return s
		}
		if i > 20 {
			return not + "x"
		}
	}
}

func (c cfg) container(t *rapid.T) atomCont {
	ct := atomCont{Target: rapid.SampledFrom([]string{"a", "a", "b"}).Draw(t, "target")}
	if one(t, 3, "with-origin") {
		ct.Origin = c.origin(t)
	}
	ct.P = c.index(t, contAlpha, 1, 3)
	if one(t, 10, "no-prefix-elements") {
		ct.P = nil
	}
	n := rapid.IntRange(1, 5).Draw(t, "members")
	for i := 0; i < n; i++ {
		var u []string
		switch {
		case one(t, 8, "empty-member"):
			// the container itself
		case i > 0 && rapid.Bool().Draw(t, "related"):
			m := ct.U[rapid.IntRange(0, i-1).Draw(t, "of")]
			switch rapid.SampledFrom([]string{"sibling", "sibling", "longer", "same-head"}).Draw(t, "how") {
			case "sibling":
				if len(m) > 0 {
					u = append(clonePath(m[:len(m)-1]), c.other(t, m[len(m)-1]))
				} else {
					u = c.index(t, contAlpha, 1, 2)
				}
			case "longer":
				u = append(clonePath(m), c.atom(t, contAlpha, "e"))
			default:
				k := 0
				if len(m) > 0 {
					k = rapid.IntRange(0, len(m)-1).Draw(t, "head")
				}
				u = append(clonePath(m[:k]), c.index(t, contAlpha, 1, 2)...)
			}
		default:
			u = c.index(t, contAlpha, 1, 3)
		}
		if len(u) > 0 && one(t, 15, "member-glob") {
			u[rapid.IntRange(0, len(u)-1).Draw(t, "glob-at")] = Glob
		}
		ct.U = append(ct.U, u)
	}
	return ct
}

// below draws index strings below the container's prefix by their relation to its members.
func (c cfg) below(t *rapid.T, ct atomCont, rel string) []string {
	m := ct.U[rapid.IntRange(0, len(ct.U)-1).Draw(t, "member")]
	switch rel {
	case "member":
		return clonePath(m)
	case "member-prefix":
		if len(m) > 1 {
			return clonePath(m[:rapid.IntRange(1, len(m)-1).Draw(t, "keep")])
		}
		return clonePath(m)
	case "deeper":
		return append(clonePath(m), c.index(t, contAlpha, 1, 2)...)
	case "sibling": // the last string differs: another leaf of the same parent, another key value
		if len(m) == 0 {
			return []string{c.atom(t, contAlpha, "e")}
		}
		return append(clonePath(m[:len(m)-1]), c.other(t, m[len(m)-1]))
	case "diverge": // leaves a member's path somewhere and runs on
		if len(m) == 0 {
			return c.index(t, contAlpha, 1, 2)
		}
		k := rapid.IntRange(0, len(m)-1).Draw(t, "at")
		out := append(clonePath(m[:k]), c.other(t, m[k]))
		return append(out, c.index(t, contAlpha, 0, 2)...)
	}
	return c.index(t, contAlpha, 1, 3) // fresh-below
}

func shape(t *rapid.T) uint32 {
	if one(t, 3, "shaped") {
		return rapid.Uint32().Draw(t, "shape")
	}
	return 0
}

// atomSub draws a STREAM subscription placed around ct.
func (c cfg) atomSub(t *rapid.T, ct atomCont, clients int) SrvOp {
	op := SrvOp{Kind: "sub", Client: rapid.IntRange(0, clients).Draw(t, "client"), UpdatesOnly: rapid.Bool().Draw(t, "updates-only")}
	l := &SubList{Prefix: &GPath{}}
	switch tk := rapid.IntRange(0, 9).Draw(t, "sub-target"); {
	case tk <= 6:
		l.Prefix.Target = ct.Target
	case tk <= 8:
		l.Prefix.Target = Glob
	default:
		l.Prefix.Target = map[string]string{"a": "b", "b": "a"}[ct.Target]
	}
	origin := ct.Origin
	switch ok := rapid.IntRange(0, 9).Draw(t, "sub-origin"); {
	case ok == 8:
		origin = ""
	case ok == 9:
		origin = c.other(t, ct.Origin)
	}
	inPath := origin != "" && rapid.Bool().Draw(t, "origin-in-path")
	k := 0
	if !inPath {
		l.Prefix.Origin = origin
		k = rapid.IntRange(0, len(ct.P)).Draw(t, "prefix-cut")
	}
	head := clonePath(ct.P[:k])
	if len(head) > 0 && one(t, 8, "prefix-glob") {
		head[rapid.IntRange(0, len(head)-1).Draw(t, "glob-at")] = Glob
	}
	pe := structure(head, shape(t), one(t, 12, "legacy-prefix"))
	l.Prefix.Elems, l.Prefix.Legacy = pe.Elems, pe.Legacy
	n := rapid.IntRange(1, 3).Draw(t, "subs")
	for i := 0; i < n; i++ {
		if one(t, 14, "nil-path") {
			l.Subs = append(l.Subs, nil)
			continue
		}
		rel := rapid.SampledFrom(atomRels).Draw(t, "relation")
		var full []string
		switch rel {
		case "at":
			full = clonePath(ct.P)
		case "above":
			full = clonePath(ct.P[:rapid.IntRange(0, len(ct.P)).Draw(t, "keep")])
		case "unrelated":
			full = c.index(t, queryAlpha, 0, 3)
		default:
			full = append(clonePath(ct.P), c.below(t, ct, rel)...)
		}
		rest := []string{}
		if len(full) > k {
			rest = full[k:]
		}
		if len(rest) > 0 && one(t, 6, "path-glob") {
			rest[rapid.IntRange(0, len(rest)-1).Draw(t, "glob-at")] = Glob
		}
		g := structure(rest, shape(t), one(t, 12, "legacy-path"))
		if inPath && rapid.IntRange(0, 3).Draw(t, "with-origin") > 0 {
			g.Origin = origin
		}
		l.Subs = append(l.Subs, &g)
	}
	op.List = l
	return op
}

// atomNotify draws a notification for ct: (a subset of) its members below its
// prefix, atomic three times out of four.
func (c cfg) atomNotify(t *rapid.T, ct atomCont) SrvOp {
	n := &Notif{Atomic: rapid.IntRange(0, 3).Draw(t, "atomic") > 0}
	k := len(ct.P)
	if one(t, 4, "resplit") { // the same entry paths with the prefix/path boundary elsewhere
		k = rapid.IntRange(0, len(ct.P)).Draw(t, "prefix-cut")
	}
	pe := structure(clonePath(ct.P[:k]), shape(t), one(t, 12, "legacy-prefix"))
	np := &GPath{Target: ct.Target, Origin: ct.Origin, Elems: pe.Elems, Legacy: pe.Legacy}
	entry := func(u []string) GPath {
		g := structure(append(clonePath(ct.P[k:]), u...), shape(t), one(t, 12, "legacy-entry"))
		if one(t, 16, "entry-origin") {
			g.Origin = "b" // documented as not indexed
		}
		return g
	}
	var picked [][]string
	for _, u := range ct.U {
		if rapid.IntRange(0, 2).Draw(t, "member-in") > 0 {
			picked = append(picked, u)
		}
	}
	if len(picked) == 0 {
		picked = append(picked, ct.U[rapid.IntRange(0, len(ct.U)-1).Draw(t, "member")])
	}
	if one(t, 8, "extra-member") {
		picked = append(picked, c.index(t, contAlpha, 1, 3))
	}
	deletes := 0
	switch {
	case n.Atomic && one(t, 12, "deletes-only"):
		picked = nil
		deletes = rapid.IntRange(1, 2).Draw(t, "deletes")
	case one(t, 6, "with-deletes"):
		deletes = rapid.IntRange(1, 2).Draw(t, "deletes")
	}
	for _, u := range picked {
		n.Updates = append(n.Updates, entry(u))
	}
	for i := 0; i < deletes; i++ {
		rel := rapid.SampledFrom([]string{"member", "member-prefix", "sibling", "fresh-below"}).Draw(t, "delete-relation")
		n.Deletes = append(n.Deletes, entry(c.below(t, ct, rel)))
	}
	op := SrvOp{Kind: "notify", NPrefix: np, Notif: n}
	dropTargetDeleteShape(&op)
	return op
}

// dropTargetDeleteShape keeps the one notification shape the server treats
// specially (an entry that indexes to the sole string "*" below a target
// without origin) out of the scenario: that string becomes "a".
func dropTargetDeleteShape(op *SrvOp) {
	if op.NPrefix.Origin != "" {
		return
	}
	pre := refIndex(op.NPrefix, false)
	if len(pre) == 1 && pre[0] == Glob {
		op.NPrefix.Elems[0].Name = "a"
		return
	}
	if len(pre) > 0 {
		return
	}
	fix := func(gs []GPath) {
		for i := range gs {
			if idx := refIndex(&gs[i], false); len(idx) == 1 && idx[0] == Glob {
				gs[i].Elems[0].Name = "a"
			}
		}
	}
	fix(op.Notif.Updates)
	fix(op.Notif.Deletes)
}

func genAtomScenario(t *rapid.T) *SrvScenario {
	c := cfg{0}
	if one(t, 4, "odd-strings") {
		c = cfg{1}
	}
	conts := []atomCont{c.container(t)}
	if one(t, 3, "two-containers") {
		conts = append(conts, c.container(t))
		if rapid.Bool().Draw(t, "nested") { // the second container inside / beside the first
			conts[1].Target, conts[1].Origin = conts[0].Target, conts[0].Origin
			tail := conts[1].P
			if len(tail) > 1 {
				tail = tail[:1]
			}
			conts[1].P = append(clonePath(conts[0].P), tail...)
		}
	}
	pick := func() atomCont { return conts[rapid.IntRange(0, len(conts)-1).Draw(t, "container")] }
	clients := 5
	sc := &SrvScenario{}
	for i, n := 0, rapid.IntRange(2, 5).Draw(t, "first-subs"); i < n; i++ {
		sc.Ops = append(sc.Ops, c.atomSub(t, pick(), clients))
	}
	for i, n := 0, rapid.IntRange(1, 8).Draw(t, "ops"); i < n; i++ {
		switch rapid.SampledFrom([]string{"notify", "notify", "notify", "notify", "sub", "sub", "end"}).Draw(t, "kind") {
		case "notify":
			sc.Ops = append(sc.Ops, c.atomNotify(t, pick()))
		case "sub":
			sc.Ops = append(sc.Ops, c.atomSub(t, pick(), clients))
		default:
			sc.Ops = append(sc.Ops, SrvOp{Kind: "end", Client: rapid.IntRange(0, clients).Draw(t, "client")})
		}
	}
	// request fields the server does not implement: subscribers around one container with different
	// modes / intervals per subscription (one atomic notification reaches them through several paths)
	sprinkleDress(t, sc)
	return sc
}

// TestC06Atomic: container notifications (atomic or not) against subscribers
// placed around the container, at the match, server and cache layers.
func TestC06Atomic(t *testing.T) {
	if !vstat.Enabled("C06") {
		t.Skip()
	}
	rec := vstat.New("C06", "atomic")
	open := openClasses(t, rec, ClassSingleEntryDouble, ClassStaleAfterEnd)
	rec.RunRapid(t, func(rt *rapid.T) {
		sc := genAtomScenario(rt)
		rec.Current(sc)
		res, err := runAtomic(t, sc, open)
		if res.seq.excluded > 0 {
			rec.Excluded(ClassSingleEntryDouble)
		}
		for class := range res.srv.excluded() {
			rec.Excluded(class)
		}
		rec.Case(sc, res.srv.atoms.full, res.labels()...)
		if err != nil {
			rt.Fatalf("%s", rec.Fail(sc, "atomic-offer-mismatch", "%v", err))
		}
	})
}
