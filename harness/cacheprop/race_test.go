package cacheprop

import (
	"encoding/json"
	"flag"
	"fmt"
	"os"
	"os/exec"
	"path/filepath"
	"runtime"
	"sort"
	"strings"
	"testing"

	"verif/harness/internal/vstat"
)

var (
	raceRounds    = flag.Int("c15.rounds", 200, "race part: number of rounds (each round is a fresh cache, 1-3 update streams and the two refresh loops)")
	raceRawOrigin = flag.Bool("c15.raworigin", false, "race part: submit notifications with an empty origin (the cache used as a library, NOT the collector's Update closure, which promotes it to \"openconfig\"); lets a target's wildcard delete reach the meta subtree")
	raceFirst     = flag.Int("c15.first", 0, "race part: first round to run (debugging)")
)

const raceReplayNote = "race findings are replayed by re-running the recorded workload (seed, targets, rounds) under the race detector; the schedule itself cannot be recorded or replayed, so a replay that stays silent does not prove the race is gone"

// raceOutcome is what a run of the rounds found.
type raceOutcome struct {
	classes   map[string]raceReport   // first report of each class
	firstSeen map[string]RaceScenario // the round after which it appeared
	lawErr    error
	lawSc     RaceScenario
}

// runRaceRounds runs rounds [first, rounds) of the workload identified by seed.
// each is called after every round; stopAt (may be "") ends the run as soon as
// that class has been reported.
func runRaceRounds(seed int64, rounds, first int, rawOrigin bool, rl *raceLog, stopAt string,
	each func(rr *raceRound, st *raceRoundStats, err error, fresh []raceReport)) *raceOutcome {
	out := &raceOutcome{classes: map[string]raceReport{}, firstSeen: map[string]RaceScenario{}}
	if rl != nil {
		rl.poll() // anything reported before the first round is not ours to attribute
	}
	for r := first; r < rounds; r++ {
		rr := genRaceRound(seed, rounds, r, rawOrigin)
		st, err := rr.run()
		var fresh []raceReport
		if rl != nil {
			for _, rep := range rl.poll() {
				if _, dup := out.classes[rep.class]; dup {
					continue
				}
				out.classes[rep.class] = rep
				sc := rr.sc
				sc.Report = rep.text
				out.firstSeen[rep.class] = sc
				fresh = append(fresh, rep)
			}
		}
		if err != nil && out.lawErr == nil {
			out.lawErr, out.lawSc = err, rr.sc
		}
		if each != nil {
			each(rr, st, err, fresh)
		}
		if stopAt != "" {
			if _, ok := out.classes[stopAt]; ok {
				break
			}
		}
	}
	return out
}

// TestC15Race: the collector's concurrency shape under the race detector.
func TestC15Race(t *testing.T) {
	if !vstat.Enabled("C15") {
		t.Skip()
	}
	rec := vstat.New("C15", "race")
	rounds := *raceRounds
	rec.SetRequested(rounds - *raceFirst)
	completed := false
	defer func() { rec.Flush(completed) }()

	rl := raceLogFromEnv()
	switch {
	case !raceBuild():
		rl = nil
		rec.Note("this binary was not built with -race: the no-unlisted-race clause is skipped, only the counter laws at the quiescent end are checked")
	case rl == nil:
		rec.Note("GORACE names no log_path: race reports cannot be read back, the no-unlisted-race clause is skipped (reports go to stderr)")
	}
	rec.Note("%s", raceReplayNote)
	open := vstat.OpenClasses("C15")
	lawFailures := 0
	reported := map[string]bool{}
	runRaceRounds(*vstat.Seed, rounds, *raceFirst, *raceRawOrigin, rl, "", func(rr *raceRound, st *raceRoundStats, err error, fresh []raceReport) {
		rec.Case(rr.sc, st.nontrivial(), st.labels(rr)...)
		if len(st.syncLost) > 0 {
			rec.NoteOnce("observation outside the statement of C15 (label OBSERVATION(not-C15):...): in some rounds a target whose stream ended with Sync (no later Reset) shows sync=false at the quiescent end - the refresh read sync=false, the stream called Sync, then the refresh wrote its stale value back through gnmiUpdate (same root cause as the race on Target.sync; an atomic flag does not cure it)")
		}
		if err != nil && lawFailures < 3 {
			lawFailures++
			class := "counter-law"
			if strings.HasPrefix(err.Error(), "panic:") {
				class = "panic"
			}
			rec.AddViolation(rr.sc, "race", class, "round %d (seed %d, %d targets, %s): %v", rr.sc.Round, rr.sc.Seed, rr.sc.Targets, rr.sc.Options, err)
			t.Errorf("round %d: %v", rr.sc.Round, err)
		}
		for _, rep := range fresh {
			reported[rep.class] = true
			rec.Label("race-report")
			sc := rr.sc
			sc.Report = rep.text
			if f, listed := open[rep.class]; listed {
				// the line is kept free of round numbers so that shards agree on it
				rec.KnownFinding(fmt.Sprintf("KNOWN-FINDING: property=C15 %s [%s, class %s]", f.What, f.ID, rep.class))
				rec.Note("open finding %s (class %s) reproduced after round %d (seed %d): %s / %s", f.ID, rep.class, rr.sc.Round, rr.sc.Seed, rep.where[0], rep.where[1])
				continue
			}
			if known := unrestoredMatch(rep, open); known != "" {
				rec.Note("a report with an unrestored stack (class %s) is compatible with the open class %s and was not counted", rep.class, known)
				continue
			}
			rec.AddViolation(sc, "race", rep.class, "unlisted data race between %s (%s) and %s (%s), first reported after round %d (seed %d, %d targets, %s):\n%s",
				rep.funcs[0], rep.where[0], rep.funcs[1], rep.where[1], rr.sc.Round, rr.sc.Seed, rr.sc.Targets, rr.sc.Options, rep.text)
			t.Errorf("unlisted data race, class %s", rep.class)
		}
		// keep the result file current: a later crash of the process (the
		// runtime aborts on concurrent map writes) must not lose what was found
		if len(fresh) > 0 || err != nil {
			rec.Flush(false)
		}
	})
	if rl != nil {
		var ks []string
		for c, f := range open {
			if strings.HasPrefix(c, "race:") && (f.Part == "" || f.Part == "race") && !reported[c] {
				ks = append(ks, c)
			}
		}
		sort.Strings(ks)
		for _, c := range ks {
			rec.Note("open finding %s (class %s) was not reported in this run (%d rounds; schedule-dependent)", open[c].ID, c, rounds)
		}
	}
	completed = true
}

// unrestoredMatch: the detector sometimes cannot restore one of the two stacks
// ("?" in the class). Such a report cannot be classified; it is attributed to
// an open class when its restored frame is one of that class's two frames.
func unrestoredMatch(rep raceReport, open map[string]vstat.Finding) string {
	if rep.funcs[0] != "?" && rep.funcs[1] != "?" {
		return ""
	}
	known := rep.funcs[0]
	if known == "?" {
		known = rep.funcs[1]
	}
	if known == "?" {
		return ""
	}
	for c := range open {
		if !strings.HasPrefix(c, "race:") {
			continue
		}
		for _, fr := range strings.Split(strings.TrimPrefix(c, "race:"), "|") {
			if fr == known {
				return c
			}
		}
	}
	return ""
}

// replayRace re-runs the recorded workload once and fails if the same class
// is reported again. The schedule cannot be replayed (see raceReplayNote).
func replayRace(rf *vstat.ReplayFile) string {
	var sc RaceScenario
	if err := json.Unmarshal(rf.Scenario, &sc); err != nil {
		return "bad scenario: " + err.Error()
	}
	if sc.Rounds < 1 || sc.Rounds > 1_000_000 || sc.Round < 0 {
		return fmt.Sprintf("bad scenario: rounds=%d round=%d", sc.Rounds, sc.Round)
	}
	fmt.Println("NOTE:", raceReplayNote)
	if !strings.HasPrefix(rf.Class, "race:") {
		// counter-law / panic: re-run the rounds up to the failing one
		out := runRaceRounds(sc.Seed, sc.Round+1, 0, sc.RawOrigin, nil, "", nil)
		if out.lawErr != nil {
			return fmt.Sprintf("round %d: %v", out.lawSc.Round, out.lawErr)
		}
		return ""
	}
	if rl := raceLogFromEnv(); rl != nil && raceBuild() {
		out := runRaceRounds(sc.Seed, sc.Rounds, 0, sc.RawOrigin, rl, rf.Class, nil)
		if rep, ok := out.classes[rf.Class]; ok {
			return fmt.Sprintf("data race of class %s reported again after round %d:\n%s", rf.Class, out.firstSeen[rf.Class].Round, rep.text)
		}
		return ""
	}
	// This process cannot see race reports (not a -race build, or GORACE has
	// no log_path, which is how the driver runs replays): run the workload in
	// a child process that can, and read its result.
	again, report, err := replayRaceInChild(&sc, rf.Class)
	if err != nil {
		fmt.Println("INCONCLUSIVE: cannot replay a race finding:", err)
		os.Exit(2)
	}
	if again {
		return fmt.Sprintf("data race of class %s reported again:\n%s", rf.Class, report)
	}
	return ""
}

// replayRaceInChild runs TestC15Race for the recorded workload in a -race
// child process with its own GORACE log_path and no known-findings file, so
// that every class it meets is recorded as a violation in its result file.
func replayRaceInChild(sc *RaceScenario, class string) (again bool, report string, err error) {
	tmp, err := os.MkdirTemp("", "c15race")
	if err != nil {
		return false, "", err
	}
	defer os.RemoveAll(tmp)
	bin, err := os.Executable()
	if err != nil {
		return false, "", err
	}
	if !raceBuild() {
		_, file, _, ok := runtime.Caller(0)
		dir := filepath.Dir(file)
		if _, serr := os.Stat(filepath.Join(dir, "race_test.go")); !ok || serr != nil {
			return false, "", fmt.Errorf("this binary is not a -race build and the engine sources (%s) are not available to build one", dir)
		}
		goBin := os.Getenv("VERIF_GO")
		if goBin == "" {
			goBin = "go1.26.8"
		}
		bin = filepath.Join(tmp, "cacheprop.race.test")
		cmd := exec.Command(goBin, "test", "-c", "-race", "-tags", "verif", "-o", bin, ".")
		cmd.Dir = dir
		cmd.Env = append(os.Environ(), "GOFLAGS=-mod=mod", "GOPROXY=off", "GOSUMDB=off", "GOTOOLCHAIN=local")
		if b, berr := cmd.CombinedOutput(); berr != nil {
			return false, "", fmt.Errorf("building the -race engine failed: %v\n%s", berr, b)
		}
	}
	args := []string{"-test.run", "^TestC15Race$", "-test.timeout", "280s", "-prop", "C15", "-out", tmp, "-shard", "replay",
		"-seed", fmt.Sprint(sc.Seed), fmt.Sprintf("-c15.rounds=%d", sc.Rounds), fmt.Sprintf("-c15.raworigin=%v", sc.RawOrigin),
		"-log_dir", tmp, "-stderrthreshold", "FATAL"}
	cmd := exec.Command(bin, args...)
	cmd.Dir = tmp
	cmd.Env = append(os.Environ(), "GORACE=log_path="+filepath.Join(tmp, "race")+" halt_on_error=0 history_size=3")
	b, _ := cmd.CombinedOutput() // exits non-zero whenever a race was reported
	res, rerr := os.ReadFile(filepath.Join(tmp, "result.C15.race.replay.json"))
	if rerr != nil {
		return false, "", fmt.Errorf("the child run left no result file: %v\n%s", rerr, tail(string(b), 2000))
	}
	var r vstat.Result
	if jerr := json.Unmarshal(res, &r); jerr != nil {
		return false, "", jerr
	}
	for _, v := range r.Violations {
		if v.Class == class {
			return true, v.Message, nil
		}
	}
	if !r.Completed {
		return false, "", fmt.Errorf("the child run did not complete:\n%s", tail(string(b), 2000))
	}
	return false, "", nil
}

func tail(s string, n int) string {
	if len(s) > n {
		return s[len(s)-n:]
	}
	return s
}
