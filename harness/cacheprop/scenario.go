// Package cacheprop decides C02 (timestamp discipline), C03 (change feed ==
// cache), C14 (Reset/Remove/isolation, cache part) and C15 (counters) by
// running generated notification histories against the real cache.Cache and a
// reference model, on one goroutine (every step is a quiescent point).
package cacheprop

import (
	"fmt"
	"math"

	"pgregory.net/rapid"
	"verif/harness/internal/gn"
)

// TS says how a notification's timestamp is derived when the step runs:
// relative to what the model stores for the first addressed leaf ("leaf"),
// to the target's latest accepted timestamp ("latest") or to the clock ("now").
type TS struct {
	Mode string `json:"mode"`
	D    int64  `json:"d"`
}

// Upd is one update of a notification.
type Upd struct {
	Path []gn.Elem `json:"path"`
	Val  gn.Val    `json:"val"`
}

// Noti is the spec of one notification.
type Noti struct {
	TS      TS        `json:"ts"`
	Atomic  bool      `json:"atomic,omitempty"`
	Origin  string    `json:"origin,omitempty"`
	Prefix  []gn.Elem `json:"prefix,omitempty"`
	Element bool      `json:"element,omitempty"` // deprecated string encoding for prefix and paths
	Share   bool      `json:"share,omitempty"`   // reuse one prefix object (with spare capacity) for equal prefixes
	// PathEnc: encoding of the update/delete paths when it differs from the prefix's: "elem"
	// (structured), "element" (deprecated strings), "both" (structured plus stray deprecated
	// strings, which every reader must ignore when elem is present); "" = as the prefix.
	// PrefixBoth: the prefix carries stray deprecated strings next to its structured elements.
	// PathOrigin: an origin carried by the update/delete paths instead of the prefix (not generated, see genNoti).
	PathOrigin string      `json:"path_origin,omitempty"`
	PathEnc    string      `json:"path_enc,omitempty"`
	PrefixBoth bool        `json:"prefix_both,omitempty"`
	Updates    []Upd       `json:"updates,omitempty"`
	Deletes    [][]gn.Elem `json:"deletes,omitempty"`
	// Pick>0 re-addresses the first update (or, without updates, the first
	// delete) to the Pick-th stored leaf of the target (sorted order, modulo
	// the number of leaves): origin is dropped, the prefix becomes the first
	// Split index elements of that leaf and the path the rest (for a delete,
	// minus Cut trailing elements). Keeps state-dependent choices in the data.
	Pick  int `json:"pick,omitempty"`
	Split int `json:"split,omitempty"`
	Cut   int `json:"cut,omitempty"`
	// Near: the first update, re-addressed by Pick to a stored leaf, carries
	// the smallest change of the value stored there (next integer, next
	// representable float, one more digit, ...) instead of its own value.
	Near bool `json:"near,omitempty"`
	// Star: the Cut trailing elements of a re-addressed delete are replaced by
	// "*" instead of being dropped (a glob delete over the siblings).
	Star bool `json:"star,omitempty"`
	// Bulk adds N updates At/k<Start>..At/k<Start+N-1>[/Leaf] (relative to the
	// prefix) with value V: sizes past the usual capacity steps (32, 64, 128).
	Bulk *Bulk `json:"bulk,omitempty"`
}

// Bulk is a run of sibling leaves written by one notification.
type Bulk struct {
	At    []gn.Elem `json:"at,omitempty"`
	Start int       `json:"start"`
	N     int       `json:"n"`
	Leaf  string    `json:"leaf,omitempty"`
	V     int64     `json:"v"`
}

// Step is one operation on the cache.
type Step struct {
	// Kind: noti reset remove add sync connect connecterr updmeta updsize
	Kind string `json:"kind"`
	T    int    `json:"t"`
	Tick int64  `json:"tick"` // clock advance before the step (>=1)
	N    *Noti  `json:"n,omitempty"`
	Msg  string `json:"msg,omitempty"`
	// Direct: the operation is made through the exported method of the *cache.Target
	// returned by GetTarget (Target.GnmiUpdate/Reset/Sync/Connect) instead of the Cache method.
	Direct bool `json:"direct,omitempty"`
}

// Scenario is a complete history.
type Scenario struct {
	Targets     int    `json:"targets"`
	Threshold   int64  `json:"threshold"` // future threshold in ns, 0 = off
	EventDriven bool   `json:"event_driven"`
	Steps       []Step `json:"steps"`
	// ServerName: the cache is created with cache.WithServerName (exported as meta/serverName of every target).
	ServerName string `json:"server_name,omitempty"`
	// ExcludedMeta: the cache is created with cache.WithExcludedMeta (metadata entries the periodic refresh does not export).
	ExcludedMeta []string `json:"excluded_meta,omitempty"`
	// Feeder: how the callers treat the containers of a notification after the call (feeder.go): "" fresh objects
	// every time, "batch" the update/delete lists live in one re-used backing array per target, "scribble"
	// everything the caller still owns is re-used for the next notification and overwritten right after the call.
	Feeder string `json:"feeder,omitempty"`
}

func targetName(i int) string { return fmt.Sprintf("t%d", i) }

// ---- generators --------------------------------------------------------------

// profile biases the generator towards what a property needs: step-kind
// weights, number of targets, and the size of the path universe (a small one
// makes different targets hold leaves at the same paths).
type profile struct {
	minTargets, maxTargets int
	threshold              bool
	maxSteps               int
	small                  bool
	weights                map[string]int
}

var profiles = map[string]profile{
	"C02": {minTargets: 1, maxTargets: 2, threshold: true, maxSteps: 40,
		weights: map[string]int{"noti": 24, "reset": 1, "add": 1, "remove": 1, "sync": 1, "connect": 1, "connecterr": 1, "updmeta": 1}},
	"C03": {minTargets: 1, maxTargets: 3, threshold: true, maxSteps: 40,
		weights: map[string]int{"noti": 20, "reset": 2, "remove": 1, "add": 1, "sync": 1, "connect": 1, "connecterr": 1, "updmeta": 1}},
	"C14": {minTargets: 2, maxTargets: 4, maxSteps: 40, small: true,
		weights: map[string]int{"noti": 16, "reset": 4, "remove": 3, "add": 3, "sync": 1, "connect": 1, "connecterr": 1, "updmeta": 1, "updsize": 1}},
	"C15": {minTargets: 1, maxTargets: 2, threshold: true, maxSteps: 40, small: true,
		weights: map[string]int{"noti": 16, "reset": 1, "sync": 2, "connect": 4, "connecterr": 4, "updmeta": 3, "updsize": 1, "add": 1}},
}

// feederStyles: the caller-side treatment of containers after a call, one per scenario (feeder.go).
var feederStyles = []string{feedFresh, feedFresh, feedBatch, feedBatch, feedScribble, feedScribble, feedScribble}

var kindOrder = []string{"noti", "reset", "remove", "add", "sync", "connect", "connecterr", "updmeta", "updsize"}

var names = []string{"a", "b", "c"}

// oddNames replace the alphabet in one scenario out of five: a name that is a string prefix of
// another, names with the separators of joined representations, a multi-byte character, a name differing in case,
// names that contain or begin the name of the metadata root without being it.
var oddNames = []string{"a", "ab", "a/b", "metadata", "a b", "aé", "A", "met"}
var useOddNames bool

// useLegacyVals: in one scenario out of eight most values travel in the deprecated Update.value field (a target
// that still speaks the old encoding does so for every leaf), so that such values meet each other on one leaf.
var useLegacyVals bool

// useStarNames: in one scenario out of twelve (C02/C03 profiles) updates may name an element or a key value that is
// literally "*" (a catch-all selector is a legal list key). Such scenarios carry no delete notifications: for a leaf
// stored under a literal "*" the per-leaf delete announcement cannot be told from a wildcard delete (DESIGN.md 10.9).
var useStarNames bool

func genElem(t *rapid.T, glob, small bool) gn.Elem {
	alpha := names
	if small {
		alpha = []string{"a", "b"}
	}
	if useOddNames {
		alpha = oddNames
		if small {
			alpha = oddNames[:4]
		}
	}
	if glob {
		alpha = append(append([]string{}, alpha...), "*", "*")
	} else if useStarNames {
		alpha = append(append([]string{}, alpha...), "*")
	}
	e := gn.Elem{Name: rapid.SampledFrom(alpha).Draw(t, "name")}
	if !small && e.Name != "*" && rapid.IntRange(0, 5).Draw(t, "keyed") == 0 {
		e.Keys = map[string]string{}
		nk := rapid.IntRange(1, 2).Draw(t, "nkeys")
		for i := 0; i < nk; i++ {
			k := rapid.SampledFrom([]string{"k", "j", "K"}).Draw(t, "key")
			vals := []string{"1", "2"}
			if glob || useStarNames {
				vals = []string{"1", "2", "*"}
			}
			e.Keys[k] = rapid.SampledFrom(vals).Draw(t, "kval")
		}
	}
	return e
}

func genElems(t *rapid.T, min, max int, glob, small bool) []gn.Elem {
	if small && max > 1 {
		max--
	}
	if max < min {
		max = min
	}
	n := rapid.IntRange(min, max).Draw(t, "nelem")
	out := make([]gn.Elem, 0, n)
	for i := 0; i < n; i++ {
		out = append(out, genElem(t, glob, small))
	}
	return out
}

// useListVals: in one scenario out of ten most values are leaf-lists over the same few members (other orders,
// a repeated member), so that lists which differ only in order meet each other on one leaf.
var useListVals bool

func genListVal(t *rapid.T) gn.Val {
	l := []gn.Val{{Kind: "int", I: int64(rapid.IntRange(0, 1).Draw(t, "l0"))}, {Kind: "string", S: "x"}}
	switch rapid.IntRange(0, 3).Draw(t, "lshape") {
	case 0:
		// the same members in another order are another value
		l[0], l[1] = l[1], l[0]
	case 1:
		// ... and so is a repeated member
		l = append(l, l[1])
	}
	return gn.Val{Kind: "leaflist", L: l}
}

func genVal(t *rapid.T) gn.Val {
	if useListVals && rapid.IntRange(0, 3).Draw(t, "listval") > 0 {
		return genListVal(t)
	}
	if useLegacyVals && rapid.IntRange(0, 3).Draw(t, "legacy") > 0 {
		return gn.Val{Kind: "deprecated", S: rapid.SampledFrom([]string{`1`, `2`, `"x"`, ``}).Draw(t, "dep")}
	}
	switch rapid.IntRange(0, 16).Draw(t, "vkind") {
	case 16:
		// the deprecated Update.value field (bytes + encoding), val unset
		return gn.Val{Kind: "deprecated", S: rapid.SampledFrom([]string{`1`, `2`, `"x"`, ``}).Draw(t, "dep")}
	case 12:
		// pairs that differ only beyond the precision of a float32 / float64
		return gn.Val{Kind: "decimal", F: 2, I: rapid.SampledFrom([]int64{5, 123456789, 123456790, 1677721600, 1677721700}).Draw(t, "digits")}
	case 13:
		return gn.Val{Kind: rapid.SampledFrom([]string{"int", "uint"}).Draw(t, "bigkind"),
			I: rapid.SampledFrom([]int64{16777216, 16777217, 1 << 53, 1<<53 + 1, 1<<62 + 1}).Draw(t, "big")}
	case 14:
		return gn.Val{Kind: rapid.SampledFrom([]string{"jsonietf", "ascii"}).Draw(t, "textkind"), S: rapid.SampledFrom([]string{`{"a":1}`, `{"a": 1}`, "x"}).Draw(t, "text")}
	case 15:
		if rapid.Bool().Draw(t, "special-float") {
			// NaN (equal to nothing, itself included), infinities, negative zero (equal to zero)
			return gn.Val{Kind: rapid.SampledFrom([]string{"double", "float"}).Draw(t, "fkind"), S: rapid.SampledFrom([]string{"nan", "nan", "inf", "-inf", "-0"}).Draw(t, "special")}
		}
		return gn.Val{Kind: "double", F: rapid.SampledFrom([]float64{1e16, 1e16 + 2, 0.1, 0.1 + 1e-12}).Draw(t, "closef")}
	case 0, 1, 2:
		return gn.Val{Kind: "int", I: int64(rapid.IntRange(0, 2).Draw(t, "i"))}
	case 3:
		return gn.Val{Kind: "uint", I: int64(rapid.IntRange(0, 1).Draw(t, "u"))}
	case 4, 5:
		return gn.Val{Kind: "string", S: rapid.SampledFrom([]string{"", "x", "y"}).Draw(t, "s")}
	case 6:
		return gn.Val{Kind: "bool", B: rapid.Bool().Draw(t, "b")}
	case 7:
		return gn.Val{Kind: "double", F: rapid.SampledFrom([]float64{0, 1.5, -1.5}).Draw(t, "f")}
	case 8:
		return gn.Val{Kind: "float", F: rapid.SampledFrom([]float64{0, 2.5}).Draw(t, "f")}
	case 9:
		return gn.Val{Kind: "json", S: rapid.SampledFrom([]string{`{"a":1}`, `2`}).Draw(t, "j")}
	case 10:
		return gn.Val{Kind: "bytes", S: rapid.SampledFrom([]string{"", "\x01"}).Draw(t, "by")}
	default:
		return genListVal(t)
	}
}

func genTS(t *rapid.T, thr int64) TS {
	if thr == 0 && rapid.IntRange(0, 13).Draw(t, "extreme-ts") == 0 {
		// (not with a future threshold: the cache documents that it takes a latest timestamp <= 0 for "none yet")
		return TS{Mode: "abs", D: rapid.SampledFrom([]int64{-(1 << 62) - 5, -7, 3, 1<<62 + 9, math.MaxInt64 - 1, math.MaxInt64, math.MinInt64 + 1}).Draw(t, "abs")}
	}
	mode := rapid.SampledFrom([]string{"leaf", "leaf", "leaf", "latest", "now"}).Draw(t, "tsmode")
	ds := []int64{-3, -1, 0, 0, 1, 1, 2, 7}
	switch {
	case thr > 1<<40:
		ds = append(ds, 1000, 1<<40, 1<<50)
	case thr > 0:
		ds = append(ds, thr-1, thr, thr+1, thr+2, 2*thr+3, 3*thr)
	}
	return TS{Mode: mode, D: rapid.SampledFrom(ds).Draw(t, "tsd")}
}

func genNoti(t *rapid.T, thr int64, small bool) *Noti {
	n := &Noti{TS: genTS(t, thr)}
	n.Origin = rapid.SampledFrom([]string{"", "", "", "o", "a"}).Draw(t, "origin")
	if small {
		n.Origin = rapid.SampledFrom([]string{"", "", "", "a"}).Draw(t, "sorigin")
	}
	if useOddNames && rapid.IntRange(0, 5).Draw(t, "odd-origin") == 0 {
		// an origin is the first element of the stored path: one that begins like the metadata root
		n.Origin = "metadata"
	}
	n.Element = rapid.IntRange(0, 6).Draw(t, "element") == 0
	n.Share = rapid.IntRange(0, 3).Draw(t, "share") > 0
	n.PathEnc = rapid.SampledFrom([]string{"", "", "", "", "", "", "elem", "element", "both"}).Draw(t, "pathenc")
	n.PrefixBoth = rapid.IntRange(0, 9).Draw(t, "prefixboth") == 0
	// PathOrigin is not drawn: for an update that carries its origin in Update.path the unchanged tree is
	// itself inconsistent (stored and matched without the origin, deleted with it; cache_test.go pins the
	// latter), see DESIGN.md 10.7 (7). The field stays so that such a scenario can be replayed by hand.
	n.Prefix = genElems(t, 0, 2, false, small)
	shape := rapid.IntRange(0, 9).Draw(t, "shape")
	switch {
	case shape <= 3: // single update
		n.Updates = []Upd{{Path: genElems(t, 1, 2, false, small), Val: genVal(t)}}
	case shape == 4: // single delete
		n.Deletes = [][]gn.Elem{genElems(t, 0, 2, true, small)}
	case shape == 5 || shape == 6: // multi
		nu := rapid.IntRange(0, 3).Draw(t, "nu")
		nd := rapid.IntRange(0, 2).Draw(t, "nd")
		for i := 0; i < nu; i++ {
			n.Updates = append(n.Updates, Upd{Path: genElems(t, 1, 2, false, small), Val: genVal(t)})
		}
		for i := 0; i < nd; i++ {
			n.Deletes = append(n.Deletes, genElems(t, 0, 3, true, small))
		}
	case shape == 7 || shape == 8: // atomic: container at a non-empty prefix
		n.Atomic = true
		if len(n.Prefix) == 0 {
			n.Prefix = genElems(t, 1, 2, false, small)
		}
		nu := rapid.IntRange(1, 3).Draw(t, "nu")
		for i := 0; i < nu; i++ {
			n.Updates = append(n.Updates, Upd{Path: genElems(t, 1, 2, false, small), Val: genVal(t)})
		}
		if rapid.IntRange(0, 9).Draw(t, "atomicdel") == 0 {
			n.Deletes = [][]gn.Elem{genElems(t, 1, 2, false, small)}
		}
	default: // empty notification
	}
	if thr == 0 && !n.Atomic && rapid.IntRange(0, 13).Draw(t, "bulk") == 0 {
		// (not with a future threshold: every member of a multi-update
		// notification is then an open decision, see decide)
		n.Bulk = &Bulk{
			At:    genElems(t, 0, 1, false, small),
			Start: rapid.SampledFrom([]int{0, 0, 10, 30}).Draw(t, "bulk-start"),
			N:     rapid.SampledFrom([]int{3, 20, 33, 40, 66, 70, 130, 3, 20, 33, 40, 66, 70, 130, 260, 520}).Draw(t, "bulk-n"),
			Leaf:  rapid.SampledFrom([]string{"", "", "a"}).Draw(t, "bulk-leaf"),
			V:     int64(rapid.IntRange(0, 1).Draw(t, "bulk-v")),
		}
	}
	if rapid.IntRange(0, 1).Draw(t, "relative") == 0 {
		n.Pick = rapid.IntRange(1, 6).Draw(t, "pick")
		n.Split = rapid.IntRange(0, 2).Draw(t, "split")
		n.Cut = rapid.SampledFrom([]int{0, 0, 1, 2}).Draw(t, "cut")
		n.Star = rapid.IntRange(0, 2).Draw(t, "star") == 0
		n.Near = rapid.IntRange(0, 3).Draw(t, "near") == 0
	}
	if useOddNames {
		// a delete path that ends in an empty element (what splitting "a/b/" gives): it names a child
		// called "", which no leaf has - it removes nothing, and it stays what the caller wrote
		for i := range n.Deletes {
			if len(n.Deletes[i]) > 0 && rapid.IntRange(0, 3).Draw(t, "trailing-empty") == 0 {
				n.Deletes[i] = append(n.Deletes[i], gn.Elem{Name: ""})
			}
		}
	}
	// a path consisting of nothing at all is a hostile shape that belongs to C12
	if !n.Atomic && len(n.Prefix) == 0 && n.Origin == "" {
		for i := range n.Deletes {
			if len(n.Deletes[i]) == 0 {
				n.Deletes[i] = []gn.Elem{{Name: "*"}}
			}
		}
	}
	return n
}

func genStep(pr profile, targets int, thr int64) func(t *rapid.T) Step {
	total := 0
	for _, k := range kindOrder {
		total += pr.weights[k]
	}
	return func(t *rapid.T) Step {
		s := Step{T: rapid.IntRange(0, targets-1).Draw(t, "target"), Tick: int64(rapid.IntRange(1, 12).Draw(t, "tick"))}
		w := rapid.IntRange(0, total-1).Draw(t, "stepkind")
		for _, k := range kindOrder {
			if w < pr.weights[k] {
				s.Kind = k
				break
			}
			w -= pr.weights[k]
		}
		switch s.Kind {
		case "noti":
			s.N = genNoti(t, thr, pr.small)
		case "connecterr":
			s.Msg = rapid.SampledFrom([]string{"dial failed", "eof"}).Draw(t, "msg")
		}
		s.Direct = rapid.IntRange(0, 5).Draw(t, "direct") == 0
		return s
	}
}

// genFanout is the structured "big fan-out" shape (one case in about two hundred): one notification writes 300-4100
// sibling leaves, a later one rewrites a few of them, then a glob delete whose timestamp lies between the two
// removes more than a thousand leaves at once and leaves the newer ones; a few ordinary steps around it.
func genFanout(t *rapid.T, pr profile, targets int) []Step {
	tg := rapid.IntRange(0, targets-1).Draw(t, "fan-target")
	n := rapid.SampledFrom([]int{300, 700, 1030, 1030, 1500, 2050, 2050, 4100}).Draw(t, "fan-n")
	leaf := rapid.SampledFrom([]string{"", "x"}).Draw(t, "fan-leaf")
	at := []gn.Elem{{Name: "a"}}
	steps := []Step{{Kind: "noti", T: tg, Tick: 5, N: &Noti{TS: TS{Mode: "now"}, Bulk: &Bulk{At: at, N: n, Leaf: leaf, V: 0}}}}
	if rapid.IntRange(0, 4).Draw(t, "fan-survivors") > 0 {
		steps = append(steps, Step{Kind: "noti", T: tg, Tick: 5, N: &Noti{TS: TS{Mode: "now"},
			Bulk: &Bulk{At: at, Start: rapid.SampledFrom([]int{0, 0, 7, 500}).Draw(t, "fan-s-start"), N: rapid.SampledFrom([]int{1, 3, 20, 40}).Draw(t, "fan-s-n"), Leaf: leaf, V: 1}}})
	}
	step := rapid.Custom(genStep(pr, targets, 0))
	for i, k := 0, rapid.IntRange(0, 2).Draw(t, "fan-mid"); i < k; i++ {
		steps = append(steps, step.Draw(t, "fan-mid-step"))
	}
	del := [][]gn.Elem{{{Name: "a"}, {Name: "*"}}}
	switch rapid.IntRange(0, 3).Draw(t, "fan-del") {
	case 0:
		del = [][]gn.Elem{{{Name: "*"}}}
	case 1:
		if leaf != "" {
			del = [][]gn.Elem{{{Name: "a"}, {Name: "*"}, {Name: leaf}}}
		}
	case 2:
		del = [][]gn.Elem{{{Name: "a"}}}
	}
	steps = append(steps, Step{Kind: "noti", T: tg, Tick: 1, N: &Noti{TS: TS{Mode: "leaf", D: rapid.SampledFrom([]int64{-1, 1, 0, 7}).Draw(t, "fan-del-ts")}, Deletes: del}})
	for i, k := 0, rapid.IntRange(0, 3).Draw(t, "fan-tail"); i < k; i++ {
		steps = append(steps, step.Draw(t, "fan-tail-step"))
	}
	return steps
}

func genScenario(prop string) func(t *rapid.T) *Scenario {
	pr := profiles[prop]
	return func(t *rapid.T) *Scenario {
		if (prop == "C02" || prop == "C03") && rapid.IntRange(0, 199).Draw(t, "fan-out") == 123 {
			useOddNames, useLegacyVals, useListVals = false, false, false
			sc := &Scenario{Targets: rapid.IntRange(pr.minTargets, pr.maxTargets).Draw(t, "targets"), EventDriven: rapid.Bool().Draw(t, "eventdriven")}
			sc.Feeder = rapid.SampledFrom(feederStyles).Draw(t, "feeder")
			sc.Steps = genFanout(t, pr, sc.Targets)
			return sc
		}
		useOddNames = rapid.IntRange(0, 4).Draw(t, "odd-names") == 0
		useLegacyVals = rapid.IntRange(0, 7).Draw(t, "legacy-values") == 3
		useListVals = rapid.IntRange(0, 9).Draw(t, "list-values") == 4
		useStarNames = (prop == "C02" || prop == "C03") && rapid.IntRange(0, 11).Draw(t, "star-names") == 7
		sc := &Scenario{Targets: rapid.IntRange(pr.minTargets, pr.maxTargets).Draw(t, "targets")}
		sc.EventDriven = rapid.IntRange(0, 3).Draw(t, "eventdriven") > 0
		sc.Feeder = rapid.SampledFrom(feederStyles).Draw(t, "feeder")
		if pr.threshold && rapid.IntRange(0, 2).Draw(t, "usethr") == 0 {
			// small thresholds around which the timestamps are generated, and thresholds that mean "never reject"
			// (time.Duration(math.MaxInt64), centuries): every sum of a threshold and a timestamp wraps
			sc.Threshold = rapid.SampledFrom([]int64{5, 20, 100, 5, 20, 100, math.MaxInt64, math.MaxInt64 - 1, 1 << 62, 290 * 365 * 24 * 3600 * 1_000_000_000}).Draw(t, "thr")
		}
		if prop != "C02" {
			sc.ServerName = rapid.SampledFrom([]string{"", "", "collector-1"}).Draw(t, "server-name")
			if rapid.IntRange(0, 5).Draw(t, "excluded-meta") == 3 {
				sc.ExcludedMeta = rapid.SampledFrom([][]string{{"sync"}, {"connected"}, {"sync", "connected", "connectedAddress"}, {"connectError"}, {"latestTimestamp"}}).Draw(t, "excluded")
			}
		}
		sc.Steps = rapid.SliceOfN(rapid.Custom(genStep(pr, sc.Targets, sc.Threshold)), 1, pr.maxSteps).Draw(t, "steps")
		if len(sc.Steps) < 12 && rapid.IntRange(0, 3).Draw(t, "longer") > 0 {
			// rapid's slice lengths are skewed towards short ones; histories need some length
			sc.Steps = append(sc.Steps, rapid.SliceOfN(rapid.Custom(genStep(pr, sc.Targets, sc.Threshold)), 12, 24).Draw(t, "more")...)
		}
		if useStarNames {
			for i := range sc.Steps {
				if n := sc.Steps[i].N; n != nil {
					n.Deletes, n.Pick = nil, 0
					if len(n.Updates) == 0 && n.Bulk == nil {
						n.Updates = []Upd{{Path: genElems(t, 1, 2, false, pr.small), Val: genVal(t)}}
					}
				}
			}
			useStarNames = false
		}
		if prop == "C15" && rapid.IntRange(0, 3).Draw(t, "path-origins") == 2 {
			// C15 only (its laws are about counters, which do not depend on how a removal is announced; for the
			// feed this shape is inconsistent in the unchanged tree, DESIGN.md 10.7 (7)): the origin travels in the
			// update/delete paths instead of the prefix - also the origin that is literally the metadata root's name.
			for i := range sc.Steps {
				if n := sc.Steps[i].N; n != nil && n.Origin == "" && rapid.IntRange(0, 2).Draw(t, "path-origin") > 0 {
					n.PathOrigin = rapid.SampledFrom([]string{"o", "meta", "meta", "openconfig"}).Draw(t, "path-origin-name")
				}
			}
		}
		return sc
	}
}
