package cacheprop

import (
	"encoding/json"
	"flag"
	"fmt"
	"os"
	"testing"

	"pgregory.net/rapid"
	"verif/harness/internal/vstat"
)

func TestMain(m *testing.M) {
	flag.Parse()
	os.Exit(m.Run())
}

// runScenario executes sc with the oracles of prop enabled.
func runScenario(sc *Scenario, prop string) (*stats, error) {
	w := newWorld(sc, map[string]bool{prop: true})
	err := w.run()
	if err == nil && prop == "C14" {
		if perr := projectionCheck(sc, w); perr != nil {
			err = perr
		}
	}
	return &w.st, err
}

func propTest(t *testing.T, prop string) {
	if !vstat.Enabled(prop) {
		t.Skip()
	}
	rec := vstat.New(prop, "random")
	gen := genScenario(prop)
	rec.RunRapid(t, func(rt *rapid.T) {
		sc := gen(rt)
		rec.Current(sc)
		st, err := runScenario(sc, prop)
		rec.Case(sc, st.nontrivial(prop), st.labels()...)
		if err != nil {
			class := "oracle"
			if f, ok := err.(*failure); ok && f.prop == "PANIC" {
				class = "panic"
			}
			rt.Fatalf("%s", rec.Fail(sc, class, "%v", err))
		}
	})
}

func TestC02Random(t *testing.T) { propTest(t, "C02") }
func TestC03Random(t *testing.T) { propTest(t, "C03") }
func TestC14Random(t *testing.T) { propTest(t, "C14") }
func TestC15Random(t *testing.T) { propTest(t, "C15") }

// TestReplay re-runs a saved scenario without the library.
func TestReplay(t *testing.T) {
	rf, ok, err := vstat.LoadReplay()
	if !ok {
		t.Skip()
	}
	if err != nil {
		t.Fatal(err)
	}
	rec := vstat.New(rf.Property, "replay")
	defer rec.Flush(true)
	replayT = t
	msg := replayOne(rf)
	if msg != "" {
		rec.AddViolation(json.RawMessage(rf.Scenario), rf.Kind, rf.Class, "%s", msg)
		fmt.Println("REPLAY-FAIL:", msg)
		t.Fail()
		return
	}
	rec.Case(json.RawMessage(rf.Scenario), false, "replayed")
	fmt.Println("REPLAY-OK")
}

var replayT *testing.T

func replayOne(rf *vstat.ReplayFile) string {
	if rf.Part == "latency" {
		return replayLatency(rf)
	}
	if rf.Part == "latency-irregular" {
		return replayLatIrregular(rf)
	}
	if rf.Part == "latency-long" || rf.Part == "cache-latency-long" {
		return replayLatLong(rf)
	}
	if rf.Part == "nested" || rf.Part == "cache-latency" {
		return replayN(rf)
	}
	if rf.Part == "parallel" {
		return replayPar(rf)
	}
	if rf.Part == "owners" {
		return replayOwners(replayT, rf)
	}
	if rf.Part == "race" {
		return replayRace(rf)
	}
	var sc Scenario
	if err := json.Unmarshal(rf.Scenario, &sc); err != nil {
		return "bad scenario: " + err.Error()
	}
	if sc.Targets < 1 {
		return "bad scenario: no targets"
	}
	if _, err := runScenario(&sc, rf.Property); err != nil {
		return err.Error()
	}
	return ""
}
