package cacheprop

import (
	"encoding/json"
	"testing"

	"pgregory.net/rapid"
	"verif/harness/internal/vstat"
)

func latLongTest(t *testing.T, part string, cacheLevel bool) {
	if !vstat.Enabled("C15") {
		t.Skip()
	}
	rec := vstat.New("C15", part)
	gen := genLatLong(cacheLevel)
	rec.RunRapid(t, func(rt *rapid.T) {
		sc := gen(rt)
		rec.Current(sc)
		st, err := runLatLong(sc)
		rec.Case(sc, st.nontrivial(), st.labels()...)
		if err != nil {
			class := "oracle"
			if f, ok := err.(*latFailure); ok {
				class = f.class
			}
			rt.Fatalf("%s", rec.Fail(sc, class, "%v [%s]", err, describeLatLong(sc)))
		}
	})
}

// TestC15LatencyLong: windows of 100 .. 43200 refresh periods that live for up to 3x their size (latency package).
func TestC15LatencyLong(t *testing.T) { latLongTest(t, "latency-long", false) }

// TestC15CacheLatencyLong: the same through cache.WithLatencyWindows, GnmiUpdate and UpdateMetadata.
func TestC15CacheLatencyLong(t *testing.T) { latLongTest(t, "cache-latency-long", true) }

func replayLatLong(rf *vstat.ReplayFile) string {
	var sc LatLong
	if err := json.Unmarshal(rf.Scenario, &sc); err != nil {
		return "bad scenario: " + err.Error()
	}
	if _, err := runLatLong(&sc); err != nil {
		return err.Error()
	}
	return ""
}
