package cacheprop

// C15, part "race": the collector's concurrency shape against the real cache.
//
// One update-stream goroutine per target submits notifications and makes, on
// that same goroutine, the lifecycle calls the manager's callbacks make
// (Connect on the first message, Sync, Reset when the stream breaks, then
// ConnectError, Connect and more updates), while two refresh goroutines call
// Cache.UpdateMetadata and Cache.UpdateSize in loops, exactly as
// cmd/gnmi_collector starts them (go periodic(..., c.cache.UpdateMetadata);
// go periodic(..., c.cache.UpdateSize)). Every round builds a fresh cache, so
// every round contains the FIRST UpdateMetadata after target creation, and the
// refresh loops never pause, so refreshes land right after every Reset.
//
// Workloads are drawn from math/rand (seed, round); schedules are the real
// scheduler's and are not reproducible. The oracles are schedule-independent:
// (i) the counter laws at the final quiescent point, (ii) no data-race report
// whose class is not listed as an open finding. Reports are read from the
// race detector's log files (GORACE log_path=...).

import (
	"errors"
	"fmt"
	"math/rand"
	"os"
	"path/filepath"
	"regexp"
	"runtime"
	"runtime/debug"
	"sort"
	"strings"
	"sync"
	"sync/atomic"
	"time"

	"github.com/openconfig/gnmi/cache"
	"github.com/openconfig/gnmi/ctree"
	"github.com/openconfig/gnmi/latency"
	"github.com/openconfig/gnmi/metadata"
	pb "github.com/openconfig/gnmi/proto/gnmi"
)

// RaceScenario identifies a workload (and, in a replay file, carries the
// report). The schedule is not part of it: it cannot be recorded or replayed.
type RaceScenario struct {
	Seed      int64  `json:"seed"`
	Rounds    int    `json:"rounds"`               // rounds the run was asked for
	Round     int    `json:"round"`                // round this case is / the report appeared after
	Targets   int    `json:"targets"`              // targets of that round
	RawOrigin bool   `json:"raw_origin,omitempty"` // notifications keep an empty origin (not the collector's closure)
	Options   string `json:"options,omitempty"`    // cache options of that round (derived from seed and round; informational)
	Report    string `json:"report,omitempty"`     // race detector report, verbatim
}

// ---- workload ---------------------------------------------------------------------------

type rcNoti struct {
	shape     int // 0 single update, 1 multi, 2 atomic, 3 single delete, 4 empty
	nilPrefix bool
	prefix    []string
	paths     [][]string
	vals      []int64
	dels      [][]string
	tsMode    int // 0 now, 1 repeat the previous timestamp, 2 older, 3 far in the future
}

type rcOp struct {
	kind string // noti connect sync reset connecterr
	n    *rcNoti
}

type raceRound struct {
	sc          RaceScenario
	latWindows  bool
	threshold   time.Duration
	eventDriven bool
	precision   time.Duration
	streams     [][]rcOp
	// fastClock: cache.Now and latency.Now are a counter that advances 53ms per reading, so that the
	// 2s/4s latency windows become covered and slide within a round (with the real clock they never do)
	fastClock  bool
	flapping   bool // every stream is a target whose connection breaks after a few messages, again and again
	minRefresh int
}

// The path universe is a schema: <top>/x and <top>/y are leaves, <top>/z is a
// container with leaves p and q, <top>/atomic* hold atomic notifications. No
// leaf path is a prefix of another (targets respect their schema).
var (
	rcTops    = []string{"a", "b"}
	rcSeconds = []string{"x", "y", "z"}
	rcThirds  = []string{"p", "q"}
)

// rcBelowTop draws a leaf path relative to a top-level container.
func rcBelowTop(r *rand.Rand) []string {
	sec := rcSeconds[r.Intn(len(rcSeconds))]
	if sec == "z" {
		return []string{sec, rcThirds[r.Intn(len(rcThirds))]}
	}
	return []string{sec}
}

func rcGenNoti(r *rand.Rand) *rcNoti {
	n := &rcNoti{}
	switch k := r.Intn(20); {
	case k < 10:
		n.shape = 0
	case k < 13:
		n.shape = 1
	case k < 15:
		n.shape = 2
	case k < 19:
		n.shape = 3
	default:
		n.shape = 4
	}
	switch k := r.Intn(12); {
	case k < 8:
		n.tsMode = 0
	case k < 10:
		n.tsMode = 1
	case k < 11:
		n.tsMode = 2
	default:
		n.tsMode = 3
	}
	n.nilPrefix = r.Intn(6) == 0
	if !n.nilPrefix && r.Intn(3) == 0 {
		n.prefix = []string{rcTops[r.Intn(len(rcTops))]}
	}
	val := func() int64 { return int64(r.Intn(3)) }
	sub := func() []string { // a leaf path below the prefix
		if len(n.prefix) > 0 {
			return rcBelowTop(r)
		}
		return append([]string{rcTops[r.Intn(len(rcTops))]}, rcBelowTop(r)...)
	}
	del := func() []string {
		switch r.Intn(6) {
		case 0:
			return []string{"*"}
		case 1:
			if len(n.prefix) > 0 {
				return []string{"*"}
			}
			return []string{rcTops[r.Intn(len(rcTops))], "*"}
		case 2:
			if len(n.prefix) > 0 {
				return []string{rcSeconds[r.Intn(len(rcSeconds))]}
			}
			return []string{rcTops[r.Intn(len(rcTops))]}
		}
		return sub()
	}
	switch n.shape {
	case 0:
		n.paths, n.vals = [][]string{sub()}, []int64{val()}
	case 1:
		for i, k := 0, 1+r.Intn(3); i < k; i++ {
			n.paths, n.vals = append(n.paths, sub()), append(n.vals, val())
		}
		for i, k := 0, r.Intn(3); i < k; i++ {
			n.dels = append(n.dels, del())
		}
	case 2:
		n.nilPrefix = false
		n.prefix = []string{rcTops[r.Intn(len(rcTops))], "atomic" + rcSeconds[r.Intn(len(rcSeconds))]}
		for i, k := 0, 1+r.Intn(3); i < k; i++ {
			n.paths, n.vals = append(n.paths, []string{rcThirds[r.Intn(len(rcThirds))]}), append(n.vals, val())
		}
	case 3:
		n.dels = [][]string{del()}
	}
	return n
}

// rcGenStream draws the operation sequence of one target's update stream in
// the order the manager produces it: per connection episode Connect (on the
// first message), updates with a Sync somewhere, then - when the stream
// breaks - Reset followed by ConnectError; the last episode may stay up.
func rcGenStream(r *rand.Rand, flapping bool) []rcOp {
	var ops []rcOp
	episodes := 1 + r.Intn(4)
	if flapping {
		episodes = 6 + r.Intn(7)
	}
	for e := 0; e < episodes; e++ {
		if r.Intn(8) == 0 {
			// a connection attempt that fails before any message
			ops = append(ops, rcOp{kind: "connecterr"})
		}
		if e > 0 || r.Intn(5) > 0 {
			ops = append(ops, rcOp{kind: "connect"})
		}
		k := 4 + r.Intn(20)
		if flapping || r.Intn(3) == 0 {
			k = 1 + r.Intn(3) // a flapping connection: it breaks after a few messages
		}
		syncAt := -1
		if k > 0 && r.Intn(5) > 0 {
			syncAt = r.Intn(k)
		}
		for i := 0; i < k; i++ {
			if i == syncAt {
				ops = append(ops, rcOp{kind: "sync"})
			}
			ops = append(ops, rcOp{kind: "noti", n: rcGenNoti(r)})
		}
		if e < episodes-1 || r.Intn(2) == 0 {
			ops = append(ops, rcOp{kind: "reset"})
			if flapping || r.Intn(3) > 0 {
				ops = append(ops, rcOp{kind: "connecterr"})
			}
		}
	}
	return ops
}

func roundSeed(seed int64, round int) int64 { return seed*1_000_003 + int64(round)*7919 + 17 }

// genRaceRound derives the complete workload of one round from (seed, round).
func genRaceRound(seed int64, rounds, round int, rawOrigin bool) *raceRound {
	r := rand.New(rand.NewSource(roundSeed(seed, round)))
	rr := &raceRound{sc: RaceScenario{Seed: seed, Rounds: rounds, Round: round, RawOrigin: rawOrigin}}
	rr.sc.Targets = 1 + r.Intn(3)
	rr.latWindows = r.Intn(3) > 0
	if r.Intn(3) == 0 {
		rr.threshold = time.Duration(1+r.Intn(3)) * time.Second
	}
	rr.eventDriven = r.Intn(4) > 0
	if rr.latWindows && r.Intn(2) == 0 {
		rr.precision = time.Microsecond
	}
	rr.minRefresh = 2 + r.Intn(3)
	rr.flapping = r.Intn(4) == 0
	for i := 0; i < rr.sc.Targets; i++ {
		rr.streams = append(rr.streams, rcGenStream(r, rr.flapping))
	}
	// (drawn last so that the workloads of earlier versions keep their derivation)
	rr.fastClock = rr.latWindows && r.Intn(2) == 0
	rr.sc.Options = fmt.Sprintf("latency_windows=%v avg_precision=%v future_threshold=%v event_driven=%v flapping=%v fast_clock=%v", rr.latWindows, rr.precision, rr.threshold, rr.eventDriven, rr.flapping, rr.fastClock)
	return rr
}

func rcElems(p []string) []*pb.PathElem {
	out := make([]*pb.PathElem, 0, len(p))
	for _, e := range p {
		out = append(out, &pb.PathElem{Name: e})
	}
	return out
}

func (n *rcNoti) build(ts int64) *pb.Notification {
	out := &pb.Notification{Timestamp: ts, Atomic: n.shape == 2}
	if !n.nilPrefix {
		out.Prefix = &pb.Path{Elem: rcElems(n.prefix)}
	}
	for i, p := range n.paths {
		out.Update = append(out.Update, &pb.Update{Path: &pb.Path{Elem: rcElems(p)}, Val: &pb.TypedValue{Value: &pb.TypedValue_IntVal{IntVal: n.vals[i]}}})
	}
	for _, d := range n.dels {
		out.Delete = append(out.Delete, &pb.Path{Elem: rcElems(d)})
	}
	return out
}

// collectorUpdate is the Update closure of cmd/gnmi_collector, verbatim except
// for logging: the target is stamped and an empty origin promoted.
func collectorUpdate(c *cache.Cache, target string, v *pb.Notification, rawOrigin bool) error {
	if prefix := v.GetPrefix(); prefix == nil {
		v.Prefix = &pb.Path{Origin: "openconfig", Target: target}
		if rawOrigin {
			v.Prefix.Origin = ""
		}
	} else {
		if prefix.Origin == "" && !rawOrigin {
			prefix.Origin = "openconfig"
		}
		prefix.Target = target
	}
	return c.GnmiUpdate(v)
}

// raceRoundStats is what happened in one round (for labels and the
// non-triviality rule); everything is observed, nothing is timed.
type raceRoundStats struct {
	firstRefreshOverlapped bool // the first UpdateMetadata returned while update streams were still running
	refreshAfterReset      bool // an UpdateMetadata ran between a Reset and the end of that stream
	sizeOverlapped         bool
	latencyChecked         bool // exported latency statistics were compared with the bounds
	metaCalls, sizeCalls   int64
	resets, syncs          int64
	connErrThenConnect     bool
	accepted, stale        int64
	future, otherErr       int64
	updatesAfterReset      bool
	leaves                 int
	endSynced              []string // targets whose stream's last Sync was not followed by a Reset
	syncLost               []string // ... and whose sync metadata is nevertheless false at the quiescent end
	clockStepped           bool
}

func (s *raceRoundStats) nontrivial() bool {
	return s.firstRefreshOverlapped && s.refreshAfterReset && s.updatesAfterReset && s.syncs > 0
}

func (s *raceRoundStats) labels(rr *raceRound) []string {
	l := []string{fmt.Sprintf("targets-%d", rr.sc.Targets)}
	add := func(b bool, n string) {
		if b {
			l = append(l, n)
		}
	}
	add(s.firstRefreshOverlapped, "first-refresh-overlapped-stream")
	add(s.refreshAfterReset, "refresh-between-reset-and-stream-end")
	add(s.sizeOverlapped, "size-refresh-overlapped-stream")
	add(s.latencyChecked, "latency-stats-bounds-checked")
	add(s.resets > 0, "reset")
	add(s.updatesAfterReset, "updates-after-reset")
	add(s.syncs > 0, "sync")
	add(s.connErrThenConnect, "connecterr-then-connect")
	add(s.stale > 0, "stale-rejected")
	add(s.future > 0, "future-rejected")
	add(s.otherErr > 0, "multi-update-with-rejected-members(error-list)")
	add(s.leaves > 0, "leaves-left-at-quiescence")
	add(len(s.endSynced) > 0, "stream-ended-synced")
	add(len(s.syncLost) > 0, "OBSERVATION(not-C15):sync-false-at-quiescence-after-Sync")
	add(rr.latWindows, "opt-latency-windows")
	add(rr.fastClock, "opt-fast-clock(latency-windows-slide)")
	add(rr.threshold > 0, "opt-future-threshold")
	add(!rr.eventDriven, "opt-event-driven-off")
	add(rr.sc.RawOrigin, "raw-origin")
	add(rr.flapping, "flapping-connections")
	add(s.clockStepped, "wall-clock-stepped-back(tree-leaf-check-skipped)")
	return l
}

var rcClientCalls atomic.Int64

// run executes the round and checks the counter laws at the quiescent end.
func (rr *raceRound) run() (st *raceRoundStats, err error) {
	st = &raceRoundStats{}
	defer func() {
		if r := recover(); r != nil {
			err = fmt.Errorf("panic: %v\n%s", r, trimStack(debug.Stack()))
		}
	}()
	savedCacheNow, savedLatNow := cache.Now, latency.Now
	now := time.Now
	var ticks atomic.Int64
	clockBase := time.Unix(1_700_000_000, 0)
	if rr.fastClock {
		now = func() time.Time { return clockBase.Add(time.Duration(ticks.Add(1)) * 53 * time.Millisecond) }
	}
	cache.Now, latency.Now = now, now
	defer func() { cache.Now, latency.Now = savedCacheNow, savedLatNow }()

	var opts []cache.Option
	if rr.latWindows {
		o, oerr := cache.WithLatencyWindows([]string{"2s", "4s"}, 2*time.Second)
		if oerr != nil {
			return st, fmt.Errorf("infra: WithLatencyWindows: %v", oerr)
		}
		opts = append(opts, o)
		if rr.precision > 0 {
			opts = append(opts, cache.WithAvgLatencyPrecision(rr.precision))
		}
	}
	if rr.threshold > 0 {
		opts = append(opts, cache.WithFutureThreshold(rr.threshold))
	}
	if !rr.eventDriven {
		opts = append(opts, cache.DisableEventDrivenEmulation())
	}
	var names []string
	for i := 0; i < rr.sc.Targets; i++ {
		names = append(names, targetName(i))
	}
	// Everything that is documented as "before use" happens before the
	// goroutines start: option registration inside New, SetClient.
	c := cache.New(names, opts...)
	c.SetClient(func(*ctree.Leaf) { rcClientCalls.Add(1) })

	var (
		start      = make(chan struct{})
		active     atomic.Int64 // update streams still running
		resetsDone atomic.Int64 // Reset calls returned so far
		afterReset atomic.Int64 // streams currently between a Reset and their end
		wg         sync.WaitGroup
		mu         sync.Mutex // protects st fields written by several goroutines
	)
	active.Store(int64(rr.sc.Targets))
	for i := range rr.streams {
		wg.Add(1)
		go func(name string, ops []rcOp) {
			defer wg.Done()
			defer active.Add(-1)
			var accepted, stale, future, other, resets, syncs, connErrs int64
			sawConnErr, pair, didReset, updAfterReset, endsSynced := false, false, false, false, false
			<-start
			last := now().UnixNano()
			for _, op := range ops {
				switch op.kind {
				case "connect":
					c.Connect(name)
					if sawConnErr {
						pair = true
					}
				case "connecterr":
					// the manager reports a different error text almost every time
					connErrs++
					c.ConnectError(name, fmt.Errorf("stream broke (%d)", connErrs%3))
					sawConnErr = true
				case "sync":
					c.Sync(name)
					syncs++
					endsSynced = true
				case "reset":
					c.Reset(name)
					resets++
					endsSynced = false
					resetsDone.Add(1)
					if !didReset {
						didReset = true
						afterReset.Add(1)
						defer afterReset.Add(-1)
					}
				case "noti":
					ts := now().UnixNano()
					switch op.n.tsMode {
					case 1:
						ts = last
					case 2:
						ts = last - 1000
					case 3:
						ts += int64(time.Hour)
					}
					if op.n.tsMode != 3 {
						last = ts
					}
					uerr := collectorUpdate(c, name, op.n.build(ts), rr.sc.RawOrigin)
					switch {
					case uerr == nil:
						accepted++
						if didReset {
							updAfterReset = true
						}
					case errors.Is(uerr, cache.ErrStale):
						stale++
					case errors.Is(uerr, cache.ErrFuture):
						future++
					default:
						other++
					}
				}
			}
			mu.Lock()
			st.accepted += accepted
			st.stale += stale
			st.future += future
			st.otherErr += other
			st.resets += resets
			st.syncs += syncs
			st.connErrThenConnect = st.connErrThenConnect || pair
			st.updatesAfterReset = st.updatesAfterReset || updAfterReset
			if endsSynced {
				st.endSynced = append(st.endSynced, name)
			}
			mu.Unlock()
		}(targetName(i), rr.streams[i])
	}
	var rwg sync.WaitGroup
	rwg.Add(2)
	go func() { // go periodic(*metadataUpdatePeriod, c.cache.UpdateMetadata)
		defer rwg.Done()
		<-start
		for i := 0; ; i++ {
			ar := afterReset.Load() > 0
			c.UpdateMetadata()
			running := active.Load() > 0
			mu.Lock()
			st.metaCalls++
			if i == 0 && running {
				st.firstRefreshOverlapped = true
			}
			if ar && running {
				st.refreshAfterReset = true
			}
			mu.Unlock()
			if !running && i+1 >= rr.minRefresh {
				return
			}
			runtime.Gosched()
		}
	}()
	go func() { // go periodic(*sizeUpdatePeriod, c.cache.UpdateSize)
		defer rwg.Done()
		<-start
		for i := 0; ; i++ {
			c.UpdateSize()
			running := active.Load() > 0
			mu.Lock()
			st.sizeCalls++
			if running {
				st.sizeOverlapped = true
			}
			mu.Unlock()
			if !running && i+1 >= rr.minRefresh {
				return
			}
			runtime.Gosched()
		}
	}()
	close(start)
	wg.Wait()
	rwg.Wait()

	// quiescent point: one last refresh, then the counter laws
	c.UpdateMetadata()
	mds := c.Metadata()
	for _, name := range names {
		data := 0
		var treeLeafCount *int64
		var treeLeafTS int64
		qerr := c.Query(name, []string{"*"}, func(p []string, _ *ctree.Leaf, v interface{}) error {
			if len(p) > 0 && p[0] == metadata.Root {
				if len(p) == 2 && p[1] == metadata.LeafCount {
					if n, ok := v.(*pb.Notification); ok && len(n.GetUpdate()) == 1 {
						x := n.GetUpdate()[0].GetVal().GetIntVal()
						treeLeafCount, treeLeafTS = &x, n.GetTimestamp()
					}
				}
				return nil
			}
			data++
			return nil
		})
		if qerr != nil {
			return st, fmt.Errorf("query %s: %v", name, qerr)
		}
		st.leaves += data
		md := mds[name]
		if md == nil {
			return st, fmt.Errorf("target %s has no metadata", name)
		}
		if rr.fastClock {
			// latency statistics, when exported, are ordered and cannot exceed the time the clock has covered
			elapsed := int64(time.Duration(ticks.Load()+1) * 53 * time.Millisecond)
			for _, win := range []time.Duration{2 * time.Second, 4 * time.Second} {
				mn, e1 := md.GetInt(latency.MetadataName(win, latency.Min))
				av, e2 := md.GetInt(latency.MetadataName(win, latency.Avg))
				mx, e3 := md.GetInt(latency.MetadataName(win, latency.Max))
				if e1 != nil || e2 != nil || e3 != nil {
					continue
				}
				if mn == 0 && av == 0 && mx == 0 {
					continue
				}
				st.latencyChecked = true
				// (timestamps up to one hour ahead of the clock are part of the workload: latencies down to -1h)
				if mn > av || av > mx || mn < -int64(time.Hour)-elapsed || mx > elapsed {
					return st, fmt.Errorf("at the quiescent end %s exports latency statistics for the %v window min=%v avg=%v max=%v; they must be ordered, no latency can exceed the %v the clock covered in this round and none can be below -1h",
						name, win, time.Duration(mn), time.Duration(av), time.Duration(mx), time.Duration(elapsed))
				}
			}
		}
		lc, _ := md.GetInt(metadata.LeafCount)
		ac, _ := md.GetInt(metadata.AddCount)
		dc, _ := md.GetInt(metadata.DelCount)
		if lc != int64(data) {
			return st, fmt.Errorf("at the quiescent end %s reports targetLeaves=%d but %d non-metadata leaves are stored", name, lc, data)
		}
		if ac-dc != lc {
			return st, fmt.Errorf("at the quiescent end %s reports targetLeavesAdded-targetLeavesDeleted=%d-%d but targetLeaves=%d", name, ac, dc, lc)
		}
		for _, es := range st.endSynced {
			if es == name {
				if v, _ := md.GetBool(metadata.Sync); !v {
					st.syncLost = append(st.syncLost, name)
				}
			}
		}
		if treeLeafCount != nil && *treeLeafCount != lc && treeLeafTS > time.Now().UnixNano() {
			// the wall clock stepped backwards: the final refresh was rejected as
			// stale against a leaf "from the future"; not a verdict
			st.clockStepped = true
		} else if treeLeafCount != nil && *treeLeafCount != lc {
			return st, fmt.Errorf("at the quiescent end, after a final UpdateMetadata, the leaf meta/targetLeaves of %s holds %d but the counter is %d", name, *treeLeafCount, lc)
		}
	}
	return st, nil
}

// ---- race detector reports -----------------------------------------------------------------

const gnmiPkgPrefix = "github.com/openconfig/gnmi/"

// raceReport is one parsed "WARNING: DATA RACE" report.
type raceReport struct {
	class string    // "race:<frame>|<frame>", the two top-most gnmi functions, sorted
	funcs [2]string // top-most gnmi function of each access stack ("?" if none)
	where [2]string // its file:line
	text  string
}

var (
	raceAccessHdr = regexp.MustCompile(`^(?:Previous )?(?:[Aa]tomic )?(?:[Rr]ead|[Ww]rite) at 0x[0-9a-f]+ by (?:main goroutine|goroutine \d+).*:$`)
	raceLogPath   = regexp.MustCompile(`(?:^|\s)log_path=(\S+)`)
)

func raceClass(a, b string) string {
	if b < a {
		a, b = b, a
	}
	return "race:" + a + "|" + b
}

// parseRaceReports splits detector output into reports and classifies each by
// the pair of top-most github.com/openconfig/gnmi/ functions of the two
// access stacks. rest is the unterminated tail (a report still being written).
func parseRaceReports(text string) (reports []raceReport, rest string) {
	const delim = "=================="
	var cur []string
	in := false
	pos, openPos := 0, 0
	for _, ln := range strings.SplitAfter(text, "\n") {
		if !strings.HasSuffix(ln, "\n") {
			// an unfinished last line: keep it (and the report it belongs to) for later
			if !in {
				openPos = pos
			}
			return reports, text[openPos:]
		}
		lineStart := pos
		pos += len(ln)
		if strings.TrimRight(ln, "\r\n") == delim {
			if in {
				if rep, ok := classifyRaceReport(cur); ok {
					reports = append(reports, rep)
				}
				cur, in = nil, false
			} else {
				in, cur, openPos = true, nil, lineStart
			}
			continue
		}
		if in {
			cur = append(cur, ln)
		}
	}
	if in {
		return reports, text[openPos:]
	}
	return reports, ""
}

func classifyRaceReport(lines []string) (raceReport, bool) {
	rep := raceReport{text: strings.Join(lines, "")}
	if !strings.Contains(rep.text, "WARNING: DATA RACE") {
		return rep, false
	}
	idx := -1
	inStack := false
	for i := 0; i < len(lines); i++ {
		ln := strings.TrimRight(lines[i], "\r\n")
		if raceAccessHdr.MatchString(ln) {
			idx++
			if idx > 1 {
				break
			}
			rep.funcs[idx], rep.where[idx] = "?", ""
			inStack = true
			continue
		}
		if ln == "" {
			inStack = false
			continue
		}
		if !inStack || idx < 0 || rep.funcs[idx] != "?" {
			continue
		}
		if strings.HasPrefix(ln, "  ") && !strings.HasPrefix(ln, "   ") {
			fn := strings.TrimSpace(ln)
			if k := strings.LastIndex(fn, "("); k > 0 && strings.HasSuffix(fn, ")") {
				fn = fn[:k] // drop the argument list "()"
			}
			if strings.HasPrefix(fn, gnmiPkgPrefix) {
				rep.funcs[idx] = strings.TrimPrefix(fn, gnmiPkgPrefix)
				if i+1 < len(lines) {
					w := strings.Fields(strings.TrimSpace(lines[i+1]))
					if len(w) > 0 {
						rep.where[idx] = w[0]
					}
				}
			}
		}
	}
	if idx < 1 {
		// a report with fewer than two access stacks (should not happen)
		for k := idx + 1; k < 2; k++ {
			rep.funcs[k] = "?"
		}
	}
	rep.class = raceClass(rep.funcs[0], rep.funcs[1])
	return rep, true
}

// raceLog follows the race detector's log files.
type raceLog struct {
	prefix string
	offset map[string]int64
	carry  map[string]string
}

// raceLogFromEnv returns nil when GORACE does not name a log_path.
func raceLogFromEnv() *raceLog {
	m := raceLogPath.FindStringSubmatch(os.Getenv("GORACE"))
	if m == nil {
		return nil
	}
	return &raceLog{prefix: m[1], offset: map[string]int64{}, carry: map[string]string{}}
}

// poll returns the reports completed since the previous call.
func (l *raceLog) poll() []raceReport {
	files, _ := filepath.Glob(l.prefix + ".*")
	sort.Strings(files)
	var out []raceReport
	for _, f := range files {
		fi, err := os.Stat(f)
		if err != nil || fi.Size() <= l.offset[f] {
			continue
		}
		fh, err := os.Open(f)
		if err != nil {
			continue
		}
		buf := make([]byte, fi.Size()-l.offset[f])
		n, _ := fh.ReadAt(buf, l.offset[f])
		fh.Close()
		l.offset[f] += int64(n)
		reps, rest := parseRaceReports(l.carry[f] + string(buf[:n]))
		l.carry[f] = rest
		out = append(out, reps...)
	}
	return out
}

// raceBuild reports whether this binary was built with -race.
func raceBuild() bool {
	bi, ok := debug.ReadBuildInfo()
	if !ok {
		return false
	}
	for _, s := range bi.Settings {
		if s.Key == "-race" && s.Value == "true" {
			return true
		}
	}
	return false
}
