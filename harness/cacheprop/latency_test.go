package cacheprop

import (
	"encoding/json"
	"flag"
	"fmt"
	"sort"
	"testing"

	"pgregory.net/rapid"
	"verif/harness/internal/vstat"
)

var latExactFlag = flag.Bool("c15.exact", false, "latency part: also fail when an exported min/max is not the smallest/largest latency of the window on inputs without a zero-latency sample (package documentation, stronger than property C15)")

// latKnownClasses maps the class name of an open finding listed for C15 (part
// "latency") in the -known file to the compiled-in predicate recognising the
// scenarios of that class. The real latency package satisfies the bound on
// everything explored so far, so the table is empty; the machinery below is
// generic: a listed class with a predicate is probed with its recorded input
// (KNOWN-FINDING while it still fails), its scenarios are excluded from the
// search and counted, and any failure outside the class is a violation.
var latKnownClasses = map[string]func(*LatScenario) bool{}

// TestC15Latency: generated window sets, precisions and sample schedules.
func TestC15Latency(t *testing.T) {
	if !vstat.Enabled("C15") {
		t.Skip()
	}
	latStrict = *latExactFlag
	rec := vstat.New("C15", "latency")
	if latStrict {
		rec.Note("-c15.exact: min/max exactness (package documentation) is demanded in addition to the property's bounds")
	}
	var excl []string
	for class, f := range vstat.OpenClasses("C15") {
		if f.Part != "" && f.Part != "latency" {
			continue // a finding of another part of C15 (counters, race)
		}
		if latKnownClasses[class] == nil {
			if f.Part == "latency" {
				rec.Note("open finding %s (class %q) has no predicate in the latency part; nothing is excluded for it", f.ID, class)
			}
			continue
		}
		excl = append(excl, class)
		if len(f.Input) > 0 {
			var sc LatScenario
			if err := json.Unmarshal(f.Input, &sc); err != nil {
				rec.Note("open finding %s: recorded input unreadable: %v", f.ID, err)
				continue
			}
			if _, err := runLatency(&sc); err != nil {
				rec.KnownFinding(fmt.Sprintf("KNOWN-FINDING: property=C15 %s [%s, class %s]", f.What, f.ID, class))
			} else {
				rec.Note("open finding %s (class %q): the recorded input no longer fails", f.ID, class)
			}
		}
	}
	sort.Strings(excl)
	rec.RunRapid(t, func(rt *rapid.T) {
		sc := genLatScenario(rt)
		for _, class := range excl {
			if latKnownClasses[class](sc) {
				rec.Excluded(class)
				rt.Skip("scenario belongs to the class of an open finding")
			}
		}
		rec.Current(sc)
		st, err := runLatency(sc)
		rec.Case(sc, st.nontrivial(), st.labels()...)
		if err != nil {
			class := "oracle"
			if f, ok := err.(*latFailure); ok {
				class = f.class
			}
			rt.Fatalf("%s", rec.Fail(sc, class, "%v [%s]", err, describeLat(sc)))
		}
	})
}

// replayLatency re-runs a saved latency scenario without the generators.
func replayLatency(rf *vstat.ReplayFile) string {
	var sc LatScenario
	if err := json.Unmarshal(rf.Scenario, &sc); err != nil {
		return "bad scenario: " + err.Error()
	}
	latStrict = *latExactFlag || rf.Class == "exactness"
	if _, err := runLatency(&sc); err != nil {
		return err.Error()
	}
	return ""
}

// TestC15LatencyIrregular: the bound under off-schedule and late refreshes.
func TestC15LatencyIrregular(t *testing.T) {
	if !vstat.Enabled("C15") {
		t.Skip()
	}
	rec := vstat.New("C15", "latency-irregular")
	rec.RunRapid(t, func(rt *rapid.T) {
		sc := genLatIrregular(rt)
		rec.Current(sc)
		st, err := runLatIrregular(sc)
		rec.Case(sc, st.nontrivial(), st.labels()...)
		if err != nil {
			class := "oracle"
			if f, ok := err.(*latFailure); ok {
				class = f.class
			}
			rt.Fatalf("%s", rec.Fail(sc, class, "%v", err))
		}
	})
}

func replayLatIrregular(rf *vstat.ReplayFile) string {
	var sc LatIrregular
	if err := json.Unmarshal(rf.Scenario, &sc); err != nil {
		return "bad scenario: " + err.Error()
	}
	if _, err := runLatIrregular(&sc); err != nil {
		return err.Error()
	}
	return ""
}
