package cacheprop

// C15, part "latency-irregular": the same bound as the latency part, but with
// UpdateReset called off-schedule, as the collector does: Target.Reset calls
// it on every reconnect in addition to the periodic refresh, and a periodic
// refresh can be late. A slot is whatever lies between two consecutive calls;
// at a call at time T a window of size W covers the slots that end after T-W
// (a slot that straddles the cutoff still counts: its samples are "observed in
// that window" only in part, so the bound is taken over the whole slot, which
// can only widen it). A slot that ended at or before T-W must have no
// influence on what is exported.

import (
	"fmt"
	"time"

	"github.com/openconfig/gnmi/latency"
	"pgregory.net/rapid"
)

// LatEvent is one call: a sample (Compute) or a refresh (UpdateReset).
type LatEvent struct {
	Gap     int64 `json:"gap"` // clock advance before the call, ns
	Refresh bool  `json:"refresh,omitempty"`
	Lat     int64 `json:"lat,omitempty"`
}

// LatIrregular is a timeline of calls.
type LatIrregular struct {
	PeriodNs    int64      `json:"period_ns"`
	Windows     []int64    `json:"windows"` // in periods
	PrecisionNs int64      `json:"precision_ns"`
	Events      []LatEvent `json:"events"`
}

func genLatIrregular(t *rapid.T) *LatIrregular {
	sc := &LatIrregular{PeriodNs: int64(2 * time.Second)}
	sc.Windows = rapid.SliceOfNDistinct(rapid.Int64Range(1, 4), 1, 3, func(v int64) int64 { return v }).Draw(t, "windows")
	sc.PrecisionNs = rapid.SampledFrom(latPrecisions).Draw(t, "precision")
	typical := rapid.SampledFrom([]int64{40, 7_000, 3_000_000, 250_000_000}).Draw(t, "typical")
	period := sc.PeriodNs
	ev := func(t *rapid.T) LatEvent {
		e := LatEvent{}
		switch rapid.IntRange(0, 9).Draw(t, "gapkind") {
		case 0:
			e.Gap = 0
		case 1, 2:
			e.Gap = period // on schedule
		case 3:
			e.Gap = period * rapid.Int64Range(2, 5).Draw(t, "late") // a late refresh: several slots age out at once
		default:
			e.Gap = rapid.Int64Range(1, period).Draw(t, "gap")
		}
		if rapid.IntRange(0, 2).Draw(t, "isrefresh") == 0 {
			e.Refresh = true
		} else {
			e.Lat = genLat(sc.PrecisionNs, typical)(t)
			if rapid.IntRange(0, 5).Draw(t, "spike") == 0 {
				e.Lat = typical * 1000
			}
			if e.Gap > period {
				e.Gap = rapid.Int64Range(1, period).Draw(t, "samplegap")
			}
		}
		return e
	}
	sc.Events = rapid.SliceOfN(rapid.Custom(ev), 4, 40).Draw(t, "events")
	return sc
}

type latIrrStats struct {
	exported, lateRefresh, offSchedule, slotDropped, multiDrop bool
}

func (s *latIrrStats) nontrivial() bool {
	return s.exported && s.slotDropped && (s.lateRefresh || s.offSchedule)
}

func (s *latIrrStats) labels() []string {
	var l []string
	add := func(b bool, n string) {
		if b {
			l = append(l, n)
		}
	}
	add(s.exported, "exported-some-statistic")
	add(s.lateRefresh, "late-refresh(gap>period)")
	add(s.offSchedule, "off-schedule-refresh(gap<period)")
	add(s.slotDropped, "slot-aged-out-of-a-window")
	add(s.multiDrop, "2plus-slots-aged-out-at-one-refresh")
	return l
}

func runLatIrregular(sc *LatIrregular) (st *latIrrStats, err error) {
	st = &latIrrStats{}
	if sc.PeriodNs <= 0 || len(sc.Windows) == 0 {
		return st, &latFailure{"infra", "bad scenario"}
	}
	savedNow := latency.Now
	defer func() { latency.Now = savedNow }()
	defer func() {
		if r := recover(); r != nil {
			err = &latFailure{"panic", fmt.Sprintf("panic in the code under test: %v", r)}
		}
	}()
	clock := latBase
	latency.Now = func() time.Time { return time.Unix(0, clock) }
	period := time.Duration(sc.PeriodNs)
	var durs []time.Duration
	for _, k := range sc.Windows {
		durs = append(durs, time.Duration(k)*period)
	}
	var opts *latency.Options
	if sc.PrecisionNs != 1 {
		opts = &latency.Options{AvgPrecision: time.Duration(sc.PrecisionNs)}
	}
	l := latency.New(durs, opts)
	type key struct {
		w   int
		typ latency.StatType
	}
	names := map[string]key{}
	for i, d := range durs {
		for _, typ := range []latency.StatType{latency.Avg, latency.Max, latency.Min} {
			names[latency.MetadataName(d, typ)] = key{i, typ}
		}
	}
	type slot struct {
		end  int64
		lats []int64
	}
	var slots []slot
	var cur []int64
	m := &latMeta{}
	prevLive := make([]int, len(durs))
	for i, e := range sc.Events {
		clock += e.Gap
		if !e.Refresh {
			l.Compute(time.Unix(0, clock-e.Lat))
			cur = append(cur, e.Lat)
			continue
		}
		if e.Gap > sc.PeriodNs {
			st.lateRefresh = true
		} else if e.Gap < sc.PeriodNs {
			st.offSchedule = true
		}
		slots = append(slots, slot{clock, cur})
		cur = nil
		m.cur, m.inCall = nil, true
		l.UpdateReset(m)
		m.inCall = false
		for w, d := range durs {
			live := 0
			for _, s := range slots {
				if s.end > clock-int64(d) && len(s.lats) > 0 {
					live++
				}
			}
			nonEmpty := 0
			for _, s := range slots {
				if len(s.lats) > 0 {
					nonEmpty++
				}
			}
			_ = nonEmpty
			// how many non-empty slots left this window at this refresh
			dropped := prevLive[w] - live
			if len(slots[len(slots)-1].lats) > 0 {
				dropped++
			}
			if dropped >= 1 {
				st.slotDropped = true
			}
			if dropped >= 2 {
				st.multiDrop = true
			}
			prevLive[w] = live
		}
		for _, x := range m.cur {
			k, ok := names[x.name]
			if !ok {
				continue
			}
			st.exported = true
			cutoff := clock - int64(durs[k.w])
			var lo, hi int64
			n := 0
			for _, s := range slots {
				if s.end <= cutoff {
					continue
				}
				for _, v := range s.lats {
					if n == 0 || v < lo {
						lo = v
					}
					if n == 0 || v > hi {
						hi = v
					}
					n++
				}
			}
			what := fmt.Sprintf("call %d (UpdateReset at +%v): window %v exported %s=%d", i, time.Duration(clock-latBase), durs[k.w], x.name, x.value)
			if n == 0 {
				return st, &latFailure{"oracle", what + ", but no latency was observed in any slot that ends inside the window"}
			}
			tol := int64(0)
			if k.typ == latency.Avg {
				tol = sc.PrecisionNs
			}
			if x.value < lo-tol || x.value > hi+tol {
				return st, &latFailure{"oracle", what + fmt.Sprintf(", outside [%d, %d] = smallest and largest latency observed in the slots that end inside the window (tolerance %dns): a slot that ended at or before the cutoff still influences the statistic", lo, hi, tol)}
			}
		}
	}
	return st, nil
}
