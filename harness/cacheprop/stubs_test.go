package cacheprop

import "verif/harness/internal/vstat"

func replayRace(rf *vstat.ReplayFile) string    { return "race replay not built" }
