package cacheprop

import "verif/harness/internal/vstat"

func replayLatency(rf *vstat.ReplayFile) string { return "latency replay not built" }
func replayRace(rf *vstat.ReplayFile) string    { return "race replay not built" }
