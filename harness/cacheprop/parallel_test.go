package cacheprop

import (
	"encoding/json"
	"errors"
	"flag"
	"fmt"
	"sync"
	"testing"

	"github.com/openconfig/gnmi/cache"
	"github.com/openconfig/gnmi/ctree"
	"github.com/openconfig/gnmi/metadata"
	pb "github.com/openconfig/gnmi/proto/gnmi"
	"pgregory.net/rapid"
	"verif/harness/internal/gn"
	"verif/harness/internal/vstat"
)

// C02, part "parallel": the same timestamp discipline when the notifications
// of one target arrive on several goroutines at once, each goroutine writing
// its OWN leaves (the cache documents that the target's latest timestamp only
// grows "regardless of the order in which updates are processed in parallel by
// multiple goroutines"; it makes no such promise for two goroutines racing on
// one leaf — there the stale check and the store are separate steps, see
// DESIGN.md 10.3 — so that is not generated). Real scheduler, aligned starts,
// many rounds per case. The oracle holds under every schedule because every
// leaf sees its updates in one goroutine's program order and all timestamps
// are distinct: (1) every leaf ends up holding the update with the greatest
// timestamp submitted to it, (2) each result is what the sequential discipline
// of that leaf says (accepted iff newer than everything before it), (3) the
// target's latest accepted timestamp is the greatest timestamp submitted.

var c02Rounds = flag.Int("c02.rounds", 150, "aligned-start rounds per case of the parallel part")

type ParUpd struct {
	Leaf int   `json:"leaf"`
	TS   int64 `json:"ts"` // rank; the timestamp is base+rank, ranks are distinct within the case
}

type ParScenario struct {
	Leaves int        `json:"leaves"`
	G      [][]ParUpd `json:"g"` // per goroutine, in submission order
	Rounds int        `json:"rounds"`
}

func genPar(t *rapid.T) *ParScenario {
	sc := &ParScenario{Leaves: rapid.IntRange(1, 2).Draw(t, "leaves"), Rounds: *c02Rounds}
	g := rapid.IntRange(2, 4).Draw(t, "goroutines")
	total := 0
	for i := 0; i < g; i++ {
		n := rapid.IntRange(1, 3).Draw(t, "n")
		var us []ParUpd
		for j := 0; j < n; j++ {
			// leaves i*Leaves .. i*Leaves+Leaves-1 belong to goroutine i
			us = append(us, ParUpd{Leaf: i*sc.Leaves + rapid.IntRange(0, sc.Leaves-1).Draw(t, "leaf")})
			total++
		}
		sc.G = append(sc.G, us)
	}
	ranks := rapid.Permutation(seqInts(total)).Draw(t, "ranks")
	k := 0
	for i := range sc.G {
		for j := range sc.G[i] {
			sc.G[i][j].TS = int64(ranks[k]) + 1
			k++
		}
	}
	return sc
}

func seqInts(n int) []int {
	out := make([]int, n)
	for i := range out {
		out[i] = i
	}
	return out
}

func runPar(sc *ParScenario) (err error) {
	defer func() {
		if r := recover(); r != nil {
			err = fmt.Errorf("panic: %v", r)
		}
	}()
	const base = int64(1_000_000)
	leafPath := func(i int) []string { return []string{"a", fmt.Sprintf("l%d", i)} }
	want := map[int]int64{}
	var globalMax int64
	for _, us := range sc.G {
		for _, u := range us {
			if u.TS > want[u.Leaf] {
				want[u.Leaf] = u.TS
			}
			if u.TS > globalMax {
				globalMax = u.TS
			}
		}
	}
	for round := 0; round < sc.Rounds; round++ {
		c := cache.New([]string{"t0"})
		results := make([][]error, len(sc.G))
		start := make(chan struct{})
		var wg sync.WaitGroup
		for gi, us := range sc.G {
			results[gi] = make([]error, len(us))
			wg.Add(1)
			go func(gi int, us []ParUpd) {
				defer wg.Done()
				<-start
				for j, u := range us {
					n := &pb.Notification{Timestamp: base + u.TS, Prefix: &pb.Path{Target: "t0"},
						Update: []*pb.Update{{Path: gn.Path("", "", []gn.Elem{{Name: "a"}, {Name: fmt.Sprintf("l%d", u.Leaf)}}, false, 0), Val: gn.Val{Kind: "int", I: u.TS}.TV()}}}
					results[gi][j] = c.GnmiUpdate(n)
				}
			}(gi, us)
		}
		close(start)
		wg.Wait()
		for gi, us := range sc.G {
			for j, u := range us {
				e := results[gi][j]
				if e != nil && !errors.Is(e, cache.ErrStale) {
					return fmt.Errorf("round %d: update of leaf %d at rank %d returned %v (neither accepted nor stale)", round, u.Leaf, u.TS, e)
				}
			}
			// per-leaf sequential discipline in this goroutine's program order
			newest := map[int]int64{}
			for j, u := range us {
				accepted := results[gi][j] == nil
				if wantAcc := u.TS > newest[u.Leaf]; accepted != wantAcc {
					return fmt.Errorf("round %d: goroutine %d update %d of leaf %d at rank %d: accepted=%v, the leaf held rank %d before (only this goroutine writes it)", round, gi, j, u.Leaf, u.TS, accepted, newest[u.Leaf])
				}
				if accepted {
					newest[u.Leaf] = u.TS
				}
			}
		}
		for l, w := range want {
			var got *pb.Notification
			c.Query("t0", leafPath(l), func(_ []string, _ *ctree.Leaf, v interface{}) error {
				got, _ = v.(*pb.Notification)
				return nil
			})
			if got == nil || got.Timestamp != base+w {
				return fmt.Errorf("round %d: leaf %d holds %v, the newest update submitted has timestamp %d (rank %d)", round, l, got, base+w, w)
			}
		}
		c.UpdateMetadata()
		var latest *pb.Notification
		c.Query("t0", []string{metadata.Root, metadata.LatestTimestamp}, func(_ []string, _ *ctree.Leaf, v interface{}) error {
			latest, _ = v.(*pb.Notification)
			return nil
		})
		if latest == nil || len(latest.Update) != 1 || latest.Update[0].GetVal().GetIntVal() != base+globalMax {
			return fmt.Errorf("round %d: the target's latest accepted timestamp is reported as %v, the greatest accepted timestamp is %d (updates ran on %d goroutines)", round, latest.GetUpdate(), base+globalMax, len(sc.G))
		}
	}
	return nil
}

func TestC02Parallel(t *testing.T) {
	if !vstat.Enabled("C02") {
		t.Skip()
	}
	rec := vstat.New("C02", "parallel")
	rec.RunRapid(t, func(rt *rapid.T) {
		sc := genPar(rt)
		err := runPar(sc)
		// non-trivial: the goroutine holding the greatest timestamp is not the one that finishes with it
		// (some other goroutine submits a smaller timestamp as its last update)
		var maxG int
		var maxTS int64
		for gi, us := range sc.G {
			for _, u := range us {
				if u.TS > maxTS {
					maxTS, maxG = u.TS, gi
				}
			}
		}
		labels := []string{fmt.Sprintf("goroutines=%d", len(sc.G))}
		rec.Case(sc, len(sc.G[maxG]) > 0 && len(sc.G) > 1, labels...)
		if err != nil {
			rt.Fatalf("%s", rec.Fail(sc, "parallel", "%v", err))
		}
	})
}

func replayPar(rf *vstat.ReplayFile) string {
	var sc ParScenario
	if err := json.Unmarshal(rf.Scenario, &sc); err != nil {
		return "bad scenario: " + err.Error()
	}
	if sc.Leaves < 1 || len(sc.G) == 0 {
		return "bad scenario"
	}
	sc.Rounds *= 20
	if err := runPar(&sc); err != nil {
		return err.Error()
	}
	return ""
}
