package cacheprop

import (
	"encoding/json"
	"testing"

	"pgregory.net/rapid"
	"verif/harness/internal/vstat"
)

func nPartTest(t *testing.T, part string, gen func(*rapid.T) *NScenario) {
	if !vstat.Enabled("C15") {
		t.Skip()
	}
	rec := vstat.New("C15", part)
	rec.RunRapid(t, func(rt *rapid.T) {
		sc := gen(rt)
		rec.Current(sc)
		st, err := runNScenario(sc, part)
		rec.Case(sc, st.nontrivial(part), st.labels(part)...)
		if err != nil {
			class := "oracle"
			if f, ok := err.(*nFailure); ok {
				class = f.class
			}
			rt.Fatalf("%s", rec.Fail(sc, class, "%v", err))
		}
	})
}

// TestC15Nested: operations on other targets run while an operation is inside
// a change-feed callback; cumulative counter laws against a sequential per-target model.
func TestC15Nested(t *testing.T) { nPartTest(t, "nested", genNested) }

// TestC15CacheLatency: latency statistics exported by the cache are bounded by
// the latencies of the updates accepted while the target was in sync.
func TestC15CacheLatency(t *testing.T) { nPartTest(t, "cache-latency", genCacheLat) }

func replayN(rf *vstat.ReplayFile) string {
	var sc NScenario
	if err := json.Unmarshal(rf.Scenario, &sc); err != nil {
		return "bad scenario: " + err.Error()
	}
	if _, err := runNScenario(&sc, rf.Part); err != nil {
		return err.Error()
	}
	return ""
}
