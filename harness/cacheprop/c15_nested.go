package cacheprop

// C15, parts "nested" and "cache-latency": the counter laws and the latency
// bound of the property at CACHE level, with their own small model.
//
// nested: the harness owns the cache's change-feed callback (SetClient). While
// ANY cache operation (UpdateMetadata, Reset, a GnmiUpdate, Sync, Connect,
// ConnectError) is inside its k-th callback invocation, a generated sequence
// of operations on OTHER targets runs - re-entrantly on the same goroutine or
// on a second goroutine that is joined before the callback returns. Either is
// one interleaving of two goroutines (the callback is made with no write lock
// of the cache and no tree lock held; the nested operations need the cache's
// read lock only: no Add/Remove/SetClient), so every law that holds under all
// interleavings must hold: per-target histories are sequential, only the
// interleaving ACROSS targets and with the refresh varies. The cumulative
// counters of every target are therefore exactly what a sequential per-target
// model says, after the outer operation returned and - for the exported
// leaves - after one more undisturbed UpdateMetadata. The clock either
// advances on every reading ("tick": timestamps taken at different instants
// differ), before every operation incl. nested ones ("op") or only between
// steps ("step").
//
// cache-latency: caches created WithLatencyWindows; the model records the
// latency (clock - timestamp) of every ACCEPTED, NOT SUPPRESSED non-metadata
// update that arrived while its target was in sync (after Sync, before the
// next Reset): gnmiUpdate feeds latency.Compute for new leaves and for
// replaced leaves whose value was fed to the client, and only while the
// target's sync flag is set; stale, suppressed, deleted and metadata updates
// are never measured. Slots are what lies between two consecutive refreshes
// of that target (UpdateMetadata, and Reset which refreshes too); at a refresh
// at time T a window W covers the slots that end after T-W (the rule of the
// latency-irregular part). Every statistic the refresh newly sets (absent
// before or different from before; Reset clears first) must lie within
// [min, max] of the in-sync latencies of the covered slots (avg: up to the
// averaging precision), and nothing may be newly set when there is none.

import (
	"fmt"
	"runtime/debug"
	"sort"
	"time"

	"github.com/openconfig/gnmi/cache"
	"github.com/openconfig/gnmi/ctree"
	"github.com/openconfig/gnmi/latency"
	"github.com/openconfig/gnmi/metadata"
	pb "github.com/openconfig/gnmi/proto/gnmi"
	"pgregory.net/rapid"
)

// ---- scenario ------------------------------------------------------------------------

// nSyncLeaf is the leaf code of meta/sync: an update of it carries the boolean V != 0. The cache takes such an
// update like a Sync call or its opposite: the sync state follows every one it processes, in the order of the
// notification's entries, whatever then becomes of the leaf (stale, suppressed, stored).
const nSyncLeaf = 6

// NUpd is one update of a notification: leaf code 0..5 (a|b / x|y|z), or nSyncLeaf, and value.
type NUpd struct {
	P int   `json:"p"`
	V int64 `json:"v"`
}

// NNoti is one notification for a target.
type NNoti struct {
	// TsKind 0: timestamp = clock - Lat; 1: the timestamp of the leaf stored at
	// the first path (else as 0); 2: one less than that.
	TsKind int    `json:"tsk,omitempty"`
	Lat    int64  `json:"lat,omitempty"`
	Upd    []NUpd `json:"upd,omitempty"`
	Del    []int  `json:"del,omitempty"` // 0..5 a leaf, 6/7 the subtree a / b
}

// NOp is one cache operation. Kind: upd connect sync connerr reset updmeta updsize.
type NOp struct {
	Kind string `json:"k"`
	// T is the target index of a top-level operation; for a nested operation
	// it selects one of the targets other than the one whose callback hosts it.
	T   int    `json:"t,omitempty"`
	Gap int64  `json:"gap,omitempty"` // clock advance before the operation, ns
	N   *NNoti `json:"n,omitempty"`
	Msg int    `json:"msg,omitempty"`
}

// NStep is a top-level operation, optionally hosting nested ones inside its Host-th callback.
type NStep struct {
	NOp
	Host      int   `json:"host,omitempty"`
	Nested    []NOp `json:"nested,omitempty"`
	Goroutine bool  `json:"goroutine,omitempty"`
	Audit     bool  `json:"audit,omitempty"` // follow with an undisturbed UpdateMetadata and compare the exported leaves
}

// NScenario is a complete history.
type NScenario struct {
	Targets       int     `json:"targets"`
	Clock         string  `json:"clock"` // tick | op | step
	PeriodNs      int64   `json:"period_ns,omitempty"`
	Windows       []int64 `json:"windows,omitempty"` // in periods; empty: no latency windows
	PrecisionNs   int64   `json:"precision_ns,omitempty"`
	NoEventDriven bool    `json:"no_event_driven,omitempty"`
	Steps         []NStep `json:"steps"`
}

const (
	nBase   = int64(1_700_000_000_000_000_000)
	nTickNs = int64(1000)
)

var nFirst = []string{"a", "b"}
var nSecond = []string{"x", "y", "z"}
var nMsgs = []string{"dial failed", "timeout", ""}

// ---- generators ----------------------------------------------------------------------

func genNNoti(t *rapid.T, lat func(*rapid.T) int64) *NNoti {
	n := &NNoti{Lat: lat(t)}
	switch rapid.IntRange(0, 9).Draw(t, "tskind") {
	case 0, 1:
		n.TsKind = 1
	case 2:
		n.TsKind = 2
	}
	upd := func(t *rapid.T) NUpd {
		if rapid.IntRange(0, 7).Draw(t, "syncleaf") == 0 {
			// the target's sync leaf written by a notification (the cache mirrors it into its sync state)
			return NUpd{P: nSyncLeaf, V: rapid.Int64Range(0, 1).Draw(t, "v")}
		}
		return NUpd{P: rapid.IntRange(0, 5).Draw(t, "p"), V: rapid.Int64Range(0, 2).Draw(t, "v")}
	}
	switch rapid.IntRange(0, 11).Draw(t, "shape") {
	case 0:
		// empty notification
	case 1:
		n.Del = []int{rapid.IntRange(0, 7).Draw(t, "d")}
	case 2:
		n.Upd = rapid.SliceOfN(rapid.Custom(upd), 0, 3).Draw(t, "upds")
		n.Del = rapid.SliceOfN(rapid.IntRange(0, 7), 0, 2).Draw(t, "dels")
	case 3:
		n.Upd = rapid.SliceOfN(rapid.Custom(upd), 2, 4).Draw(t, "upds")
	default:
		n.Upd = []NUpd{upd(t)}
	}
	return n
}

func genNOp(t *rapid.T, targets int, weights []int, lat func(*rapid.T) int64, gap func(*rapid.T) int64) NOp {
	kinds := []string{"upd", "updmeta", "reset", "connect", "sync", "connerr", "updsize"}
	total := 0
	for _, w := range weights {
		total += w
	}
	x := rapid.IntRange(0, total-1).Draw(t, "kind")
	k := 0
	for x >= weights[k] {
		x -= weights[k]
		k++
	}
	op := NOp{Kind: kinds[k], Gap: gap(t)}
	if op.Kind != "updmeta" && op.Kind != "updsize" {
		op.T = rapid.IntRange(0, targets-1).Draw(t, "t")
	}
	switch op.Kind {
	case "upd":
		op.N = genNNoti(t, lat)
	case "connerr":
		op.Msg = rapid.IntRange(0, len(nMsgs)-1).Draw(t, "msg")
	}
	return op
}

// genNested draws the scenarios of part "nested".
func genNested(t *rapid.T) *NScenario {
	sc := &NScenario{Targets: rapid.IntRange(2, 4).Draw(t, "targets")}
	sc.Clock = rapid.SampledFrom([]string{"tick", "tick", "op", "op", "step"}).Draw(t, "clock")
	sc.NoEventDriven = rapid.IntRange(0, 7).Draw(t, "noev") == 0
	lat := func(t *rapid.T) int64 {
		return rapid.SampledFrom([]int64{0, 1, 7, 1_000_000, 3_000_000_000}).Draw(t, "lat")
	}
	gap := func(t *rapid.T) int64 {
		return rapid.SampledFrom([]int64{1, 1, 50, 1_000_000_000}).Draw(t, "gap")
	}
	ngap := func(t *rapid.T) int64 {
		return rapid.SampledFrom([]int64{0, 1, 1, 50, 1_000_000}).Draw(t, "ngap")
	}
	top := []int{40, 24, 8, 8, 8, 4, 3}
	inner := []int{36, 10, 18, 12, 12, 6, 3}
	step := func(t *rapid.T) NStep {
		s := NStep{NOp: genNOp(t, sc.Targets, top, lat, gap)}
		if s.Kind != "updsize" && rapid.IntRange(0, 9).Draw(t, "nest") < 5 {
			s.Host = rapid.SampledFrom([]int{1, 1, 1, 2, 2, 3, 4, 6}).Draw(t, "host")
			n := rapid.IntRange(1, 8).Draw(t, "nnested")
			// a nested sequence mostly stays with one target (a reconnect is several calls for one target)
			stick := rapid.IntRange(0, 3).Draw(t, "stick") > 0
			st := rapid.IntRange(0, sc.Targets-2).Draw(t, "sticktarget")
			for i := 0; i < n; i++ {
				op := genNOp(t, sc.Targets-1, inner, lat, ngap)
				if stick && op.Kind != "updmeta" && op.Kind != "updsize" {
					op.T = st
				}
				s.Nested = append(s.Nested, op)
			}
			s.Goroutine = rapid.Bool().Draw(t, "goroutine")
		}
		s.Audit = rapid.IntRange(0, 2).Draw(t, "audit") == 0
		return s
	}
	sc.Steps = rapid.SliceOfN(rapid.Custom(step), 3, 14).Draw(t, "steps")
	if rapid.IntRange(0, 2).Draw(t, "longer") > 0 {
		sc.Steps = append(sc.Steps, rapid.SliceOfN(rapid.Custom(step), 4, 14).Draw(t, "more")...)
	}
	return sc
}

// genCacheLat draws the scenarios of part "cache-latency".
func genCacheLat(t *rapid.T) *NScenario {
	sc := &NScenario{Targets: rapid.IntRange(1, 3).Draw(t, "targets"), Clock: "step"}
	sc.PeriodNs = rapid.SampledFrom([]int64{int64(time.Second), int64(2 * time.Second)}).Draw(t, "period")
	sc.Windows = rapid.SliceOfNDistinct(rapid.Int64Range(1, 4), 1, 3, func(v int64) int64 { return v }).Draw(t, "windows")
	sc.PrecisionNs = rapid.SampledFrom(latPrecisions).Draw(t, "precision")
	sc.NoEventDriven = rapid.IntRange(0, 7).Draw(t, "noev") == 0
	typical := rapid.SampledFrom([]int64{7_000, 3_000_000, 250_000_000, 1_000_000_000}).Draw(t, "typical")
	lat := func(t *rapid.T) int64 {
		switch rapid.IntRange(0, 9).Draw(t, "latclass") {
		case 0:
			return typical * 1000 // a replayed old leaf
		case 1:
			return genLat(sc.PrecisionNs, typical)(t)
		case 2:
			return typical
		default:
			return typical + rapid.Int64Range(-3, 3).Draw(t, "jitter")*(typical/16+1)
		}
	}
	period := sc.PeriodNs
	gap := func(t *rapid.T) int64 {
		switch rapid.IntRange(0, 9).Draw(t, "gapkind") {
		case 0:
			return 0
		case 1, 2, 3:
			return period
		case 4, 5:
			return period / 2
		case 6:
			return period * rapid.Int64Range(2, 4).Draw(t, "late")
		default:
			return rapid.Int64Range(1, period).Draw(t, "gap")
		}
	}
	weights := []int{44, 24, 9, 7, 10, 3, 2}
	step := func(t *rapid.T) NStep {
		s := NStep{NOp: genNOp(t, sc.Targets, weights, lat, gap)}
		if s.Kind == "upd" && rapid.IntRange(0, 3).Draw(t, "plain") > 0 {
			s.N.TsKind = 0
		}
		return s
	}
	sc.Steps = rapid.SliceOfN(rapid.Custom(step), 6, 24).Draw(t, "steps")
	if rapid.IntRange(0, 3).Draw(t, "longer") > 0 {
		sc.Steps = append(sc.Steps, rapid.SliceOfN(rapid.Custom(step), 8, 30).Draw(t, "more")...)
	}
	return sc
}

// ---- model ---------------------------------------------------------------------------

type nLeaf struct {
	ts  int64
	val int64
}

// nMeta is a metadata leaf that lifecycle calls write through GnmiUpdate.
type nMeta struct {
	exists bool
	at     int64 // clock of the write (meaningless with the tick clock: every reading is newer)
	val    string
}

type nSlot struct {
	end  int64
	lats []int64 // latencies of accepted updates received in sync
	pre  int     // accepted updates received between a Reset (of a target that was in sync) and the next Sync
}

type nTarget struct {
	leaves                                            map[int]nLeaf
	sync, conn, cerr                                  nMeta
	updated, suppressed, stale, empty, added, deleted int64
	submitted                                         int64
	latest                                            int64
	hasLatest                                         bool
	inSync, connected, everSynced, resetAfterSync     bool
	cerrSet                                           bool
	cerrVal                                           string
	cur                                               []int64
	curPre                                            int
	slots                                             []nSlot
}

func newNTarget() *nTarget { return &nTarget{leaves: map[int]nLeaf{}} }

type nStats struct {
	hosted, hostMissed, reentrant, goroutine                  bool
	hostedIn                                                  map[string]bool
	nestedReset, nestedResetThenChange, passResetThenChange   bool
	nestedPass, audited                                       bool
	stale, suppressed, sameInstantStale, deleteMatched, empty bool
	connErrSurvivedReset, connErrKeptBySameInstantConnect     bool
	clock                                                     string
	resetAfterSync, preSyncAccepted, exportedNew, retained    bool
	exportWithPreInWindow, exportAfterReset, staleLatencyLeaf bool
	inSyncSample, multiWindow, suppressedInSync               bool
	syncLeafByNotification, unsyncedMidNotification           bool
	maxNested                                                 int
}

func (s *nStats) labels(part string) []string {
	var l []string
	add := func(b bool, n string) {
		if b {
			l = append(l, n)
		}
	}
	add(s.stale, "stale-update")
	add(s.suppressed, "suppressed-update")
	add(s.sameInstantStale, "lifecycle-write-stale(same-instant-same-value)")
	add(s.deleteMatched, "delete-removed-leaf")
	add(s.empty, "empty-notification")
	add(s.connErrSurvivedReset, "connectError-leaf-outlived-reset-then-written-again")
	add(s.connErrKeptBySameInstantConnect, "connectError-leaf-kept-by-connect-at-same-instant")
	if part == "nested" {
		add(true, "clock-"+s.clock)
		add(s.hosted, "nested-ops-ran-inside-a-callback")
		add(s.hostMissed, "host-callback-not-reached(nested-ran-after)")
		add(s.reentrant, "nested-reentrant-same-goroutine")
		add(s.goroutine, "nested-on-second-goroutine")
		for k := range s.hostedIn {
			add(true, "hosted-in-"+k)
		}
		add(s.nestedReset, "nested-reset")
		add(s.nestedResetThenChange, "nested-reset-then-counter-change-same-target")
		add(s.passResetThenChange, "refresh-pass-hosted-reset-then-counter-change(advancing-clock)")
		add(s.nestedPass, "nested-refresh-pass-inside-an-operation")
		add(s.audited, "exported-leaves-compared-after-undisturbed-refresh")
		add(s.maxNested >= 4, "nested-sequence>=4")
	} else {
		add(s.inSyncSample, "in-sync-sample")
		add(s.syncLeafByNotification, "sync-leaf-written-by-a-notification")
		add(s.unsyncedMidNotification, "notification-takes-the-target-out-of-sync-before-its-data-entries")
		add(s.suppressedInSync, "suppressed-update-in-sync(not-measured)")
		add(s.resetAfterSync, "reset-of-a-synced-target")
		add(s.preSyncAccepted, "accepted-update-between-reset-and-next-sync")
		add(s.exportedNew, "statistic-newly-exported")
		add(s.retained, "statistic-unchanged-at-refresh(not-judged)")
		add(s.exportAfterReset, "statistic-exported-by-reset-itself")
		add(s.exportWithPreInWindow, "export-while-window-covers-pre-sync-updates-after-reset")
		add(s.staleLatencyLeaf, "latency-leaf-left-behind-without-metadata-value")
		add(s.multiWindow, "multi-window")
	}
	sort.Strings(l)
	return l
}

func (s *nStats) nontrivial(part string) bool {
	if part == "nested" {
		return s.passResetThenChange
	}
	return s.exportWithPreInWindow
}

type nFailure struct{ class, msg string }

func (f *nFailure) Error() string { return f.msg }

// ---- world ---------------------------------------------------------------------------

type nWorld struct {
	sc      *NScenario
	c       *cache.Cache
	clock   int64
	tick    bool
	model   []*nTarget
	st      nStats
	durs    []time.Duration
	step    int
	armed   *NStep
	cbCount int
	inNest  bool
	hosted  bool
	nestErr any
	desc    string
}

func nName(i int) string { return fmt.Sprintf("dev%d", i) }

func (w *nWorld) failf(format string, a ...any) {
	panic(&nFailure{"oracle", fmt.Sprintf("step %d (%s): ", w.step, w.desc) + fmt.Sprintf(format, a...)})
}

func (w *nWorld) now() time.Time {
	if w.tick {
		w.clock += nTickNs
	}
	return time.Unix(0, w.clock)
}

func nPath(code int) []string { return []string{nFirst[code/3], nSecond[code%3]} }

func nDelPath(code int) []string {
	if code >= 6 {
		return []string{nFirst[code-6]}
	}
	return nPath(code)
}

func nPbPath(p []string) *pb.Path {
	r := &pb.Path{}
	for _, e := range p {
		r.Elem = append(r.Elem, &pb.PathElem{Name: e})
	}
	return r
}

func (w *nWorld) timestamp(m *nTarget, n *NNoti) int64 {
	ts := w.clock - n.Lat
	if n.TsKind != 0 {
		first := -1
		if len(n.Upd) > 0 {
			first = n.Upd[0].P
		} else if len(n.Del) > 0 && n.Del[0] < 6 {
			first = n.Del[0]
		}
		if l, ok := m.leaves[first]; ok {
			ts = l.ts
			if n.TsKind == 2 {
				ts--
			}
		} else if first == nSyncLeaf && m.sync.exists {
			ts = m.sync.at
			if n.TsKind == 2 {
				ts--
			}
		}
	}
	return ts
}

// sample: gnmiUpdate measures the latency of an update it hands to the client, while the sync flag is set.
func (w *nWorld) sample(m *nTarget, ts int64) {
	if m.inSync {
		m.cur = append(m.cur, w.clock-ts)
		w.st.inSyncSample = true
	} else if m.resetAfterSync {
		m.curPre++
		w.st.preSyncAccepted = true
	}
}

func (w *nWorld) modelNoti(m *nTarget, ts int64, n *NNoti) {
	ev := !w.sc.NoEventDriven
	if len(n.Upd)+len(n.Del) == 0 {
		m.empty++
		w.st.empty = true
		return
	}
	accepted := false
	for i, u := range n.Upd {
		m.submitted++
		if u.P == nSyncLeaf {
			val := u.V != 0
			if !val && m.inSync && i+1 < len(n.Upd) && n.Upd[i+1].P != nSyncLeaf {
				w.st.unsyncedMidNotification = true
			}
			w.st.syncLeafByNotification = true
			m.inSync = val
			if val {
				m.everSynced, m.resetAfterSync = true, false
			}
			l := &m.sync
			switch {
			case !l.exists:
				*l = nMeta{true, ts, bstr(val)}
				m.updated++
				accepted = true
			case ts < l.at, ts == l.at && l.val == bstr(val):
				m.stale++
				w.st.stale = true
			default:
				same := l.val == bstr(val)
				l.at, l.val = ts, bstr(val)
				accepted = true
				if same && ev {
					m.suppressed++
					w.st.suppressed = true
				} else {
					m.updated++
				}
			}
			continue
		}
		old, ok := m.leaves[u.P]
		switch {
		case !ok:
			m.leaves[u.P] = nLeaf{ts, u.V}
			m.added++
			m.updated++
			accepted = true
			w.sample(m, ts)
		case ts < old.ts, ts == old.ts && old.val == u.V:
			m.stale++
			w.st.stale = true
		default:
			m.leaves[u.P] = nLeaf{ts, u.V}
			accepted = true
			if old.val == u.V && ev {
				m.suppressed++
				w.st.suppressed = true
				if m.inSync {
					w.st.suppressedInSync = true
				}
			} else {
				m.updated++
				w.sample(m, ts)
			}
		}
	}
	for _, d := range n.Del {
		m.submitted++
		m.updated++
		for code, l := range m.leaves {
			if (d < 6 && code == d || d >= 6 && code/3 == d-6) && l.ts < ts {
				delete(m.leaves, code)
				m.deleted++
				w.st.deleteMatched = true
			}
		}
	}
	// (the latest timestamp is not taken from a notification whose first update is a metadata leaf)
	if accepted && n.Upd[0].P != nSyncLeaf && (!m.hasLatest || ts > m.latest) {
		m.latest, m.hasLatest = ts, true
	}
}

// metaWrite: a lifecycle call sends a metadata update through GnmiUpdate.
func (w *nWorld) metaWrite(m *nTarget, l *nMeta, val string) {
	m.submitted++
	switch {
	case !l.exists:
		*l = nMeta{true, w.clock, val}
		m.updated++
	case !w.tick && l.at == w.clock:
		if l.val == val {
			m.stale++
			w.st.sameInstantStale = true
		} else {
			l.val = val
			m.updated++
		}
	default:
		same := l.val == val
		l.at, l.val = w.clock, val
		if same && !w.sc.NoEventDriven {
			m.suppressed++
			w.st.suppressed = true
		} else {
			m.updated++
		}
	}
}

func bstr(b bool) string {
	if b {
		return "true"
	}
	return "false"
}

// refreshBools: the refresh rewrites meta/sync and meta/connected when leaf and metadata differ.
func (w *nWorld) refreshBools(m *nTarget) {
	for _, x := range []struct {
		l *nMeta
		v bool
	}{{&m.sync, m.inSync}, {&m.conn, m.connected}} {
		if !x.l.exists || x.l.val != bstr(x.v) {
			*x.l = nMeta{true, w.clock, bstr(x.v)}
		}
	}
}

func (w *nWorld) closeSlot(m *nTarget) {
	if len(w.durs) == 0 {
		return
	}
	m.slots = append(m.slots, nSlot{w.clock, m.cur, m.curPre})
	m.cur, m.curPre = nil, 0
}

// modelOp applies op to the model of target ti (ignored for the global kinds).
func (w *nWorld) modelOp(op *NOp, ti int, ts int64) {
	switch op.Kind {
	case "updmeta":
		for _, m := range w.model {
			w.refreshBools(m)
			w.closeSlot(m)
		}
		return
	case "updsize":
		return
	}
	m := w.model[ti]
	switch op.Kind {
	case "upd":
		w.modelNoti(m, ts, op.N)
	case "sync":
		w.metaWrite(m, &m.sync, "true")
		m.inSync, m.everSynced, m.resetAfterSync = true, true, false
	case "connect":
		w.metaWrite(m, &m.conn, "true")
		m.connected = true
		m.submitted++
		m.updated++
		if m.cerr.exists {
			if w.tick || m.cerr.at < w.clock {
				m.cerr.exists = false
			} else {
				w.st.connErrKeptBySameInstantConnect = true
			}
		}
		m.cerrSet = false
	case "connerr":
		if m.cerr.exists && !m.cerrSet {
			w.st.connErrSurvivedReset = true
		}
		w.metaWrite(m, &m.cerr, nMsgs[op.Msg%len(nMsgs)])
		m.cerrSet, m.cerrVal = true, nMsgs[op.Msg%len(nMsgs)]
	case "reset":
		if m.inSync {
			m.resetAfterSync = true
			w.st.resetAfterSync = true
		}
		m.leaves = map[int]nLeaf{}
		m.updated, m.suppressed, m.stale, m.empty, m.added, m.deleted, m.submitted = 0, 0, 0, 0, 0, 0, 0
		m.latest, m.hasLatest = 0, false
		m.inSync, m.connected, m.cerrSet = false, false, false
		w.refreshBools(m)
		w.closeSlot(m)
	}
}

// latency statistics currently held in the target's metadata, by window and type
type nLatKey struct {
	w   int
	typ latency.StatType
}

var nLatTypes = []latency.StatType{latency.Avg, latency.Max, latency.Min}

func (w *nWorld) latSnapshot(ti int) map[nLatKey]int64 {
	r := map[nLatKey]int64{}
	md := w.c.Metadata()[nName(ti)]
	for i, d := range w.durs {
		for _, typ := range nLatTypes {
			if v, err := md.GetInt(latency.MetadataName(d, typ)); err == nil {
				r[nLatKey{i, typ}] = v
			}
		}
	}
	return r
}

func (w *nWorld) leafValue(ti int, path []string) *pb.TypedValue {
	var tv *pb.TypedValue
	w.c.Query(nName(ti), path, func(_ []string, _ *ctree.Leaf, v interface{}) error {
		if n, ok := v.(*pb.Notification); ok && len(n.GetUpdate()) == 1 {
			tv = n.GetUpdate()[0].GetVal()
		}
		return nil
	})
	return tv
}

// checkLatency judges what a refresh of target ti at the current clock left in the metadata.
func (w *nWorld) checkLatency(ti int, prev map[nLatKey]int64, byReset bool) {
	m := w.model[ti]
	now := w.latSnapshot(ti)
	for i, d := range w.durs {
		cutoff := w.clock - int64(d)
		var lo, hi int64
		n, pre := 0, 0
		for _, s := range m.slots {
			if s.end <= cutoff {
				continue
			}
			pre += s.pre
			for _, v := range s.lats {
				if n == 0 || v < lo {
					lo = v
				}
				if n == 0 || v > hi {
					hi = v
				}
				n++
			}
		}
		for _, typ := range nLatTypes {
			k := nLatKey{i, typ}
			v, ok := now[k]
			path := metadata.LatencyPath(d, typ)
			if !ok {
				if w.leafValue(ti, path) != nil {
					w.st.staleLatencyLeaf = true
				}
				continue
			}
			if pv, had := prev[k]; had && pv == v && !byReset {
				w.st.retained = true
			} else {
				w.st.exportedNew = true
				if byReset {
					w.st.exportAfterReset = true
				}
				if pre > 0 {
					w.st.exportWithPreInWindow = true
				}
				what := fmt.Sprintf("%s: the refresh at +%v newly exported %s=%d (%v) for the %v window", nName(ti), time.Duration(w.clock-nBase), latency.MetadataName(d, typ), v, time.Duration(v), d)
				if n == 0 {
					w.failf("%s, but no update was accepted in sync (after Sync, before the next Reset) in any slot that ends inside the window; %d accepted updates arrived there between a Reset and the next Sync", what, pre)
				}
				tol := int64(0)
				if typ == latency.Avg {
					tol = w.sc.PrecisionNs
				}
				if v < lo-tol || v > hi+tol {
					w.failf("%s, outside [%d, %d] (%v .. %v) = smallest and largest latency of the %d updates accepted in sync in the slots that end inside the window (tolerance %dns); %d accepted updates arrived there between a Reset and the next Sync", what, lo, hi, time.Duration(lo), time.Duration(hi), n, tol, pre)
				}
			}
			tv := w.leafValue(ti, path)
			if tv == nil {
				w.failf("%s: metadata holds %s=%d after the refresh but the leaf %v is not stored", nName(ti), latency.MetadataName(d, typ), v, path)
			}
			if iv, isInt := tv.GetValue().(*pb.TypedValue_IntVal); !isInt || iv.IntVal != v {
				w.failf("%s: metadata holds %s=%d after the refresh but the leaf %v holds %v", nName(ti), latency.MetadataName(d, typ), v, path, tv)
			}
		}
	}
}

// realOp performs op on the cache for target ti.
func (w *nWorld) realOp(op *NOp, ti int, ts int64) {
	name := nName(ti)
	switch op.Kind {
	case "upd":
		n := &pb.Notification{Timestamp: ts, Prefix: &pb.Path{Target: name}}
		for _, u := range op.N.Upd {
			if u.P == nSyncLeaf {
				n.Update = append(n.Update, &pb.Update{Path: nPbPath(metadata.Path(metadata.Sync)), Val: &pb.TypedValue{Value: &pb.TypedValue_BoolVal{BoolVal: u.V != 0}}})
				continue
			}
			n.Update = append(n.Update, &pb.Update{Path: nPbPath(nPath(u.P)), Val: &pb.TypedValue{Value: &pb.TypedValue_IntVal{IntVal: u.V}}})
		}
		for _, d := range op.N.Del {
			n.Delete = append(n.Delete, nPbPath(nDelPath(d)))
		}
		w.c.GnmiUpdate(n)
	case "sync":
		w.c.Sync(name)
	case "connect":
		w.c.Connect(name)
	case "connerr":
		w.c.ConnectError(name, fmt.Errorf("%s", nMsgs[op.Msg%len(nMsgs)]))
	case "reset":
		w.c.Reset(name)
	case "updmeta":
		w.c.UpdateMetadata()
	case "updsize":
		w.c.UpdateSize()
	}
}

// exec runs op on model and cache; latency statistics are judged for refreshes outside nested sections.
func (w *nWorld) exec(op *NOp, ti int, nested bool) {
	var ts int64
	if op.Kind == "upd" {
		if op.N == nil {
			return
		}
		ts = w.timestamp(w.model[ti], op.N)
		if m := w.model[ti]; w.sc.Clock != "step" || ts > w.clock || m.sync.exists && ts < m.sync.at {
			// With a clock that moves on every reading, or inside an operation that hosts others, the reference does
			// not know the exact timestamp a lifecycle call or a refresh gave the sync leaf, so it cannot say whether a
			// notification for that leaf is stale (only the step clock makes that timestamp exact); and a sync leaf
			// dated ahead of the clock makes the lifecycle calls themselves stale (the reference's lifecycle writes
			// assume the clock is never behind what is stored). An entry older than the stored sync leaf is refused as
			// stale AFTER the cache has taken its value for the sync state, so state and leaf disagree from then on and
			// "in sync" has no single meaning (seen on the unchanged tree: a Reset then leaves the state set, because it
			// only writes the leaf back when leaf and metadata differ). In all three cases the entries for that leaf are
			// left out: what remains are sync-leaf notifications a target can meaningfully send.
			keep := *op.N
			keep.Upd = nil
			for _, u := range op.N.Upd {
				if u.P != nSyncLeaf {
					keep.Upd = append(keep.Upd, u)
				}
			}
			if len(keep.Upd) != len(op.N.Upd) {
				c := *op
				c.N = &keep
				op = &c
			}
		}
	}
	judge := len(w.durs) > 0 && !nested && (op.Kind == "updmeta" || op.Kind == "reset")
	var prev []map[nLatKey]int64
	if judge {
		for i := range w.model {
			prev = append(prev, w.latSnapshot(i))
		}
	}
	w.modelOp(op, ti, ts)
	w.realOp(op, ti, ts)
	if judge {
		for i := range w.model {
			if op.Kind == "updmeta" {
				w.checkLatency(i, prev[i], false)
			} else if i == ti {
				w.checkLatency(i, nil, true)
			}
		}
	}
}

func (w *nWorld) runNested(s *NStep, host int) {
	others := w.sc.Targets - 1
	reset := map[int]bool{}
	for i := range s.Nested {
		op := &s.Nested[i]
		if w.sc.Clock != "step" && op.Gap > 0 {
			w.clock += op.Gap
		}
		ti := host
		if others > 0 {
			ti = (host + 1 + ((op.T%others)+others)%others) % w.sc.Targets
		}
		switch op.Kind {
		case "updmeta":
			w.st.nestedPass = true
		case "updsize":
		case "reset":
			w.st.nestedReset = true
			reset[ti] = true
		default:
			if reset[ti] && !(op.Kind == "upd" && op.N != nil && len(op.N.Upd)+len(op.N.Del) == 0) {
				w.st.nestedResetThenChange = true
				if w.hosted && s.Kind == "updmeta" && w.sc.Clock != "step" {
					w.st.passResetThenChange = true
				}
			}
		}
		w.exec(op, ti, true)
	}
	if len(s.Nested) > w.st.maxNested {
		w.st.maxNested = len(s.Nested)
	}
}

// callback is the cache's change feed.
func (w *nWorld) callback(l *ctree.Leaf) {
	if w.armed == nil || w.inNest {
		return
	}
	w.cbCount++
	if w.cbCount != w.armed.Host {
		return
	}
	s := w.armed
	n, ok := l.Value().(*pb.Notification)
	if !ok {
		return
	}
	host := -1
	for i := 0; i < w.sc.Targets; i++ {
		if nName(i) == n.GetPrefix().GetTarget() {
			host = i
		}
	}
	if host < 0 {
		return
	}
	w.inNest, w.hosted = true, true
	w.st.hosted = true
	if w.st.hostedIn == nil {
		w.st.hostedIn = map[string]bool{}
	}
	w.st.hostedIn[s.Kind] = true
	if s.Goroutine {
		w.st.goroutine = true
		done := make(chan struct{})
		go func() {
			defer close(done)
			defer func() {
				if r := recover(); r != nil {
					if _, isF := r.(*nFailure); !isF {
						r = fmt.Sprintf("%v\n%s", r, trimStack(debug.Stack()))
					}
					w.nestErr = r
				}
			}()
			w.runNested(s, host)
		}()
		<-done
	} else {
		w.st.reentrant = true
		w.runNested(s, host)
	}
	w.inNest = false
}

// checkCounters compares the cumulative counters and the stored leaves of every target with the model.
func (w *nWorld) checkCounters(when string) {
	mds := w.c.Metadata()
	for ti, m := range w.model {
		name := nName(ti)
		md := mds[name]
		if md == nil {
			w.failf("%s: target %s has no metadata", when, name)
		}
		get := func(n string) int64 {
			v, err := md.GetInt(n)
			if err != nil {
				w.failf("%s: %s: Metadata().GetInt(%s): %v", when, name, n, err)
			}
			return v
		}
		// the real tree
		stored := map[int]nLeaf{}
		extra := ""
		w.c.Query(name, []string{"*"}, func(p []string, _ *ctree.Leaf, v interface{}) error {
			if len(p) > 0 && p[0] == metadata.Root {
				return nil
			}
			n, ok := v.(*pb.Notification)
			code := -1
			if len(p) == 2 {
				for c := 0; c < 6; c++ {
					if q := nPath(c); q[0] == p[0] && q[1] == p[1] {
						code = c
					}
				}
			}
			if !ok || code < 0 || len(n.GetUpdate()) != 1 {
				extra = fmt.Sprint(p)
				return nil
			}
			stored[code] = nLeaf{n.GetTimestamp(), n.GetUpdate()[0].GetVal().GetIntVal()}
			return nil
		})
		if extra != "" {
			w.failf("%s: %s stores an unexpected leaf at %s", when, name, extra)
		}
		got := map[string]int64{}
		for _, cn := range []string{metadata.LeafCount, metadata.AddCount, metadata.DelCount, metadata.UpdateCount, metadata.SuppressedCount, metadata.StaleCount, metadata.FutureCount, metadata.EmptyCount} {
			got[cn] = get(cn)
		}
		hist := func() string {
			return fmt.Sprintf("since its last reset %s was sent %d updates/deletes (model: updated=%d suppressed=%d stale=%d future=0, added=%d deleted=%d empty=%d); counted updated=%d suppressed=%d stale=%d future=%d added=%d deleted=%d empty=%d targetLeaves=%d, %d non-metadata leaves stored",
				name, m.submitted, m.updated, m.suppressed, m.stale, m.added, m.deleted, m.empty,
				got[metadata.UpdateCount], got[metadata.SuppressedCount], got[metadata.StaleCount], got[metadata.FutureCount], got[metadata.AddCount], got[metadata.DelCount], got[metadata.EmptyCount], got[metadata.LeafCount], len(stored))
		}
		if got[metadata.LeafCount] != int64(len(stored)) {
			w.failf("%s: targetLeaves of %s = %d but %d non-metadata leaves are stored; %s", when, name, got[metadata.LeafCount], len(stored), hist())
		}
		if got[metadata.LeafCount] != got[metadata.AddCount]-got[metadata.DelCount] {
			w.failf("%s: targetLeaves of %s = %d but added-deleted = %d; %s", when, name, got[metadata.LeafCount], got[metadata.AddCount]-got[metadata.DelCount], hist())
		}
		if sum := got[metadata.UpdateCount] + got[metadata.SuppressedCount] + got[metadata.StaleCount] + got[metadata.FutureCount]; sum != m.submitted {
			w.failf("%s: updated+suppressed+stale+future = %d, submitted %d: an update is counted in none or more than one of them; %s", when, sum, m.submitted, hist())
		}
		for _, x := range []struct {
			n    string
			want int64
		}{{metadata.UpdateCount, m.updated}, {metadata.SuppressedCount, m.suppressed}, {metadata.StaleCount, m.stale}, {metadata.FutureCount, 0},
			{metadata.AddCount, m.added}, {metadata.DelCount, m.deleted}, {metadata.EmptyCount, m.empty}, {metadata.LeafCount, int64(len(m.leaves))}} {
			if got[x.n] != x.want {
				w.failf("%s: %s of %s = %d, the sequential per-target model says %d; %s", when, x.n, name, got[x.n], x.want, hist())
			}
		}
		for code, l := range m.leaves {
			if s, ok := stored[code]; !ok || s != l {
				w.failf("%s: %s leaf %v: stored %+v (present=%v), model %+v", when, name, nPath(code), s, ok, l)
			}
		}
		for _, x := range []struct {
			n    string
			want bool
		}{{metadata.Sync, m.inSync}, {metadata.Connected, m.connected}} {
			if v, err := md.GetBool(x.n); err != nil || v != x.want {
				w.failf("%s: metadata %s of %s = %v (%v), model %v", when, x.n, name, v, err, x.want)
			}
		}
		if v, err := md.GetStr(metadata.ConnectError); (err == nil) != m.cerrSet || err == nil && v != m.cerrVal {
			w.failf("%s: metadata connectError of %s = %q (%v), model set=%v %q", when, name, v, err, m.cerrSet, m.cerrVal)
		}
	}
}

// audit: one more undisturbed UpdateMetadata, then every exported leaf equals counter and model.
func (w *nWorld) audit() {
	w.st.audited = true
	w.desc += " + audit refresh"
	w.exec(&NOp{Kind: "updmeta"}, 0, false)
	w.checkCounters("after one more undisturbed UpdateMetadata")
	mds := w.c.Metadata()
	for ti, m := range w.model {
		name := nName(ti)
		md := mds[name]
		want := map[string]int64{
			metadata.LeafCount: int64(len(m.leaves)), metadata.AddCount: m.added, metadata.DelCount: m.deleted, metadata.UpdateCount: m.updated,
			metadata.SuppressedCount: m.suppressed, metadata.StaleCount: m.stale, metadata.FutureCount: 0, metadata.EmptyCount: m.empty,
			metadata.LatestTimestamp: time.Time{}.UnixNano(),
		}
		if m.hasLatest {
			want[metadata.LatestTimestamp] = m.latest
		}
		if v, err := md.GetInt(metadata.LatestTimestamp); err != nil || v != want[metadata.LatestTimestamp] {
			w.failf("after an undisturbed UpdateMetadata latestTimestamp of %s = %d (%v), the greatest accepted timestamp since the last reset is %d", name, v, err, want[metadata.LatestTimestamp])
		}
		for cn, wv := range want {
			tv := w.leafValue(ti, metadata.Path(cn))
			iv, ok := tv.GetValue().(*pb.TypedValue_IntVal)
			if !ok {
				w.failf("after an undisturbed UpdateMetadata the leaf meta/%s of %s holds %v, want %d", cn, name, tv, wv)
			}
			if iv.IntVal != wv {
				w.failf("after an undisturbed UpdateMetadata the exported leaf meta/%s of %s = %d, the target's counter is %d (model %d; Metadata() was compared before)", cn, name, iv.IntVal, wv, wv)
			}
		}
		if cn := metadata.Size; true {
			mv, _ := md.GetInt(cn)
			if iv, ok := w.leafValue(ti, metadata.Path(cn)).GetValue().(*pb.TypedValue_IntVal); !ok || iv.IntVal != mv {
				w.failf("after an undisturbed UpdateMetadata the exported leaf meta/%s of %s differs from the metadata value %d", cn, name, mv)
			}
		}
		for _, x := range []struct {
			n    string
			want bool
		}{{metadata.Sync, m.inSync}, {metadata.Connected, m.connected}} {
			if bv, ok := w.leafValue(ti, metadata.Path(x.n)).GetValue().(*pb.TypedValue_BoolVal); !ok || bv.BoolVal != x.want {
				w.failf("after an undisturbed UpdateMetadata the exported leaf meta/%s of %s is not %v", x.n, name, x.want)
			}
		}
		tv := w.leafValue(ti, metadata.Path(metadata.ConnectError))
		if (tv != nil) != m.cerr.exists || tv != nil && tv.GetStringVal() != m.cerr.val {
			w.failf("leaf meta/connectError of %s: stored %v, model exists=%v %q", name, tv, m.cerr.exists, m.cerr.val)
		}
	}
}

func runNScenario(sc *NScenario, part string) (st *nStats, err error) {
	w := &nWorld{sc: sc, clock: nBase, tick: sc.Clock == "tick"}
	st = &w.st
	st.clock = sc.Clock
	if sc.Targets < 1 || sc.Targets > 8 || (sc.Clock != "tick" && sc.Clock != "op" && sc.Clock != "step") {
		return st, &nFailure{"infra", "bad scenario"}
	}
	if len(sc.Windows) > 0 && (sc.Clock != "step" || sc.PeriodNs <= 0) {
		return st, &nFailure{"infra", "bad scenario: latency windows need the step clock and a period"}
	}
	savedC, savedL := cache.Now, latency.Now
	defer func() { cache.Now, latency.Now = savedC, savedL }()
	cache.Now, latency.Now = w.now, w.now
	defer func() {
		if r := recover(); r != nil {
			if f, ok := r.(*nFailure); ok {
				err = f
				return
			}
			err = &nFailure{"panic", fmt.Sprintf("step %d (%s): panic in the code under test: %v\n%s", w.step, w.desc, r, trimStack(debug.Stack()))}
		}
	}()
	var opts []cache.Option
	if len(sc.Windows) > 0 {
		var ws []string
		for _, k := range sc.Windows {
			d := time.Duration(k * sc.PeriodNs)
			w.durs = append(w.durs, d)
			ws = append(ws, d.String())
		}
		o, oerr := cache.WithLatencyWindows(ws, time.Duration(sc.PeriodNs))
		if oerr != nil {
			return st, &nFailure{"infra", "WithLatencyWindows: " + oerr.Error()}
		}
		opts = append(opts, o)
		if sc.PrecisionNs > 1 {
			opts = append(opts, cache.WithAvgLatencyPrecision(time.Duration(sc.PrecisionNs)))
		}
		st.multiWindow = len(sc.Windows) > 1
	}
	if sc.NoEventDriven {
		opts = append(opts, cache.DisableEventDrivenEmulation())
	}
	var names []string
	for i := 0; i < sc.Targets; i++ {
		names = append(names, nName(i))
		w.model = append(w.model, newNTarget())
	}
	w.c = cache.New(names, opts...)
	w.c.SetClient(w.callback)
	// A first refresh creates the metadata leaves, as the collector's periodic refresh does.
	w.step, w.desc = -1, "initial UpdateMetadata"
	w.exec(&NOp{Kind: "updmeta"}, 0, false)
	w.checkCounters("after the initial UpdateMetadata")

	for i := range sc.Steps {
		s := &sc.Steps[i]
		w.step = i
		nest := s.Host > 0 && len(s.Nested) > 0 && len(w.durs) == 0 && sc.Targets > 1 && s.Kind != "updsize"
		gap := s.Gap
		if gap < 0 || nest && gap < 1 {
			gap = 1
		}
		w.clock += gap
		ti := ((s.T % sc.Targets) + sc.Targets) % sc.Targets
		w.desc = s.Kind
		if s.Kind != "updmeta" && s.Kind != "updsize" {
			w.desc += " " + nName(ti)
		}
		w.cbCount, w.hosted, w.nestErr = 0, false, nil
		if nest {
			w.armed = s
			w.desc += fmt.Sprintf(" hosting %d nested operations in its callback %d", len(s.Nested), s.Host)
		}
		w.exec(&s.NOp, ti, false)
		w.armed = nil
		if w.nestErr != nil {
			panic(w.nestErr)
		}
		if nest && !w.hosted {
			// fewer callbacks than Host: the same operations, after the outer one returned
			st.hostMissed = true
			w.runNested(s, ti)
		}
		w.checkCounters("after the operation returned")
		if s.Audit {
			w.audit()
		}
	}
	w.step, w.desc = len(sc.Steps), "end"
	w.audit()
	return st, nil
}
