package cacheprop

// C15, part "latency": the statistics latency.Latency exports for a window
// during an UpdateReset call are bounded by the smallest and the largest
// latency observed in that window, up to the averaging precision.
//
// A scenario is plain data: an update period, 1-3 window sizes (multiples of
// the period), an averaging precision and, per period, the samples submitted
// in it (offset inside the period, latency). run replays it against the real
// latency.Latency with latency.Now stubbed by a scenario-controlled clock:
// the clock sits at period start + offset for every Compute call and at
// exactly the period end for the UpdateReset that closes the period. The
// harness keeps its own slot bookkeeping, written from the documentation
// ("UpdateReset is expected to be called periodically at a fixed interval of
// which the time windows should be multiples"): period p is slot p, it ends at
// the p-th UpdateReset, and at that instant a window of k periods covers the
// slots whose end lies after now-W, i.e. slots p-k+1 .. p.

import (
	"fmt"
	"sort"
	"strings"
	"time"

	"github.com/openconfig/gnmi/latency"
	"pgregory.net/rapid"
)

// LatSample is one Latency.Compute call.
type LatSample struct {
	Off int64 `json:"off"` // clock offset inside the period, ns, 0..period
	Lat int64 `json:"lat"` // latency in ns: Compute is called with ts = now - Lat
}

// LatScenario is one complete latency history.
type LatScenario struct {
	PeriodNs    int64   `json:"period_ns"`
	Windows     []int64 `json:"windows"`      // window sizes in periods (distinct, >=1)
	PrecisionNs int64   `json:"precision_ns"` // 1, 1000 or 1000000
	NoOpts      bool    `json:"no_opts,omitempty"`
	// Periods[p] are the samples submitted during period p (in clock order);
	// every period ends with one UpdateReset call.
	Periods [][]LatSample `json:"periods"`
	// LastCall: the final period is closed by UpdateLast (the documented
	// end-of-life call that ignores the initial coverage rule) instead of
	// UpdateReset.
	LastCall bool `json:"last_call,omitempty"`
}

const latBase = int64(1_000_000_000_000_000_000) // 2001-09-09, far from the zero time

var latPrecisions = []int64{1, 1000, 1000000}

// ---- generator --------------------------------------------------------------------

func genLat(prec, typical int64) func(t *rapid.T) int64 {
	return func(t *rapid.T) int64 {
		switch rapid.IntRange(0, 13).Draw(t, "latkind") {
		case 0:
			return 0
		case 1:
			return rapid.Int64Range(1, 9).Draw(t, "smallpos")
		case 2:
			return -rapid.Int64Range(1, 9).Draw(t, "smallneg")
		case 3: // around multiples of the precision: what integer scaling truncates
			return prec*rapid.Int64Range(0, 3).Draw(t, "k") + rapid.Int64Range(-1, 1).Draw(t, "d")
		case 4:
			return -(prec*rapid.Int64Range(0, 3).Draw(t, "k") + rapid.Int64Range(-1, 1).Draw(t, "d"))
		case 5:
			return rapid.Int64Range(1_000, 5_000_000).Draw(t, "usms")
		case 6:
			return -rapid.Int64Range(1_000, 5_000_000).Draw(t, "negusms")
		case 7:
			return rapid.Int64Range(1_000_000_000, 200_000_000_000).Draw(t, "seconds")
		case 8:
			return rapid.Int64Range(1_000_000_000_000, 1_000_000_000_000_000).Draw(t, "large")
		case 9:
			return -rapid.Int64Range(1_000_000_000_000, 1_000_000_000_000_000).Draw(t, "largeneg")
		default: // the scenario's typical latency with a little jitter: slots that differ slightly
			return typical + rapid.Int64Range(-3, 3).Draw(t, "jitter")*(typical/16+1)
		}
	}
}

func genLatScenario(t *rapid.T) *LatScenario {
	sc := &LatScenario{}
	sc.PeriodNs = rapid.SampledFrom([]int64{int64(100 * time.Millisecond), int64(time.Second), int64(2 * time.Second), int64(30 * time.Second)}).Draw(t, "period")
	sc.Windows = rapid.SliceOfNDistinct(rapid.Int64Range(1, 5), 1, 3, func(v int64) int64 { return v }).Draw(t, "windows")
	sc.PrecisionNs = rapid.SampledFrom(latPrecisions).Draw(t, "precision")
	if sc.PrecisionNs == 1 {
		sc.NoOpts = rapid.Bool().Draw(t, "noopts")
	}
	typical := rapid.SampledFrom([]int64{40, 7_000, 3_000_000, 250_000_000, 42_000_000_000}).Draw(t, "typical")
	period := sc.PeriodNs
	genSample := func(t *rapid.T) LatSample {
		off := rapid.Int64Range(0, period).Draw(t, "off")
		switch rapid.IntRange(0, 7).Draw(t, "offkind") {
		case 0:
			off = 0
		case 1:
			off = period
		}
		return LatSample{Off: off, Lat: genLat(sc.PrecisionNs, typical)(t)}
	}
	genPeriod := func(t *rapid.T) []LatSample {
		max := 4
		if rapid.IntRange(0, 3).Draw(t, "sparse") == 0 {
			max = 1
		}
		s := rapid.SliceOfN(rapid.Custom(genSample), 0, max).Draw(t, "samples")
		sort.SliceStable(s, func(i, j int) bool { return s[i].Off < s[j].Off })
		return s
	}
	sc.Periods = rapid.SliceOfN(rapid.Custom(genPeriod), 1, 10).Draw(t, "periods")
	if len(sc.Periods) < 8 && rapid.IntRange(0, 3).Draw(t, "longer") > 0 {
		// rapid's slice lengths are skewed towards short ones; windows need periods to slide
		sc.Periods = append(sc.Periods, rapid.SliceOfN(rapid.Custom(genPeriod), 4, 10).Draw(t, "more")...)
	}
	sc.LastCall = rapid.IntRange(0, 3).Draw(t, "lastcall") == 0
	return sc
}

// ---- recording metadata ----------------------------------------------------------

type latExport struct {
	name  string
	value int64
}

// latMeta implements latency.Metadata; it remembers what was exported during
// the UpdateReset call in progress (and flags exports outside any call).
type latMeta struct {
	inCall  bool
	cur     []latExport
	outside []latExport
}

func (m *latMeta) SetInt(name string, value int64) error {
	if !m.inCall {
		m.outside = append(m.outside, latExport{name, value})
		return nil
	}
	m.cur = append(m.cur, latExport{name, value})
	return nil
}

// ---- stats --------------------------------------------------------------------------

type latStats struct {
	negative, zero, large, emptyPeriod, sampleAtBoundary         bool
	notYetCovered, silentWithSamples, slotSlidOut, exportedEmpty bool
	fullTripleOnTwoSlots, slidOutWhileExporting                  bool
	avgRounded, avgExact, minExact, minAboveSmallestZeroQuirk    bool
	minAboveSmallestOther, maxExact, maxBelowLargestNonPositive  bool
	maxBelowLargestOther, allNegativeSlot, unknownName           bool
	exported                                                     [3]int
	updateLast, lastExportedEarly                                bool
	windows                                                      int
	precision                                                    int64
	calls                                                        int
}

func (s *latStats) nontrivial() bool { return s.fullTripleOnTwoSlots && s.slidOutWhileExporting }

func (s *latStats) labels() []string {
	var l []string
	add := func(b bool, n string) {
		if b {
			l = append(l, n)
		}
	}
	add(s.negative, "negative-latency")
	add(s.zero, "zero-latency")
	add(s.large, "large-latency(>=1000s)")
	add(s.emptyPeriod, "period-without-samples")
	add(s.sampleAtBoundary, "sample-at-period-boundary")
	add(s.notYetCovered, "window-not-yet-covered")
	add(s.silentWithSamples, "window-silent-although-it-covers-samples")
	add(s.slotSlidOut, "slot-slid-out")
	add(s.slidOutWhileExporting, "slot-slid-out-while-window-exports")
	add(s.fullTripleOnTwoSlots, "avg+max+min-exported-over-2plus-slots")
	add(s.avgRounded, "avg-differs-from-exact-mean(within-precision)")
	add(s.avgExact, "avg-equals-exact-mean")
	add(s.minExact, "min-equals-smallest")
	add(s.minAboveSmallestZeroQuirk, "min-above-smallest(zero-latency-sample-in-window)")
	add(s.minAboveSmallestOther, "min-above-smallest(no-zero-sample)")
	add(s.maxExact, "max-equals-largest")
	add(s.maxBelowLargestNonPositive, "max-not-largest(largest<=0)")
	add(s.maxBelowLargestOther, "max-below-largest(largest>0)")
	add(s.allNegativeSlot, "slot-with-only-negative-latencies")
	add(s.unknownName, "export-under-unknown-name")
	add(s.updateLast, "closed-by-UpdateLast")
	add(s.lastExportedEarly, "UpdateLast-exported-for-window-longer-than-history")
	add(s.exported[latency.Avg] > 0, "exported-avg")
	add(s.exported[latency.Max] > 0, "exported-max")
	add(s.exported[latency.Min] > 0, "exported-min")
	add(s.exported[0]+s.exported[1]+s.exported[2] == 0, "nothing-exported")
	add(s.windows > 1, "multi-window")
	add(s.windows == 1, "single-window")
	switch s.precision {
	case 1:
		l = append(l, "precision-ns")
	case 1000:
		l = append(l, "precision-us")
	case 1000000:
		l = append(l, "precision-ms")
	}
	return l
}

// latFailure is an oracle failure of the latency part.
type latFailure struct {
	class string
	msg   string
}

func (f *latFailure) Error() string { return f.msg }

// latStrict additionally demands what the package documentation (not the
// property) says about min and max ("the minimum/maximum latency during a
// time window") on the inputs where the code's documented-by-reading quirks do
// not apply. Off unless -c15.exact is given: the property only states bounds.
var latStrict bool

func validateLat(sc *LatScenario) error {
	if sc.PeriodNs <= 0 {
		return fmt.Errorf("bad scenario: period %d", sc.PeriodNs)
	}
	if len(sc.Windows) < 1 || len(sc.Windows) > 8 {
		return fmt.Errorf("bad scenario: %d windows", len(sc.Windows))
	}
	seen := map[int64]bool{}
	for _, k := range sc.Windows {
		if k < 1 || k > 1000 || seen[k] {
			return fmt.Errorf("bad scenario: window multiples %v (must be distinct, >=1)", sc.Windows)
		}
		seen[k] = true
	}
	ok := false
	for _, p := range latPrecisions {
		ok = ok || p == sc.PrecisionNs
	}
	if !ok {
		return fmt.Errorf("bad scenario: precision %d", sc.PrecisionNs)
	}
	return nil
}

// runLatency executes sc against the real latency.Latency and judges every
// value exported during an UpdateReset call.
func runLatency(sc *LatScenario) (st *latStats, err error) {
	st = &latStats{windows: len(sc.Windows), precision: sc.PrecisionNs}
	if verr := validateLat(sc); verr != nil {
		return st, &latFailure{"infra", verr.Error()}
	}
	savedNow := latency.Now
	defer func() { latency.Now = savedNow }()
	defer func() {
		if r := recover(); r != nil {
			err = &latFailure{"panic", fmt.Sprintf("panic in the code under test: %v", r)}
		}
	}()
	clock := latBase
	latency.Now = func() time.Time { return time.Unix(0, clock) }

	period := time.Duration(sc.PeriodNs)
	var strs []string
	for _, k := range sc.Windows {
		strs = append(strs, (time.Duration(k) * period).String())
	}
	durs, perr := latency.ParseWindows(strs, period)
	if perr != nil {
		return st, &latFailure{"infra", fmt.Sprintf("ParseWindows(%v, %v) rejected multiples of the period: %v", strs, period, perr)}
	}
	if len(durs) != len(sc.Windows) {
		return st, &latFailure{"infra", fmt.Sprintf("ParseWindows(%v) returned %d windows", strs, len(durs))}
	}
	for i, d := range durs {
		if d != time.Duration(sc.Windows[i])*period {
			return st, &latFailure{"infra", fmt.Sprintf("ParseWindows(%v)[%d] = %v", strs, i, d)}
		}
	}
	var opts *latency.Options
	if !(sc.NoOpts && sc.PrecisionNs == 1) {
		opts = &latency.Options{AvgPrecision: time.Duration(sc.PrecisionNs)}
	}
	l := latency.New(durs, opts)

	type key struct {
		w   int
		typ latency.StatType
	}
	names := map[string]key{}
	for i, d := range durs {
		for _, typ := range []latency.StatType{latency.Avg, latency.Max, latency.Min} {
			names[latency.MetadataName(d, typ)] = key{i, typ}
		}
	}

	m := &latMeta{}
	slots := make([][]int64, 0, len(sc.Periods)) // harness bookkeeping: latencies of each period
	for p, samples := range sc.Periods {
		start := latBase + int64(p)*sc.PeriodNs
		var lats []int64
		prev := int64(0)
		neg, nonneg := 0, 0
		for _, s := range samples {
			off := s.Off
			if off < prev {
				off = prev // the clock never runs backwards
			}
			if off > sc.PeriodNs {
				off = sc.PeriodNs
			}
			prev = off
			clock = start + off
			l.Compute(time.Unix(0, clock-s.Lat))
			lats = append(lats, s.Lat)
			switch {
			case s.Lat < 0:
				st.negative = true
				neg++
			case s.Lat == 0:
				st.zero = true
				nonneg++
			default:
				nonneg++
			}
			if s.Lat >= 1_000_000_000_000 || s.Lat <= -1_000_000_000_000 {
				st.large = true
			}
			if off == 0 || off == sc.PeriodNs {
				st.sampleAtBoundary = true
			}
		}
		if len(lats) == 0 {
			st.emptyPeriod = true
		}
		if neg > 0 && nonneg == 0 {
			st.allNegativeSlot = true
		}
		slots = append(slots, lats)

		// the UpdateReset that closes period p, exactly one period after the previous one
		clock = start + sc.PeriodNs
		m.cur, m.inCall = nil, true
		isLast := sc.LastCall && p == len(sc.Periods)-1
		if isLast {
			l.UpdateLast(m)
			st.updateLast = true
		} else {
			l.UpdateReset(m)
		}
		m.inCall = false
		st.calls++
		if len(m.outside) > 0 {
			return st, &latFailure{"oracle", fmt.Sprintf("period %d: %s=%d was exported outside any UpdateReset call", p, m.outside[0].name, m.outside[0].value)}
		}

		exportedFor := make([][3]bool, len(durs))
		for _, e := range m.cur {
			k, ok := names[e.name]
			if !ok {
				st.unknownName = true // not a statistic of a configured window: nothing the property speaks about
				continue
			}
			st.exported[k.typ]++
			exportedFor[k.w][k.typ] = true
			first := p - int(sc.Windows[k.w]) + 1
			if first < 0 {
				first = 0
			}
			var lo, hi, sum int64
			n, hasZero := 0, false
			for q := first; q <= p; q++ {
				for _, v := range slots[q] {
					if n == 0 || v < lo {
						lo = v
					}
					if n == 0 || v > hi {
						hi = v
					}
					if v == 0 {
						hasZero = true
					}
					sum += v
					n++
				}
			}
			call := "UpdateReset"
			if isLast {
				call = "UpdateLast"
				if p+1 < int(sc.Windows[k.w]) {
					st.lastExportedEarly = true
				}
			}
			what := fmt.Sprintf(call+" #%d (end of period %d): window %v (slots %d..%d) exported %s=%d", p+1, p, durs[k.w], first, p, e.name, e.value)
			if n == 0 {
				st.exportedEmpty = true
				return st, &latFailure{"oracle", what + fmt.Sprintf(", but no latency was observed in the slots the window covers (samples per slot: %v)", slots)}
			}
			tol := int64(0)
			if k.typ == latency.Avg {
				tol = sc.PrecisionNs
			}
			if e.value < lo-tol || e.value > hi+tol {
				return st, &latFailure{"oracle", what + fmt.Sprintf(", outside [%d, %d] (smallest and largest latency observed in the window, tolerance %dns); samples per slot: %v", lo, hi, tol, slots)}
			}
			// observations beyond the property (labels; failures only with -c15.exact)
			switch k.typ {
			case latency.Avg:
				if sum/int64(n) == e.value && sum%int64(n) == 0 {
					st.avgExact = true
				} else {
					st.avgRounded = true
				}
			case latency.Min:
				switch {
				case e.value == lo:
					st.minExact = true
				case hasZero:
					st.minAboveSmallestZeroQuirk = true
				default:
					st.minAboveSmallestOther = true
					if latStrict {
						return st, &latFailure{"exactness", what + fmt.Sprintf(", but the smallest latency observed in the window is %d and no sample is 0 (documentation of min, not the property); samples per slot: %v", lo, slots)}
					}
				}
			case latency.Max:
				switch {
				case e.value == hi:
					st.maxExact = true
				case hi <= 0:
					st.maxBelowLargestNonPositive = true
				default:
					st.maxBelowLargestOther = true
					if latStrict {
						return st, &latFailure{"exactness", what + fmt.Sprintf(", but the largest latency observed in the window is %d (documentation of max, not the property); samples per slot: %v", hi, slots)}
					}
				}
			}
		}
		// per window: coverage labels and the non-triviality rule
		for w := range durs {
			k := int(sc.Windows[w])
			first := p - k + 1
			slid := false
			for q := 0; q < first; q++ {
				if len(slots[q]) > 0 {
					slid = true
				}
			}
			if first < 0 {
				first = 0
			}
			covered, nonEmpty := 0, 0
			for q := first; q <= p; q++ {
				covered += len(slots[q])
				if len(slots[q]) > 0 {
					nonEmpty++
				}
			}
			some := exportedFor[w][0] || exportedFor[w][1] || exportedFor[w][2]
			if slid {
				st.slotSlidOut = true
				if some {
					st.slidOutWhileExporting = true
				}
			}
			if covered > 0 && !some && !isLast {
				st.silentWithSamples = true
				if p+1 <= k {
					st.notYetCovered = true
				}
			}
			if nonEmpty >= 2 && exportedFor[w][0] && exportedFor[w][1] && exportedFor[w][2] {
				st.fullTripleOnTwoSlots = true
			}
		}
	}
	return st, nil
}

// describeLat renders a scenario compactly for failure messages.
func describeLat(sc *LatScenario) string {
	var sb strings.Builder
	fmt.Fprintf(&sb, "period=%v windows(periods)=%v precision=%v", time.Duration(sc.PeriodNs), sc.Windows, time.Duration(sc.PrecisionNs))
	for p, s := range sc.Periods {
		fmt.Fprintf(&sb, " | p%d:", p)
		for _, x := range s {
			fmt.Fprintf(&sb, " lat=%d@+%d", x.Lat, x.Off)
		}
	}
	if sc.LastCall {
		sb.WriteString(" | last call is UpdateLast")
	}
	return sb.String()
}
