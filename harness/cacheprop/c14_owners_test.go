package cacheprop

import (
	"encoding/json"
	"errors"
	"flag"
	"fmt"
	"runtime/debug"
	"sort"
	"strings"
	"sync"
	"testing"
	"testing/synctest"
	"time"

	"github.com/openconfig/gnmi/cache"
	"github.com/openconfig/gnmi/ctree"
	"github.com/openconfig/gnmi/metadata"
	pb "github.com/openconfig/gnmi/proto/gnmi"
	"pgregory.net/rapid"
	"verif/harness/internal/gn"
	"verif/harness/internal/vstat"
)

// C14, part "owners": isolation and lifecycle of targets when every target is driven by its OWN goroutine,
// all at once on the real scheduler, as in the collector (one update stream per target, plus the periodic
// refresh loops). Each owner runs a sequential script on its target only - updates, exact / subtree / glob
// deletes, Reset, Remove, Add, Sync, Connect, ConnectError, queries - and keeps a sequential model of that
// target. C14 says that no operation on one target ever changes what is stored or reported for another, so
// under EVERY schedule (a) after each of its operations the owner's target holds exactly what the owner's
// model says (non-metadata leaves), (b) replaying the change feed of that target in order gives the same,
// is empty right after a Reset and after a Remove (deletes covering everything were announced), (c) targets
// nobody operates on ("bystanders") are byte-identical before and after and never appear in the feed, and
// (d) every goroutine finishes: operations on different targets never block each other for good. The
// verdict on (d) is structural (vstat.Watchdog: all goroutines of the bubble blocked, at least one on a
// lock, twice 5 s apart), never a timeout. Many aligned-start rounds per case.

var c14Rounds = flag.Int("c14.rounds", 40, "aligned-start rounds per case of the owners part")

type OwnOp struct {
	Kind string `json:"k"`           // upd del reset remove add sync connect connerr query has
	P    int    `json:"p,omitempty"` // upd: leaf index; del: pattern index
	V    int64  `json:"v,omitempty"`
}

type OwnersScenario struct {
	Scripts     [][]OwnOp `json:"scripts"`    // one per owned target o0, o1, ...
	Bystanders  int       `json:"bystanders"` // targets b0, b1, ... preloaded, never operated on
	Refresh     []string  `json:"refresh"`    // the refresher goroutine's script: updmeta updsize metadata queryall hasall
	EventDriven bool      `json:"event_driven"`
	Rounds      int       `json:"rounds"`
	Counters    bool      `json:"counters,omitempty"` // C15: judge the exported counters at the end of every round
}

var ownLeaves = [][]string{{"a", "b"}, {"a", "c"}, {"d"}, {"e", "f", "g"}, {"e", "f", "h"}}
var ownDels = [][]string{{"a", "b"}, {"a"}, {"*"}, {"a", "*"}, {"e", "f"}, {"e", "*", "g"}, {"d"}, {"x"}}

func genOwners(t *rapid.T) *OwnersScenario {
	sc := &OwnersScenario{Rounds: *c14Rounds, EventDriven: rapid.Bool().Draw(t, "eventdriven")}
	n := rapid.IntRange(2, 5).Draw(t, "owners")
	hot := rapid.SampledFrom([]string{"", "", "reset", "rmadd", "upd"}).Draw(t, "hot")
	for i := 0; i < n; i++ {
		var kinds []string
		switch {
		case hot == "reset" && i == 0:
			kinds = []string{"reset", "reset", "reset", "upd", "sync"}
		case hot == "rmadd" && i == 0, hot == "reset" && i == 1:
			kinds = []string{"remove", "add", "remove", "add", "upd"}
		case hot == "upd" && i == 0:
			kinds = []string{"upd", "upd", "upd", "del"}
		default:
			kinds = []string{"upd", "upd", "upd", "upd", "del", "del", "reset", "reset", "remove", "add", "add", "sync", "connect", "connerr", "query", "has"}
		}
		ops := rapid.SliceOfN(rapid.Custom(func(t *rapid.T) OwnOp {
			op := OwnOp{Kind: rapid.SampledFrom(kinds).Draw(t, "kind")}
			switch op.Kind {
			case "upd":
				op.P, op.V = rapid.IntRange(0, len(ownLeaves)-1).Draw(t, "leaf"), int64(rapid.IntRange(0, 3).Draw(t, "v"))
			case "del":
				op.P = rapid.IntRange(0, len(ownDels)-1).Draw(t, "pattern")
			}
			return op
		}), 2, 24).Draw(t, "script")
		sc.Scripts = append(sc.Scripts, ops)
	}
	sc.Bystanders = rapid.IntRange(0, 2).Draw(t, "bystanders")
	sc.Refresh = rapid.SliceOfN(rapid.SampledFrom([]string{"updmeta", "updsize", "metadata", "queryall", "hasall"}), 0, 12).Draw(t, "refresh")
	return sc
}

type ownerFail struct{ msg string }

func contentOf(c *cache.Cache, name string) (map[string]string, error) {
	out := map[string]string{}
	err := c.Query(name, []string{"*"}, func(p []string, _ *ctree.Leaf, v interface{}) error {
		n, ok := v.(*pb.Notification)
		if !ok {
			out[gn.Key(p)] = fmt.Sprintf("?%T", v)
			return nil
		}
		if len(p) > 0 && p[0] == metadata.Root {
			return nil
		}
		out[gn.Key(p)] = fmt.Sprintf("%d|%v", n.GetTimestamp(), n.GetUpdate())
		return nil
	})
	return out, err
}

func fullContentOf(c *cache.Cache, name string) string {
	var rows []string
	c.Query(name, []string{"*"}, func(p []string, _ *ctree.Leaf, v interface{}) error {
		rows = append(rows, fmt.Sprintf("%q=%v", p, v))
		return nil
	})
	sort.Strings(rows)
	return strings.Join(rows, "\n")
}

func diffOwn(want, got map[string]string) string {
	var d []string
	for k := range want {
		if _, ok := got[k]; !ok {
			d = append(d, fmt.Sprintf("missing %q", gn.Unkey(k)))
		} else if want[k] != got[k] {
			d = append(d, fmt.Sprintf("%q holds %s, want %s", gn.Unkey(k), got[k], want[k]))
		}
	}
	for k := range got {
		if _, ok := want[k]; !ok {
			d = append(d, fmt.Sprintf("extra %q", gn.Unkey(k)))
		}
	}
	sort.Strings(d)
	return strings.Join(d, "; ")
}

// runOwners executes the scenario; overlap reports that at least two goroutines were seen inside the cache at once.
func runOwners(t *testing.T, sc *OwnersScenario) (st map[string]bool, err error) {
	st = map[string]bool{}
	defer vstat.Watchdog(20*time.Second, 5*time.Second)()
	synctest.Test(t, func(t *testing.T) {
		defer func() {
			if r := recover(); r != nil {
				err = fmt.Errorf("panic: %v\n%s", r, debug.Stack())
			}
		}()
		for round := 0; round < sc.Rounds && err == nil; round++ {
			err = ownersRound(sc, round, st)
		}
	})
	return st, err
}

func ownersRound(sc *OwnersScenario, round int, st map[string]bool) error {
	var copts []cache.Option
	if !sc.EventDriven {
		copts = append(copts, cache.DisableEventDrivenEmulation())
	}
	var names []string
	for i := range sc.Scripts {
		names = append(names, fmt.Sprintf("o%d", i))
	}
	var bys []string
	for i := 0; i < sc.Bystanders; i++ {
		bys = append(bys, fmt.Sprintf("b%d", i))
	}
	c := cache.New(append(append([]string{}, names...), bys...), copts...)
	// the change feed, one log per target (each target is fed by its owner's goroutine only; Remove announces
	// under the cache's write lock, on the remover's goroutine, which is the owner's)
	feeds := map[string]*ownFeed{}
	for _, n := range append(append([]string{}, names...), bys...) {
		feeds[n] = &ownFeed{}
	}
	var strayMu sync.Mutex
	var stray []string
	c.SetClient(func(l *ctree.Leaf) {
		n, ok := l.Value().(*pb.Notification)
		if !ok {
			return
		}
		f := feeds[n.GetPrefix().GetTarget()]
		if f == nil {
			strayMu.Lock()
			stray = append(stray, fmt.Sprint(n))
			strayMu.Unlock()
			return
		}
		// (the refresher feeds metadata leaves of every target from its own goroutine)
		f.mu.Lock()
		f.log = append(f.log, n)
		f.mu.Unlock()
	})
	ts := int64(1_000_000)
	for _, b := range bys {
		for i, p := range ownLeaves[:3] {
			ts += 10
			if e := c.GnmiUpdate(&pb.Notification{Timestamp: ts, Prefix: &pb.Path{Target: b}, Update: []*pb.Update{{Path: gn.Path("", "", elemsOf(p), false, 0), Val: gn.Val{Kind: "int", I: int64(i)}.TV()}}}); e != nil {
				return fmt.Errorf("preload of bystander %s: %v", b, e)
			}
		}
	}
	before := map[string]string{}
	feedBefore := map[string]int{}
	for _, b := range bys {
		before[b] = fullContentOf(c, b)
		feedBefore[b] = len(feeds[b].snapshot())
	}

	start := make(chan struct{})
	var wg sync.WaitGroup
	var mu sync.Mutex
	var firstErr error
	fail := func(format string, a ...any) {
		mu.Lock()
		if firstErr == nil {
			firstErr = fmt.Errorf("round %d: "+format, append([]any{round}, a...)...)
		}
		mu.Unlock()
	}
	guard := func(who string) {
		if r := recover(); r != nil {
			if f, ok := r.(ownerFail); ok {
				fail("%s", f.msg)
				return
			}
			fail("panic on the goroutine of %s: %v\n%s", who, r, trimOwnStack(debug.Stack()))
		}
	}
	for i, script := range sc.Scripts {
		wg.Add(1)
		go func(name string, script []OwnOp, base int64) {
			defer wg.Done()
			defer guard(name)
			<-start
			ownerScript(c, name, script, base, feeds[name])
		}(names[i], script, ts+int64(i+1)*1_000_000)
	}
	if len(sc.Refresh) > 0 {
		wg.Add(1)
		go func() {
			defer wg.Done()
			defer guard("the refresher")
			<-start
			for _, k := range sc.Refresh {
				switch k {
				case "updmeta":
					c.UpdateMetadata()
				case "updsize":
					c.UpdateSize()
				case "metadata":
					_ = c.Metadata()
				case "queryall":
					c.Query("*", []string{"*"}, func([]string, *ctree.Leaf, interface{}) error { return nil })
				case "hasall":
					for _, n := range names {
						c.HasTarget(n)
					}
				}
			}
		}()
	}
	close(start)
	wg.Wait()
	if firstErr != nil {
		return firstErr
	}
	for _, b := range bys {
		// (the refresher writes metadata leaves into every target: compare what no refresh touches)
		got := fullContentOf(c, b)
		if stripMeta(got) != stripMeta(before[b]) {
			return fmt.Errorf("round %d: bystander target %s, on which no operation was performed, changed while other targets were updated / reset / removed / added:\nbefore:\n%s\nafter:\n%s", round, b, stripMeta(before[b]), stripMeta(got))
		}
		for _, n := range feeds[b].snapshot()[feedBefore[b]:] {
			if k := feedKey(n); len(k) == 0 || k[0] != metadata.Root {
				return fmt.Errorf("round %d: the change feed announced %v for bystander target %s, on which no operation was performed", round, n, b)
			}
		}
		if !c.HasTarget(b) {
			return fmt.Errorf("round %d: bystander target %s is no longer known", round, b)
		}
	}
	if len(stray) > 0 {
		return fmt.Errorf("round %d: the change feed announced changes for targets that never existed: %v", round, stray)
	}
	// C15 (part owners of C15 runs the same scripts): at this quiescent point one more refresh exports the counters;
	// for every target the exported leaf count equals the non-metadata leaves stored and added - deleted.
	if sc.Counters {
		c.UpdateMetadata()
		for _, name := range append(append([]string{}, names...), bys...) {
			if !c.HasTarget(name) {
				continue
			}
			stored, _ := contentOf(c, name)
			exp := map[string]int64{}
			c.Query(name, []string{metadata.Root, "*"}, func(p []string, _ *ctree.Leaf, v interface{}) error {
				if n, ok := v.(*pb.Notification); ok && len(p) == 2 && len(n.GetUpdate()) == 1 {
					exp[p[1]] = n.GetUpdate()[0].GetVal().GetIntVal()
				}
				return nil
			})
			if got := exp[metadata.LeafCount]; got != int64(len(stored)) {
				return fmt.Errorf("round %d: target %s exports %s=%d at a quiescent point, %d non-metadata leaves are stored (the targets were driven by their own goroutines next to the refresh loops)", round, name, metadata.LeafCount, got, len(stored))
			}
			if a, d := exp[metadata.AddCount], exp[metadata.DelCount]; a-d != int64(len(stored)) {
				return fmt.Errorf("round %d: target %s exports added=%d deleted=%d at a quiescent point, %d non-metadata leaves are stored", round, name, a, d, len(stored))
			}
		}
		st["counters"] = true
	}
	st["rounds"] = true
	return nil
}

func stripMeta(s string) string {
	var keep []string
	for _, l := range strings.Split(s, "\n") {
		if !strings.HasPrefix(l, `["`+metadata.Root+`"`) {
			keep = append(keep, l)
		}
	}
	return strings.Join(keep, "\n")
}

func elemsOf(p []string) []gn.Elem {
	var out []gn.Elem
	for _, e := range p {
		out = append(out, gn.Elem{Name: e})
	}
	return out
}

func feedKey(n *pb.Notification) []string {
	k := gn.RefIndex(n.GetPrefix(), false)
	switch {
	case len(n.GetUpdate()) > 0:
		k = append(k, gn.RefIndex(n.GetUpdate()[0].GetPath(), false)...)
	case len(n.GetDelete()) > 0:
		k = append(k, gn.RefIndex(n.GetDelete()[0], false)...)
	}
	return k
}

// replayFeed applies a target's change feed in order; metadata leaves are left out.
func replayFeed(feed []*pb.Notification) map[string]string {
	var tr gn.Trie
	for _, n := range feed {
		pre := gn.RefIndex(n.GetPrefix(), false)
		for _, d := range n.GetDelete() {
			tr.DeleteMatching(append(append([]string{}, pre...), gn.RefIndex(d, false)...))
		}
		for _, u := range n.GetUpdate() {
			k := append(append([]string{}, pre...), gn.RefIndex(u.GetPath(), false)...)
			tr.Set(k, fmt.Sprintf("%d|%v", n.GetTimestamp(), []*pb.Update{u}))
		}
	}
	out := map[string]string{}
	for k, v := range tr.Map() {
		if p := gn.Unkey(k); len(p) > 0 && p[0] == metadata.Root {
			continue
		}
		out[k] = v
	}
	return out
}

type ownFeed struct {
	mu  sync.Mutex
	log []*pb.Notification
}

func (f *ownFeed) snapshot() []*pb.Notification {
	f.mu.Lock()
	defer f.mu.Unlock()
	return append([]*pb.Notification(nil), f.log...)
}

func (f *ownFeed) reset() {
	f.mu.Lock()
	f.log = nil
	f.mu.Unlock()
}

// valueOnly drops the timestamp of a model/content entry: with event-driven emulation an update that leaves the
// value unchanged is stored (newer timestamp) but rightly withheld from the feed.
func valueOnly(m map[string]string) map[string]string {
	out := map[string]string{}
	for k, v := range m {
		if i := strings.Index(v, "|"); i >= 0 {
			v = v[i+1:]
		}
		out[k] = v
	}
	return out
}

func ownerScript(c *cache.Cache, name string, script []OwnOp, base int64, feed *ownFeed) {
	failf := func(format string, a ...any) { panic(ownerFail{fmt.Sprintf(format, a...)}) }
	present := true
	model := map[string]string{}
	ts := base
	check := func(i int, op OwnOp) {
		got, err := contentOf(c, name)
		if !present {
			if err == nil {
				failf("target %s after its own op %d (%s): it was removed, yet a query of it succeeds (%d leaves)", name, i, op.Kind, len(got))
			}
			if c.HasTarget(name) {
				failf("target %s after its own op %d (%s): it was removed, yet HasTarget reports it", name, i, op.Kind)
			}
		} else {
			if err != nil {
				failf("target %s after its own op %d (%s): query failed: %v (only this goroutine adds/removes it)", name, i, op.Kind, err)
			}
			if d := diffOwn(model, got); d != "" {
				failf("target %s after its own op %d (%s): what it stores differs from what its own operations, applied in order, produce (only this goroutine operates on it; the other goroutines work on other targets): %s", name, i, op.Kind, d)
			}
		}
		if d := diffOwn(valueOnly(model), valueOnly(replayFeed(feed.snapshot()))); d != "" {
			failf("target %s after its own op %d (%s): replaying the change feed of this target does not give its content: %s", name, i, op.Kind, d)
		}
	}
	for i, op := range script {
		switch op.Kind {
		case "upd":
			ts += 10
			p := ownLeaves[op.P%len(ownLeaves)]
			n := &pb.Notification{Timestamp: ts, Prefix: &pb.Path{Target: name}, Update: []*pb.Update{{Path: gn.Path("", "", elemsOf(p), false, 0), Val: gn.Val{Kind: "int", I: op.V}.TV()}}}
			want := fmt.Sprintf("%d|%v", ts, n.Update)
			err := c.GnmiUpdate(n)
			switch {
			case !present:
				if err == nil {
					failf("update %d of removed target %s was accepted", i, name)
				}
			case err != nil:
				// a leaf above or below an existing one is refused (the tree is prefix-free): ownLeaves is prefix-free, so nothing else may be refused
				failf("update %d of target %s (%q at the newest timestamp) was refused: %v", i, name, p, err)
			default:
				model[gn.Key(p)] = want
			}
		case "del":
			ts += 10
			pat := ownDels[op.P%len(ownDels)]
			err := c.GnmiUpdate(&pb.Notification{Timestamp: ts, Prefix: &pb.Path{Target: name}, Delete: []*pb.Path{gn.Path("", "", elemsOf(pat), false, 0)}})
			if !present {
				if err == nil {
					failf("delete %d on removed target %s was accepted", i, name)
				}
				break
			}
			if err != nil {
				failf("delete %d of %q on target %s failed: %v", i, pat, name, err)
			}
			for k := range model {
				if gn.Matches(pat, gn.Unkey(k)) {
					delete(model, k)
				}
			}
		case "reset":
			c.Reset(name)
			if present {
				model = map[string]string{}
			}
		case "remove":
			if !present {
				continue
			}
			c.Remove(name)
			present, model = false, map[string]string{}
		case "add":
			if present {
				continue
			}
			c.Add(name)
			present = true
			feed.reset() // a fresh start: the earlier feed ended with the whole-target delete
		case "sync":
			c.Sync(name)
		case "connect":
			c.Connect(name)
		case "connerr":
			c.ConnectError(name, errors.New("dial failed"))
		case "query":
			c.Query(name, ownDels[op.P%len(ownDels)], func([]string, *ctree.Leaf, interface{}) error { return nil })
		case "has":
			if c.HasTarget(name) != present {
				failf("HasTarget(%s) = %v after its own op %d, only this goroutine adds/removes it", name, !present, i)
			}
		}
		check(i, op)
	}
}

func trimOwnStack(b []byte) string {
	lines := strings.Split(string(b), "\n")
	if len(lines) > 24 {
		lines = lines[:24]
	}
	return strings.Join(lines, "\n")
}

func TestC14Owners(t *testing.T) {
	if !vstat.Enabled("C14") {
		t.Skip()
	}
	rec := vstat.New("C14", "owners")
	rec.Note("free-running part: scripts are a function of the seed, schedules are the real scheduler's; a replay re-runs the scripts for 20x the rounds")
	rec.RunRapid(t, func(rt *rapid.T) {
		sc := genOwners(rt)
		rec.Current(sc)
		_, err := runOwners(t, sc)
		kinds := map[string]bool{}
		for _, s := range sc.Scripts {
			for _, op := range s {
				kinds[op.Kind] = true
			}
		}
		labels := []string{fmt.Sprintf("owners=%d", len(sc.Scripts))}
		if kinds["reset"] && (kinds["remove"] || kinds["add"]) {
			labels = append(labels, "reset-of-one-target-while-others-are-added-or-removed")
		}
		if sc.Bystanders > 0 {
			labels = append(labels, "bystander-targets")
		}
		if len(sc.Refresh) > 0 {
			labels = append(labels, "refresh-loops-running")
		}
		rec.Case(sc, len(sc.Scripts) > 1 && kinds["reset"] && kinds["remove"], labels...)
		if err != nil {
			rt.Fatalf("%s", rec.Fail(sc, "owners", "%v", err))
		}
	})
}

// TestC15Owners: the owners scripts with the refresh loops always running and the exported counters judged at the
// quiescent end of every round (C15: counters are truthful for every schedule; every goroutine finishes).
func TestC15Owners(t *testing.T) {
	if !vstat.Enabled("C15") {
		t.Skip()
	}
	rec := vstat.New("C15", "owners")
	rec.Note("free-running part: scripts are a function of the seed, schedules are the real scheduler's; a replay re-runs the scripts for 20x the rounds")
	rec.RunRapid(t, func(rt *rapid.T) {
		sc := genOwners(rt)
		sc.Counters = true
		// the collector's refresh loops, densely: size and metadata refreshes next to every owner's updates
		sc.Refresh = append(sc.Refresh, "updsize", "updmeta", "updsize", "updmeta", "updsize", "updsize", "updmeta", "updsize")
		rec.Current(sc)
		_, err := runOwners(t, sc)
		rec.Case(sc, len(sc.Scripts) > 1, fmt.Sprintf("owners=%d", len(sc.Scripts)), "refresh-loops-running", "exported-counters-judged-at-quiescence")
		if err != nil {
			rt.Fatalf("%s", rec.Fail(sc, "owners", "%v", err))
		}
	})
}

func replayOwners(t *testing.T, rf *vstat.ReplayFile) string {
	var sc OwnersScenario
	if err := json.Unmarshal(rf.Scenario, &sc); err != nil {
		return "bad scenario: " + err.Error()
	}
	if len(sc.Scripts) == 0 {
		return "bad scenario"
	}
	if sc.Rounds < 1 {
		sc.Rounds = 1
	}
	sc.Rounds *= 20
	if _, err := runOwners(t, &sc); err != nil {
		return err.Error()
	}
	return ""
}
