package cacheprop

// C15, parts "latency-long" and "cache-latency-long": the latency bound of the
// property on LONG windows and LONG lifetimes.
//
// The other latency parts draw windows of a few periods and histories of a few
// dozen refreshes. In the collector the metadata refresh runs every 2 s and the
// windows are minutes, hours, a day: a window spans hundreds to tens of
// thousands of refresh periods, keeps that many slots and lives for several
// times its own size. Everything in the latency package that depends on the
// NUMBER of slots of a window, on the AGE of a slot relative to the window
// size, or on how long a window has been sliding is unreachable with small
// ratios. Here the ratio window/period (100, 1000, 1023..1025, 2047..2049,
// 4096+, 8192, 43200 = 24 h at 2 s, and arbitrary values) and the lifetime
// (a few refreshes past the window up to 3x the window) are generated
// dimensions, together with the sample density (every period, every n-th
// period, bursts only), outliers placed where a window is most likely to get
// the expiry wrong (first periods, the periods that expire at the last
// refreshes, positions aligned to powers of two and to size/1024, size/1000
// granules, with ordinary samples right before and after them), several
// windows at once (1m/1h/24h at 2 s), and the refresh schedule (on time,
// every refresh a little late, refreshes skipped for a while, extra
// refreshes inside a period as Target.Reset makes them).
//
// A scenario is a compact description (no per-period lists): the run derives
// the samples of every period from it without any random source. The oracle is
// the property's: at a refresh at time T a window of size W covers the slots
// (a slot = what lies between two consecutive refreshes) that end after T-W;
// every statistic exported for the window must lie within [smallest, largest]
// latency of the samples in those slots (avg: up to the averaging precision).
// The harness keeps its own per-slot bookkeeping and slides it incrementally
// (monotonic deques for min and max), so a refresh costs O(1) on the harness
// side whatever the window size.
//
// latency-long drives latency.New / Compute / UpdateReset directly;
// cache-latency-long drives a cache created WithLatencyWindows through
// GnmiUpdate and UpdateMetadata with cache.Now and latency.Now stubbed, and
// judges the meta/latency/window/<w>/{avg,max,min} leaves after each refresh.

import (
	"fmt"
	"sort"
	"strconv"
	"time"

	"github.com/openconfig/gnmi/cache"
	"github.com/openconfig/gnmi/ctree"
	"github.com/openconfig/gnmi/latency"
	"github.com/openconfig/gnmi/metadata"
	pb "github.com/openconfig/gnmi/proto/gnmi"
	"pgregory.net/rapid"
)

// ---- scenario ------------------------------------------------------------------------

// LLOutlier is one sample placed explicitly.
type LLOutlier struct {
	Period int   `json:"p"`
	Off    int64 `json:"off"` // clock offset inside the period, ns
	Lat    int64 `json:"lat"`
}

// LLBurst is a stretch of consecutive periods that all carry base samples.
type LLBurst struct {
	Start int `json:"start"`
	Len   int `json:"len"`
}

// LLIrr is one deviation from the regular refresh schedule.
// skip: the refreshes that close periods Period .. Period+N-1 are not made (the next one is late by N periods);
// delay: the refresh that closes Period is made N ns late; extra: one more refresh N ns into Period.
type LLIrr struct {
	Period int    `json:"p"`
	Kind   string `json:"k"`
	N      int64  `json:"n"`
}

// LatLong is a complete long-window history.
type LatLong struct {
	Cache       bool    `json:"cache,omitempty"` // driven through cache.Cache instead of latency.Latency
	PeriodNs    int64   `json:"period_ns"`
	Windows     []int64 `json:"windows"` // in periods, distinct
	PrecisionNs int64   `json:"precision_ns"`
	Lifetime    int     `json:"lifetime"` // number of periods played
	// Base samples: periods Phase, Phase+Every, ... (Every = 0: none) and every period inside a burst carry
	// PerPeriod samples at evenly spread offsets; the n-th base sample of the history has latency Lats[n % len(Lats)].
	Every     int         `json:"every"`
	Phase     int         `json:"phase,omitempty"`
	PerPeriod int         `json:"per_period"`
	Lats      []int64     `json:"lats"`
	Bursts    []LLBurst   `json:"bursts,omitempty"`
	Outliers  []LLOutlier `json:"outliers,omitempty"`
	// RefreshJit: the refresh that closes period p is RefreshJit[p % len] ns late (a ticker under load).
	RefreshJit []int64 `json:"refresh_jit,omitempty"`
	Irr        []LLIrr `json:"irr,omitempty"`
	LastCall   bool    `json:"last_call,omitempty"` // latency level only: the final refresh is UpdateLast
}

const (
	llMaxLifetime = 150000
	llMaxBaseLat  = int64(200_000_000_000)           // |latency| of a base sample: 200 s
	llMaxLat      = int64(1_000_000_000_000_000)     // |latency| of an outlier
	llCacheMinLat = int64(1_000_000)                 // cache level: every latency >= the coarsest precision
	llCacheMaxLat = int64(1_000_000_000_000)         // cache level: 1000 s
	llBase        = int64(1_700_000_000_000_000_000) // clock origin
)

// ratios window/period that the generators prefer
var llRatios = []int64{100, 1000, 1023, 1024, 1025, 1800, 2047, 2048, 2049, 3600, 4096, 4097, 8192, 43200}
var llCacheRatios = []int64{100, 1000, 1024, 1025, 1800, 2047, 2048, 2049, 3600, 4096, 43200}

// ---- generator -----------------------------------------------------------------------

func llClampInt(v, lo, hi int) int {
	if v < lo {
		return lo
	}
	if v > hi {
		return hi
	}
	return v
}

// llEstimate is the number of slot visits the code under test makes for sc (setMax and setMin walk every slot of
// every window at every refresh), the quantity the generator keeps bounded.
func llEstimate(sc *LatLong) int64 {
	if sc.Every <= 0 {
		return int64(sc.Lifetime) * 64
	}
	var live int64
	for _, k := range sc.Windows {
		if k > int64(sc.Lifetime) {
			k = int64(sc.Lifetime)
		}
		live += k/int64(sc.Every) + 1
	}
	return int64(sc.Lifetime) * live * 2
}

func genLatLong(cacheLevel bool) func(t *rapid.T) *LatLong {
	return func(t *rapid.T) *LatLong {
		sc := &LatLong{Cache: cacheLevel}
		ratios := llRatios
		periods := []int64{int64(100 * time.Millisecond), int64(time.Second), int64(2 * time.Second), int64(30 * time.Second)}
		if cacheLevel {
			// cache.New registers the names of the windows process-wide (metadata.RegisterLatencyMetadata) and every
			// refresh walks all registered names: a small set of window durations keeps that table small
			ratios = llCacheRatios
			periods = []int64{int64(time.Second), int64(2 * time.Second)}
		}
		sc.PeriodNs = rapid.SampledFrom(periods).Draw(t, "period")
		P := sc.PeriodNs
		switch rapid.IntRange(0, 9).Draw(t, "windowshape") {
		case 0, 1, 2, 3:
			sc.Windows = []int64{rapid.SampledFrom(ratios).Draw(t, "ratio")}
		case 4, 5, 6:
			sc.Windows = rapid.SliceOfNDistinct(rapid.SampledFrom(ratios), 2, 3, func(v int64) int64 { return v }).Draw(t, "ratios")
		case 7:
			// the collector's classic set: 1m, 1h, 24h at 2s (or 1m, 1h at 1s)
			if P == int64(2*time.Second) {
				sc.Windows = []int64{30, 1800, 43200}
			} else {
				sc.Windows = []int64{int64(time.Minute) / P, int64(time.Hour) / P}
				if cacheLevel {
					sc.Windows = []int64{100, 3600}
				}
			}
		default:
			if cacheLevel {
				sc.Windows = []int64{rapid.SampledFrom(ratios).Draw(t, "ratio")}
			} else {
				sc.Windows = []int64{rapid.Int64Range(50, 6000).Draw(t, "anyratio")}
			}
		}
		sc.PrecisionNs = rapid.SampledFrom(latPrecisions).Draw(t, "precision")

		// the window the lifetime and most outliers are aimed at: mostly the largest
		focus := sc.Windows[0]
		for _, k := range sc.Windows {
			if k > focus {
				focus = k
			}
		}
		if len(sc.Windows) > 1 && rapid.IntRange(0, 2).Draw(t, "focusother") == 0 {
			focus = rapid.SampledFrom(sc.Windows).Draw(t, "focus")
		}
		R := int(focus)
		var extra int
		switch lc := rapid.IntRange(0, 11).Draw(t, "lifeclass"); {
		case lc <= 2:
			extra = rapid.IntRange(1, 5).Draw(t, "extra")
		case lc <= 4:
			extra = rapid.IntRange(R/64+1, R/8+2).Draw(t, "extra")
		case lc <= 7:
			extra = rapid.IntRange(R/8+1, R).Draw(t, "extra")
		case lc <= 10:
			extra = rapid.IntRange(R, 2*R).Draw(t, "extra")
		default:
			extra = -rapid.IntRange(1, R/2).Draw(t, "short") // the window is never covered
		}
		if R >= 8192 && extra > R/8 && (cacheLevel || rapid.IntRange(0, 3).Draw(t, "trim") > 0) {
			extra = R/64 + extra%(R/8)
		}
		sc.Lifetime = llClampInt(R+extra, 2, llMaxLifetime)
		L := sc.Lifetime

		// latencies
		typical := rapid.SampledFrom([]int64{40, 7_000, 3_000_000, 250_000_000, 20_000_000_000}).Draw(t, "typical")
		if cacheLevel {
			typical = rapid.SampledFrom([]int64{20_000_000, 250_000_000, 1_000_000_000, 20_000_000_000}).Draw(t, "typical")
		}
		baseLat := func(t *rapid.T) int64 {
			var v int64
			switch rapid.IntRange(0, 5).Draw(t, "basekind") {
			case 0:
				v = genLat(sc.PrecisionNs, typical)(t)
			case 1:
				v = typical
			default:
				v = typical + rapid.Int64Range(-3, 3).Draw(t, "jitter")*(typical/16+1)
			}
			if v > llMaxBaseLat || v < -llMaxBaseLat {
				v = typical
			}
			if cacheLevel && (v < llCacheMinLat || v > llCacheMaxLat) {
				v = typical
			}
			return v
		}
		sc.Lats = rapid.SliceOfN(rapid.Custom(baseLat), 1, 9).Draw(t, "lats")
		outLat := func(t *rapid.T) int64 {
			var v int64
			switch rapid.IntRange(0, 7).Draw(t, "outkind") {
			case 0, 1, 2:
				v = typical * rapid.Int64Range(2, 200).Draw(t, "high")
			case 3, 4:
				v = typical / rapid.Int64Range(2, 200).Draw(t, "low")
			case 5:
				v = typical + rapid.Int64Range(-4, 4).Draw(t, "near")*(typical/16+1) // barely an outlier
			default:
				v = genLat(sc.PrecisionNs, typical)(t)
			}
			if cacheLevel {
				if v < llCacheMinLat {
					v = llCacheMinLat + v%1000 + 1000
				}
				if v > llCacheMaxLat {
					v = llCacheMaxLat
				}
			}
			return v
		}

		// density of the base samples
		sc.PerPeriod = 1
		g := R / 1024 // the granule a window that bounds its slot count would use
		if g < 1 {
			g = 1
		}
		switch rapid.IntRange(0, 9).Draw(t, "density") {
		case 0, 1, 2, 3:
			sc.Every = 1
			sc.PerPeriod = rapid.IntRange(1, 3).Draw(t, "perperiod")
		case 4, 5:
			sc.Every = rapid.SampledFrom([]int{2, 3, 7, 50}).Draw(t, "every")
		case 6:
			sc.Every = llClampInt(g+rapid.IntRange(-1, 1).Draw(t, "gd"), 2, 1000)
		case 7:
			sc.Every = llClampInt(R/100, 2, 1000)
		default:
			sc.Every = 0 // bursts and outliers only
		}
		if sc.Every > 1 {
			sc.Phase = rapid.IntRange(0, sc.Every-1).Draw(t, "phase")
		}
		budget := int64(60_000_000)
		if cacheLevel {
			budget = 50_000_000
		}
		if est := llEstimate(sc); est > budget {
			sc.Every *= int(est/budget) + 1
			sc.PerPeriod = 1
		}

		// outliers, each aimed at the expiry from one window
		outlier := func(t *rapid.T) LLOutlier {
			Rt := R
			if len(sc.Windows) > 1 && rapid.IntRange(0, 2).Draw(t, "otherwin") == 0 {
				Rt = int(rapid.SampledFrom(sc.Windows).Draw(t, "aim"))
			}
			last := L - 1 - Rt // the latest period whose slot still expires at a refresh of this history
			var p int
			switch pc := rapid.IntRange(0, 11).Draw(t, "place"); {
			case pc <= 3 && last >= 0:
				p = rapid.IntRange(0, last).Draw(t, "p")
			case pc == 4:
				p = rapid.IntRange(0, 1).Draw(t, "p")
			case pc <= 6:
				p = last - rapid.IntRange(0, 2).Draw(t, "back")
			case pc == 7:
				p = last + rapid.IntRange(1, 2).Draw(t, "fwd") // expires right after the end of the history
			case pc <= 9:
				gr := rapid.SampledFrom([]int{2, 4, 64, Rt/1024 + 1, Rt / 1024, Rt/1000 + 1}).Draw(t, "granule")
				if gr < 2 {
					gr = 2
				}
				hi := 0
				if last > 0 {
					hi = last / gr
				}
				p = gr*rapid.IntRange(0, hi).Draw(t, "m") + rapid.SampledFrom([]int{0, 1, gr - 1}).Draw(t, "r")
			default:
				p = rapid.IntRange(0, L-1).Draw(t, "p")
			}
			off := rapid.Int64Range(0, P).Draw(t, "off")
			switch rapid.IntRange(0, 5).Draw(t, "offkind") {
			case 0:
				off = 0
			case 1:
				off = P
			case 2, 3:
				off = P / 2
			}
			return LLOutlier{Period: llClampInt(p, 0, L-1), Off: off, Lat: outLat(t)}
		}
		sc.Outliers = rapid.SliceOfN(rapid.Custom(outlier), 1, 6).Draw(t, "outliers")
		// ordinary samples in the periods right before and after an outlier (the slots a window might merge with it)
		for i, o := range sc.Outliers {
			if rapid.IntRange(0, 3).Draw(t, fmt.Sprintf("neighbours%d", i)) == 0 {
				continue
			}
			reach := []int{0, 1, 2, 3, g, g + 1}
			lead := llClampInt(rapid.SampledFrom(reach).Draw(t, "lead"), 0, 64)
			tail := llClampInt(rapid.SampledFrom(reach).Draw(t, "tail"), 0, 64)
			start := o.Period - lead
			if start < 0 {
				start = 0
			}
			sc.Bursts = append(sc.Bursts, LLBurst{Start: start, Len: o.Period - start + 1 + tail})
		}
		nfree := rapid.IntRange(0, 2).Draw(t, "freebursts")
		for i := 0; i < nfree; i++ {
			sc.Bursts = append(sc.Bursts, LLBurst{Start: rapid.IntRange(0, L-1).Draw(t, "bstart"), Len: rapid.IntRange(2, 200).Draw(t, "blen")})
		}

		// refresh schedule
		switch rapid.IntRange(0, 9).Draw(t, "schedule") {
		case 0, 1, 2, 3: // on time, the documented use
		case 4, 5:
			sc.RefreshJit = rapid.SliceOfN(rapid.Int64Range(0, P/4), 1, 8).Draw(t, "jit")
		default:
			irr := func(t *rapid.T) LLIrr {
				p := rapid.IntRange(0, L-1).Draw(t, "ip")
				if rapid.IntRange(0, 2).Draw(t, "nearexpiry") == 0 {
					o := rapid.SampledFrom(sc.Outliers).Draw(t, "io")
					p = llClampInt(o.Period+R-rapid.IntRange(0, 2).Draw(t, "ib"), 0, L-1)
				}
				switch rapid.IntRange(0, 5).Draw(t, "ikind") {
				case 0, 1:
					return LLIrr{Period: p, Kind: "skip", N: rapid.Int64Range(1, 5).Draw(t, "n")}
				case 2:
					return LLIrr{Period: p, Kind: "skip", N: int64(llClampInt(rapid.IntRange(g, R/100+2).Draw(t, "pause"), 1, 500))}
				case 3:
					return LLIrr{Period: p, Kind: "delay", N: rapid.Int64Range(1, P-1).Draw(t, "d")}
				default:
					return LLIrr{Period: p, Kind: "extra", N: rapid.Int64Range(0, P).Draw(t, "x")}
				}
			}
			sc.Irr = rapid.SliceOfN(rapid.Custom(irr), 1, 6).Draw(t, "irr")
			if rapid.IntRange(0, 3).Draw(t, "jittoo") == 0 {
				sc.RefreshJit = rapid.SliceOfN(rapid.Int64Range(0, P/4), 1, 8).Draw(t, "jit")
			}
		}
		if !cacheLevel {
			sc.LastCall = rapid.IntRange(0, 5).Draw(t, "lastcall") == 0
		}
		return sc
	}
}

// ---- backends ------------------------------------------------------------------------

// llExport is one statistic a refresh exported: window index, type, value.
type llExport struct {
	w     int
	typ   latency.StatType
	value int64
	name  string
}

type llBackend interface {
	sample(now, lat int64)
	// refresh makes the refresh call at the current clock and returns what it exported.
	refresh(last bool) []llExport
	unknown() bool
}

type llKey struct {
	w   int
	typ latency.StatType
}

// llPkg drives latency.Latency directly.
type llPkg struct {
	l     *latency.Latency
	m     *latMeta
	names map[string]llKey
	unk   bool
	buf   []llExport
}

func (b *llPkg) sample(now, lat int64) { b.l.Compute(time.Unix(0, now-lat)) }

func (b *llPkg) refresh(last bool) []llExport {
	b.m.cur, b.m.inCall = b.m.cur[:0], true
	if last {
		b.l.UpdateLast(b.m)
	} else {
		b.l.UpdateReset(b.m)
	}
	b.m.inCall = false
	b.buf = b.buf[:0]
	for _, e := range b.m.cur {
		k, ok := b.names[e.name]
		if !ok {
			b.unk = true
			continue
		}
		b.buf = append(b.buf, llExport{k.w, k.typ, e.value, e.name})
	}
	return b.buf
}

func (b *llPkg) unknown() bool { return b.unk }

// llCache drives one target of a cache.Cache; what a refresh "exported" is what the latency leaves hold after it.
type llCache struct {
	c     *cache.Cache
	durs  []time.Duration
	paths [][3][]string
	names [][3]string
	n     int64
	buf   []llExport
}

const llDev = "dev"

func (b *llCache) sample(now, lat int64) {
	b.n++
	b.c.GnmiUpdate(&pb.Notification{
		Timestamp: now - lat,
		Prefix:    &pb.Path{Target: llDev},
		Update: []*pb.Update{{
			// a fresh leaf for every sample: never stale, never suppressed
			Path: &pb.Path{Elem: []*pb.PathElem{{Name: "a"}, {Name: strconv.FormatInt(b.n, 10)}}},
			Val:  &pb.TypedValue{Value: &pb.TypedValue_IntVal{IntVal: b.n}},
		}},
	})
}

func (b *llCache) refresh(bool) []llExport {
	b.c.UpdateMetadata()
	b.buf = b.buf[:0]
	for w := range b.durs {
		for _, typ := range nLatTypes {
			b.c.Query(llDev, b.paths[w][typ], func(_ []string, _ *ctree.Leaf, v interface{}) error {
				if n, ok := v.(*pb.Notification); ok && len(n.GetUpdate()) == 1 {
					if iv, isInt := n.GetUpdate()[0].GetVal().GetValue().(*pb.TypedValue_IntVal); isInt {
						b.buf = append(b.buf, llExport{w, typ, iv.IntVal, b.names[w][typ]})
					}
				}
				return nil
			})
		}
	}
	return b.buf
}

func (b *llCache) unknown() bool { return false }

// ---- harness bookkeeping -------------------------------------------------------------

// llSlot is a non-empty slot of the harness: what was observed between two consecutive refreshes.
type llSlot struct {
	end    int64
	lo, hi int64
	n      int64
	period int // the period the slot's refresh closed
}

// llWin is the harness's sliding view of one window.
type llWin struct {
	k         int64
	size      int64
	head      int   // first slot that is still inside
	n         int64 // samples inside
	minq      []int // indices of slots, lo increasing
	maxq      []int // indices of slots, hi decreasing
	minh      int
	maxh      int
	exported  bool // exported at least once
	tightened bool
	lastGone  int // index of the slot that left most recently, -1: none
}

func (w *llWin) push(slots []llSlot, i int) {
	s := &slots[i]
	w.n += s.n
	for len(w.minq) > w.minh && slots[w.minq[len(w.minq)-1]].lo >= s.lo {
		w.minq = w.minq[:len(w.minq)-1]
	}
	w.minq = append(w.minq, i)
	for len(w.maxq) > w.maxh && slots[w.maxq[len(w.maxq)-1]].hi <= s.hi {
		w.maxq = w.maxq[:len(w.maxq)-1]
	}
	w.maxq = append(w.maxq, i)
}

// expire drops the slots that ended at or before cutoff.
func (w *llWin) expire(slots []llSlot, cutoff int64) (dropped int) {
	for w.head < len(slots) && slots[w.head].end <= cutoff {
		w.n -= slots[w.head].n
		if w.minh < len(w.minq) && w.minq[w.minh] == w.head {
			w.minh++
		}
		if w.maxh < len(w.maxq) && w.maxq[w.maxh] == w.head {
			w.maxh++
		}
		w.lastGone = w.head
		w.head++
		dropped++
	}
	// keep the deques' backing arrays from growing without bound
	if w.minh > 4096 && w.minh*2 > len(w.minq) {
		w.minq = append(w.minq[:0], w.minq[w.minh:]...)
		w.minh = 0
	}
	if w.maxh > 4096 && w.maxh*2 > len(w.maxq) {
		w.maxq = append(w.maxq[:0], w.maxq[w.maxh:]...)
		w.maxh = 0
	}
	return dropped
}

func (w *llWin) bounds(slots []llSlot) (lo, hi int64) {
	return slots[w.minq[w.minh]].lo, slots[w.maxq[w.maxh]].hi
}

// ---- stats ---------------------------------------------------------------------------

type llStats struct {
	cache                                                       bool
	ratioConfigured, ratioExporting, ratioTightened             map[string]bool
	lifeClass                                                   string
	dense, sparse, burstsOnly, multiSample                      bool
	regular, jittered, skipped, longPause, delayed, extra       bool
	multiWindow, updateLast, unknownName                        bool
	tightenedAny, tightenedBig                                  bool
	neighbour1, neighbourGranule, neighbour64, neighbourFar     bool
	live1024, live2048, live4096                                bool
	emptiedRetained, neverCovered, negative, zero               bool
	expiredAtLastRefreshes, outlierFirstPeriod, outlierBoundary bool
	refreshes, judged, slots                                    int
}

func llRatioClass(k int64) string {
	switch {
	case k < 1000:
		return "<1000"
	case k < 1024:
		return "1000-1023"
	case k == 1024:
		return "1024"
	case k < 2048:
		return "1025-2047"
	case k == 2048:
		return "2048"
	case k < 4096:
		return "2049-4095"
	case k < 43200:
		return "4096-43199"
	}
	return "43200+"
}

// nontrivial: a window of at least 1000 periods exported a statistic at a refresh at which the expiry of a slot
// tightened the bounds of that window (the extreme latency had just left it).
func (s *llStats) nontrivial() bool { return s.tightenedBig }

func (s *llStats) labels() []string {
	var l []string
	add := func(b bool, n string) {
		if b {
			l = append(l, n)
		}
	}
	for _, x := range []struct {
		m      map[string]bool
		prefix string
	}{{s.ratioConfigured, "window-configured:"}, {s.ratioExporting, "window-exported:"}, {s.ratioTightened, "bounds-tightened-by-expiry-while-exporting:"}} {
		for k := range x.m {
			l = append(l, x.prefix+k+"-periods")
		}
	}
	add(s.lifeClass != "", "lifetime/largest-exporting-window:"+s.lifeClass)
	add(s.neverCovered, "nothing-exported(window-never-covered)")
	add(s.dense, "samples-every-period")
	add(s.sparse, "samples-every-nth-period")
	add(s.burstsOnly, "samples-in-bursts-and-outliers-only")
	add(s.multiSample, "2plus-samples-per-period")
	add(s.regular, "schedule-regular")
	add(s.jittered, "schedule-every-refresh-late(jitter)")
	add(s.skipped, "schedule-refreshes-skipped")
	add(s.longPause, "schedule-long-pause(>=size/1024)")
	add(s.delayed, "schedule-one-refresh-delayed")
	add(s.extra, "schedule-extra-refresh-inside-a-period")
	add(s.multiWindow, "multi-window")
	add(s.updateLast, "closed-by-UpdateLast")
	add(s.unknownName, "export-under-unknown-name")
	add(s.tightenedAny, "bounds-tightened-by-expiry-while-exporting")
	add(s.neighbour1, "tightened:next-live-slot-within-1-period")
	add(s.neighbourGranule, "tightened:next-live-slot-within-size/1024")
	add(s.neighbour64, "tightened:next-live-slot-within-size/64")
	add(s.neighbourFar, "tightened:next-live-slot-farther")
	add(s.live1024, "window-held>=1024-non-empty-slots")
	add(s.live2048, "window-held>=2048-non-empty-slots")
	add(s.live4096, "window-held>=4096-non-empty-slots")
	add(s.emptiedRetained, "leaf-of-emptied-window-retained(not-judged)")
	add(s.negative, "negative-latency")
	add(s.zero, "zero-latency")
	add(s.expiredAtLastRefreshes, "outlier-expires-at-one-of-the-last-3-refreshes")
	add(s.outlierFirstPeriod, "outlier-in-first-2-periods")
	add(s.outlierBoundary, "outlier-at-period-boundary")
	sort.Strings(l)
	return l
}

// ---- run -----------------------------------------------------------------------------

func validateLatLong(sc *LatLong) error {
	if sc.PeriodNs <= 0 || sc.PeriodNs > int64(time.Hour) {
		return fmt.Errorf("bad scenario: period %d", sc.PeriodNs)
	}
	if len(sc.Windows) < 1 || len(sc.Windows) > 8 {
		return fmt.Errorf("bad scenario: %d windows", len(sc.Windows))
	}
	seen := map[int64]bool{}
	for _, k := range sc.Windows {
		if k < 1 || k > 100000 || seen[k] {
			return fmt.Errorf("bad scenario: window multiples %v (must be distinct, 1..100000)", sc.Windows)
		}
		seen[k] = true
	}
	ok := false
	for _, p := range latPrecisions {
		ok = ok || p == sc.PrecisionNs
	}
	if !ok {
		return fmt.Errorf("bad scenario: precision %d", sc.PrecisionNs)
	}
	if sc.Lifetime < 1 || sc.Lifetime > llMaxLifetime {
		return fmt.Errorf("bad scenario: lifetime %d", sc.Lifetime)
	}
	if sc.Every < 0 || sc.PerPeriod < 1 || sc.PerPeriod > 4 || len(sc.Lats) == 0 || len(sc.Outliers) > 64 || len(sc.Bursts) > 64 || len(sc.Irr) > 64 {
		return fmt.Errorf("bad scenario: every=%d per_period=%d lats=%d outliers=%d bursts=%d irr=%d", sc.Every, sc.PerPeriod, len(sc.Lats), len(sc.Outliers), len(sc.Bursts), len(sc.Irr))
	}
	// The sums the code keeps (per slot and per window) must stay far from the int64 range: the documentation of
	// Options.AvgPrecision puts that on the caller. 150000 periods x 4 samples x 200 s + 64 x 1e15 ns < 2e17.
	for _, v := range sc.Lats {
		if v > llMaxBaseLat || v < -llMaxBaseLat || sc.Cache && (v < llCacheMinLat || v > llCacheMaxLat) {
			return fmt.Errorf("bad scenario: base latency %d", v)
		}
	}
	for _, o := range sc.Outliers {
		if o.Lat > llMaxLat || o.Lat < -llMaxLat || sc.Cache && (o.Lat < llCacheMinLat || o.Lat > llCacheMaxLat) {
			return fmt.Errorf("bad scenario: outlier latency %d", o.Lat)
		}
		if o.Off < 0 || o.Off > sc.PeriodNs {
			return fmt.Errorf("bad scenario: outlier offset %d", o.Off)
		}
	}
	for _, b := range sc.Bursts {
		if b.Len < 0 || b.Len > 100000 {
			return fmt.Errorf("bad scenario: burst length %d", b.Len)
		}
	}
	for _, j := range sc.RefreshJit {
		if j < 0 || j > sc.PeriodNs/2 {
			return fmt.Errorf("bad scenario: refresh jitter %d", j)
		}
	}
	for _, x := range sc.Irr {
		switch x.Kind {
		case "skip":
			if x.N < 1 || x.N > 1000 {
				return fmt.Errorf("bad scenario: skip %d", x.N)
			}
		case "delay":
			if x.N < 0 || x.N >= sc.PeriodNs {
				return fmt.Errorf("bad scenario: delay %d", x.N)
			}
		case "extra":
			if x.N < 0 || x.N > sc.PeriodNs {
				return fmt.Errorf("bad scenario: extra %d", x.N)
			}
		default:
			return fmt.Errorf("bad scenario: irregularity %q", x.Kind)
		}
	}
	if sc.Cache && sc.LastCall {
		return fmt.Errorf("bad scenario: UpdateLast is not reachable through the cache")
	}
	return nil
}

type llEvent struct {
	off     int64
	refresh bool
	lat     int64
}

// runLatLong plays sc and judges every statistic exported by every refresh.
func runLatLong(sc *LatLong) (st *llStats, err error) {
	st = &llStats{cache: sc.Cache, ratioConfigured: map[string]bool{}, ratioExporting: map[string]bool{}, ratioTightened: map[string]bool{}}
	if verr := validateLatLong(sc); verr != nil {
		return st, &latFailure{"infra", verr.Error()}
	}
	savedL, savedC := latency.Now, cache.Now
	defer func() { latency.Now, cache.Now = savedL, savedC }()
	defer func() {
		if r := recover(); r != nil {
			if f, ok := r.(*latFailure); ok {
				err = f
				return
			}
			err = &latFailure{"panic", fmt.Sprintf("panic in the code under test: %v", r)}
		}
	}()
	clock := llBase
	now := func() time.Time { return time.Unix(0, clock) }
	latency.Now = now
	if sc.Cache {
		cache.Now = now
	}

	P := sc.PeriodNs
	period := time.Duration(P)
	var strs []string
	var durs []time.Duration
	for _, k := range sc.Windows {
		d := time.Duration(k) * period
		durs = append(durs, d)
		strs = append(strs, d.String())
		st.ratioConfigured[llRatioClass(k)] = true
	}
	st.multiWindow = len(durs) > 1

	var be llBackend
	if sc.Cache {
		o, oerr := cache.WithLatencyWindows(strs, period)
		if oerr != nil {
			return st, &latFailure{"infra", "WithLatencyWindows: " + oerr.Error()}
		}
		opts := []cache.Option{o}
		if sc.PrecisionNs > 1 {
			opts = append(opts, cache.WithAvgLatencyPrecision(time.Duration(sc.PrecisionNs)))
		}
		c := cache.New([]string{llDev}, opts...)
		if got := c.LatencyWindows(); len(got) != len(durs) {
			return st, &latFailure{"infra", fmt.Sprintf("cache.LatencyWindows() = %v, configured %v", got, durs)}
		}
		c.Connect(llDev)
		c.Sync(llDev) // latency is measured for updates that arrive in sync
		cb := &llCache{c: c, durs: durs}
		for _, d := range durs {
			var ps [3][]string
			var ns [3]string
			for _, typ := range nLatTypes {
				ps[typ] = metadata.LatencyPath(d, typ)
				ns[typ] = latency.MetadataName(d, typ)
			}
			cb.paths = append(cb.paths, ps)
			cb.names = append(cb.names, ns)
		}
		be = cb
	} else {
		parsed, perr := latency.ParseWindows(strs, period)
		if perr != nil || len(parsed) != len(durs) {
			return st, &latFailure{"infra", fmt.Sprintf("ParseWindows(%v, %v) = %v, %v", strs, period, parsed, perr)}
		}
		for i := range parsed {
			if parsed[i] != durs[i] {
				return st, &latFailure{"infra", fmt.Sprintf("ParseWindows(%v)[%d] = %v", strs, i, parsed[i])}
			}
		}
		var opts *latency.Options
		if sc.PrecisionNs != 1 {
			opts = &latency.Options{AvgPrecision: time.Duration(sc.PrecisionNs)}
		}
		lp := &llPkg{l: latency.New(parsed, opts), m: &latMeta{}, names: map[string]llKey{}}
		for i, d := range durs {
			for _, typ := range nLatTypes {
				lp.names[latency.MetadataName(d, typ)] = llKey{i, typ}
			}
		}
		be = lp
	}

	// scenario tables, sorted copies
	outliers := append([]LLOutlier(nil), sc.Outliers...)
	sort.SliceStable(outliers, func(i, j int) bool { return outliers[i].Period < outliers[j].Period })
	bursts := append([]LLBurst(nil), sc.Bursts...)
	sort.SliceStable(bursts, func(i, j int) bool { return bursts[i].Start < bursts[j].Start })
	skipAt := map[int]int64{}
	delayAt := map[int]int64{}
	extraAt := map[int][]int64{}
	for _, x := range sc.Irr {
		switch x.Kind {
		case "skip":
			if x.N > skipAt[x.Period] {
				skipAt[x.Period] = x.N
			}
			st.skipped = true
		case "delay":
			if x.N > delayAt[x.Period] {
				delayAt[x.Period] = x.N
			}
			st.delayed = true
		case "extra":
			extraAt[x.Period] = append(extraAt[x.Period], x.N)
			st.extra = true
		}
	}
	for _, j := range sc.RefreshJit {
		if j != 0 {
			st.jittered = true
		}
	}
	st.regular = !st.jittered && len(sc.Irr) == 0
	switch {
	case sc.Every == 1:
		st.dense = true
	case sc.Every > 1:
		st.sparse = true
	default:
		st.burstsOnly = true
	}
	st.multiSample = sc.PerPeriod > 1
	for _, x := range sc.Irr {
		if x.Kind == "skip" {
			for _, k := range sc.Windows {
				if x.N*1024 >= k {
					st.longPause = true
				}
			}
		}
	}
	for _, o := range outliers {
		if o.Period < 2 {
			st.outlierFirstPeriod = true
		}
		if o.Off == 0 || o.Off == P {
			st.outlierBoundary = true
		}
		for _, k := range sc.Windows {
			if e := o.Period + int(k); e >= sc.Lifetime-3 && e < sc.Lifetime {
				st.expiredAtLastRefreshes = true
			}
		}
	}

	wins := make([]*llWin, len(durs))
	for i, k := range sc.Windows {
		wins[i] = &llWin{k: k, size: k * P, lastGone: -1}
	}
	var slots []llSlot
	var curLo, curHi, curN int64
	baseCount := 0
	refreshNo := 0

	observe := func(lat int64) {
		be.sample(clock, lat)
		if curN == 0 || lat < curLo {
			curLo = lat
		}
		if curN == 0 || lat > curHi {
			curHi = lat
		}
		curN++
		if lat < 0 {
			st.negative = true
		} else if lat == 0 {
			st.zero = true
		}
	}

	refresh := func(p int, kind string, last bool) {
		refreshNo++
		st.refreshes++
		pushed := -1
		if curN > 0 {
			slots = append(slots, llSlot{end: clock, lo: curLo, hi: curHi, n: curN, period: p})
			pushed = len(slots) - 1
			curN = 0
		}
		exports := be.refresh(last)
		var exportedFor [8]bool
		for _, e := range exports {
			exportedFor[e.w] = true
		}
		for wi, w := range wins {
			if pushed >= 0 {
				w.push(slots, pushed)
			}
			var loB, hiB int64
			had := w.n > 0
			if had {
				loB, hiB = w.bounds(slots)
			}
			dropped := w.expire(slots, clock-w.size)
			live := len(slots) - w.head
			if live >= 1024 {
				st.live1024 = true
			}
			if live >= 2048 {
				st.live2048 = true
			}
			if live >= 4096 {
				st.live4096 = true
			}
			if !exportedFor[wi] {
				continue
			}
			if !w.exported {
				w.exported = true
				st.ratioExporting[llRatioClass(w.k)] = true
			}
			if w.n == 0 {
				if sc.Cache {
					// the leaves of a window keep their last values when every sample has left the window (nothing is
					// set for an empty window): not a statistic of this refresh
					st.emptiedRetained = true
					continue
				}
				for _, e := range exports {
					if e.w == wi {
						panic(&latFailure{"oracle", fmt.Sprintf("%s #%d (%s, end of period %d, +%v): window %v exported %s=%d, but no latency was observed in any slot that ends inside the window (the last slot left it at +%v)",
							llCall(last), refreshNo, kind, p, time.Duration(clock-llBase), durs[wi], e.name, e.value, llGone(slots, w))})
					}
				}
			}
			lo, hi := w.bounds(slots)
			if dropped > 0 && had && (lo > loB || hi < hiB) {
				st.tightenedAny = true
				cls := llRatioClass(w.k)
				st.ratioTightened[cls] = true
				if w.k >= 1000 {
					st.tightenedBig = true
				}
				gap := slots[w.head].end - slots[w.lastGone].end
				switch {
				case gap <= P+P/2:
					st.neighbour1 = true
				case gap <= w.size/1024:
					st.neighbourGranule = true
				case gap <= w.size/64:
					st.neighbour64 = true
				default:
					st.neighbourFar = true
				}
			}
			for _, e := range exports {
				if e.w != wi {
					continue
				}
				st.judged++
				tol := int64(0)
				if e.typ == latency.Avg {
					tol = sc.PrecisionNs
				}
				if e.value < lo-tol || e.value > hi+tol {
					what := "exported"
					if sc.Cache {
						what = "left in its leaf"
					}
					panic(&latFailure{"oracle", fmt.Sprintf("%s #%d (%s, end of period %d, +%v): window %v (%d periods) %s %s=%d (%v), outside [%d, %d] (%v .. %v) = smallest and largest latency of the %d samples in the %d non-empty slots that end inside the window (tolerance %dns); most recently expired slot: %s",
						llCall(last), refreshNo, kind, p, time.Duration(clock-llBase), durs[wi], w.k, what, e.name, e.value, time.Duration(e.value), lo, hi, time.Duration(lo), time.Duration(hi), w.n, live, tol, llGone(slots, w))})
				}
			}
		}
	}

	var evs []llEvent
	bi, oi := 0, 0
	burstUntil := 0
	skipLeft := int64(0)
	for p := 0; p < sc.Lifetime; p++ {
		start := llBase + int64(p)*P
		for bi < len(bursts) && bursts[bi].Start <= p {
			if e := bursts[bi].Start + bursts[bi].Len; e > burstUntil {
				burstUntil = e
			}
			bi++
		}
		evs = evs[:0]
		if p < burstUntil || sc.Every > 0 && p >= sc.Phase && (p-sc.Phase)%sc.Every == 0 {
			for i := 0; i < sc.PerPeriod; i++ {
				evs = append(evs, llEvent{off: int64(i+1) * P / int64(sc.PerPeriod+1), lat: sc.Lats[baseCount%len(sc.Lats)]})
				baseCount++
			}
		}
		mixed := false
		for oi < len(outliers) && outliers[oi].Period <= p {
			if outliers[oi].Period == p {
				evs = append(evs, llEvent{off: outliers[oi].Off, lat: outliers[oi].Lat})
				mixed = true
			}
			oi++
		}
		for _, x := range extraAt[p] {
			evs = append(evs, llEvent{off: x, refresh: true})
			mixed = true
		}
		if mixed {
			sort.SliceStable(evs, func(i, j int) bool { return evs[i].off < evs[j].off })
		}
		for _, e := range evs {
			if t := start + e.off; t > clock {
				clock = t // the clock never runs backwards (a late refresh may have passed this offset already)
			}
			if e.refresh {
				refresh(p, "extra refresh inside the period", false)
			} else {
				observe(e.lat)
			}
		}
		// the refresh that closes period p
		if n := skipAt[p]; n > skipLeft {
			skipLeft = n
		}
		isLast := p == sc.Lifetime-1
		if skipLeft > 0 && !isLast {
			skipLeft--
			continue
		}
		skipLeft = 0
		t := start + P + delayAt[p]
		if len(sc.RefreshJit) > 0 {
			t += sc.RefreshJit[p%len(sc.RefreshJit)]
		}
		if t > clock {
			clock = t
		}
		if isLast && sc.LastCall {
			st.updateLast = true
		}
		refresh(p, "periodic refresh", isLast && sc.LastCall)
	}
	st.slots = len(slots)
	st.unknownName = be.unknown()

	var largest int64
	for _, w := range wins {
		if w.exported && w.k > largest {
			largest = w.k
		}
	}
	switch x := float64(sc.Lifetime) / float64(largest); {
	case largest == 0:
		st.neverCovered = true
	case x <= 1.02:
		st.lifeClass = "<=1.02x"
	case x <= 1.25:
		st.lifeClass = "1.02x-1.25x"
	case x <= 2:
		st.lifeClass = "1.25x-2x"
	default:
		st.lifeClass = ">2x"
	}
	return st, nil
}

func llCall(last bool) string {
	if last {
		return "UpdateLast"
	}
	return "refresh"
}

// llGone describes the slot that left window w most recently.
func llGone(slots []llSlot, w *llWin) string {
	if w.lastGone < 0 {
		return "none"
	}
	s := slots[w.lastGone]
	return fmt.Sprintf("closed period %d at +%v with %d samples in [%d, %d]", s.period, time.Duration(s.end-llBase), s.n, s.lo, s.hi)
}

// describeLatLong renders a scenario compactly for failure messages.
func describeLatLong(sc *LatLong) string {
	level := "latency.Latency"
	if sc.Cache {
		level = "cache.Cache"
	}
	return fmt.Sprintf("%s period=%v windows(periods)=%v precision=%v lifetime=%d periods, base samples every %d (phase %d, %d per period, latencies %v), bursts %v, outliers %v, refresh jitter %v, irregularities %v, UpdateLast=%v",
		level, time.Duration(sc.PeriodNs), sc.Windows, time.Duration(sc.PrecisionNs), sc.Lifetime, sc.Every, sc.Phase, sc.PerPeriod, sc.Lats, sc.Bursts, sc.Outliers, sc.RefreshJit, sc.Irr, sc.LastCall)
}
