package cacheprop

import (
	"errors"
	"fmt"
	"math"
	"runtime/debug"
	"sort"
	"strings"
	"time"

	"github.com/openconfig/gnmi/cache"
	"github.com/openconfig/gnmi/ctree"
	"github.com/openconfig/gnmi/metadata"
	pb "github.com/openconfig/gnmi/proto/gnmi"
	"google.golang.org/protobuf/proto"
	"verif/harness/internal/gn"
)

// ---- reference model -----------------------------------------------------------

type mleaf struct {
	ts         int64
	n          *pb.Notification // stored form: single update, or the whole atomic notification
	suppressed bool             // last write was accepted but withheld from the feed
}

type mtarget struct {
	leaves   map[string]*mleaf
	latest   int64 // greatest accepted non-metadata timestamp since the last reset, 0 = none
	accepted bool  // an update was accepted since the last reset
}

func newMTarget() *mtarget { return &mtarget{leaves: map[string]*mleaf{}} }

func (m *mtarget) sortedKeys() []string {
	ks := make([]string, 0, len(m.leaves))
	for k := range m.leaves {
		ks = append(ks, k)
	}
	sort.Strings(ks)
	return ks
}

// addOK: a new leaf can be stored unless a proper prefix is a leaf or the path is interior.
func (m *mtarget) addOK(p []string) bool {
	for k := range m.leaves {
		q := gn.Unkey(k)
		if gn.IsProperPrefix(q, p) || gn.IsProperPrefix(p, q) {
			return false
		}
	}
	return true
}

// outcome classes of one submitted update
const (
	oNew       = "new"
	oReplaced  = "replaced"  // value changed: must be fed
	oSameValue = "samevalue" // accepted, value unchanged: may be suppressed when emulation is on
	oStale     = "stale"
	oFuture    = "future"
	oCollide   = "collide"
)

// stats of one scenario, for the non-triviality rules and labels
type stats struct {
	staleOnExisting, equalTSReplace, deleteMatched, deleteAtStoredTS, futureRejected, futureAccepted bool
	hugeThreshold, legacyValue, starLiteral, projectionCompared, serverName, excludedMeta           bool
	valueKinds                                                                                      map[string]bool // value kinds of the updates actually built
	sharedPrefixMultiDelete, multiMixed, plainOverAtomic, atomicOverPlain, suppressedSeen            bool
	resetWide, removeWide, connErrThenConnect, emptyNoti, acceptedSeen, collideSeen                  bool
	ambiguous, latestChecked, metaDeleted, readd, elementEnc, keyed                                  bool
	sawConnErr                                                                                       map[string]bool
	maxBulk, maxDeleted                                                                              int
	nearValue, directEntry, mixedEnc, extremeTS, pathOrigin, readdLive                               bool
	bigDeleteWithSurvivor                                                                            bool
	heldDeleteLeaves                                                                                 int
	// feeder styles (feeder.go): what the caller re-used or overwrote after a call
	feederStyle                                                                 string
	updListReused, delListReused, structReused, prefixRewritten, keyMapReused   bool
	elemArena, listsScribbled, spareWritten, refusedScribbled, refillOverStored bool
}

func (s *stats) labels() []string {
	var l []string
	for k := range s.valueKinds {
		l = append(l, "value-kind:"+k)
	}
	sort.Strings(l)
	add := func(b bool, n string) {
		if b {
			l = append(l, n)
		}
	}
	add(s.heldDeleteLeaves > 1, "several-delete-handles-re-read-after-the-call")
	add(s.feederStyle == feedFresh, "feeder:fresh-objects-for-every-notification")
	add(s.feederStyle == feedBatch, "feeder:batch-buffers-re-used")
	add(s.feederStyle == feedScribble, "feeder:everything-re-used-and-scribbled")
	add(s.updListReused, "update-list-built-over-the-previous-batch(same-backing-array)")
	add(s.refillOverStored, "update-list-slots-of-still-stored-leaves-overwritten")
	add(s.delListReused, "delete-list-built-over-the-previous-batch(same-backing-array)")
	add(s.structReused, "notification-struct-re-used-for-the-next-call")
	add(s.prefixRewritten, "prefix-object-rewritten-in-place-for-the-next-call")
	add(s.keyMapReused, "key-map-re-used-for-another-path")
	add(s.elemArena, "element-arrays-of-prefix-and-delete-paths-in-one-backing-array")
	add(s.listsScribbled, "lists-paths-prefix-struct-overwritten-right-after-the-call")
	add(s.spareWritten, "spare-capacity-of-a-submitted-list-written-after-the-call")
	add(s.refusedScribbled, "messages-of-a-refused-notification-overwritten-in-place")
	add(s.staleOnExisting, "update-at-or-below-stored-ts")
	add(s.equalTSReplace, "same-ts-different-value-replaces")
	add(s.deleteMatched, "delete-matched-leaf")
	add(s.deleteAtStoredTS, "delete-at-exactly-stored-ts")
	add(s.futureRejected, "future-rejected")
	add(s.futureAccepted, "future-beyond-clock-accepted-by-latest")
	add(s.legacyValue, "value-in-the-deprecated-value-field")
	add(s.serverName, "cache-created-with-a-server-name")
	add(s.excludedMeta, "cache-created-with-excluded-metadata-entries")
	add(s.projectionCompared, "target-compared-with-a-run-without-the-other-targets-operations")
	add(s.starLiteral, "update-path-with-an-element-or-key-value-that-is-literally-a-star")
	add(s.hugeThreshold, "future-threshold-near-the-int64-range(never-reject)")
	add(s.sharedPrefixMultiDelete, "delete-2plus-through-shared-prefix")
	add(s.multiMixed, "multi-mixed-accept-reject")
	add(s.plainOverAtomic, "plain-over-atomic")
	add(s.atomicOverPlain, "atomic-over-plain")
	add(s.suppressedSeen, "suppressed")
	add(s.resetWide, "reset-wide-with-overlap")
	add(s.removeWide, "remove-wide-with-overlap")
	add(s.connErrThenConnect, "connecterr-then-connect")
	add(s.emptyNoti, "empty-notification")
	add(s.collideSeen, "prefix-collision-error")
	add(s.ambiguous, "same-ts-same-value-other-encoding(adopted)")
	add(s.latestChecked, "latest-timestamp-checked")
	add(s.metaDeleted, "glob-delete-took-metadata-leaves")
	add(s.readd, "target-re-added")
	add(s.elementEnc, "deprecated-element-encoding")
	add(s.keyed, "keyed-path")
	add(s.nearValue, "update-with-smallest-change-of-stored-value")
	add(s.directEntry, "operation-through-the-per-target-entry-point")
	add(s.mixedEnc, "prefix-and-paths-in-different-or-both-encodings")
	add(s.extremeTS, "timestamp-from-the-edges-of-the-int64-range")
	add(s.readdLive, "add-of-a-name-that-is-already-registered")
	add(s.pathOrigin, "origin-carried-by-an-update-or-delete-path")
	add(s.maxBulk > 32, "bulk-update>32")
	add(s.maxBulk > 64, "bulk-update>64")
	add(s.maxBulk > 1024, "bulk-update>1024")
	add(s.maxDeleted > 1024, "one-delete-removed>1024-leaves")
	add(s.maxDeleted > 32, "one-delete-removed>32")
	add(s.maxDeleted > 64, "one-delete-removed>64")
	add(s.bigDeleteWithSurvivor, "delete-removed>32-and-left-a-matching-survivor")
	return l
}

func (s *stats) nontrivial(prop string) bool {
	switch prop {
	case "C02":
		return s.staleOnExisting && s.deleteMatched
	case "C03":
		return s.sharedPrefixMultiDelete || s.multiMixed
	case "C14":
		return s.resetWide || s.removeWide
	case "C15":
		return s.acceptedSeen && s.suppressedSeen && s.staleOnExisting && s.deleteMatched && s.connErrThenConnect
	}
	return false
}

// ---- world: the real cache plus everything the oracles observe -------------------

type feedEntry struct {
	n *pb.Notification // clone taken inside the callback
	// the handle itself when it announces a delete: such a leaf belongs to no tree, so what it holds when a
	// consumer gets round to reading it (the Subscribe server reads it when the entry is sent) is what it held
	// when it was handed over
	leaf *ctree.Leaf
}

type world struct {
	sc      *Scenario
	c       *cache.Cache
	initial *metadata.Metadata // metadata of a target just registered with a cache of the same options
	clock   int64
	feed    []feedEntry
	replay  map[string]*pb.Notification // key includes the target
	model   map[string]*mtarget         // live targets
	pool    map[string]*pb.Path         // shared prefix objects
	poolLen map[string]int
	st      stats
	check   map[string]bool // enabled property oracles
	atomics []*pb.Notification
	log     []concreteOp // what was actually submitted, for the multi==singles rerun
	direct  bool         // the current step uses the exported methods of *cache.Target
	feeders map[string]*feeder    // caller-side containers re-used between notifications (feeder.go)
	gen     map[proto.Message]int // how often the feeder itself rewrote a message it owns
}

// concreteOp is one executed step with every state-dependent choice resolved.
type concreteOp struct {
	kind  string
	name  string
	clock int64
	n     *pb.Notification // clone taken before the call
	orig  *pb.Notification // the object that was handed to the cache (the caller keeps it)
	msg   string
	// feeder styles: whole = the feeder has not re-used anything of orig, it must equal n; otherwise the parts
	// (prefix, updates, delete paths) the feeder has not rewritten since must equal their clones
	whole, touchable bool
	parts            []part
}

type failure struct {
	prop string
	msg  string
}

func (f *failure) Error() string { return f.prop + ": " + f.msg }

// fail ends the case with a violation of prop if that property's oracles are
// enabled in this run (it panics with *failure, recovered in run); for a
// disabled property it is a no-op and the caller carries on.
func (w *world) fail(prop, format string, a ...any) {
	if !w.check[prop] {
		return
	}
	panic(&failure{prop, fmt.Sprintf(format, a...)})
}

// failMulti is a C03 violation if the operation just made was a notification with several entries: the
// reference applies such a notification as its updates then its deletes one at a time (each judged against
// the clock and the latest accepted timestamp as they were when the call began), so a stored state that
// differs from the reference right after it is the "behaves as ... applied one at a time" clause failing.
// (With a future threshold the comparison against a second cache fed one entry per call is not available:
// there the latest accepted timestamp legitimately moves between the calls.)
func (w *world) failMulti(format string, a ...any) {
	if len(w.log) == 0 {
		return
	}
	op := w.log[len(w.log)-1]
	if op.kind != "noti" || op.n.GetAtomic() || len(op.n.GetUpdate())+len(op.n.GetDelete()) < 2 {
		return
	}
	w.fail("C03", format, a...)
}

func newWorld(sc *Scenario, props map[string]bool) *world {
	w := &world{sc: sc, clock: 1_000_000, replay: map[string]*pb.Notification{}, model: map[string]*mtarget{},
		pool: map[string]*pb.Path{}, poolLen: map[string]int{}, check: props}
	w.st.sawConnErr = map[string]bool{}
	w.st.feederStyle = sc.Feeder
	cache.Now = func() time.Time { return cache.T(w.clock) }
	var opts []cache.Option
	if sc.Threshold > 0 {
		opts = append(opts, cache.WithFutureThreshold(time.Duration(sc.Threshold)))
	}
	if !sc.EventDriven {
		opts = append(opts, cache.DisableEventDrivenEmulation())
	}
	if len(sc.ExcludedMeta) > 0 {
		opts = append(opts, cache.WithExcludedMeta(sc.ExcludedMeta))
		w.st.excludedMeta = true
	}
	if sc.ServerName != "" {
		opts = append(opts, cache.WithServerName(sc.ServerName))
		w.st.serverName = true
	}
	var targets []string
	for i := 0; i < sc.Targets; i++ {
		targets = append(targets, targetName(i))
		w.model[targetName(i)] = newMTarget()
	}
	w.c = cache.New(targets, opts...)
	// the initial metadata values of a target: what a target just registered with a cache of the same options reports
	w.initial = cache.New([]string{"fresh"}, opts...).Metadata()["fresh"]
	w.c.SetClient(func(l *ctree.Leaf) {
		n, ok := l.Value().(*pb.Notification)
		if !ok {
			w.feed = append(w.feed, feedEntry{n: nil})
			return
		}
		e := feedEntry{n: proto.Clone(n).(*pb.Notification)}
		if len(n.Delete) > 0 {
			e.leaf = l
		}
		w.feed = append(w.feed, e)
	})
	return w
}

// feedKey computes the client-side index of a fed notification's entry.
func updKey(n *pb.Notification, u *pb.Update) []string {
	return append(gn.RefIndex(n.GetPrefix(), true), gn.RefIndex(u.GetPath(), false)...)
}

func delKey(n *pb.Notification, d *pb.Path) []string {
	return append(gn.RefIndex(n.GetPrefix(), true), gn.RefIndex(d, false)...)
}

// applyFeed replays fed notifications onto the replay map: an update sets a
// leaf, an atomic update replaces its container as one unit, a delete removes
// what it matches.
func (w *world) applyFeed(from int) {
	for _, e := range w.feed[from:] {
		n := e.n
		if n == nil {
			w.fail("C03", "feed delivered a leaf that does not hold a notification")
			continue
		}
		if e.leaf != nil {
			w.st.heldDeleteLeaves++
			if now, _ := e.leaf.Value().(*pb.Notification); !proto.Equal(now, n) {
				w.fail("C03", "the leaf handed to the callback for the delete %v holds %v when read at the next quiescent point: what was handed over changed afterwards", n, now)
			}
		}
		switch {
		case len(n.Delete) > 0:
			for _, d := range n.Delete {
				pat := delKey(n, d)
				for k := range w.replay {
					if gn.Matches(pat, gn.Unkey(k)) {
						delete(w.replay, k)
					}
				}
			}
		case n.Atomic:
			k := gn.Key(gn.RefIndex(n.GetPrefix(), true))
			// one unit: whatever was below the container goes
			for o := range w.replay {
				if gn.IsProperPrefix(gn.Unkey(k), gn.Unkey(o)) {
					delete(w.replay, o)
				}
			}
			w.replay[k] = n
			found := false
			for _, a := range w.atomics {
				if proto.Equal(a, n) {
					found = true
				}
			}
			if !found {
				w.fail("C03", "feed carried an atomic notification that equals no submitted atomic notification (split or altered): %v", n)
			}
		default:
			if len(n.Update) != 1 {
				w.fail("C03", "feed carried a non-atomic notification with %d updates", len(n.Update))
				continue
			}
			w.replay[gn.Key(updKey(n, n.Update[0]))] = n
		}
	}
}

type qleaf struct {
	n *pb.Notification
}

// queryTarget returns the stored notifications of a target keyed by index path (without target).
func (w *world) queryTarget(name string) (map[string]*pb.Notification, error) {
	out := map[string]*pb.Notification{}
	var bad error
	err := w.c.Query(name, []string{"*"}, func(p []string, _ *ctree.Leaf, v interface{}) error {
		n, ok := v.(*pb.Notification)
		if !ok {
			bad = fmt.Errorf("leaf %q holds %T", p, v)
			return nil
		}
		k := gn.Key(append([]string{}, p...))
		if _, dup := out[k]; dup {
			bad = fmt.Errorf("query reported %q twice", p)
		}
		out[k] = n
		return nil
	})
	if err != nil {
		return nil, err
	}
	return out, bad
}

func isMetaKey(k string) bool {
	return k == metadata.Root || strings.HasPrefix(k, metadata.Root+gn.Sep)
}

func sameStored(a, b *pb.Notification) bool {
	if a.GetAtomic() != b.GetAtomic() {
		return false
	}
	if a.GetAtomic() {
		if len(a.Update) != len(b.Update) {
			return false
		}
		for i := range a.Update {
			if !proto.Equal(a.Update[i], b.Update[i]) {
				return false
			}
		}
		return true
	}
	if len(a.Update) != 1 || len(b.Update) != 1 {
		return false
	}
	// (the deprecated value field counts: two updates without a TypedValue are the same value only if it agrees)
	return proto.Equal(a.Update[0].GetVal(), b.Update[0].GetVal()) && proto.Equal(a.Update[0].GetValue(), b.Update[0].GetValue())
}

// compareAll runs the oracles that hold at every quiescent point.
func (w *world) compareAll(step int) {
	seenReplay := map[string]bool{}
	for i := 0; i < w.sc.Targets; i++ {
		name := targetName(i)
		m, live := w.model[name]
		if !live {
			if w.c.HasTarget(name) {
				w.fail("C14", "step %d: removed target %s is still known", step, name)
			}
			if err := w.c.Query(name, []string{"*"}, func([]string, *ctree.Leaf, interface{}) error { return nil }); err == nil {
				w.fail("C14", "step %d: query for removed target %s succeeded", step, name)
			}
			continue
		}
		got, err := w.queryTarget(name)
		if err != nil {
			w.fail("C02", "step %d: query %s: %v", step, name, err)
			continue
		}
		// C02: data leaves == model (path, timestamp, value)
		data := 0
		// (sorted: the first difference reported is the same in every run of a scenario, which shrinking relies on)
		gotKeys := make([]string, 0, len(got))
		for k := range got {
			gotKeys = append(gotKeys, k)
		}
		sort.Strings(gotKeys)
		for _, k := range gotKeys {
			n := got[k]
			full := gn.Key(append([]string{name}, gn.Unkey(k)...))
			seenReplay[full] = true
			// C03 (1): replay == query
			r, ok := w.replay[full]
			if !ok {
				w.fail("C03", "step %d: cache holds %s/%q but replaying the change feed does not (never fed or deleted in the feed)", step, name, gn.Unkey(k))
			}
			if ok && !sameStored(r, n) {
				w.fail("C03", "step %d: %s/%q: cache holds %v, feed replay holds %v", step, name, gn.Unkey(k), n, r)
			}
			if isMetaKey(k) {
				continue
			}
			data++
			ml, ok := m.leaves[k]
			if !ok {
				w.fail("C02", "step %d: cache holds %s/%q=%v which the model does not", step, name, gn.Unkey(k), n)
				w.failMulti("step %d: %s/%q=%v is stored, but not when the entries of the notification are applied one at a time", step, name, gn.Unkey(k), n)
				continue
			}
			if n.GetTimestamp() != ml.ts {
				w.fail("C02", "step %d: %s/%q stored timestamp %d, model %d", step, name, gn.Unkey(k), n.GetTimestamp(), ml.ts)
			}
			// what the leaf holds is an update FOR THIS LEAF: prefix and path of the stored notification name the
			// target and the position it is returned at (not judged when an origin travels in the update's path,
			// DESIGN.md 10.7 (7))
			if !w.st.pathOrigin {
				var addr []string
				switch {
				case n.GetAtomic():
					addr = gn.RefIndex(n.GetPrefix(), true)
				case len(n.Update) == 1 && n.Update[0] != nil:
					addr = updKey(n, n.Update[0])
				}
				if addr != nil && gn.Key(addr) != full {
					w.fail("C02", "step %d: the notification stored at %s/%q is addressed to %q: the leaf holds an update that was not sent for it", step, name, gn.Unkey(k), addr)
				}
			}
			if !sameStored(n, ml.n) {
				w.fail("C02", "step %d: %s/%q stored %v, model %v", step, name, gn.Unkey(k), n, ml.n)
				w.failMulti("step %d: %s/%q stored %v, but %v when the entries of the notification are applied one at a time", step, name, gn.Unkey(k), n, ml.n)
			}
			if r != nil && r.GetTimestamp() != n.GetTimestamp() && !ml.suppressed {
				w.fail("C03", "step %d: %s/%q feed replay has timestamp %d, cache %d, and the last write was not a suppressed one", step, name, gn.Unkey(k), r.GetTimestamp(), n.GetTimestamp())
			}
			if n.GetAtomic() {
				found := false
				for _, a := range w.atomics {
					if proto.Equal(a, n) {
						found = true
					}
				}
				if !found {
					w.fail("C03", "step %d: %s/%q holds an atomic notification equal to no submitted one", step, name, gn.Unkey(k))
				}
			}
		}
		for _, k := range m.sortedKeys() {
			ml := m.leaves[k]
			if _, ok := got[k]; !ok {
				w.fail("C02", "step %d: model holds %s/%q (ts %d) but the cache does not", step, name, gn.Unkey(k), ml.ts)
				w.failMulti("step %d: %s/%q (ts %d) is not stored, but it is when the entries of the notification are applied one at a time", step, name, gn.Unkey(k), ml.ts)
			}
		}
		// C15: exported leaf count == stored non-metadata leaves == added - deleted
		md := w.c.Metadata()[name]
		if md == nil {
			w.fail("C14", "step %d: live target %s has no metadata", step, name)
			continue
		}
		lc, _ := md.GetInt(metadata.LeafCount)
		ac, _ := md.GetInt(metadata.AddCount)
		dc, _ := md.GetInt(metadata.DelCount)
		if lc != int64(data) {
			w.fail("C15", "step %d: %s targetLeaves=%d but %d non-metadata leaves are stored", step, name, lc, data)
		}
		if ac-dc != lc {
			w.fail("C15", "step %d: %s targetLeavesAdded-targetLeavesDeleted=%d-%d but targetLeaves=%d", step, name, ac, dc, lc)
		}
	}
	replayKeys := make([]string, 0, len(w.replay))
	for k := range w.replay {
		replayKeys = append(replayKeys, k)
	}
	sort.Strings(replayKeys)
	for _, k := range replayKeys {
		if !seenReplay[k] {
			w.fail("C03", "step %d: feed replay holds %q which the cache does not return (delete not announced, or a ghost)", step, gn.Unkey(k))
		}
	}
}

// metaSnapshot reads every exported metadata value of a target.
func metaSnapshot(md *metadata.Metadata) string {
	var parts []string
	for name := range metadata.TargetIntValues {
		v, err := md.GetInt(name)
		parts = append(parts, fmt.Sprintf("%s=%d/%v", name, v, err))
	}
	for name := range metadata.TargetBoolValues {
		v, err := md.GetBool(name)
		parts = append(parts, fmt.Sprintf("%s=%v/%v", name, v, err))
	}
	for name := range metadata.TargetStrValues {
		v, err := md.GetStr(name)
		parts = append(parts, fmt.Sprintf("%s=%q/%v", name, v, err))
	}
	sort.Strings(parts)
	return strings.Join(parts, " ")
}

// snapshotOthers captures what is stored and reported for every target except name.
func (w *world) snapshotOthers(except string) map[string]string {
	out := map[string]string{}
	mds := w.c.Metadata()
	for i := 0; i < w.sc.Targets; i++ {
		name := targetName(i)
		if name == except {
			continue
		}
		if _, live := w.model[name]; !live {
			out[name] = "absent"
			if w.c.HasTarget(name) {
				out[name] = "present-unexpectedly"
			}
			continue
		}
		got, err := w.queryTarget(name)
		if err != nil {
			out[name] = "error: " + err.Error()
			continue
		}
		ks := make([]string, 0, len(got))
		for k := range got {
			ks = append(ks, k)
		}
		sort.Strings(ks)
		var sb strings.Builder
		for _, k := range ks {
			b, _ := proto.MarshalOptions{Deterministic: true}.Marshal(got[k])
			fmt.Fprintf(&sb, "%q=%x;", gn.Unkey(k), b)
		}
		sb.WriteString(" META ")
		sb.WriteString(metaSnapshot(mds[name]))
		out[name] = sb.String()
	}
	return out
}

func counters(md *metadata.Metadata) map[string]int64 {
	out := map[string]int64{}
	for _, n := range []string{metadata.UpdateCount, metadata.SuppressedCount, metadata.StaleCount, metadata.FutureCount, metadata.EmptyCount, metadata.LeafCount, metadata.AddCount, metadata.DelCount} {
		v, _ := md.GetInt(n)
		out[n] = v
	}
	return out
}

// ---- building a notification from its spec ---------------------------------------

func (w *world) resolve(name string, spec *Noti) (origin string, prefix []gn.Elem, first []gn.Elem, ok bool) {
	m := w.model[name]
	if spec.Pick <= 0 || m == nil || len(m.leaves) == 0 {
		return spec.Origin, spec.Prefix, nil, false
	}
	ks := m.sortedKeys()
	leaf := gn.Unkey(ks[(spec.Pick-1)%len(ks)])
	split := spec.Split
	if split > len(leaf)-1 {
		split = len(leaf) - 1
	}
	if split < 0 {
		split = 0
	}
	toElems := func(ss []string) []gn.Elem {
		out := make([]gn.Elem, 0, len(ss))
		for _, s := range ss {
			out = append(out, gn.Elem{Name: s})
		}
		return out
	}
	if spec.Atomic {
		// an atomic container lives at the prefix: address the whole leaf path
		return "", toElems(leaf), nil, true
	}
	return "", toElems(leaf[:split]), toElems(leaf[split:]), true
}

var pathOriginSeen bool // (label only; set by pathOf, read and cleared by build)

// pathOf builds an update/delete path in the encoding the spec asks for.
func pathOf(spec *Noti, p []gn.Elem, spare int) *pb.Path {
	element := spec.Element
	switch spec.PathEnc {
	case "elem", "both":
		element = false
	case "element":
		element = true
	}
	out := gn.Path("", spec.PathOrigin, p, element, spare)
	if spec.PathOrigin != "" {
		pathOriginSeen = true
	}
	if spec.PathEnc == "both" && len(out.Elem) > 0 {
		out.Element = []string{"stray", "x"}
	}
	return out
}

func (w *world) build(name string, spec *Noti) *pb.Notification {
	origin, prefixElems, first, rel := w.resolve(name, spec)
	var prefix *pb.Path
	pk := fmt.Sprintf("%s|%s|%v|%v", name, origin, spec.Element, gn.IndexOfElems(prefixElems, false))
	for _, e := range prefixElems {
		pk += fmt.Sprintf("|%v", e.Keys)
	}
	if spec.Share {
		if p, ok := w.pool[pk]; ok {
			prefix = p
		} else {
			prefix = gn.Path(name, origin, prefixElems, spec.Element, 4)
			w.pool[pk] = prefix
			w.poolLen[pk] = len(prefixElems)
		}
	} else {
		prefix = gn.Path(name, origin, prefixElems, spec.Element, 0)
	}
	if spec.PrefixBoth && !spec.Share && len(prefix.Elem) > 0 {
		prefix.Element = []string{"stray"}
	}
	if spec.PathEnc != "" || spec.PrefixBoth {
		w.st.mixedEnc = true
	}
	defer func() {
		if pathOriginSeen {
			w.st.pathOrigin = true
			pathOriginSeen = false
		}
	}()
	n := &pb.Notification{Prefix: prefix, Atomic: spec.Atomic}
	for i, u := range spec.Updates {
		p := u.Path
		if i == 0 && rel && !spec.Atomic {
			p = first
		}
		up := pathOf(spec, p, 2)
		if spec.Share {
			// callers also reuse path objects between notifications
			uk := fmt.Sprintf("path|%v|%v|%v|%v", spec.Element, spec.PathEnc, spec.PathOrigin, gn.IndexOfElems(p, false))
			for _, e := range p {
				uk += fmt.Sprintf("|%v", e.Keys)
			}
			if pp, ok := w.pool[uk]; ok {
				up = pp
			} else {
				w.pool[uk] = up
				w.poolLen[uk] = len(p)
			}
		}
		val := u.Val.TV()
		if i == 0 && rel && spec.Near && !spec.Atomic {
			if nv := w.nearStored(name, spec); nv != nil {
				val = nv
				w.st.nearValue = true
			}
		}
		if w.st.valueKinds == nil {
			w.st.valueKinds = map[string]bool{}
		}
		w.st.valueKinds[u.Val.Kind] = true
		upd := &pb.Update{Path: up, Val: val}
		if val == nil && u.Val.Kind == "deprecated" {
			upd = gn.MakeUpdate(up, u.Val) // the deprecated Update.value field
			w.st.legacyValue = true
		}
		n.Update = append(n.Update, upd)
	}
	if b := spec.Bulk; b != nil && !spec.Atomic {
		for i := b.Start; i < b.Start+b.N; i++ {
			p := append(append([]gn.Elem{}, b.At...), gn.Elem{Name: fmt.Sprintf("k%d", i)})
			if b.Leaf != "" {
				p = append(p, gn.Elem{Name: b.Leaf})
			}
			n.Update = append(n.Update, &pb.Update{Path: pathOf(spec, p, 0), Val: gn.Val{Kind: "int", I: b.V}.TV()})
		}
		if b.N > w.st.maxBulk {
			w.st.maxBulk = b.N
		}
	}
	for i, d := range spec.Deletes {
		p := d
		if i == 0 && rel && len(spec.Updates) == 0 {
			cut := spec.Cut
			if cut > len(first) {
				cut = len(first)
			}
			p = first[:len(first)-cut]
			if spec.Star && cut > 0 {
				p = append([]gn.Elem{}, p...)
				for j := 0; j < cut; j++ {
					p = append(p, gn.Elem{Name: "*"})
				}
			}
			if len(p) == 0 && len(prefixElems) == 0 {
				p = []gn.Elem{{Name: "*"}}
			}
		}
		if len(p) == 0 && len(prefixElems) == 0 && origin == "" {
			// a delete whose joined path is empty is a hostile shape (C12)
			p = []gn.Elem{{Name: "*"}}
		}
		n.Delete = append(n.Delete, pathOf(spec, p, 0))
	}
	if spec.Element {
		w.st.elementEnc = true
	}
	return n
}

// nearStored returns the smallest change of the value stored at the leaf that
// spec.Pick addresses (nil when that leaf holds no plain value).
func (w *world) nearStored(name string, spec *Noti) *pb.TypedValue {
	m := w.model[name]
	if m == nil || len(m.leaves) == 0 || spec.Pick <= 0 {
		return nil
	}
	ks := m.sortedKeys()
	l := m.leaves[ks[(spec.Pick-1)%len(ks)]]
	if l == nil || l.n.Atomic || len(l.n.Update) != 1 {
		return nil
	}
	return nearValue(l.n.Update[0].GetVal())
}

func nearValue(tv *pb.TypedValue) *pb.TypedValue {
	switch v := tv.GetValue().(type) {
	case *pb.TypedValue_IntVal:
		return &pb.TypedValue{Value: &pb.TypedValue_IntVal{IntVal: v.IntVal + 1}}
	case *pb.TypedValue_UintVal:
		return &pb.TypedValue{Value: &pb.TypedValue_UintVal{UintVal: v.UintVal + 1}}
	case *pb.TypedValue_DecimalVal:
		return &pb.TypedValue{Value: &pb.TypedValue_DecimalVal{DecimalVal: &pb.Decimal64{Digits: v.DecimalVal.GetDigits() + 1, Precision: v.DecimalVal.GetPrecision()}}}
	case *pb.TypedValue_DoubleVal:
		return &pb.TypedValue{Value: &pb.TypedValue_DoubleVal{DoubleVal: math.Nextafter(v.DoubleVal, math.Inf(1))}}
	case *pb.TypedValue_FloatVal:
		return &pb.TypedValue{Value: &pb.TypedValue_FloatVal{FloatVal: math.Nextafter32(v.FloatVal, float32(math.Inf(1)))}}
	case *pb.TypedValue_StringVal:
		return &pb.TypedValue{Value: &pb.TypedValue_StringVal{StringVal: v.StringVal + " "}}
	case *pb.TypedValue_AsciiVal:
		return &pb.TypedValue{Value: &pb.TypedValue_AsciiVal{AsciiVal: v.AsciiVal + " "}}
	case *pb.TypedValue_BytesVal:
		return &pb.TypedValue{Value: &pb.TypedValue_BytesVal{BytesVal: append(append([]byte{}, v.BytesVal...), 0)}}
	case *pb.TypedValue_BoolVal:
		return &pb.TypedValue{Value: &pb.TypedValue_BoolVal{BoolVal: !v.BoolVal}}
	case *pb.TypedValue_JsonVal:
		return &pb.TypedValue{Value: &pb.TypedValue_JsonVal{JsonVal: append(append([]byte{}, v.JsonVal...), ' ')}}
	case *pb.TypedValue_JsonIetfVal:
		return &pb.TypedValue{Value: &pb.TypedValue_JsonIetfVal{JsonIetfVal: append(append([]byte{}, v.JsonIetfVal...), ' ')}}
	case *pb.TypedValue_LeaflistVal:
		c := proto.Clone(tv).(*pb.TypedValue)
		es := c.GetLeaflistVal().GetElement()
		if len(es) == 0 {
			return nil
		}
		last := nearValue(es[len(es)-1])
		if last == nil {
			return nil
		}
		es[len(es)-1] = last
		return c
	}
	return nil
}

func prefixIndex(n *pb.Notification) []string {
	// index of the prefix without the target (origin first when present)
	idx := gn.RefIndex(n.GetPrefix(), true)
	if n.GetPrefix().GetTarget() != "" {
		idx = idx[1:]
	}
	return idx
}

func (w *world) timestamp(name string, spec *Noti, n *pb.Notification) int64 {
	m := w.model[name]
	base := w.clock
	switch spec.TS.Mode {
	case "leaf":
		var k string
		switch {
		case n.Atomic:
			k = gn.Key(prefixIndex(n))
		case len(n.Update) > 0:
			k = gn.Key(append(prefixIndex(n), gn.RefIndex(n.Update[0].Path, false)...))
		case len(n.Delete) > 0:
			pat := append(prefixIndex(n), gn.RefIndex(n.Delete[0], false)...)
			for _, lk := range m.sortedKeys() {
				if gn.Matches(pat, gn.Unkey(lk)) {
					k = lk
					break
				}
			}
		}
		if l, ok := m.leaves[k]; ok {
			base = l.ts
		} else if m.accepted {
			base = m.latest
		}
	case "latest":
		if m.accepted {
			base = m.latest
		}
	case "abs":
		// an absolute timestamp from the edges of the int64 range (differences that do not fit an int64)
		w.st.extremeTS = true
		return spec.TS.D
	}
	ts := base + spec.TS.D
	if (spec.TS.D > 0 && ts < base) || (spec.TS.D < 0 && ts > base) {
		ts = base // the offset would wrap
	}
	if ts < 1 && base >= 1 {
		ts = 1
	}
	return ts
}

// ---- executing one notification step ------------------------------------------------

type expUpdate struct {
	key      string
	incoming *pb.Notification // the stored form if accepted
	outcome  string
}

func classOf(err error) string {
	switch {
	case err == nil:
		return "nil"
	case errors.Is(err, cache.ErrStale):
		return "stale"
	case errors.Is(err, cache.ErrFuture):
		return "future"
	}
	return "other"
}

// decide computes the outcome of one (single-form) update against the model.
// alt reports a second admissible outcome ("" if none): the two cases the
// property leaves open (same timestamp, same value, different encoding; future
// check inside a multi-update notification whose own timestamp may or may not
// already count as the latest accepted one).
func (w *world) decide(m *mtarget, k string, in *pb.Notification, latestInclSelf bool) (outcome, alt string) {
	old, exists := m.leaves[k]
	if !exists {
		if m.addOK(gn.Unkey(k)) {
			return oNew, ""
		}
		return oCollide, ""
	}
	acceptKind := func() string {
		if !in.Atomic && !old.n.Atomic && gn.SameValue(old.n.Update[0].GetVal(), in.Update[0].GetVal()) {
			return oSameValue
		}
		return oReplaced
	}
	ts := in.GetTimestamp()
	switch {
	case ts < old.ts:
		return oStale, ""
	case ts == old.ts:
		if proto.Equal(old.n, in) {
			return oStale, ""
		}
		if sameStored(old.n, in) {
			// same value at the same timestamp in another encoding: neither
			// "identical" nor "a different value"
			return acceptKind(), oStale
		}
		return oReplaced, ""
	}
	if w.sc.Threshold > 1<<40 {
		w.st.hugeThreshold = true
	}
	if thr := w.sc.Threshold; thr > 0 && ts-w.clock > thr {
		rejected := m.latest > 0 && ts-m.latest > thr
		if rejected {
			if latestInclSelf {
				// an earlier update of this same notification was accepted:
				// whether its timestamp already is "the latest accepted" is open
				return oFuture, acceptKind()
			}
			return oFuture, ""
		}
		w.st.futureAccepted = true
	}
	return acceptKind(), ""
}

func (w *world) stepNoti(i int, name string, spec *Noti) {
	m := w.model[name]
	n := w.build(name, spec)
	n.Timestamp = w.timestamp(name, spec, n)
	n = w.pour(name, n) // feeder style: the same content in the caller's re-used containers
	clone := proto.Clone(n).(*pb.Notification)
	if n.Atomic && len(n.Update) > 0 && len(n.Delete) == 0 {
		w.atomics = append(w.atomics, clone)
	}
	for _, u := range spec.Updates {
		for _, e := range u.Path {
			if len(e.Keys) > 0 {
				w.st.keyed = true
			}
			if e.Name == "*" {
				w.st.starLiteral = true
			}
			for _, kv := range e.Keys {
				if kv == "*" {
					w.st.starLiteral = true
				}
			}
		}
	}
	md := w.c.Metadata()[name]
	before := counters(md)
	others := w.snapshotOthers(name)
	feedFrom := len(w.feed)

	w.log = append(w.log, concreteOp{kind: "noti", name: name, clock: w.clock, n: clone, orig: n})
	w.hold(&w.log[len(w.log)-1], n, clone)
	var err error
	if tg := w.c.GetTarget(name); w.direct && tg != nil {
		// the exported per-target entry point (what Cache.GnmiUpdate dispatches to)
		err = tg.GnmiUpdate(n)
		w.st.directEntry = true
	} else {
		err = w.c.GnmiUpdate(n)
	}

	// C03 (5): the caller's notification is untouched
	if !proto.Equal(n, clone) {
		w.fail("C03", "step %d: the submitted notification was modified: before %v after %v", i, clone, n)
	}
	// ... and so is every notification handed over in an earlier call (the cache may keep the caller's
	// object; it must not write to it later either). Notifications that share prefix/path objects with
	// this one are compared as well: they alias by design of the scenario, the cache must not care.
	// With a feeder that re-uses its containers the comparison follows the feeder (checkCallerOwned).
	w.checkCallerOwned(i)
	w.checkSpare(i)
	// a scribbling feeder overwrites what it still owns now, before anything is read back from the cache
	w.afterCall(name, n, err)
	// C14: nothing stored or reported for another target changed
	if after := w.snapshotOthers(name); fmt.Sprint(after) != fmt.Sprint(others) {
		for t, v := range after {
			if others[t] != v {
				w.fail("C14", "step %d: an update addressed to %s changed target %s: before %s after %s", i, name, t, others[t], v)
			}
		}
	}

	fed := w.feed[feedFrom:]
	after := counters(md)
	real, _ := w.queryTarget(name)

	// The property leaves two decisions open (see decide). Every such
	// decision point met while interpreting this notification is a binary
	// choice; the interpretation is accepted if some choice vector explains
	// everything observed (error class, feed, counters, resulting content).
	var firstFail *failure
	for vec := 0; vec < 16; vec++ {
		mc := m.clone()
		st := w.st
		f, points, match := w.interpret(i, name, clone, mc, vec, err, fed, before, after, real)
		if f == nil && match {
			w.model[name] = mc
			w.applyFeed(feedFrom)
			return
		}
		if vec == 0 {
			firstFail = f
			if f == nil {
				firstFail = &failure{"C02", fmt.Sprintf("step %d: after %v the content of %s differs from the model (see next comparison)", i, clone, name)}
				// let compareAll produce the detailed message with the primary interpretation
				w.model[name] = mc
				w.applyFeed(feedFrom)
				return
			}
		}
		w.st = st
		if vec+1 >= 1<<points {
			break
		}
	}
	panic(firstFail)
}

func (m *mtarget) clone() *mtarget {
	c := &mtarget{leaves: make(map[string]*mleaf, len(m.leaves)), latest: m.latest, accepted: m.accepted}
	for k, l := range m.leaves {
		cp := *l
		c.leaves[k] = &cp
	}
	return c
}

// matchesTree reports whether the model's data leaves equal the real content.
func (m *mtarget) matchesTree(real map[string]*pb.Notification) bool {
	n := 0
	for k, r := range real {
		if isMetaKey(k) {
			continue
		}
		n++
		l, ok := m.leaves[k]
		if !ok || l.ts != r.GetTimestamp() || !sameStored(l.n, r) {
			return false
		}
	}
	return n == len(m.leaves)
}

// interpret runs the model for one submitted notification under choice vector
// vec and checks everything observed about the real call against it. It
// returns the first enabled-property failure (nil if none), the number of
// open decision points met, and whether the model then equals the real content.
func (w *world) interpret(i int, name string, clone *pb.Notification, m *mtarget, vec int, err error, fed []feedEntry,
	before, after map[string]int64, real map[string]*pb.Notification) (fail *failure, points int, match bool) {
	defer func() {
		if r := recover(); r != nil {
			f, ok := r.(*failure)
			if !ok {
				panic(r)
			}
			fail = f
		}
	}()
	pfx := prefixIndex(clone)
	wantErr := "nil"
	var exps []expUpdate
	var expDel [][]string // keys expected to be announced deleted, per delete path (as sets)
	var delPats [][]string
	expCounters := map[string]int64{}
	anyAccepted := false

	single := func(u *pb.Update) *pb.Notification {
		return &pb.Notification{Timestamp: clone.Timestamp, Prefix: clone.Prefix, Update: []*pb.Update{u}}
	}
	applyUpdate := func(k string, in *pb.Notification, multi bool) string {
		out, alt := w.decide(m, k, in, multi && anyAccepted)
		if alt != "" {
			w.st.ambiguous = true
			if vec&(1<<points) != 0 {
				out = alt
			}
			points++
		}
		switch out {
		case oNew:
			m.leaves[k] = &mleaf{ts: in.Timestamp, n: in}
			anyAccepted = true
		case oReplaced, oSameValue:
			old := m.leaves[k]
			if old.n.Atomic && !in.Atomic {
				w.st.plainOverAtomic = true
			}
			if !old.n.Atomic && in.Atomic {
				w.st.atomicOverPlain = true
			}
			if in.Timestamp == old.ts {
				w.st.equalTSReplace = true
			}
			m.leaves[k] = &mleaf{ts: in.Timestamp, n: in}
			anyAccepted = true
		case oStale:
			w.st.staleOnExisting = true
		case oFuture:
			w.st.futureRejected = true
		case oCollide:
			w.st.collideSeen = true
		}
		return out
	}

	switch {
	case clone.Atomic:
		switch {
		case len(clone.Delete) > 0:
			wantErr = "other"
		case len(clone.Update) == 0:
			expCounters[metadata.EmptyCount] = 1
			w.st.emptyNoti = true
		default:
			k := gn.Key(pfx)
			out := applyUpdate(k, clone, false)
			exps = append(exps, expUpdate{k, clone, out})
			switch out {
			case oStale:
				wantErr = "stale"
			case oFuture:
				wantErr = "future"
			case oCollide:
				wantErr = "other"
			}
		}
	case len(clone.Update)+len(clone.Delete) == 0:
		expCounters[metadata.EmptyCount] = 1
		w.st.emptyNoti = true
	default:
		multi := len(clone.Update)+len(clone.Delete) > 1
		okN, badN := 0, 0
		for _, u := range clone.Update {
			k := gn.Key(append(append([]string{}, pfx...), gn.RefIndex(u.Path, false)...))
			in := single(u)
			out := applyUpdate(k, in, multi)
			exps = append(exps, expUpdate{k, in, out})
			switch out {
			case oStale:
				wantErr, badN = "stale", badN+1
			case oFuture:
				wantErr, badN = "future", badN+1
			case oCollide:
				wantErr, badN = "other", badN+1
			default:
				okN++
			}
		}
		if multi && badN > 0 {
			wantErr = "some"
			if okN > 0 {
				w.st.multiMixed = true
			}
		}
		for _, d := range clone.Delete {
			pat := append(append([]string{}, pfx...), gn.RefIndex(d, false)...)
			var gone []string
			survivors := 0
			for _, k := range m.sortedKeys() {
				if !gn.Matches(pat, gn.Unkey(k)) {
					continue
				}
				l := m.leaves[k]
				if l.ts == clone.Timestamp {
					w.st.deleteAtStoredTS = true
				}
				if l.ts < clone.Timestamp {
					gone = append(gone, k)
				} else {
					survivors++
				}
			}
			if len(gone) > w.st.maxDeleted {
				w.st.maxDeleted = len(gone)
			}
			if len(gone) > 32 && survivors > 0 {
				w.st.bigDeleteWithSurvivor = true
			}
			shared := map[*pb.Path]int{}
			for _, k := range gone {
				shared[m.leaves[k].n.GetPrefix()]++
				delete(m.leaves, k)
			}
			for p, c := range shared {
				if c >= 2 && len(p.GetElem())+len(p.GetElement()) > 0 {
					w.st.sharedPrefixMultiDelete = true
				}
			}
			if len(gone) > 0 {
				w.st.deleteMatched = true
			}
			expDel = append(expDel, gone)
			delPats = append(delPats, pat)
			expCounters[metadata.UpdateCount]++
		}
	}
	if anyAccepted {
		if !m.accepted || clone.Timestamp > m.latest {
			m.latest = clone.Timestamp
		}
		m.accepted = true
		w.st.acceptedSeen = true
	}
	match = m.matchesTree(real)

	// C02: error class
	got := classOf(err)
	switch {
	case wantErr == "some":
		if err == nil {
			w.fail("C02", "step %d: multi-update notification with a rejected update returned nil", i)
		}
	case got != wantErr:
		w.fail("C02", "step %d: GnmiUpdate returned %v (class %s), model expects class %s for %v", i, err, got, wantErr, clone)
	}

	// C03 (2)+(4): the feed entries of this call, in order
	fi := 0
	suppressedN, fedN := int64(0), int64(0)
	for _, e := range exps {
		must := e.outcome == oNew || e.outcome == oReplaced || (e.outcome == oSameValue && !w.sc.EventDriven)
		may := e.outcome == oSameValue && w.sc.EventDriven
		matches := func() bool {
			if fi >= len(fed) || fed[fi].n == nil || len(fed[fi].n.Delete) > 0 {
				return false
			}
			f := fed[fi].n
			var fk string
			if f.Atomic {
				fk = gn.Key(gn.RefIndex(f.GetPrefix(), true))
			} else if len(f.Update) == 1 {
				fk = gn.Key(updKey(f, f.Update[0]))
			}
			return fk == gn.Key(append([]string{name}, gn.Unkey(e.key)...)) && sameStored(f, e.incoming) && f.GetTimestamp() == e.incoming.GetTimestamp()
		}
		switch {
		case must:
			if !matches() {
				w.fail("C03", "step %d: accepted update %q=%v (%s) was not handed to the change feed next (feed of this call: %v)", i, gn.Unkey(e.key), e.incoming.Update, e.outcome, fmtFeed(fed))
			} else {
				fi++
			}
			fedN += int64(len(e.incoming.Update))
			if l := m.leaves[e.key]; l != nil && l.n == e.incoming {
				l.suppressed = false
			}
		case may:
			if matches() {
				fi++
				fedN++
				if l := m.leaves[e.key]; l != nil && l.n == e.incoming {
					l.suppressed = false
				}
			} else {
				suppressedN++
				w.st.suppressedSeen = true
				if l := m.leaves[e.key]; l != nil && l.n == e.incoming {
					l.suppressed = true
				}
			}
		}
	}
	// deletes: each delete path announces exactly the leaves it removed, each once (any order)
	for di, gone := range expDel {
		want := map[string]int{}
		for _, k := range gone {
			want[gn.Key(append([]string{name}, gn.Unkey(k)...))]++
		}
		for fi < len(fed) && fed[fi].n != nil && len(fed[fi].n.Delete) > 0 && (len(want) > 0 || w.canBeMetaDelete(delPats[di], fed[fi].n)) {
			f := fed[fi].n
			if len(f.Delete) != 1 {
				w.fail("C03", "step %d: fed delete notification carries %d paths", i, len(f.Delete))
			}
			fk := gn.Key(delKey(f, f.Delete[0]))
			if want[fk] > 0 {
				want[fk]--
				if want[fk] == 0 {
					delete(want, fk)
				}
				fi++
				continue
			}
			if w.canBeMetaDelete(delPats[di], f) {
				w.st.metaDeleted = true
				fi++
				continue
			}
			w.fail("C03", "step %d: delete %q announced %q which is not a leaf it removed (removed: %v)", i, delPats[di], gn.Unkey(fk), pathsOf(gone))
			fi++
		}
		if len(want) > 0 {
			w.fail("C03", "step %d: delete %q removed %v but the feed did not announce %v", i, delPats[di], pathsOf(gone), keysOf(want))
		}
	}
	if fi < len(fed) {
		w.fail("C03", "step %d: change feed carried an entry nothing accounts for: %v (whole feed of this call: %v)", i, fmtEntry(fed[fi]), fmtFeed(fed))
	}

	// C15: per-call counter deltas
	for _, e := range exps {
		switch e.outcome {
		case oStale:
			expCounters[metadata.StaleCount]++
		case oFuture:
			expCounters[metadata.FutureCount]++
		}
	}
	expCounters[metadata.UpdateCount] += fedN
	expCounters[metadata.SuppressedCount] += suppressedN
	for _, cn := range []string{metadata.UpdateCount, metadata.SuppressedCount, metadata.StaleCount, metadata.FutureCount, metadata.EmptyCount} {
		d := after[cn] - before[cn]
		want := expCounters[cn]
		if clone.Atomic && (cn == metadata.StaleCount || cn == metadata.FutureCount) && want > 0 {
			// a rejected atomic notification bumps its reject counter at least once
			if d < 1 {
				w.fail("C15", "step %d: rejected atomic notification: %s rose by %d", i, cn, d)
			}
			continue
		}
		if d != want {
			w.fail("C15", "step %d: %s rose by %d, expected %d (outcomes %v, fed %d, suppressed %d, delete paths %d) for %v", i, cn, d, want, outcomes(exps), fedN, suppressedN, len(expDel), clone)
		}
	}
	return nil, points, match
}

func outcomes(exps []expUpdate) []string {
	var o []string
	for _, e := range exps {
		o = append(o, e.outcome)
	}
	return o
}

// canBeMetaDelete: a glob delete may also take the cache's own metadata leaves
// (they live in the same tree); such announcements are not predicted by the
// data model but are legitimate when the pattern can match a metadata path.
func (w *world) canBeMetaDelete(pat []string, f *pb.Notification) bool {
	if len(f.Delete) != 1 {
		return false
	}
	k := delKey(f, f.Delete[0])
	if len(k) < 2 || k[1] != metadata.Root {
		return false
	}
	return gn.Matches(pat, k[1:])
}

func pathsOf(keys []string) [][]string {
	out := [][]string{}
	for _, k := range keys {
		out = append(out, gn.Unkey(k))
	}
	return out
}

func keysOf(m map[string]int) [][]string {
	out := [][]string{}
	for k := range m {
		out = append(out, gn.Unkey(k))
	}
	return out
}

func fmtEntry(e feedEntry) string {
	if e.n == nil {
		return "<non-notification>"
	}
	return strings.TrimSpace(fmt.Sprint(e.n))
}

func fmtFeed(es []feedEntry) string {
	var s []string
	for _, e := range es {
		s = append(s, fmtEntry(e))
	}
	return "[" + strings.Join(s, " | ") + "]"
}

// checkSpare verifies that no shared prefix object had its spare capacity written.
func (w *world) checkSpare(step int) {
	for k, p := range w.pool {
		if len(p.Elem) != w.poolLen[k] && len(p.Element) != w.poolLen[k] {
			w.fail("C03", "step %d: a caller-owned prefix object changed length", step)
		}
		if e := p.Elem; cap(e) > len(e) {
			for _, x := range e[len(e):cap(e)] {
				if x != nil {
					w.fail("C03", "step %d: the spare capacity of a caller-owned prefix (%v) was written (%v): prefix objects shared between notifications are not safe", step, p, x)
				}
			}
		}
		if e := p.Element; cap(e) > len(e) {
			for _, x := range e[len(e):cap(e)] {
				if x != "" {
					w.fail("C03", "step %d: the spare capacity of a caller-owned prefix (%v) was written (%q)", step, p, x)
				}
			}
		}
	}
}

// ---- lifecycle steps -------------------------------------------------------------------

func (w *world) wide(name string) bool {
	// the target holds >=2 top-level subtrees and another target holds leaves at one of the same paths
	m := w.model[name]
	roots := map[string]bool{}
	for k := range m.leaves {
		roots[gn.Unkey(k)[0]] = true
	}
	if len(roots) < 2 {
		return false
	}
	for o, om := range w.model {
		if o == name {
			continue
		}
		for k := range om.leaves {
			if _, ok := m.leaves[k]; ok {
				return true
			}
		}
	}
	return false
}

func (w *world) run() (err error) {
	defer func() {
		if r := recover(); r != nil {
			if f, ok := r.(*failure); ok {
				err = f
				return
			}
			err = &failure{"PANIC", fmt.Sprintf("panic in the code under test: %v\n%s", r, trimStack(debug.Stack()))}
		}
	}()
	for i, s := range w.sc.Steps {
		w.direct = s.Direct
		tick := s.Tick
		if tick < 1 {
			tick = 1
		}
		w.clock += tick
		name := targetName(s.T % w.sc.Targets)
		m, live := w.model[name]
		feedFrom := len(w.feed)
		if s.Kind != "noti" && !(s.Kind == "add" && live) && !(s.Kind == "remove" && !live) {
			w.log = append(w.log, concreteOp{kind: s.Kind, name: name, clock: w.clock, msg: s.Msg})
		}
		switch s.Kind {
		case "noti":
			if !live {
				// unknown target: rejected, nothing changes
				n := w.build(name, s.N)
				n.Timestamp = w.clock
				others := w.snapshotOthers("")
				if err := w.c.GnmiUpdate(n); err == nil {
					w.fail("C14", "step %d: update for removed target %s was accepted", i, name)
				}
				if after := w.snapshotOthers(""); fmt.Sprint(after) != fmt.Sprint(others) {
					w.fail("C14", "step %d: update for removed target %s changed another target", i, name)
				}
				break
			}
			if s.N == nil {
				break
			}
			w.stepNoti(i, name, s.N)
			w.noteScribbled(name)
		case "reset":
			if !live {
				w.c.Reset(name)
				break
			}
			if w.wide(name) {
				w.st.resetWide = true
			}
			others := w.snapshotOthers(name)
			if tg := w.c.GetTarget(name); w.direct && tg != nil {
				tg.Reset()
				w.st.directEntry = true
			} else {
				w.c.Reset(name)
			}
			if after := w.snapshotOthers(name); fmt.Sprint(after) != fmt.Sprint(others) {
				w.fail("C14", "step %d: Reset(%s) changed another target", i, name)
			}
			w.model[name] = newMTarget()
			delete(w.st.sawConnErr, name)
			w.applyFeed(feedFrom)
			// metadata back to initial values
			md := w.c.Metadata()[name]
			for _, b := range []string{metadata.Sync, metadata.Connected} {
				if v, _ := md.GetBool(b); v {
					w.fail("C14", "step %d: after Reset(%s) metadata %s is still true", i, name, b)
				}
			}
			for cn := range metadata.TargetIntValues {
				v, gerr := md.GetInt(cn)
				if gerr != nil {
					continue
				}
				if cn == metadata.LatestTimestamp {
					if v > 0 {
						w.fail("C14", "step %d: after Reset(%s) latestTimestamp=%d", i, name, v)
					}
					continue
				}
				if v != 0 {
					w.fail("C14", "step %d: after Reset(%s) counter %s=%d, want 0", i, name, cn, v)
				}
			}
			w.checkInitialMeta(i, name, "Reset")
			got, _ := w.queryTarget(name)
			for k := range got {
				if !isMetaKey(k) {
					w.fail("C14", "step %d: after Reset(%s) leaf %q is still stored", i, name, gn.Unkey(k))
				}
			}
		case "remove":
			if !live {
				break
			}
			if w.wide(name) {
				w.st.removeWide = true
			}
			others := w.snapshotOthers(name)
			w.c.Remove(name)
			if after := w.snapshotOthers(name); fmt.Sprint(after) != fmt.Sprint(others) {
				w.fail("C14", "step %d: Remove(%s) changed another target", i, name)
			}
			delete(w.model, name)
			delete(w.st.sawConnErr, name)
			fed := w.feed[feedFrom:]
			ok := false
			for _, e := range fed {
				if e.n != nil && len(e.n.Delete) == 1 && fmt.Sprint(delKey(e.n, e.n.Delete[0])) == fmt.Sprint([]string{name, "*"}) {
					ok = true
				}
			}
			if !ok {
				w.fail("C14", "step %d: Remove(%s) did not announce a whole-target delete (feed: %v)", i, name, fmtFeed(fed))
			}
			w.applyFeed(feedFrom)
		case "add":
			if live {
				// Re-adding a live target silently replaces it (its leaves vanish without any announcement):
				// outside C02/C03/C14. For C15 alone it is one more way a target starts afresh: every
				// counter and the leaf count describe the new, empty tree.
				if !w.check["C15"] || len(w.check) != 1 {
					break
				}
				w.c.Add(name)
				w.model[name] = newMTarget()
				delete(w.st.sawConnErr, name)
				for k := range w.replay {
					if gn.Unkey(k)[0] == name {
						delete(w.replay, k)
					}
				}
				w.st.readdLive = true
				break
			}
			others := w.snapshotOthers(name)
			w.c.Add(name)
			if after := w.snapshotOthers(name); fmt.Sprint(after) != fmt.Sprint(others) {
				w.fail("C14", "step %d: Add(%s) changed another target", i, name)
			}
			w.model[name] = newMTarget()
			w.st.readd = true
		case "sync", "connect", "connecterr":
			others := w.snapshotOthers(name)
			switch s.Kind {
			case "sync":
				if tg := w.c.GetTarget(name); w.direct && tg != nil {
					tg.Sync()
					w.st.directEntry = true
				} else {
					w.c.Sync(name)
				}
			case "connect":
				if tg := w.c.GetTarget(name); w.direct && tg != nil {
					tg.Connect()
					w.st.directEntry = true
				} else {
					w.c.Connect(name)
				}
				if live && w.st.sawConnErr[name] {
					w.st.connErrThenConnect = true
					delete(w.st.sawConnErr, name)
				}
			case "connecterr":
				w.c.ConnectError(name, errors.New(s.Msg))
				if live {
					w.st.sawConnErr[name] = true
				}
			}
			if after := w.snapshotOthers(name); fmt.Sprint(after) != fmt.Sprint(others) {
				w.fail("C14", "step %d: %s(%s) changed another target", i, s.Kind, name)
			}
			w.applyFeed(feedFrom)
		case "updmeta":
			w.c.UpdateMetadata()
			w.applyFeed(feedFrom)
			// C15: latest timestamp is the greatest accepted target timestamp
			for tn, tm := range w.model {
				if !tm.accepted {
					continue
				}
				v, _ := w.c.Metadata()[tn].GetInt(metadata.LatestTimestamp)
				w.st.latestChecked = true
				if v != tm.latest {
					w.fail("C15", "step %d: %s latestTimestamp=%d, greatest accepted timestamp is %d", i, tn, v, tm.latest)
				}
			}
		case "updsize":
			w.c.UpdateSize()
			w.applyFeed(feedFrom)
		case "tick":
			// (projection runs: an operation on another target was left out; only the clock moves)
			continue
		default:
			return &failure{"INFRA", "unknown step kind " + s.Kind}
		}
		_ = m
		w.checkSpare(i)
		w.compareAll(i)
	}
	if w.check["C03"] && w.sc.Threshold == 0 {
		w.compareWithSingles()
	}
	return nil
}

// compareWithSingles is C03 (3): the same history with every multi-entry
// notification submitted as its updates, then its deletes, one at a time,
// must end in the same cache content and the same replayed feed.
func (w *world) compareWithSingles() {
	w2 := newWorld(w.sc, map[string]bool{})
	defer func() { cache.Now = func() time.Time { return cache.T(w.clock) } }()
	for _, op := range w.log {
		w2.clock = op.clock
		from := len(w2.feed)
		switch op.kind {
		case "noti":
			n := op.n
			if n.Atomic || len(n.Update)+len(n.Delete) <= 1 {
				w2.c.GnmiUpdate(proto.Clone(n).(*pb.Notification))
				break
			}
			for _, u := range n.Update {
				c := &pb.Notification{Timestamp: n.Timestamp, Prefix: proto.Clone(n.Prefix).(*pb.Path), Update: []*pb.Update{proto.Clone(u).(*pb.Update)}}
				w2.c.GnmiUpdate(c)
			}
			for _, d := range n.Delete {
				c := &pb.Notification{Timestamp: n.Timestamp, Prefix: proto.Clone(n.Prefix).(*pb.Path), Delete: []*pb.Path{proto.Clone(d).(*pb.Path)}}
				w2.c.GnmiUpdate(c)
			}
		case "reset":
			w2.c.Reset(op.name)
		case "remove":
			w2.c.Remove(op.name)
		case "add":
			w2.c.Add(op.name)
		case "sync":
			w2.c.Sync(op.name)
		case "connect":
			w2.c.Connect(op.name)
		case "connecterr":
			w2.c.ConnectError(op.name, errors.New(op.msg))
		case "updmeta":
			w2.c.UpdateMetadata()
		case "updsize":
			w2.c.UpdateSize()
		}
		for _, e := range w2.feed[from:] {
			if e.n != nil && e.n.Atomic {
				w2.atomics = append(w2.atomics, e.n)
			}
		}
		w2.applyFeed(from)
	}
	for i := 0; i < w.sc.Targets; i++ {
		name := targetName(i)
		if w.c.HasTarget(name) != w2.c.HasTarget(name) {
			w.fail("C03", "multi vs singles: target %s exists in one run only", name)
			continue
		}
		if !w.c.HasTarget(name) {
			continue
		}
		a, _ := w.queryTarget(name)
		b, _ := w2.queryTarget(name)
		for k, n := range a {
			if isMetaKey(k) {
				continue
			}
			o, ok := b[k]
			if !ok {
				w.fail("C03", "multi vs singles: %s/%q stored only when multi-entry notifications are submitted whole", name, gn.Unkey(k))
				continue
			}
			if o.GetTimestamp() != n.GetTimestamp() || !sameStored(o, n) {
				w.fail("C03", "multi vs singles: %s/%q holds %v when submitted whole, %v when submitted one at a time", name, gn.Unkey(k), n, o)
			}
		}
		for k := range b {
			if _, ok := a[k]; !ok && !isMetaKey(k) {
				w.fail("C03", "multi vs singles: %s/%q stored only when entries are submitted one at a time", name, gn.Unkey(k))
			}
		}
	}
	dataKeys := func(r map[string]*pb.Notification) map[string]*pb.Notification {
		out := map[string]*pb.Notification{}
		for k, v := range r {
			p := gn.Unkey(k)
			if len(p) > 1 && p[1] == metadata.Root {
				continue
			}
			out[k] = v
		}
		return out
	}
	ra, rb := dataKeys(w.replay), dataKeys(w2.replay)
	for k, n := range ra {
		o, ok := rb[k]
		if !ok || !sameStored(o, n) {
			w.fail("C03", "multi vs singles: replayed feeds differ at %q: %v vs %v", gn.Unkey(k), n, o)
		}
	}
	for k := range rb {
		if _, ok := ra[k]; !ok {
			w.fail("C03", "multi vs singles: replayed feed of the one-at-a-time run has extra %q", gn.Unkey(k))
		}
	}
}

// trimStack keeps the frames of the code under test.
func trimStack(b []byte) string {
	lines := strings.Split(string(b), "\n")
	var keep []string
	for i := 0; i+1 < len(lines); i++ {
		if strings.Contains(lines[i], "github.com/openconfig/gnmi/") {
			keep = append(keep, strings.TrimSpace(lines[i]), "  "+strings.TrimSpace(lines[i+1]))
		}
		if len(keep) >= 12 {
			break
		}
	}
	return strings.Join(keep, "\n")
}

// projectionCheck is the isolation clause of C14 as a metamorphic relation: the scenario is run again on a fresh
// cache with every operation addressed to another target left out (only the clock moves; cache-wide refreshes
// stay). Everything stored and reported for the kept target - every leaf, its metadata subtree included - must be
// the same in both runs: no operation on one target changes what is stored or reported for another.
func projectionCheck(sc *Scenario, main *world) error {
	if sc.Targets < 2 || len(sc.Steps) == 0 {
		return nil
	}
	keep := len(sc.Steps) % sc.Targets
	psc := *sc
	psc.Steps = make([]Step, len(sc.Steps))
	others := 0
	for i, st := range sc.Steps {
		switch {
		case st.Kind == "updmeta" || st.Kind == "updsize" || st.T%sc.Targets == keep:
			psc.Steps[i] = st
		default:
			psc.Steps[i] = Step{Kind: "tick", T: st.T, Tick: st.Tick}
			others++
		}
	}
	if others == 0 {
		return nil
	}
	pw := newWorld(&psc, map[string]bool{})
	if err := pw.run(); err != nil {
		return &failure{"C14", fmt.Sprintf("the scenario restricted to the operations on %s (and the cache-wide refreshes) failed where the full scenario did not: %v", targetName(keep), err)}
	}
	name := targetName(keep)
	a, errA := main.queryTarget(name)
	b, errB := pw.queryTarget(name)
	if (errA == nil) != (errB == nil) {
		return &failure{"C14", fmt.Sprintf("target %s: query result %v with the operations on the other targets, %v without them", name, errA, errB)}
	}
	var diffs []string
	for k, n := range a {
		switch m, ok := b[k]; {
		case !ok:
			diffs = append(diffs, fmt.Sprintf("%q is stored only when the other targets are operated on", gn.Unkey(k)))
		case !proto.Equal(n, m):
			diffs = append(diffs, fmt.Sprintf("%q holds %v with the operations on the other targets and %v without them", gn.Unkey(k), n, m))
		}
	}
	for k := range b {
		if _, ok := a[k]; !ok {
			diffs = append(diffs, fmt.Sprintf("%q is stored only when the other targets are left alone", gn.Unkey(k)))
		}
	}
	if len(diffs) > 0 {
		sort.Strings(diffs)
		if len(diffs) > 4 {
			diffs = diffs[:4]
		}
		return &failure{"C14", fmt.Sprintf("what is stored and reported for %s depends on the operations addressed to the other targets (%d of them left out in the second run): %s", name, others, strings.Join(diffs, "; "))}
	}
	main.st.projectionCompared = true
	return nil
}

// checkInitialMeta: every registered metadata value of the target equals what a target just registered with a cache
// of the same options reports (C14: Reset "returns its metadata to the initial values").
func (w *world) checkInitialMeta(step int, name, after string) {
	md := w.c.Metadata()[name]
	if md == nil || w.initial == nil {
		return
	}
	var names []string
	for n := range metadata.TargetStrValues {
		names = append(names, n)
	}
	sort.Strings(names)
	for _, n := range names {
		got, gerr := md.GetStr(n)
		want, werr := w.initial.GetStr(n)
		if (gerr == nil) != (werr == nil) || got != want {
			w.fail("C14", "step %d: after %s(%s) metadata %s is %q (%v); a target just registered with this cache reports %q (%v): not back to its initial value", step, after, name, n, got, gerr, want, werr)
		}
	}
	names = names[:0]
	for n := range metadata.TargetBoolValues {
		names = append(names, n)
	}
	sort.Strings(names)
	for _, n := range names {
		got, gerr := md.GetBool(n)
		want, werr := w.initial.GetBool(n)
		if (gerr == nil) != (werr == nil) || got != want {
			w.fail("C14", "step %d: after %s(%s) metadata %s is %v (%v); a target just registered with this cache reports %v (%v)", step, after, name, n, got, gerr, want, werr)
		}
	}
}
