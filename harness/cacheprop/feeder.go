package cacheprop

// Feeder styles: who owns the containers of a notification once GnmiUpdate has returned.
//
// The cache stores what it accepts: a notification that is stored as one unit (a single update, an atomic group:
// "handled separately to avoid the unnecessary proto.Clone call") and every Update message that became a leaf's
// content are handed over for good; the harness's feeders never touch those again. Everything else stays the
// CALLER's: the notification struct, the prefix object, the []*Update and []*Path lists and the delete paths
// (their element arrays, key maps) of a notification the cache splits into separate notifications of its own
// ("each individual Update/Delete is sent to cache as a separate gnmi.Notification") or stores nothing of (delete-only,
// empty), and every object of a single/atomic notification the call refused with an error. A caller may re-use and
// overwrite all of that as soon as the call has returned; the cache must be unaffected and must never write to it.
//
//	""         fresh objects for every notification, nothing is touched after the call (what a gRPC decoder does)
//	"batch"    one long-lived backing array per target for the update list and one for the delete list (a batch
//	           buffer: buf = buf[:0]; append fresh messages; send): the next batch overwrites the slots of the last
//	"scribble" everything the caller still owns is re-used and overwritten: the batch buffers, one arena for the
//	           element arrays of the prefix and of all delete paths (so that the spare capacity of one path is the
//	           next path's elements), PathElem objects, key maps, delete Path objects, the prefix object and the
//	           notification struct are re-used in place for the next notification; and right after every call the
//	           list slots are overwritten (nil / other messages, spare capacity included), paths and prefix are
//	           rewritten (target renamed to another target, origin and element names changed, key maps mutated), the
//	           struct's fields reassigned; the messages of a refused single/atomic notification are overwritten in
//	           place too (payload bytes, scalars, paths)
//
// The oracles judge the cache against what was SUBMITTED (clones taken before the call), never against the live
// objects; the bookkeeping of "the caller's objects are unmodified" follows the feeder: an object the feeder itself
// rewrote is no longer expected to equal its clone (generation counters), and every slot of the feeder's arrays must
// hold exactly the pointer the feeder put there last.

import (
	"fmt"

	pb "github.com/openconfig/gnmi/proto/gnmi"
	"verif/harness/internal/gn"
	"google.golang.org/protobuf/proto"
)

const (
	feedFresh    = ""
	feedBatch    = "batch"
	feedScribble = "scribble"
)

// feeder is the caller-side state of one target's update stream.
type feeder struct {
	ubuf, uwant []*pb.Update   // batch buffer of updates; what the feeder last put into every slot of its backing array
	dbuf, dwant []*pb.Path     // the same for deletes
	ebuf, ewant []*pb.PathElem // arena of the element arrays (scribble)
	elems       []*pb.PathElem // PathElem objects re-used in place (scribble)
	kmaps       []map[string]string
	paths       []*pb.Path // delete Path objects re-used in place (scribble)
	prefix      *pb.Path
	noti        *pb.Notification
	usedElems   int
	uUsed       bool // the update buffer has been handed to the cache before
	dUsed       bool
	// label only: model keys and clones of the updates of the last batch built in ubuf
	lastKeys   []string
	lastClones []*pb.Update
	scribbled  bool // ubuf was overwritten right after the call that is being judged
}

// storedFromLastBatch: some update of the last batch built in the update buffer is still what its leaf holds.
func (w *world) storedFromLastBatch(name string, f *feeder) bool {
	m := w.model[name]
	if m == nil {
		return false
	}
	for i, k := range f.lastKeys {
		if l := m.leaves[k]; l != nil && !l.n.Atomic && len(l.n.Update) == 1 && l.n.Update[0] == f.lastClones[i] {
			return true
		}
	}
	return false
}

// noteScribbled is called once the model has caught up with the call after which the buffer was overwritten.
func (w *world) noteScribbled(name string) {
	if f := w.feeders[name]; f != nil && f.scribbled {
		f.scribbled = false
		if w.storedFromLastBatch(name, f) {
			w.st.refillOverStored = true
		}
	}
}

// part is one message of a submitted notification as the caller still holds it.
type part struct {
	live, want proto.Message
	gen        int
}

// mayBeKept: the cache stores such a notification as one unit when it accepts it; it is then the cache's.
func mayBeKept(n *pb.Notification) bool {
	return n.GetAtomic() || (len(n.GetUpdate()) == 1 && len(n.GetDelete()) == 0)
}

func (w *world) feederOf(name string) *feeder {
	if w.feeders == nil {
		w.feeders = map[string]*feeder{}
	}
	f := w.feeders[name]
	if f == nil {
		f = &feeder{ubuf: make([]*pb.Update, 0, 4), dbuf: make([]*pb.Path, 0, 3), ebuf: make([]*pb.PathElem, 0, 8)}
		w.feeders[name] = f
	}
	return f
}

func (w *world) touch(m proto.Message) {
	if w.gen == nil {
		w.gen = map[proto.Message]int{}
	}
	w.gen[m]++
}

// releaseOps: the feeder of name is about to re-use its containers; the notifications it submitted through them are
// from now on compared message by message (those the feeder did not rewrite), no longer as a whole.
func (w *world) releaseOps(name string) {
	for j := range w.log {
		if op := &w.log[j]; op.name == name && op.touchable {
			op.whole = false
		}
	}
}

func (w *world) isPooled(p *pb.Path) bool {
	for _, q := range w.pool {
		if p == q {
			return true
		}
	}
	return false
}

// pour moves a freshly built notification into the feeder's re-used containers. The content stays the same.
func (w *world) pour(name string, n *pb.Notification) *pb.Notification {
	style := w.sc.Feeder
	if style == feedFresh || mayBeKept(n) {
		return n
	}
	f := w.feederOf(name)
	w.releaseOps(name)
	deletes := n.Delete
	if style == feedScribble {
		// one arena for every element array of this notification, PathElem objects, key maps, Path objects re-used
		f.ebuf = f.ebuf[:0]
		ne, nk := 0, 0
		takeElem := func(src *pb.PathElem) *pb.PathElem {
			var pe *pb.PathElem
			if ne < len(f.elems) {
				pe = f.elems[ne]
			} else {
				pe = &pb.PathElem{}
				f.elems = append(f.elems, pe)
			}
			ne++
			pe.Name = src.GetName()
			pe.Key = nil
			if len(src.GetKey()) > 0 {
				var m map[string]string
				if nk < len(f.kmaps) {
					m = f.kmaps[nk]
					clear(m)
					w.st.keyMapReused = true
				} else {
					m = map[string]string{}
					f.kmaps = append(f.kmaps, m)
				}
				nk++
				for k, v := range src.GetKey() {
					m[k] = v
				}
				pe.Key = m
			}
			return pe
		}
		type seg struct {
			p        *pb.Path
			from, to int
		}
		var segs []seg
		rehome := func(dst, src *pb.Path) {
			dst.Target, dst.Origin = src.GetTarget(), src.GetOrigin()
			dst.Element = append(dst.Element[:0], src.GetElement()...)
			from := len(f.ebuf)
			for _, e := range src.GetElem() {
				f.ebuf = append(f.ebuf, takeElem(e))
			}
			segs = append(segs, seg{dst, from, len(f.ebuf)})
		}
		if f.prefix == nil {
			f.prefix = &pb.Path{}
		} else {
			w.touch(f.prefix)
			w.st.prefixRewritten = true
		}
		rehome(f.prefix, n.Prefix)
		deletes = make([]*pb.Path, 0, len(n.Delete))
		for i, d := range n.Delete {
			if i >= len(f.paths) {
				f.paths = append(f.paths, &pb.Path{})
			} else {
				w.touch(f.paths[i])
			}
			rehome(f.paths[i], d)
			deletes = append(deletes, f.paths[i])
		}
		withElems := 0
		for _, s := range segs {
			s.p.Elem = nil
			if s.to > s.from {
				// (capacity runs to the end of the arena: what follows a path's elements is the next path's)
				s.p.Elem = f.ebuf[s.from:s.to]
				withElems++
			}
		}
		if withElems > 1 {
			w.st.elemArena = true
		}
		f.usedElems = ne
		f.ewant = append(f.ewant[:0], f.ebuf[:cap(f.ebuf)]...)
	}
	var updates []*pb.Update
	if len(n.Update) > 0 {
		if f.uUsed {
			w.st.updListReused = true
			if w.storedFromLastBatch(name, f) {
				w.st.refillOverStored = true
			}
		}
		f.ubuf = append(f.ubuf[:0], n.Update...)
		f.uwant = append(f.uwant[:0], f.ubuf[:cap(f.ubuf)]...)
		f.uUsed = true
		updates = f.ubuf
	}
	if len(deletes) > 0 {
		if f.dUsed {
			w.st.delListReused = true
		}
		f.dbuf = append(f.dbuf[:0], deletes...)
		f.dwant = append(f.dwant[:0], f.dbuf[:cap(f.dbuf)]...)
		f.dUsed = true
		deletes = f.dbuf
	} else {
		deletes = nil
	}
	out := n
	if style == feedScribble {
		if f.noti == nil {
			f.noti = &pb.Notification{}
		} else {
			w.st.structReused = true
		}
		out = f.noti
		out.Timestamp, out.Atomic, out.Prefix = n.Timestamp, n.Atomic, f.prefix
	}
	out.Update, out.Delete = updates, deletes
	return out
}

// hold records the messages of a submitted notification next to the parts of its clone.
func (w *world) hold(op *concreteOp, n, clone *pb.Notification) {
	op.whole = true
	if w.sc.Feeder == feedFresh {
		return
	}
	op.touchable = !mayBeKept(n)
	add := func(live, want proto.Message) {
		op.parts = append(op.parts, part{live: live, want: want, gen: w.gen[live]})
	}
	if n.Prefix != nil {
		add(n.Prefix, clone.Prefix)
	}
	for i, u := range n.Update {
		add(u, clone.Update[i])
	}
	for i, d := range n.Delete {
		add(d, clone.Delete[i])
	}
	if op.touchable && len(n.Update) > 0 {
		f := w.feederOf(op.name)
		f.lastKeys, f.lastClones = f.lastKeys[:0], append(f.lastClones[:0], clone.Update...)
		pfx := prefixIndex(clone)
		for _, u := range clone.Update {
			f.lastKeys = append(f.lastKeys, gn.Key(append(append([]string{}, pfx...), gn.RefIndex(u.Path, false)...)))
		}
	}
}

// checkCallerOwned: every notification handed over in an earlier call is as it was (the cache may keep the caller's
// object; it must not write to it later either), as far as the feeder has not re-used it itself; and every slot of
// the feeder's arrays holds what the feeder put there.
func (w *world) checkCallerOwned(step int) {
	for j := len(w.log) - 2; j >= 0 && j >= len(w.log)-40; j-- {
		op := &w.log[j]
		if op.orig == nil {
			continue
		}
		if op.whole {
			if !proto.Equal(op.orig, op.n) {
				w.fail("C03", "step %d: a notification submitted in an earlier call was modified afterwards: it was %v and now reads %v", step, op.n, op.orig)
			}
			continue
		}
		for _, p := range op.parts {
			if w.gen[p.live] == p.gen && !proto.Equal(p.live, p.want) {
				w.fail("C03", "step %d: a message of a notification submitted in an earlier call, which the caller has not touched since, was modified: it was %v and now reads %v", step, p.want, p.live)
			}
		}
	}
	for t := 0; t < w.sc.Targets; t++ {
		f := w.feeders[targetName(t)]
		if f == nil {
			continue
		}
		for i, x := range f.ubuf[:cap(f.ubuf)] {
			if i < len(f.uwant) && x != f.uwant[i] {
				w.fail("C03", "step %d: slot %d of the caller's update list (backing array of length %d, capacity %d, re-used between notifications) was written by the cache: it holds %v", step, i, len(f.ubuf), cap(f.ubuf), x)
			}
		}
		for i, x := range f.dbuf[:cap(f.dbuf)] {
			if i < len(f.dwant) && x != f.dwant[i] {
				w.fail("C03", "step %d: slot %d of the caller's delete list (re-used between notifications) was written by the cache: it holds %v", step, i, x)
			}
		}
		for i, x := range f.ebuf[:cap(f.ebuf)] {
			if i < len(f.ewant) && x != f.ewant[i] {
				w.fail("C03", "step %d: slot %d of the caller's element array (shared by the prefix and the delete paths of one notification) was written by the cache: it holds %v", step, i, x)
			}
		}
	}
}

func decoyElem(i int) *pb.PathElem {
	return &pb.PathElem{Name: fmt.Sprintf("scribbled%d", i), Key: map[string]string{"scribbled": "1"}}
}

func decoyPath(i int) *pb.Path {
	return &pb.Path{Origin: "scribbled", Elem: []*pb.PathElem{decoyElem(i)}}
}

func decoyUpdate(i int) *pb.Update {
	return &pb.Update{Path: decoyPath(i), Val: &pb.TypedValue{Value: &pb.TypedValue_StringVal{StringVal: "scribbled"}}}
}

// scribblePath rewrites a path the caller owns in place: origin, element names, key maps, then the slots themselves.
func scribblePath(p *pb.Path) {
	if p == nil {
		return
	}
	p.Origin = "scribbled"
	for i := range p.Element {
		p.Element[i] = "scribbled"
	}
	for i, e := range p.Elem {
		if e != nil {
			e.Name = "scribbled"
			if e.Key != nil {
				clear(e.Key)
				e.Key["scribbled"] = "1"
			}
		}
		if i%2 == 1 {
			p.Elem[i] = decoyElem(i)
		}
	}
}

func scribbleTyped(tv *pb.TypedValue) {
	flip := func(b []byte) {
		for i := range b {
			b[i] ^= 0x5a
		}
	}
	switch v := tv.GetValue().(type) {
	case *pb.TypedValue_IntVal:
		v.IntVal += 1000
	case *pb.TypedValue_UintVal:
		v.UintVal += 1000
	case *pb.TypedValue_StringVal:
		v.StringVal += "-scribbled"
	case *pb.TypedValue_AsciiVal:
		v.AsciiVal += "-scribbled"
	case *pb.TypedValue_BoolVal:
		v.BoolVal = !v.BoolVal
	case *pb.TypedValue_DoubleVal:
		v.DoubleVal = 12345.5
	case *pb.TypedValue_FloatVal:
		v.FloatVal = 12345.5
	case *pb.TypedValue_DecimalVal:
		if v.DecimalVal != nil {
			v.DecimalVal.Digits += 1000
		}
	case *pb.TypedValue_BytesVal:
		flip(v.BytesVal)
	case *pb.TypedValue_JsonVal:
		flip(v.JsonVal)
	case *pb.TypedValue_JsonIetfVal:
		flip(v.JsonIetfVal)
	case *pb.TypedValue_LeaflistVal:
		for _, e := range v.LeaflistVal.GetElement() {
			scribbleTyped(e)
		}
	}
}

// afterCall is what a scribbling feeder does as soon as GnmiUpdate has returned.
func (w *world) afterCall(name string, n *pb.Notification, err error) {
	if w.sc.Feeder != feedScribble {
		return
	}
	other := "t9"
	for t := 0; t < w.sc.Targets; t++ {
		if targetName(t) != name {
			other = targetName(t)
			break
		}
	}
	if mayBeKept(n) {
		if err == nil {
			return // accepted and stored as it is: the cache's from now on
		}
		// refused: everything of it is the caller's again (objects shared with other notifications stay as they are)
		w.st.refusedScribbled = true
		w.log[len(w.log)-1].touchable = true
		w.releaseOps(name)
		if p := n.Prefix; p != nil && !w.isPooled(p) {
			w.touch(p)
			scribblePath(p)
			p.Target = other
		}
		for i, u := range n.Update {
			w.touch(u)
			if !w.isPooled(u.Path) {
				scribblePath(u.Path)
			}
			scribbleTyped(u.Val)
			if u.Value != nil {
				for j := range u.Value.Value {
					u.Value.Value[j] ^= 0x5a
				}
				u.Value.Type = pb.Encoding_BYTES
			}
			u.Duplicates += 7
			if i%2 == 0 {
				n.Update[i] = decoyUpdate(i)
			}
		}
		for i, d := range n.Delete {
			w.touch(d)
			scribblePath(d)
			n.Delete[i] = nil
		}
		n.Timestamp, n.Atomic, n.Prefix = ^n.Timestamp, !n.Atomic, nil
		return
	}
	// a notification the cache split or stored nothing of: lists, paths, prefix and struct are the feeder's
	f := w.feederOf(name)
	w.releaseOps(name)
	w.st.listsScribbled = true
	if s := f.ubuf[:cap(f.ubuf)]; f.uUsed {
		if cap(f.ubuf) > len(f.ubuf) {
			w.st.spareWritten = true
		}
		for i := range s {
			s[i] = nil
			if i%2 == 1 {
				s[i] = decoyUpdate(i)
			}
		}
		f.uwant = append(f.uwant[:0], s...)
		f.scribbled = len(n.Update) > 0
	}
	if s := f.dbuf[:cap(f.dbuf)]; f.dUsed {
		if cap(f.dbuf) > len(f.dbuf) {
			w.st.spareWritten = true
		}
		for i := range s {
			s[i] = nil
			if i%2 == 0 {
				s[i] = decoyPath(i)
			}
		}
		f.dwant = append(f.dwant[:0], s...)
	}
	for i := 0; i < len(n.Delete) && i < len(f.paths); i++ {
		w.touch(f.paths[i])
		scribblePath(f.paths[i])
	}
	w.touch(f.prefix)
	scribblePath(f.prefix)
	f.prefix.Target = other
	for _, e := range f.elems[:f.usedElems] {
		e.Name = "scribbled"
	}
	for _, m := range f.kmaps {
		clear(m)
		m["scribbled"] = "2"
	}
	s := f.ebuf[:cap(f.ebuf)]
	for i := range s {
		s[i] = nil
		if i%2 == 0 {
			s[i] = decoyElem(i)
		}
	}
	f.ewant = append(f.ewant[:0], s...)
	n.Timestamp, n.Atomic, n.Prefix, n.Update, n.Delete = ^n.Timestamp, !n.Atomic, nil, nil, nil
}
