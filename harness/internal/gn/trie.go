package gn

// Trie is a set of index paths with values that answers the Matches and
// IsProperPrefix removals without scanning every member (a view of tens of
// thousands of leaves that is deleted leaf by leaf costs leaves x leaves with a
// map). Its members are exactly those a map keyed by Key would hold.
type Trie struct {
	root tnode
	n    int
}

type tnode struct {
	kids map[string]*tnode
	has  bool
	val  string
}

// Len is the number of members.
func (t *Trie) Len() int { return t.n }

// Set adds or replaces the member at p.
func (t *Trie) Set(p []string, v string) {
	nd := &t.root
	for _, e := range Unkey(Key(p)) {
		k := nd.kids[e]
		if k == nil {
			if nd.kids == nil {
				nd.kids = map[string]*tnode{}
			}
			k = &tnode{}
			nd.kids[e] = k
		}
		nd = k
	}
	if !nd.has {
		t.n++
	}
	nd.has, nd.val = true, v
}

func (t *Trie) clear(nd *tnode, self bool) {
	if self && nd.has {
		nd.has, nd.val = false, ""
		t.n--
	}
	for _, k := range nd.kids {
		t.clear(k, true)
	}
	nd.kids = nil
}

// DeleteMatching removes every member p with Matches(q, p).
func (t *Trie) DeleteMatching(q []string) { t.del(&t.root, q) }

func (t *Trie) del(nd *tnode, q []string) {
	switch {
	case len(q) == 0, len(q) == 1 && q[0] == "*":
		// q is through (everything from here on matches), or its last element is a glob, which
		// also matches the node itself
		t.clear(nd, true)
		return
	case q[0] == "*":
		for _, k := range nd.kids {
			t.del(k, q[1:])
		}
	default:
		if k := nd.kids[q[0]]; k != nil {
			t.del(k, q[1:])
		}
	}
}

// DeleteBelow removes every member o with IsProperPrefix(p, o).
func (t *Trie) DeleteBelow(p []string) {
	nd := &t.root
	for _, e := range p {
		if nd = nd.kids[e]; nd == nil {
			return
		}
	}
	t.clear(nd, false)
}

// Map is the members keyed by Key.
func (t *Trie) Map() map[string]string {
	out := make(map[string]string, t.n)
	var walk func(nd *tnode, p []string)
	walk = func(nd *tnode, p []string) {
		if nd.has {
			out[Key(p)] = nd.val
		}
		for e, k := range nd.kids {
			walk(k, append(p[:len(p):len(p)], e))
		}
	}
	walk(&t.root, nil)
	return out
}
