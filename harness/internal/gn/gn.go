// Package gn holds the small gNMI vocabulary shared by the engines: plain-data
// specs of paths and values (JSON-serialisable so that scenarios can be
// replayed), builders turning them into protobuf messages, the reference
// index function written from path.ToStrings' documentation, and the two
// path relations every property is phrased in (query match and compatibility).
package gn

import (
	"fmt"
	"math"
	"sort"
	"strings"

	pb "github.com/openconfig/gnmi/proto/gnmi"
)

// Elem is one path element: a name and optional list keys.
type Elem struct {
	Name string            `json:"n"`
	Keys map[string]string `json:"k,omitempty"`
}

// Val is a scalar value spec. Kind: int uint string bool double float bytes
// decimal json jsonietf ascii leaflist none.
type Val struct {
	Kind string  `json:"kind"`
	I    int64   `json:"i,omitempty"`
	S    string  `json:"s,omitempty"`
	B    bool    `json:"b,omitempty"`
	F    float64 `json:"f,omitempty"`
	L    []Val   `json:"l,omitempty"`
}

// float is the number of a double/float spec: F, or the special value named by S ("nan", "inf",
// "-inf", "-0": JSON cannot carry them as numbers).
func (v Val) float() float64 {
	switch v.S {
	case "nan":
		return math.NaN()
	case "inf":
		return math.Inf(1)
	case "-inf":
		return math.Inf(-1)
	case "-0":
		return math.Copysign(0, -1)
	}
	return v.F
}

// TV builds the TypedValue (nil for Kind "none").
func (v Val) TV() *pb.TypedValue {
	switch v.Kind {
	case "int":
		return &pb.TypedValue{Value: &pb.TypedValue_IntVal{IntVal: v.I}}
	case "uint":
		return &pb.TypedValue{Value: &pb.TypedValue_UintVal{UintVal: uint64(v.I)}}
	case "string":
		return &pb.TypedValue{Value: &pb.TypedValue_StringVal{StringVal: v.S}}
	case "bool":
		return &pb.TypedValue{Value: &pb.TypedValue_BoolVal{BoolVal: v.B}}
	case "double":
		return &pb.TypedValue{Value: &pb.TypedValue_DoubleVal{DoubleVal: v.float()}}
	case "float":
		return &pb.TypedValue{Value: &pb.TypedValue_FloatVal{FloatVal: float32(v.float())}}
	case "bytes":
		return &pb.TypedValue{Value: &pb.TypedValue_BytesVal{BytesVal: []byte(v.S)}}
	case "decimal":
		return &pb.TypedValue{Value: &pb.TypedValue_DecimalVal{DecimalVal: &pb.Decimal64{Digits: v.I, Precision: uint32(v.F)}}}
	case "json":
		return &pb.TypedValue{Value: &pb.TypedValue_JsonVal{JsonVal: []byte(v.S)}}
	case "jsonietf":
		return &pb.TypedValue{Value: &pb.TypedValue_JsonIetfVal{JsonIetfVal: []byte(v.S)}}
	case "ascii":
		return &pb.TypedValue{Value: &pb.TypedValue_AsciiVal{AsciiVal: v.S}}
	case "leaflist":
		sa := &pb.ScalarArray{}
		for _, e := range v.L {
			sa.Element = append(sa.Element, e.TV())
		}
		return &pb.TypedValue{Value: &pb.TypedValue_LeaflistVal{LeaflistVal: sa}}
	case "empty":
		return &pb.TypedValue{}
	case "none", "", "deprecated":
		return nil
	}
	panic("gn: unknown value kind " + v.Kind)
}

// MakeUpdate builds an update of path p carrying v. Kind "deprecated" uses the
// deprecated Update.value field (JSON bytes S) and leaves val unset.
func MakeUpdate(p *pb.Path, v Val) *pb.Update {
	if v.Kind == "deprecated" {
		return &pb.Update{Path: p, Value: &pb.Value{Value: []byte(v.S), Type: pb.Encoding_JSON}}
	}
	return &pb.Update{Path: p, Val: v.TV()}
}

// SameValue is the independent notion of "the value did not change" used by
// oracles: same oneof arm and equal payload; floats compare numerically (so
// +0 == -0, NaN != NaN). It deliberately shares no code with value.Equal.
func SameValue(a, b *pb.TypedValue) bool {
	if a == nil || b == nil {
		return false
	}
	switch av := a.GetValue().(type) {
	case *pb.TypedValue_IntVal:
		bv, ok := b.GetValue().(*pb.TypedValue_IntVal)
		return ok && av.IntVal == bv.IntVal
	case *pb.TypedValue_UintVal:
		bv, ok := b.GetValue().(*pb.TypedValue_UintVal)
		return ok && av.UintVal == bv.UintVal
	case *pb.TypedValue_StringVal:
		bv, ok := b.GetValue().(*pb.TypedValue_StringVal)
		return ok && av.StringVal == bv.StringVal
	case *pb.TypedValue_BoolVal:
		bv, ok := b.GetValue().(*pb.TypedValue_BoolVal)
		return ok && av.BoolVal == bv.BoolVal
	case *pb.TypedValue_DoubleVal:
		bv, ok := b.GetValue().(*pb.TypedValue_DoubleVal)
		return ok && av.DoubleVal == bv.DoubleVal
	case *pb.TypedValue_FloatVal:
		bv, ok := b.GetValue().(*pb.TypedValue_FloatVal)
		return ok && av.FloatVal == bv.FloatVal
	case *pb.TypedValue_BytesVal:
		bv, ok := b.GetValue().(*pb.TypedValue_BytesVal)
		return ok && string(av.BytesVal) == string(bv.BytesVal)
	case *pb.TypedValue_DecimalVal:
		bv, ok := b.GetValue().(*pb.TypedValue_DecimalVal)
		return ok && av.DecimalVal.GetDigits() == bv.DecimalVal.GetDigits() && av.DecimalVal.GetPrecision() == bv.DecimalVal.GetPrecision()
	case *pb.TypedValue_JsonVal:
		bv, ok := b.GetValue().(*pb.TypedValue_JsonVal)
		return ok && string(av.JsonVal) == string(bv.JsonVal)
	case *pb.TypedValue_JsonIetfVal:
		bv, ok := b.GetValue().(*pb.TypedValue_JsonIetfVal)
		return ok && string(av.JsonIetfVal) == string(bv.JsonIetfVal)
	case *pb.TypedValue_AsciiVal:
		bv, ok := b.GetValue().(*pb.TypedValue_AsciiVal)
		return ok && av.AsciiVal == bv.AsciiVal
	case *pb.TypedValue_LeaflistVal:
		bv, ok := b.GetValue().(*pb.TypedValue_LeaflistVal)
		if !ok {
			return false
		}
		ae, be := av.LeaflistVal.GetElement(), bv.LeaflistVal.GetElement()
		if len(ae) != len(be) {
			return false
		}
		for i := range ae {
			if !SameValue(ae[i], be[i]) {
				return false
			}
		}
		return true
	}
	return false
}

// Path builds a gNMI path. element=true uses the deprecated string-slice
// encoding (keys cannot be expressed there and are ignored). spare>0 gives the
// element slice that much unused capacity, the way append-growth during
// proto.Unmarshal does.
func Path(target, origin string, elems []Elem, element bool, spare int) *pb.Path {
	p := &pb.Path{Target: target, Origin: origin}
	if element {
		if len(elems) > 0 || spare > 0 {
			p.Element = make([]string, 0, len(elems)+spare)
		}
		for _, e := range elems {
			p.Element = append(p.Element, e.Name)
		}
		return p
	}
	if len(elems) > 0 || spare > 0 {
		p.Elem = make([]*pb.PathElem, 0, len(elems)+spare)
	}
	for _, e := range elems {
		pe := &pb.PathElem{Name: e.Name}
		if len(e.Keys) > 0 {
			pe.Key = map[string]string{}
			for k, v := range e.Keys {
				pe.Key[k] = v
			}
		}
		p.Elem = append(p.Elem, pe)
	}
	return p
}

// IndexOfElems is the index form of a list of element specs: names in order,
// each followed by its key values ordered by key name.
func IndexOfElems(elems []Elem, element bool) []string {
	out := []string{}
	for _, e := range elems {
		out = append(out, e.Name)
		if element {
			continue
		}
		ks := make([]string, 0, len(e.Keys))
		for k := range e.Keys {
			ks = append(ks, k)
		}
		sort.Strings(ks)
		for _, k := range ks {
			out = append(out, e.Keys[k])
		}
	}
	return out
}

// RefIndex is the reference implementation of the documented index form of a
// gNMI path: target then origin first when requested and non-empty; `elem`
// names in order, each followed by its key values ordered by key name; the
// deprecated `element` strings are used only when `elem` is empty.
func RefIndex(p *pb.Path, withTargetOrigin bool) []string {
	out := []string{}
	if p == nil {
		return out
	}
	if withTargetOrigin {
		if p.GetTarget() != "" {
			out = append(out, p.GetTarget())
		}
		if p.GetOrigin() != "" {
			out = append(out, p.GetOrigin())
		}
	}
	if len(p.GetElem()) == 0 {
		return append(out, p.GetElement()...)
	}
	for _, e := range p.GetElem() {
		out = append(out, e.GetName())
		ks := make([]string, 0, len(e.GetKey()))
		for k := range e.GetKey() {
			ks = append(ks, k)
		}
		sort.Strings(ks)
		for _, k := range ks {
			out = append(out, e.GetKey()[k])
		}
	}
	return out
}

// Matches is the query relation: query q reports the leaf stored at p.
func Matches(q, p []string) bool {
	switch {
	case len(q) <= len(p):
	case len(q) == len(p)+1 && q[len(q)-1] == "*":
	default:
		return false
	}
	for i := 0; i < len(q) && i < len(p); i++ {
		if q[i] != "*" && q[i] != p[i] {
			return false
		}
	}
	return true
}

// Compatible is the streaming-filter relation: the two paths agree on every
// element they both have, a glob on either side agreeing with anything.
func Compatible(q, p []string) bool {
	for i := 0; i < len(q) && i < len(p); i++ {
		if q[i] != "*" && p[i] != "*" && q[i] != p[i] {
			return false
		}
	}
	return true
}

// Sep joins index paths into map keys.
const Sep = "\x00"

// Key joins an index path.
func Key(p []string) string { return strings.Join(p, Sep) }

// Unkey splits a key.
func Unkey(k string) []string {
	if k == "" {
		return []string{}
	}
	return strings.Split(k, Sep)
}

// IsProperPrefix reports whether a is a proper prefix of b.
func IsProperPrefix(a, b []string) bool {
	if len(a) >= len(b) {
		return false
	}
	for i := range a {
		if a[i] != b[i] {
			return false
		}
	}
	return true
}

// FmtVal renders a TypedValue compactly for messages.
func FmtVal(v *pb.TypedValue) string {
	if v == nil {
		return "<nil>"
	}
	switch x := v.GetValue().(type) {
	case *pb.TypedValue_DoubleVal:
		if math.IsNaN(x.DoubleVal) {
			return "double:NaN"
		}
	}
	return strings.TrimSpace(fmt.Sprint(v))
}
