package gn

import (
	"reflect"
	"testing"

	"pgregory.net/rapid"
)

// The trie agrees with the map it replaces on every operation sequence.
func TestTrieAgreesWithMap(t *testing.T) {
	rapid.Check(t, func(t *rapid.T) {
		elem := rapid.SampledFrom([]string{"a", "b", "c", "*", ""})
		pathG := rapid.SliceOfN(elem, 0, 4)
		tr, m := &Trie{}, map[string]string{}
		n := rapid.IntRange(1, 40).Draw(t, "n")
		for i := 0; i < n; i++ {
			p := pathG.Draw(t, "p")
			switch rapid.IntRange(0, 3).Draw(t, "op") {
			case 0, 1:
				v := rapid.SampledFrom([]string{"x", "y"}).Draw(t, "v")
				tr.Set(p, v)
				m[Key(p)] = v
			case 2:
				tr.DeleteMatching(p)
				for k := range m {
					if Matches(p, Unkey(k)) {
						delete(m, k)
					}
				}
			case 3:
				tr.DeleteBelow(Unkey(Key(p)))
				for k := range m {
					if IsProperPrefix(Unkey(Key(p)), Unkey(k)) {
						delete(m, k)
					}
				}
			}
			if got := tr.Map(); !reflect.DeepEqual(got, m) || tr.Len() != len(m) {
				t.Fatalf("trie %v (len %d), map %v", got, tr.Len(), m)
			}
		}
	})
}
