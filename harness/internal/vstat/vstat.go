// Package vstat is the bookkeeping shared by every engine: it counts the
// generated cases, keeps hashes of the non-trivial ones, a few verbatim samples,
// label histograms, and records violations together with the scenario that
// produced them (the replay file). One Recorder per test process; the driver
// (../../check) merges the per-process result files into the evidence file.
package vstat

import (
	"encoding/json"
	"flag"
	"fmt"
	"hash/fnv"
	"os"
	"path/filepath"
	"regexp"
	"runtime"
	"sort"
	"strconv"
	"strings"
	"sync"
	"sync/atomic"
	"testing"
	"time"

	_ "github.com/golang/glog" // registers -log_dir / -stderrthreshold in every engine
	"pgregory.net/rapid"
)

var (
	// Prop selects which property's oracles are enabled in a shared engine.
	Prop = flag.String("prop", "", "property id (Cxx) whose oracles are enabled")
	// OutDir is the per-invocation work directory created by the driver.
	OutDir = flag.String("out", "", "work directory for result / replay files")
	// Shard is a label distinguishing parallel processes of one check.
	Shard = flag.String("shard", "0", "shard label")
	// Tier is quick or thorough.
	Tier = flag.String("tier", "quick", "quick|thorough")
	// Replay is a scenario file to run without the library.
	Replay = flag.String("replay", "", "scenario file to replay (no generation)")
	// Seed is an auxiliary seed (derived by the driver from VERIF_SEED) for
	// parts that do not run under rapid (workload choice of stress runs).
	Seed = flag.Int64("seed", 1, "auxiliary seed for non-rapid parts")
	// Known is the known-findings file.
	Known = flag.String("known", "", "path of known_findings.json")
	// NoGlogV switches the per-case glog verbosity draw of RunRapid off.
	NoGlogV = flag.Bool("noglogv", false, "do not draw a glog verbosity per rapid case")
)

// curGlogV is the glog verbosity of the case being run (RunRapid draws it; a replay restores it).
var curGlogV atomic.Int32

// GlogV returns the glog verbosity under which the current case runs.
func GlogV() int { return int(curGlogV.Load()) }

// Violation is one failing case.
type Violation struct {
	Property string `json:"property"`
	Class    string `json:"class"`
	Message  string `json:"message"`
	Replay   string `json:"replay"`
}

// Result is what one process writes for the driver.
type Result struct {
	Property      string         `json:"property"`
	Part          string         `json:"part"`
	Shard         string         `json:"shard"`
	Evaluations   int            `json:"evaluations"`
	Requested     int            `json:"requested"`
	Completed     bool           `json:"completed"`
	Nontrivial    []uint64       `json:"nontrivial_hashes"`
	Labels        map[string]int `json:"labels"`
	Samples       []any          `json:"samples"`
	Violations    []Violation    `json:"violations"`
	KnownFindings []string       `json:"known_findings"`
	ExcludedKnown map[string]int `json:"excluded_known"`
	Exhaustive    bool           `json:"exhaustive"`
	Notes         []string       `json:"notes"`
}

// Recorder accumulates one Result. Safe for concurrent use.
type Recorder struct {
	mu       sync.Mutex
	res      Result
	nt       map[uint64]struct{}
	maxSamp  int
	lastFail []byte // last failing scenario as JSON
	lastMsg  string
	lastCls  string
	lastV    int // glog verbosity under which the last failing case ran
	frozen   bool
}

// New creates a recorder for property prop, part (a name for the sub-check).
func New(prop, part string) *Recorder {
	return &Recorder{
		res: Result{Property: prop, Part: part, Shard: *Shard, Labels: map[string]int{}, ExcludedKnown: map[string]int{}},
		nt:  map[uint64]struct{}{}, maxSamp: 4,
	}
}

// Hash returns a 64-bit hash of the JSON form of v.
func Hash(v any) uint64 {
	b, err := json.Marshal(v)
	if err != nil {
		b = []byte(fmt.Sprintf("%#v", v))
	}
	h := fnv.New64a()
	h.Write(b)
	return h.Sum64()
}

// Case records one executed case. nontrivial is the property's stated rule
// evaluated on this case; scenario is hashed for the distinct count and may be
// kept as a sample.
func (r *Recorder) Case(scenario any, nontrivial bool, labels ...string) {
	r.mu.Lock()
	defer r.mu.Unlock()
	if r.frozen {
		return
	}
	r.res.Evaluations++
	for _, l := range labels {
		r.res.Labels[l]++
	}
	if GlogV() > 0 {
		r.res.Labels["glog-verbosity>0"]++
	}
	if nontrivial {
		h := Hash(scenario)
		if _, ok := r.nt[h]; !ok {
			r.nt[h] = struct{}{}
			if len(r.res.Samples) < r.maxSamp {
				r.res.Samples = append(r.res.Samples, toJSONValue(scenario))
			}
		}
	}
}

// CaseHash is Case for engines that enumerate huge spaces and do not want to
// marshal every scenario: the caller supplies the hash and, lazily, a sample.
func (r *Recorder) CaseHash(h uint64, nontrivial bool, sample func() any, labels ...string) {
	r.mu.Lock()
	defer r.mu.Unlock()
	if r.frozen {
		return
	}
	r.res.Evaluations++
	for _, l := range labels {
		r.res.Labels[l]++
	}
	if nontrivial {
		if _, ok := r.nt[h]; !ok {
			r.nt[h] = struct{}{}
			if len(r.res.Samples) < r.maxSamp && sample != nil {
				r.res.Samples = append(r.res.Samples, toJSONValue(sample()))
			}
		}
	}
}

// Label bumps label counters without counting a case.
func (r *Recorder) Label(labels ...string) {
	r.mu.Lock()
	defer r.mu.Unlock()
	if r.frozen {
		return
	}
	for _, l := range labels {
		r.res.Labels[l]++
	}
}

// Excluded counts a case excluded by construction because it belongs to the
// class of a listed open finding.
func (r *Recorder) Excluded(class string) {
	r.mu.Lock()
	defer r.mu.Unlock()
	if r.frozen {
		return
	}
	r.res.ExcludedKnown[class]++
}

// Note adds a free-text note to the result.
func (r *Recorder) Note(format string, a ...any) {
	r.mu.Lock()
	defer r.mu.Unlock()
	r.res.Notes = append(r.res.Notes, fmt.Sprintf(format, a...))
}

// NoteOnce adds a note unless the same text was added before.
func (r *Recorder) NoteOnce(format string, a ...any) {
	msg := fmt.Sprintf(format, a...)
	r.mu.Lock()
	defer r.mu.Unlock()
	for _, n := range r.res.Notes {
		if n == msg {
			return
		}
	}
	r.res.Notes = append(r.res.Notes, msg)
}

// KnownFinding records that a listed open finding still reproduces.
func (r *Recorder) KnownFinding(line string) {
	r.mu.Lock()
	defer r.mu.Unlock()
	r.res.KnownFindings = append(r.res.KnownFindings, line)
}

func toJSONValue(v any) any {
	b, err := json.Marshal(v)
	if err != nil {
		return fmt.Sprintf("%#v", v)
	}
	var out any
	if json.Unmarshal(b, &out) != nil {
		return string(b)
	}
	return out
}

// Fail remembers scenario as the most recent failing case (the shrinker calls
// the property again and again; the last failing one is the minimal one).
func (r *Recorder) Fail(scenario any, class, format string, a ...any) string {
	msg := fmt.Sprintf(format, a...)
	b, err := json.MarshalIndent(scenario, "", " ")
	if err != nil {
		b = []byte(fmt.Sprintf("%q", fmt.Sprintf("%#v", scenario)))
	}
	r.mu.Lock()
	r.lastFail, r.lastMsg, r.lastCls, r.lastV = b, msg, class, GlogV()
	// Stop counting: everything after the first failure is shrinking.
	r.frozen = true
	r.mu.Unlock()
	if *OutDir != "" {
		os.WriteFile(filepath.Join(*OutDir, fmt.Sprintf("last_fail.%s.%s.%s.json", r.res.Property, r.res.Part, *Shard)), b, 0o644)
	}
	return msg
}

// Current writes the scenario about to be executed, so that a process crash
// (a panic on a goroutine nobody can recover) still leaves a replay file.
func (r *Recorder) Current(scenario any) {
	if *OutDir == "" {
		return
	}
	b, _ := json.Marshal(scenario)
	os.WriteFile(filepath.Join(*OutDir, fmt.Sprintf("current.%s.%s.%s.json", r.res.Property, r.res.Part, *Shard)), b, 0o644)
	os.WriteFile(filepath.Join(*OutDir, fmt.Sprintf("current.%s.%s.%s.glogv", r.res.Property, r.res.Part, *Shard)), []byte(strconv.Itoa(GlogV())), 0o644)
}

// AddViolation records a violation directly (used by non-rapid parts such as
// exhaustive enumerations, replays and stress runs). scenario becomes the
// replay file.
func (r *Recorder) AddViolation(scenario any, kind, class, format string, a ...any) {
	r.Fail(scenario, class, format, a...)
	r.commitFail(kind)
}

// commitFail turns the last remembered failing scenario into a replay file and a violation record.
func (r *Recorder) commitFail(kind string) {
	r.mu.Lock()
	defer r.mu.Unlock()
	if r.lastFail == nil {
		r.res.Violations = append(r.res.Violations, Violation{Property: r.res.Property, Class: "unknown", Message: "test failed without a recorded scenario (see log)", Replay: ""})
		return
	}
	path := ""
	if *OutDir != "" {
		dir := filepath.Join(*OutDir, "replays")
		os.MkdirAll(dir, 0o755)
		// The replay file carries its own routing information.
		wrapped := map[string]any{"property": r.res.Property, "part": r.res.Part, "kind": kind, "class": r.lastCls, "message": r.lastMsg, "scenario": json.RawMessage(r.lastFail), "glog_v": r.lastV}
		b, _ := json.MarshalIndent(wrapped, "", " ")
		path = filepath.Join(dir, fmt.Sprintf("%s.%s.%s.%d.json", r.res.Property, r.res.Part, *Shard, len(r.res.Violations)))
		os.WriteFile(path, b, 0o644)
	}
	r.res.Violations = append(r.res.Violations, Violation{Property: r.res.Property, Class: r.lastCls, Message: r.lastMsg, Replay: path})
	r.lastFail = nil
	r.frozen = false
}

// SetRequested stores how many cases were asked for; Done marks completion.
func (r *Recorder) SetRequested(n int) { r.mu.Lock(); r.res.Requested += n; r.mu.Unlock() }

// SetExhaustive marks the part as a complete enumeration.
func (r *Recorder) SetExhaustive() { r.mu.Lock(); r.res.Exhaustive = true; r.mu.Unlock() }

// Flush writes the result file. completed=false means the process did not
// reach the end of its budget (the driver reports "inconclusive").
func (r *Recorder) Flush(completed bool) {
	r.mu.Lock()
	defer r.mu.Unlock()
	r.res.Completed = completed
	r.res.Nontrivial = r.res.Nontrivial[:0]
	for h := range r.nt {
		r.res.Nontrivial = append(r.res.Nontrivial, h)
	}
	sort.Slice(r.res.Nontrivial, func(i, j int) bool { return r.res.Nontrivial[i] < r.res.Nontrivial[j] })
	if *OutDir == "" {
		return
	}
	b, _ := json.Marshal(r.res)
	os.WriteFile(filepath.Join(*OutDir, fmt.Sprintf("result.%s.%s.%s.json", r.res.Property, r.res.Part, *Shard)), b, 0o644)
}

// RapidChecks reads the -rapid.checks flag value.
func RapidChecks() int {
	f := flag.Lookup("rapid.checks")
	if f == nil {
		return 100
	}
	var n int
	fmt.Sscan(f.Value.String(), &n)
	return n
}

// RunRapid runs prop under rapid as a sub-test, then converts a failure into
// a violation with the shrunk scenario as replay file. prop must call
// rec.Fail(...) before t.Fatalf for every oracle failure; a failure without
// it (a panic inside the code under test) is attributed to the scenario last
// announced with rec.Current.
func (r *Recorder) RunRapid(t *testing.T, prop func(*rapid.T)) {
	n := RapidChecks()
	r.SetRequested(n)
	before := r.res.Evaluations
	ok := t.Run("rapid", func(t *testing.T) {
		rapid.Check(t, func(rt *rapid.T) {
			// glog verbosity of the process as a generated dimension of every case: the code inside
			// `if log.V(n)` blocks (formatting, extra locking, ...) is otherwise never executed.
			v := 0
			if !*NoGlogV {
				v = rapid.SampledFrom([]int{0, 0, 0, 0, 2, 1, 3, 2}).Draw(rt, "glog-v")
			}
			curGlogV.Store(int32(v))
			defer SetGlogV(v)()
			prop(rt)
		})
	})
	if !ok {
		r.commitFail("rapid")
		r.Flush(true)
		return
	}
	// rapid stops silently at the go test deadline; detect it.
	r.Flush(r.res.Evaluations-before >= n)
}

// Enabled reports whether oracles of property id are enabled in this run.
// SetGlogV sets glog's verbosity (-v) for the code under test and returns the function that restores the
// previous level. glog honours the change at once; with -log_dir set (the driver does) the output goes to files.
// Code inside `if log.V(n) { ... }` blocks is otherwise never executed by an engine.
func SetGlogV(n int) (restore func()) {
	f := flag.Lookup("v")
	if f == nil {
		return func() {}
	}
	old := f.Value.String()
	f.Value.Set(strconv.Itoa(n))
	return func() { f.Value.Set(old) }
}

func Enabled(id string) bool { return *Prop == "" || *Prop == id }

// ReplayFile is the on-disk form of a replay.
type ReplayFile struct {
	Property string          `json:"property"`
	Part     string          `json:"part"`
	Kind     string          `json:"kind"`
	Class    string          `json:"class"`
	Message  string          `json:"message"`
	Scenario json.RawMessage `json:"scenario"`
	GlogV    int             `json:"glog_v,omitempty"`
}

// LoadReplay reads a replay file; ok is false if -replay is unset.
func LoadReplay() (*ReplayFile, bool, error) {
	if *Replay == "" {
		return nil, false, nil
	}
	b, err := os.ReadFile(*Replay)
	if err != nil {
		return nil, true, err
	}
	var rf ReplayFile
	if err := json.Unmarshal(b, &rf); err != nil {
		return nil, true, err
	}
	if rf.GlogV > 0 {
		// the case ran with this glog verbosity; the replay process keeps it until it exits
		curGlogV.Store(int32(rf.GlogV))
		SetGlogV(rf.GlogV)
	}
	return &rf, true, nil
}

// Finding is one record of known_findings.json.
type Finding struct {
	ID         string          `json:"id"`
	Properties []string        `json:"properties"`
	Status     string          `json:"status"` // open | fixed
	Class      string          `json:"class"`
	What       string          `json:"what"`
	Commit     string          `json:"commit,omitempty"`
	Part       string          `json:"part,omitempty"`
	Input      json.RawMessage `json:"input,omitempty"`
}

// LoadFindings reads the known-findings file (empty list if unset/missing).
func LoadFindings() []Finding {
	if *Known == "" {
		return nil
	}
	b, err := os.ReadFile(*Known)
	if err != nil {
		return nil
	}
	var f struct {
		Findings []Finding `json:"findings"`
	}
	if json.Unmarshal(b, &f) != nil {
		return nil
	}
	return f.Findings
}

// OpenClasses returns the class names of open findings for property id.
func OpenClasses(id string) map[string]Finding {
	out := map[string]Finding{}
	for _, f := range LoadFindings() {
		if f.Status != "open" {
			continue
		}
		for _, p := range f.Properties {
			if p == id {
				out[f.Class] = f
			}
		}
	}
	return out
}

// ---- deadlock watchdog for synctest engines -------------------------------------------------

var bubbleGoroutine = regexp.MustCompile(`(?m)^goroutine (\d+) \[([^\]]*)\]:$`)

// bubbleState summarises the goroutines that belong to a synctest bubble:
// a fingerprint of (id, state) pairs, how many there are, how many are not
// blocked at all (running/runnable/syscall) and how many are blocked on
// something synctest does not consider durable (mutexes).
func bubbleState() (fingerprint string, total, active, nonDurable int, dump string) {
	buf := make([]byte, 1<<22)
	buf = buf[:runtime.Stack(buf, true)]
	dump = string(buf)
	var parts []string
	untaggedBusy := 0
	for _, m := range bubbleGoroutine.FindAllStringSubmatch(dump, -1) {
		state := m[2]
		if !strings.Contains(state, "synctest bubble") {
			// The runtime detaches a goroutine from its bubble while it starts or assists a
			// garbage collection; such a goroutine is listed without the bubble tag. Any
			// untagged goroutine that is not blocked (other than the one taking this dump)
			// therefore counts as activity: the verdict can only become more cautious.
			f := strings.SplitN(state, ",", 2)[0]
			if strings.HasPrefix(f, "running") || strings.HasPrefix(f, "runnable") {
				untaggedBusy++
			}
			continue
		}
		total++
		first := strings.SplitN(state, ",", 2)[0]
		switch {
		case strings.HasPrefix(first, "running"), strings.HasPrefix(first, "runnable"), strings.HasPrefix(first, "syscall"), strings.HasPrefix(first, "IO wait"):
			active++
		case !strings.Contains(first, "(durable)"):
			nonDurable++
		}
		parts = append(parts, m[1]+":"+first)
	}
	if untaggedBusy > 1 { // one is the caller itself
		active += untaggedBusy - 1
	}
	sort.Strings(parts)
	return strings.Join(parts, " "), total, active, nonDurable, dump
}

// BubbleDump returns the stacks of the goroutines that belong to a synctest bubble.
func BubbleDump() string {
	_, _, _, _, dump := bubbleState()
	var keep []string
	for _, g := range strings.Split(dump, "\n\n") {
		if strings.Contains(strings.SplitN(g, "\n", 2)[0], "synctest bubble") {
			keep = append(keep, g)
		}
	}
	return strings.Join(keep, "\n\n")
}

// Watchdog guards one synctest case against a deadlock that synctest itself
// cannot report: a goroutine of the code under test blocked on a mutex (not
// "durably" blocked) keeps both synctest.Wait and the virtual clock from ever
// making progress, so the process would hang. The verdict is structural, not a
// timeout: after `after` of real time the watchdog looks at the goroutines of
// the bubble; only if every one of them is blocked, at least one of them on a
// lock, and two looks `confirm` apart are identical, it prints a fatal error
// (the driver turns that into a violation with the scenario announced by
// Recorder.Current as replay) and exits. A bubble that is merely slow is left
// alone. The returned function stops the watchdog.
func Watchdog(after, confirm time.Duration) (stop func()) {
	done := make(chan struct{})
	go func() {
		select {
		case <-done:
			return
		case <-time.After(after):
		}
		for {
			fp1, total, active, nonDurable, _ := bubbleState()
			select {
			case <-done:
				return
			case <-time.After(confirm):
			}
			fp2, total2, active2, nonDurable2, dump := bubbleState()
			if total > 0 && active == 0 && active2 == 0 && nonDurable > 0 && nonDurable2 > 0 && fp1 == fp2 && total == total2 {
				select {
				case <-done:
					return
				default:
				}
				fmt.Printf("fatal error: verif watchdog: deadlock inside the synctest bubble: all %d goroutines are blocked, %d of them on locks, and nothing changed for %v\n\n%s\n", total, nonDurable, confirm, dump)
				os.Exit(3)
			}
		}
	}()
	return func() { close(done) }
}
