package clientprop

import (
	"time"

	"pgregory.net/rapid"
)

func genMsg(t *rapid.T) Msg {
	return Msg{
		Delay: rapid.SampledFrom([]int{0, 0, 1, 1, 2, 3, 5}).Draw(t, "delay"),
		N:     rapid.SampledFrom([]int{1, 1, 2, 3}).Draw(t, "n"),
	}
}

func genAttempt(t *rapid.T) Attempt {
	a := Attempt{}
	a.Conn = rapid.SampledFrom([]string{"ok", "ok", "ok", "ok", "ok", "ok", "err", "park", "ok", "deaf"}).Draw(t, "conn")
	if a.Conn != "park" {
		a.ConnDelay = rapid.SampledFrom([]int{0, 0, 0, 1, 2, 4}).Draw(t, "conn-delay")
	}
	a.Sub = rapid.SampledFrom([]string{"ok", "ok", "ok", "ok", "ok", "ok", "ok", "err", "ok", "ok", "ok", "ok", "ok", "ok", "err", "park"}).Draw(t, "sub")
	a.Msgs = rapid.SliceOfN(rapid.Custom(genMsg), 0, 4).Draw(t, "msgs")
	if len(a.Msgs) == 0 {
		a.Msgs = nil
	}
	a.End = rapid.SampledFrom([]string{"err", "err", "err", "eof", "eof", "stop", "stop", "block"}).Draw(t, "end")
	if a.End != "block" {
		a.EndDelay = rapid.SampledFrom([]int{0, 0, 1, 2, 4}).Draw(t, "end-delay")
	}
	// The kind of error value each failing step returns: the plain value half
	// of the time, otherwise one of the structured family (errkind.go).
	if a.Conn == "err" || a.Conn == "park" {
		a.ConnErr = genErrKind(t, "conn-err", errKinds, 2)
	}
	if a.Sub == "err" {
		a.SubErr = genErrKind(t, "sub-err", errKinds, 2)
	}
	if a.End == "err" {
		a.EndErr = genErrKind(t, "end-err", recvErrKinds, 2)
	}
	a.CloseErr = genErrKind(t, "close-err", errKinds, 6)
	// Transport calls that take time or block: the write of the subscription
	// request (SubDelay, Sub "park") and of a poll request.
	a.SubDelay = rapid.SampledFrom([]int{0, 0, 0, 0, 0, 0, 0, 1, 2, 4}).Draw(t, "sub-delay")
	a.Poll = rapid.SampledFrom([]string{"", "", "", "", "block", "deaf", "delay", "err"}).Draw(t, "poll")
	if a.Poll == "delay" {
		a.PollDelay = rapid.SampledFrom([]int{1, 2, 5, 20}).Draw(t, "poll-delay")
	}
	return a
}

// genCtxKind draws the shape of a caller's context: the plain cancel function
// two times in three, otherwise any shape (those that end by a deadline first).
func genCtxKind(t *rapid.T) string {
	if rapid.IntRange(0, 2).Draw(t, "ctx-varied") != 2 {
		return ""
	}
	return rapid.SampledFrom([]string{"deadline", "deadline", "parent-deadline", "value-deadline", "far-deadline", "value", "parent-cancel"}).Draw(t, "ctx")
}

// genDecoy: one case in eight names a second, always failing client type.
// genImplShape draws the Go shape of the registered transport double
// (shape.go): the pointer shape in one case out of three, otherwise one of the
// value / func / map shapes.
func genImplShape(t *rapid.T) string {
	if rapid.IntRange(0, 2).Draw(t, "impl-shape-pointer") == 0 {
		return ""
	}
	return rapid.SampledFrom(implShapes[1:]).Draw(t, "impl-shape")
}

func genDecoy(t *rapid.T) (string, bool) {
	if rapid.IntRange(0, 7).Draw(t, "decoy") != 7 {
		return "", false
	}
	kind := "plain"
	if rapid.IntRange(0, 1).Draw(t, "decoy-structured") == 1 {
		kind = rapid.SampledFrom(errKinds).Draw(t, "decoy-err")
	}
	return kind, rapid.Bool().Draw(t, "decoy-first")
}

// genQueryKind draws the kind of query of one Subscribe call: the valid Stream
// query three times in four, otherwise any kind of query.go (the refused kinds
// doubled: what they leave behind on the client object is the point).
func genQueryKind(t *rapid.T) string {
	if rapid.IntRange(0, 3).Draw(t, "query-varied") != 3 {
		return ""
	}
	return rapid.SampledFrom(append([]string{"once", "unknown"}, queryKinds...)).Draw(t, "query")
}

// genQOpts draws the optional fields of client.Query that are set besides the
// kind of the query (queryOpts): none two times in three, otherwise 1-3.
func genQOpts(t *rapid.T) []string {
	if rapid.IntRange(0, 2).Draw(t, "query-opts") != 2 {
		return nil
	}
	picked := map[string]bool{}
	for i, n := 0, rapid.SampledFrom([]int{1, 1, 2, 3}).Draw(t, "n-query-opts"); i < n; i++ {
		picked[rapid.SampledFrom(queryOpts).Draw(t, "query-opt")] = true
	}
	var out []string
	for _, o := range queryOpts { // canonical order
		if picked[o] {
			out = append(out, o)
		}
	}
	return out
}

// genErrKind draws "" (the default value of the site) with probability
// (oneIn-1)/oneIn, otherwise one of kinds.
func genErrKind(t *rapid.T, label string, kinds []string, oneIn int) string {
	if rapid.IntRange(0, oneIn-1).Draw(t, label+"-structured") != oneIn-1 {
		return ""
	}
	return rapid.SampledFrom(kinds).Draw(t, label)
}

// genScenario draws one case of half A. The stop instant is either aimed at a
// phase of a chosen attempt (using the predicted timeline of the script) or
// drawn uniformly over the predicted life of the script.
func genScenario(t *rapid.T, favourDefault bool) *Scenario {
	sc := &Scenario{}
	sc.Client = rapid.SampledFrom([]string{"base", "base", "cache"}).Draw(t, "client")
	// (drawn unconditionally so that shrinking the client kind does not shift the later draws)
	sc.Proto = rapid.IntRange(0, 3).Draw(t, "proto") == 3 && sc.Client == "base"
	sc.Plain = rapid.IntRange(0, 6).Draw(t, "plain") == 6
	bases := []int{2, 2, 3, 4, 6, 10, 20, 500}
	if favourDefault {
		bases = []int{500, 500, 500, 500, 500, 500, 500, 2, 3, 10}
	}
	sc.BaseDelay = rapid.SampledFrom(bases).Draw(t, "base-delay")
	sc.MaxDelay = sc.BaseDelay * rapid.SampledFrom([]int{1, 2, 2, 3, 5, 10}).Draw(t, "max-factor")
	sc.Timeout = rapid.SampledFrom([]int{0, 0, 5, 50}).Draw(t, "timeout")
	sc.Stop = rapid.SampledFrom([]string{"close", "close", "close", "close", "cancel", "cancel"}).Draw(t, "stop")
	sc.Decoy, sc.DecoyFirst = genDecoy(t)
	sc.Query = genQueryKind(t)
	sc.QOpts = genQOpts(t)
	// how the caller's context ends (Stop "cancel") / what else it carries
	sc.Ctx = genCtxKind(t)
	if sc.Stop == "cancel" && sc.Ctx == "" && rapid.Bool().Draw(t, "ctx-deadline") {
		sc.Ctx = rapid.SampledFrom([]string{"deadline", "deadline", "parent-deadline", "value-deadline"}).Draw(t, "ctx-ends-by")
	}
	sc.Shape = genImplShape(t)

	if sc.Plain {
		a := genAttempt(t)
		a.Conn, a.ConnDelay, a.Sub, a.SubDelay = "ok", 0, "ok", 0
		if rapid.IntRange(0, 1).Draw(t, "plain-blocks") == 1 {
			a.End, a.EndDelay = "block", 0
		}
		sc.Attempts = []Attempt{a}
		sc.Pending = rapid.SampledFrom([]int{0, 1, 2, 3, 4}).Draw(t, "pending")
		if sc.Pending > 0 {
			sc.PendingN = rapid.IntRange(1, 3).Draw(t, "pending-n")
		}
		p := sc.predict(1)
		hi := int(p[0].end/Unit) + 3
		sc.StopAt = rapid.IntRange(0, hi).Draw(t, "stop-at")
		sc.Target = "uniform"
		return sc
	}

	sc.NilCallbacks, sc.Callbacks = genCallbacks(t)
	minAttempts := rapid.SampledFrom([]int{0, 0, 1, 2, 3, 4}).Draw(t, "min-attempts")
	sc.Attempts = rapid.SliceOfN(rapid.Custom(genAttempt), minAttempts, 6).Draw(t, "attempts")
	mode := rapid.SampledFrom([]string{"phase", "phase", "phase", "phase", "phase", "phase", "uniform", "uniform", "late", "before-subscribe",
		"deaf-connect", "deaf-connect", "deaf-after-failed-connect", "deaf-after-failed-connect"}).Draw(t, "aim")
	if mode == "deaf-connect" || mode == "deaf-after-failed-connect" {
		genDeafAim(t, sc, mode)
		return sc
	}
	n := len(sc.Attempts)
	if mode == "before-subscribe" {
		// A transport that does not watch its context under a client closed
		// before Subscribe: the client must not start an attempt at all
		// (D21, repaired in /repo), so deaf attempts are generated here too.
		if rapid.IntRange(0, 2).Draw(t, "deaf-first") == 0 && len(sc.Attempts) > 0 && !sc.Plain {
			sc.Attempts[0].Conn = "deaf"
		}
		sc.SubAt = rapid.IntRange(1, 3).Draw(t, "sub-at")
		sc.StopAt = rapid.IntRange(0, sc.SubAt-1).Draw(t, "stop-at")
		sc.Target = mode
		return sc
	}
	if rapid.IntRange(0, 5).Draw(t, "late-subscribe") == 5 {
		sc.SubAt = rapid.IntRange(1, 3).Draw(t, "sub-at")
	}
	p := sc.predict(n + 1)
	last := p[len(p)-1]
	total := int(last.end/Unit) + 1
	switch mode {
	case "late":
		sc.StopAt = total + rapid.IntRange(0, 2*sc.MaxDelay+2).Draw(t, "after")
		sc.Target = mode
	case "uniform":
		sc.StopAt = rapid.IntRange(sc.SubAt, total+sc.MaxDelay).Draw(t, "stop-at")
		sc.Target = mode
	default:
		ph := rapid.SampledFrom([]string{"backoff", "backoff", "backoff", "first", "first", "connect", "stream"}).Draw(t, "aim-phase")
		hiAttempt := len(p) - 1
		if ph == "backoff" && last.blocks && hiAttempt > 0 {
			hiAttempt-- // a stream that never ends is not followed by a backoff
		}
		j := rapid.IntRange(0, hiAttempt).Draw(t, "aim-attempt")
		frac := rapid.IntRange(0, 7).Draw(t, "aim-frac")
		s := p[j]
		var lo, hi time.Duration
		switch ph {
		case "backoff":
			lo, hi = s.end, s.next
		case "first":
			lo, hi = s.conn, s.first
			if s.blocks && s.first >= s.end {
				hi = s.end + time.Duration(sc.MaxDelay)*Unit
			}
		case "connect":
			lo, hi = s.start, s.conn
		case "stream":
			lo, hi = s.first, s.end
			if s.blocks {
				hi = s.end + time.Duration(sc.MaxDelay)*Unit
			}
		}
		sc.Target = ph
		ulo, uhi, ok := unitsWithin(lo, hi)
		if !ok || !(s.connected || ph == "backoff" || ph == "connect") {
			// the phase does not exist in this attempt: fall back to the
			// instant right after the attempt began
			ulo, uhi, _ = unitsWithin(s.start, s.start+Unit)
			sc.Target = ph + "-missing"
		}
		sc.StopAt = ulo + (uhi-ulo)*frac/7
		if sc.StopAt < sc.SubAt {
			sc.StopAt = sc.SubAt
		}
	}
	return sc
}

// genDeafAim rewrites the script drawn so far so that the stop action lands
// where only the context can tell the transport about it and the transport
// does not watch its context: inside the constructor of a deaf transport, or
// inside the backoff that precedes a retry over a deaf transport after attempts
// that never produced an Impl (the underlying client then has nothing to
// close). Messages are scripted after the connect.
func genDeafAim(t *rapid.T, sc *Scenario, mode string) {
	deaf := genAttempt(t)
	deaf.Conn, deaf.Sub = "deaf", "ok"
	deaf.ConnDelay = rapid.IntRange(1, 4).Draw(t, "deaf-conn-delay")
	for len(deaf.Msgs) < 2 {
		deaf.Msgs = append(deaf.Msgs, Msg{Delay: len(deaf.Msgs), N: 1})
	}
	// attempts before the deaf one
	prefix := sc.Attempts
	if len(prefix) > 3 {
		prefix = prefix[:3]
	}
	kept := prefix[:0:0]
	for _, a := range prefix {
		if a.End == "block" {
			a.End = "err" // every earlier attempt ends by itself
		}
		if mode == "deaf-after-failed-connect" {
			// no attempt before the deaf one ever yields an Impl
			switch a.Conn {
			case "ok", "deaf":
				a.Conn = "err"
			}
		}
		kept = append(kept, a)
	}
	if mode == "deaf-after-failed-connect" && len(kept) == 0 {
		kept = append(kept, Attempt{Conn: "err", Sub: "ok", End: "err"})
	}
	sc.Attempts = append(kept, deaf)
	j := len(kept) // index of the deaf attempt
	p := sc.predict(j + 1)
	frac := rapid.IntRange(0, 7).Draw(t, "aim-frac")
	var lo, hi time.Duration
	if len(p) <= j {
		// an earlier deaf attempt blocks for good (cannot happen: ends were rewritten); aim late
		sc.StopAt, sc.Target = int(p[len(p)-1].end/Unit)+1, mode+"-missing"
		return
	}
	if mode == "deaf-connect" {
		lo, hi = p[j].start, p[j].conn
	} else {
		lo, hi = p[j-1].end, p[j-1].next
	}
	sc.Target = mode
	ulo, uhi, ok := unitsWithin(lo, hi)
	if !ok {
		ulo, uhi, _ = unitsWithin(p[j].start, p[j].start+Unit)
		sc.Target = mode + "-missing"
	}
	sc.StopAt = ulo + (uhi-ulo)*frac/7
}

// genLife draws one case of part "lifetime" (profile "") or "entry" (profile
// "entry"): the client configuration and transport script of half A plus a
// sequence of 1-10 calls on the one client.
//
// Profile "entry" aims the same machinery at the entry points other than
// Subscribe and Close: the first Subscribe mostly carries a POLL query, most
// streams end by themselves after their data (as a POLL subscription does after
// its sync), most transports block or delay the write of a poll request, and
// the steps are mostly Poll and Impl calls at instants around the backoff.
func genLife(t *rapid.T, profile string) *LScenario {
	entry := profile == "entry"
	sc := &LScenario{Profile: profile}
	sc.Client = rapid.SampledFrom([]string{"base", "base", "cache"}).Draw(t, "client")
	sc.Proto = rapid.IntRange(0, 3).Draw(t, "proto") == 3 && sc.Client == "base"
	sc.Plain = rapid.IntRange(0, 5).Draw(t, "plain") == 5
	sc.BaseDelay = rapid.SampledFrom([]int{2, 2, 3, 4, 6, 10, 20, 500}).Draw(t, "base-delay")
	sc.MaxDelay = sc.BaseDelay * rapid.SampledFrom([]int{1, 2, 2, 3, 5, 10}).Draw(t, "max-factor")
	sc.Timeout = rapid.SampledFrom([]int{0, 0, 5, 50}).Draw(t, "timeout")
	if nc, cb := genCallbacks(t); !sc.Plain {
		sc.NilCallbacks, sc.Callbacks = nc, cb
	}
	sc.Decoy, sc.DecoyFirst = genDecoy(t)
	sc.Shape = genImplShape(t)
	minAttempts := 0
	if entry {
		minAttempts = rapid.SampledFrom([]int{0, 1, 2, 2, 3}).Draw(t, "min-attempts")
	}
	sc.Attempts = rapid.SliceOfN(rapid.Custom(genAttempt), minAttempts, 6).Draw(t, "attempts")
	if entry {
		for i := range sc.Attempts {
			a := &sc.Attempts[i]
			if rapid.IntRange(0, 5).Draw(t, "round-ends") != 0 {
				a.End, a.EndErr = rapid.SampledFrom([]string{"stop", "stop", "eof"}).Draw(t, "round-end"), ""
				a.EndDelay = rapid.SampledFrom([]int{0, 0, 1}).Draw(t, "round-end-delay")
			}
			if rapid.IntRange(0, 3).Draw(t, "poll-stalls") != 0 {
				a.Poll = rapid.SampledFrom([]string{"block", "deaf", "deaf", "delay"}).Draw(t, "poll-stall")
				if a.Poll == "delay" {
					a.PollDelay = rapid.SampledFrom([]int{1, 2, 5, 20, sc.BaseDelay, sc.MaxDelay + 1}).Draw(t, "poll-stall-delay")
				}
			}
		}
	}
	if sc.Plain {
		for i := range sc.Attempts {
			a := &sc.Attempts[i]
			if a.Conn != "ok" && a.Conn != "err" {
				a.Conn, a.ConnErr = "ok", ""
			}
			if a.Sub == "park" {
				a.Sub = "ok"
			}
			a.ConnDelay, a.SubDelay = 0, 0
		}
	}
	waits := []int{0, 0, 0, 1, 1, 2, 3, 5, sc.BaseDelay, sc.BaseDelay + 1, 2 * sc.BaseDelay, sc.MaxDelay + 1}
	// Close is final for a reconnecting client, so it is the rarer step: most
	// of the sequence happens on a client that can still be used.
	kinds := []string{"subscribe", "subscribe", "subscribe", "subscribe", "subscribe", "cancel", "cancel", "cancel", "cancel", "close", "close", "poll", "impl"}
	if entry {
		kinds = []string{"poll", "poll", "poll", "poll", "poll", "poll", "impl", "impl", "subscribe", "subscribe", "cancel", "close"}
		waits = append(waits, sc.BaseDelay/2, sc.BaseDelay-1, sc.MaxDelay)
	}
	deadlines := []int{0, 1, 2, 3, 5, sc.BaseDelay, sc.BaseDelay + 1, 2*sc.BaseDelay + 1, sc.MaxDelay + 2, 3 * sc.MaxDelay}
	sc.Ops = rapid.SliceOfN(rapid.Custom(func(t *rapid.T) LifeOp {
		op := LifeOp{Kind: rapid.SampledFrom(kinds).Draw(t, "kind"), Wait: rapid.SampledFrom(waits).Draw(t, "wait")}
		op.Cancelled = rapid.IntRange(0, 9).Draw(t, "cancelled-context") == 9 && op.Kind == "subscribe"
		q, ck, dl, qo := genQueryKind(t), genCtxKind(t), rapid.SampledFrom(deadlines).Draw(t, "deadline"), genQOpts(t)
		if op.Kind == "subscribe" {
			op.Query, op.Ctx, op.QOpts = q, ck, qo
			if ctxSelfEnding(ck) && !op.Cancelled {
				op.Deadline = dl
			}
		}
		return op
	}), 1, 10).Draw(t, "ops")
	// three sequences in four start with Subscribe
	sf := rapid.IntRange(0, 7).Draw(t, "subscribe-first")
	if (entry && sf != 0) || (!entry && sf%4 != 0) || sc.Ops[0].Kind == "cancel" {
		first := &sc.Ops[0]
		if first.Kind != "subscribe" {
			*first = LifeOp{Kind: "subscribe", Wait: first.Wait}
		}
		if entry {
			first.Cancelled = false
			if rapid.IntRange(0, 4).Draw(t, "poll-query") != 0 {
				first.Query = "poll"
			}
		}
	}
	// A Subscribe step that would find the previous Subscribe of a
	// reconnecting client still running is skipped by the runner: make it the
	// cancellation of that Subscribe instead (a plain client's stream may have
	// ended by itself, so its steps stay as drawn; a Subscribe whose context
	// ends by a deadline is waited for).
	open, closed := false, false
	for i := range sc.Ops {
		op := &sc.Ops[i]
		if op.Kind == "subscribe" && open && !sc.Plain {
			*op = LifeOp{Kind: "cancel", Wait: op.Wait}
		}
		op.Cancelled = op.Cancelled && op.Kind == "subscribe"
		switch op.Kind {
		case "subscribe":
			open = !closed && !op.Cancelled && !queryRefused(op.Query, sc.Plain, sc.Client == "cache") && !ctxSelfEnding(op.Ctx)
		case "cancel":
			open = false
		case "close":
			open, closed = false, true
		}
	}
	return sc
}

// ---------------------------------------------------------------------------
// half B
// ---------------------------------------------------------------------------

func genTMsg(t *rapid.T) TMsg {
	if rapid.IntRange(0, 4).Draw(t, "sync") == 0 {
		return TMsg{Sync: true}
	}
	m := TMsg{Upd: rapid.IntRange(0, 3).Draw(t, "upd"), Del: rapid.SampledFrom([]int{0, 0, 0, 1, 2}).Draw(t, "del")}
	if m.Upd+m.Del == 0 {
		m.Upd = 1
	}
	return m
}

func genTConn(t *rapid.T) TConn {
	c := TConn{Msgs: rapid.SliceOfN(rapid.Custom(genTMsg), 0, 6).Draw(t, "msgs")}
	if len(c.Msgs) == 0 {
		c.Msgs = nil
	}
	c.End = rapid.SampledFrom([]string{"err", "err", "eof"}).Draw(t, "end")
	return c
}

func genTScenario(t *rapid.T) *TScenario {
	return &TScenario{
		Client: rapid.SampledFrom([]string{"base", "cache"}).Draw(t, "client"),
		Conns:  rapid.SliceOfN(rapid.Custom(genTConn), rapid.SampledFrom([]int{1, 2, 2, 3}).Draw(t, "min-conns"), 5).Draw(t, "conns"),
	}
}

// ---------------------------------------------------------------------------
// part "real"
// ---------------------------------------------------------------------------

func genRConn(t *rapid.T) RConn {
	c := RConn{Mode: rapid.SampledFrom([]string{"refuse", "eof", "recv-err", "data", "data", "data"}).Draw(t, "mode")}
	if c.Mode == "data" {
		c.N = rapid.IntRange(0, 3).Draw(t, "n")
		c.Sync = rapid.IntRange(0, 3).Draw(t, "sync") != 0
		c.End = rapid.SampledFrom([]string{"block", "block", "err", "eof"}).Draw(t, "end")
		// a stream that is held open: quiet, or with a burst behind the gate
		if b := rapid.SampledFrom([]int{0, 0, 4, 16, 64}).Draw(t, "burst"); c.End == "block" {
			c.Burst = b
		}
	}
	return c
}

// genRShape draws the shape of the query and of the caller's context of one
// Subscribe step of part "real": one call in three is the minimal query under
// a cancel function, the others set 1-4 optional fields / another type / a
// context that carries values, parents or a deadline.
func genRShape(t *rapid.T, s *RStep, plain bool) {
	if rapid.IntRange(0, 2).Draw(t, "shape-varied") == 0 {
		return
	}
	pool := []string{"extra", "extra", "extra", "credentials", "credentials", "replica", "updates-only", "address-chains", "encoding", "no-target", "subreq", "subreq-only", "proto", "proto", "proto", "timeout-unset"}
	if plain {
		pool = append(pool, "tunnel-conn", "tunnel-no-addrs")
	}
	picked := map[string]bool{}
	for i, n := 0, rapid.SampledFrom([]int{0, 1, 1, 1, 2, 2, 3, 4}).Draw(t, "n-opts"); i < n; i++ {
		picked[rapid.SampledFrom(pool).Draw(t, "opt")] = true
	}
	if s.Query == "dead" {
		delete(picked, "timeout-unset")
	}
	if s.Query != "" {
		// (a request given ready-made is not built from the rejected path)
		delete(picked, "subreq")
		delete(picked, "subreq-only")
	}
	if picked["tunnel-conn"] {
		delete(picked, "tunnel-no-addrs")
	}
	if picked["subreq-only"] {
		delete(picked, "subreq")
	}
	for _, o := range realOpts { // canonical order
		if picked[o] {
			s.Opts = append(s.Opts, o)
		}
	}
	types := []string{"", "", "", "", "", "poll"}
	if plain {
		types = append(types, "once", "poll")
	}
	s.Type = rapid.SampledFrom(types).Draw(t, "type")
	s.Ctx = rapid.SampledFrom([]string{"", "", "deadline", "deadline", "parent-deadline", "value-deadline", "far-deadline", "value", "parent-cancel"}).Draw(t, "ctx")
	if ctxSelfEnding(s.Ctx) {
		s.Deadline = rapid.SampledFrom([]int{0, 1, 2, 3, 5, 5, 10, 10, 20}).Draw(t, "deadline-ms")
	}
}

func genRStep(t *rapid.T) RStep {
	s := RStep{Kind: rapid.SampledFrom([]string{"subscribe", "subscribe", "subscribe", "subscribe", "cancel", "cancel", "close"}).Draw(t, "kind")}
	s.After = rapid.SampledFrom([]string{"", "begin", "begin", "sync", "sync", "disc", "disc", "trap", "trap", "ret"}).Draw(t, "after")
	s.N = rapid.IntRange(1, 3).Draw(t, "n")
	if s.After != "disc" {
		s.N = 0
	}
	if s.Kind != "subscribe" {
		s.Burst = rapid.IntRange(0, 2).Draw(t, "open-burst") == 0
		return s
	}
	switch rapid.IntRange(0, 9).Draw(t, "query-kind") {
	case 0, 1, 2, 3:
	case 9:
		s.Query = "dead"
	default:
		s.Query = rapid.SampledFrom(realBadKinds).Draw(t, "bad-path")
	}
	s.Cancelled = rapid.IntRange(0, 11).Draw(t, "cancelled-context") == 11
	s.Trap = rapid.SampledFrom([]string{"", "", "", "pre-dial", "post-dial", "post-dial", "post-rpc", "post-rpc"}).Draw(t, "trap")
	if s.Trap != "" {
		s.TrapAttempt = rapid.SampledFrom([]int{0, 0, 0, 1, 2}).Draw(t, "trap-attempt")
		s.TrapAct = rapid.SampledFrom([]string{"cancel", "cancel", "close", "linger"}).Draw(t, "trap-act")
		s.TrapLinger = rapid.Bool().Draw(t, "trap-linger") && s.TrapAct == "cancel"
	}
	return s
}

// genReal draws one case of part "real".
func genReal(t *rapid.T) *RScenario {
	sc := &RScenario{}
	sc.Client = rapid.SampledFrom([]string{"base", "base", "cache"}).Draw(t, "client")
	sc.Plain = rapid.IntRange(0, 3).Draw(t, "plain") == 3
	// Profile "close-streaming" (one case in six; never together with profile
	// "ctx-end" below): Close while the server holds the established stream open
	// (quiet or mid-burst) - of a plain BaseClient / CacheClient in two of three
	// such cases, where nothing but that Close can end the Subscribe call.
	closeStreaming := rapid.IntRange(0, 5).Draw(t, "profile-close-streaming") == 0
	if closeStreaming && rapid.IntRange(0, 2).Draw(t, "profile-plain") != 0 {
		sc.Plain = true
	}
	if nc, cb := genCallbacks(t); !sc.Plain {
		sc.NilCallbacks, sc.Callbacks = nc, cb
	}
	// which exported constructor of client/gnmi makes the transports (realctor.go)
	sc.Ctor = rapid.SampledFrom(realCtors).Draw(t, "ctor")
	sc.TLS = rapid.IntRange(0, 4).Draw(t, "tls") == 4
	sc.NoEndWait = rapid.IntRange(0, 3).Draw(t, "no-end-wait") == 3
	// Profile "ctx-end" (one case in three) aims at subscriptions that are ended
	// through their context while the server holds the stream open: the scripted
	// connections all deliver data and then stay (quiet or with a burst), the
	// first step is a Subscribe with a valid query and the second the end of its
	// context (cancel function after the sync / at once, or its own deadline).
	ctxEnd := rapid.IntRange(0, 2).Draw(t, "profile-ctx-end") == 0 && !closeStreaming
	sc.Conns = rapid.SliceOfN(rapid.Custom(genRConn), 0, 4).Draw(t, "conns")
	if ctxEnd || closeStreaming {
		for i := range sc.Conns {
			c := &sc.Conns[i]
			if c.Mode != "data" || c.End != "block" {
				*c = RConn{Mode: "data", N: c.N, Sync: true, End: "block", Burst: rapid.SampledFrom([]int{0, 4, 16, 64}).Draw(t, "profile-burst")}
			}
		}
	}
	if len(sc.Conns) == 0 {
		sc.Conns = nil
	}
	sc.Steps = rapid.SliceOfN(rapid.Custom(genRStep), 1, 6).Draw(t, "steps")
	if rapid.IntRange(0, 5).Draw(t, "subscribe-first") != 0 && sc.Steps[0].Kind != "subscribe" {
		sc.Steps[0] = RStep{Kind: "subscribe", Query: rapid.SampledFrom(append([]string{"", ""}, realBadKinds...)).Draw(t, "first-query")}
	}
	if ctxEnd {
		first := &sc.Steps[0]
		if first.Kind != "subscribe" {
			*first = RStep{Kind: "subscribe"}
		}
		first.Query, first.Cancelled = "", false
		if rapid.IntRange(0, 3).Draw(t, "profile-keeps-trap") != 0 {
			first.Trap, first.TrapAct, first.TrapAttempt, first.TrapLinger = "", "", 0, false
		}
		second := RStep{Kind: "cancel", After: rapid.SampledFrom([]string{"sync", "sync", "sync", "begin", ""}).Draw(t, "profile-cancel-after"), Burst: rapid.IntRange(0, 2).Draw(t, "profile-open-burst") != 0}
		if len(sc.Steps) < 2 {
			sc.Steps = append(sc.Steps, second)
		} else {
			sc.Steps[1] = second
		}
		if second.Burst {
			// the stream the stop action finds has a burst behind the gate
			if len(sc.Conns) == 0 {
				sc.Conns = []RConn{{Mode: "data", N: 1, Sync: true, End: "block"}}
			}
			if sc.Conns[0].Burst == 0 {
				sc.Conns[0].Burst = rapid.SampledFrom([]int{4, 16, 64}).Draw(t, "profile-first-burst")
			}
		}
	}
	if closeStreaming {
		first := &sc.Steps[0]
		if first.Kind != "subscribe" {
			*first = RStep{Kind: "subscribe"}
		}
		first.Query, first.Cancelled = "", false
		if rapid.IntRange(0, 3).Draw(t, "profile-keeps-trap") != 0 || first.TrapAct != "linger" {
			first.Trap, first.TrapAct, first.TrapAttempt, first.TrapLinger = "", "", 0, false
		}
		second := RStep{Kind: "close", After: rapid.SampledFrom([]string{"sync", "sync", "sync", "sync", "begin", ""}).Draw(t, "profile-close-after"), Burst: rapid.IntRange(0, 2).Draw(t, "profile-open-burst") == 0}
		if len(sc.Steps) < 2 {
			sc.Steps = append(sc.Steps, second)
		} else {
			sc.Steps[1] = second
		}
		if second.Burst {
			if len(sc.Conns) == 0 {
				sc.Conns = []RConn{{Mode: "data", N: 1, Sync: true, End: "block"}}
			}
			if sc.Conns[0].Burst == 0 {
				sc.Conns[0].Burst = rapid.SampledFrom([]int{4, 16, 64}).Draw(t, "profile-first-burst")
			}
		}
	}
	for i := range sc.Steps {
		if s := &sc.Steps[i]; s.Kind == "subscribe" {
			genRShape(t, s, sc.Plain)
		}
	}
	if closeStreaming {
		// mostly a Stream subscription under a context that does not end by itself
		first := &sc.Steps[0]
		if ctxSelfEnding(first.Ctx) {
			first.Ctx, first.Deadline = rapid.SampledFrom([]string{"", "value", "parent-cancel", "far-deadline"}).Draw(t, "profile-ctx"), 0
		}
		if first.Type != "" && rapid.IntRange(0, 2).Draw(t, "profile-stream") != 0 {
			first.Type = ""
		}
	}
	if ctxEnd {
		// two in three: a Stream subscription ended by a cancel function while
		// it streams; one in three: by a deadline that lands in the stream
		first := &sc.Steps[0]
		if rapid.IntRange(0, 2).Draw(t, "profile-deadline") == 0 {
			first.Ctx = rapid.SampledFrom([]string{"deadline", "parent-deadline", "value-deadline"}).Draw(t, "profile-ctx")
			first.Deadline = rapid.SampledFrom([]int{5, 10, 20, 40}).Draw(t, "profile-deadline-ms")
		} else if ctxSelfEnding(first.Ctx) {
			first.Ctx, first.Deadline = rapid.SampledFrom([]string{"", "value", "parent-cancel", "far-deadline"}).Draw(t, "profile-ctx"), 0
		}
		if first.Type != "" && rapid.Bool().Draw(t, "profile-stream") {
			first.Type = ""
		}
	}
	hasDisc, hasReset := callbacksGiven(sc.NilCallbacks, sc.Callbacks)
	// Make the steps fit the state the sequence is in (the runner skips what
	// does not): no Subscribe while the previous one is open, waits that the
	// latest Subscribe call can satisfy.
	var cur *RStep
	open, closed := false, false
	for i := range sc.Steps {
		s := &sc.Steps[i]
		if s.Kind == "subscribe" && open {
			*s = RStep{Kind: "cancel", After: s.After, N: s.N}
		}
		switch {
		case cur == nil:
			s.After, s.N = "", 0
		case s.After == "sync" && (cur.Query != "" || !open) && !ctxSelfEnding(cur.Ctx):
			s.After = "disc"
		case s.After == "trap" && (cur.Trap == "" || !open):
			s.After = "begin"
		}
		if s.After == "begin" && !open {
			s.After = "ret"
		}
		// a query path the request builder rejects: mostly let the set-up fail
		// (a few times, for a client that retries) before the next step
		if cur != nil && open && cur.Query != "" && cur.Query != "dead" && (s.After == "" || s.After == "begin") && rapid.IntRange(0, 2).Draw(t, "let-it-fail") != 0 {
			s.After, s.N = "disc", rapid.IntRange(1, 3).Draw(t, "failures")
		}
		if s.After == "disc" && (sc.Plain || !(hasDisc || hasReset) || !open) {
			s.After = "ret"
		}
		if s.After == "disc" && s.N == 0 {
			s.N = 1
		}
		if s.After != "disc" {
			s.N = 0
		}
		switch s.Kind {
		case "subscribe":
			cur = s
			// a trap is a stop action of its own, but it may never fire; a
			// context with a deadline ends by itself
			open = !s.Cancelled && (sc.Plain || !closed) && !ctxSelfEnding(s.Ctx)
		case "cancel":
			open = false
		case "close":
			closed = true
			open = open && sc.Plain
		}
	}
	return sc
}

// ---------------------------------------------------------------------------
// parts "types" and "content" (multi.go)
// ---------------------------------------------------------------------------

// genXTypes draws the clientType argument: none, one, several, repeated names
// (adjacent or not), names nobody registered, in any order.
func genXTypes(t *rapid.T, part string) []string {
	if part == "content" && rapid.IntRange(0, 3).Draw(t, "plain-types") != 0 {
		return []string{"a"}
	}
	n := rapid.SampledFrom([]int{0, 1, 1, 2, 2, 2, 3, 3, 4, 5}).Draw(t, "n-types")
	pool := []string{"a", "a", "a", "b", "b", "c", "u", ""}
	if rapid.IntRange(0, 2).Draw(t, "registered-only") != 0 {
		pool = []string{"a", "a", "b", "b", "c"}
	}
	out := make([]string, 0, n)
	for i := 0; i < n; i++ {
		out = append(out, rapid.SampledFrom(pool).Draw(t, "type"))
	}
	// one list in four (of two entries or more) is made to repeat a name for sure
	if n >= 2 && rapid.IntRange(0, 3).Draw(t, "force-repeat") == 0 {
		i := rapid.IntRange(0, n-1).Draw(t, "repeat-src")
		j := rapid.IntRange(0, n-2).Draw(t, "repeat-dst")
		if j >= i {
			j++
		}
		out[j] = out[i]
	}
	return out
}

func genXOutcome(t *rapid.T, part string) XOutcome {
	conns := []string{"ok", "ok", "ok", "err", "err", "err", "park"}
	if part == "content" {
		conns = []string{"ok", "ok", "ok", "ok", "ok", "ok", "ok", "ok", "err", "park"}
	}
	o := XOutcome{Conn: rapid.SampledFrom(conns).Draw(t, "conn")}
	if o.Conn != "park" {
		o.ConnDelay = rapid.SampledFrom([]int{0, 0, 0, 1, 2, 4}).Draw(t, "conn-delay")
	}
	subs := []string{"ok", "ok", "ok", "ok", "err"}
	if part == "content" {
		subs = []string{"ok", "ok", "ok", "ok", "ok", "ok", "ok", "ok", "ok", "err"}
	}
	o.Sub = rapid.SampledFrom(subs).Draw(t, "sub")
	return o
}

func genXNote(t *rapid.T) XNote {
	n := XNote{Kind: rapid.SampledFrom([]string{"update", "update", "update", "update", "update", "update", "update", "delete", "delete", "sync"}).Draw(t, "kind")}
	if n.Kind == "sync" {
		return n
	}
	// mostly the four leaves (so that paths repeat), sometimes a path that is
	// the branch of one of them
	paths := []int{0, 0, 0, 1, 1, 2, 2, 3, 4, 5, 6}
	if n.Kind == "delete" {
		paths = []int{0, 0, 1, 2, 3, 4, 4, 5, 6}
	}
	n.Path = rapid.SampledFrom(paths).Draw(t, "path")
	// a handful of timestamps, drawn independently: they repeat, go backwards
	// and now and then jump far in either direction
	n.TS = rapid.SampledFrom([]int{0, 1, 2, 3, 4, 5, 6, 7, 3, 4, 1000, -1000}).Draw(t, "ts")
	return n
}

func genXAttempt(t *rapid.T, part string) XAttempt {
	a := XAttempt{}
	a.Out = []XOutcome{genXOutcome(t, part), genXOutcome(t, part), genXOutcome(t, part)}
	maxMsgs, maxNotes := 2, 2
	if part == "content" {
		maxMsgs, maxNotes = 5, 3
	}
	a.Msgs = rapid.SliceOfN(rapid.Custom(func(t *rapid.T) XMsg {
		return XMsg{
			Delay: rapid.SampledFrom([]int{0, 0, 1, 1, 2, 3}).Draw(t, "delay"),
			Notes: rapid.SliceOfN(rapid.Custom(genXNote), 1, maxNotes).Draw(t, "notes"),
		}
	}), 0, maxMsgs).Draw(t, "msgs")
	if len(a.Msgs) == 0 {
		a.Msgs = nil
	}
	a.End = rapid.SampledFrom([]string{"err", "err", "err", "eof", "eof", "stop", "block"}).Draw(t, "end")
	if a.End != "block" {
		a.EndDelay = rapid.SampledFrom([]int{0, 0, 1, 2, 4}).Draw(t, "end-delay")
	}
	return a
}

// genX draws one case of part "types" or "content".
func genX(t *rapid.T, part string) *XScenario {
	sc := &XScenario{}
	clients := []string{"base", "base", "cache"}
	if part == "content" {
		clients = []string{"cache", "cache", "cache", "base"}
	}
	sc.Client = rapid.SampledFrom(clients).Draw(t, "client")
	sc.Plain = rapid.IntRange(0, 5).Draw(t, "plain") == 5
	if nc, cb := genCallbacks(t); !sc.Plain {
		sc.NilCallbacks, sc.Callbacks = nc, cb
	}
	sc.BaseDelay = rapid.SampledFrom([]int{2, 2, 3, 4, 6, 10, 20, 500}).Draw(t, "base-delay")
	sc.MaxDelay = sc.BaseDelay * rapid.SampledFrom([]int{1, 2, 2, 3, 5, 10}).Draw(t, "max-factor")
	sc.Timeout = rapid.SampledFrom([]int{0, 0, 5, 50}).Draw(t, "timeout")
	sc.Stop = rapid.SampledFrom([]string{"close", "close", "close", "close", "cancel"}).Draw(t, "stop")
	sc.Types = genXTypes(t, part)
	minAttempts := rapid.SampledFrom([]int{1, 1, 2, 3, 4}).Draw(t, "min-attempts")
	sc.Attempts = rapid.SliceOfN(rapid.Custom(func(t *rapid.T) XAttempt { return genXAttempt(t, part) }), minAttempts, 6).Draw(t, "attempts")
	if sc.Plain {
		// the set-up of a plain client's one attempt is decided at once
		sc.Attempts = sc.Attempts[:1]
		for i := range sc.Attempts[0].Out {
			o := &sc.Attempts[0].Out[i]
			if o.Conn == "park" {
				o.Conn = "err"
			}
			o.ConnDelay = 0
		}
		p := sc.xpredict(1)
		sc.StopAt = rapid.IntRange(0, int(p[0].end/Unit)+3).Draw(t, "stop-at")
		sc.Target = "uniform"
		return sc
	}
	mode := rapid.SampledFrom([]string{"phase", "phase", "phase", "phase", "uniform", "uniform", "late", "late", "before-subscribe"}).Draw(t, "aim")
	if part == "content" {
		// mostly let the whole script run: the content is the point
		mode = rapid.SampledFrom([]string{"late", "late", "late", "late", "phase", "uniform"}).Draw(t, "aim-content")
	}
	if mode == "before-subscribe" {
		sc.SubAt = rapid.IntRange(1, 3).Draw(t, "sub-at")
		sc.StopAt = rapid.IntRange(0, sc.SubAt-1).Draw(t, "stop-at")
		sc.Target = mode
		return sc
	}
	if rapid.IntRange(0, 5).Draw(t, "late-subscribe") == 5 {
		sc.SubAt = rapid.IntRange(1, 3).Draw(t, "sub-at")
	}
	p := sc.xpredict(len(sc.Attempts) + 1)
	last := p[len(p)-1]
	total := int(last.end/Unit) + 1
	switch mode {
	case "late":
		sc.StopAt = total + rapid.IntRange(0, 2*sc.MaxDelay+2).Draw(t, "after")
		sc.Target = mode
	case "uniform":
		sc.StopAt = rapid.IntRange(sc.SubAt, total+sc.MaxDelay).Draw(t, "stop-at")
		sc.Target = mode
	default:
		ph := rapid.SampledFrom([]string{"backoff", "backoff", "backoff", "first", "connect", "connect", "stream"}).Draw(t, "aim-phase")
		hiAttempt := len(p) - 1
		if ph == "backoff" && last.blocks && hiAttempt > 0 {
			hiAttempt--
		}
		s := p[rapid.IntRange(0, hiAttempt).Draw(t, "aim-attempt")]
		frac := rapid.IntRange(0, 7).Draw(t, "aim-frac")
		var lo, hi time.Duration
		switch ph {
		case "backoff":
			lo, hi = s.end, s.next
		case "first":
			lo, hi = s.conn, s.first
			if s.blocks && s.first >= s.end {
				hi = s.end + time.Duration(sc.MaxDelay)*Unit
			}
		case "connect":
			lo, hi = s.start, s.conn
		case "stream":
			lo, hi = s.first, s.end
			if s.blocks {
				hi = s.end + time.Duration(sc.MaxDelay)*Unit
			}
		}
		sc.Target = ph
		ulo, uhi, ok := unitsWithin(lo, hi)
		if !ok || !(s.connected || ph == "backoff" || ph == "connect") {
			ulo, uhi, _ = unitsWithin(s.start, s.start+Unit)
			sc.Target = ph + "-missing"
		}
		sc.StopAt = ulo + (uhi-ulo)*frac/7
		if sc.StopAt < sc.SubAt {
			sc.StopAt = sc.SubAt
		}
	}
	return sc
}
