package clientprop

import (
	"time"

	"github.com/openconfig/gnmi/client"
	gpb "github.com/openconfig/gnmi/proto/gnmi"
	"github.com/openconfig/grpctunnel/tunnel"
)

// The KIND of query a Subscribe call is given (Scenario.Query, LifeOp.Query):
// the query type and the ways a Query can be one that Query.Validate documents
// as unusable. What each client documents for them:
//
//   - BaseClient / CacheClient: Subscribe returns the error of Query.Validate
//     before anything else (no client type is tried): type Unknown, no
//     address, neither Queries nor SubReq, no handler or both handlers,
//     credentials with non-printable characters. Stream, Poll and Once are all
//     served.
//   - ReconnectClient: "should only be used with streaming or polling queries.
//     Once queries will fail immediately in Subscribe"; type Unknown "should
//     always be treated as an error" and is refused the same way. A Stream or
//     Poll query that Validate rejects is handed to the wrapped client like any
//     other: every attempt fails at once and the client keeps retrying.
//
// A REFUSED Subscribe call (see queryRefused) returns a non-nil error at the
// instant it was called, makes no underlying attempt, constructs no transport
// and runs no callback; and - the point of the dimension - it leaves the client
// object as usable as before: every later Subscribe and Close call on it is
// judged by the unchanged termination clauses.
var queryKinds = []string{
	"",        // Stream, valid
	"poll",    // Poll, valid
	"once",    // Once, valid for the plain clients
	"unknown", // the zero Type
	"no-addrs",
	"no-queries",
	"no-handler",
	"two-handlers",
	"bad-credentials",
	"subreq-only", // valid: SubReq instead of Queries
	// valid: no address, but a tunnel connection (Destination.Validate asks
	// for addresses only "if d.TunnelConn == nil")
	"tunnel-no-addrs",
}

func knownQueryKind(k string) bool {
	for _, q := range queryKinds {
		if q == k {
			return true
		}
	}
	return false
}

// queryInvalid: Query.Validate documents an error for the kind. A CacheClient
// installs its own handler (the application's is optional there), so the two
// handler kinds are valid queries for it.
func queryInvalid(kind string, cache bool) bool {
	switch kind {
	case "unknown", "no-addrs", "no-queries", "bad-credentials":
		return true
	case "no-handler", "two-handlers":
		return !cache
	}
	return false
}

// queryRefused: the client (plain = BaseClient/CacheClient itself, otherwise
// the reconnecting wrapper) documents that Subscribe fails at once.
func queryRefused(kind string, plain, cache bool) bool {
	if plain {
		return queryInvalid(kind, cache)
	}
	return kind == "once" || kind == "unknown"
}

// queryPollType: the query has type Poll (Client.Poll then reads the stream).
func queryPollType(kind string) bool { return kind == "poll" }

// mkQuery turns the valid Stream query q of a case into one of the given kind.
func mkQuery(kind string, q client.Query, w *world) client.Query {
	switch kind {
	case "":
	case "poll":
		q.Type = client.Poll
	case "once":
		q.Type = client.Once
	case "unknown":
		q.Type = client.Unknown
	case "no-addrs":
		q.Addrs = nil
	case "no-queries":
		q.Queries = nil
	case "no-handler":
		q.NotificationHandler, q.ProtoHandler = nil, nil
	case "two-handlers":
		q.NotificationHandler, q.ProtoHandler = w.appNotification, w.appProto
	case "bad-credentials":
		q.Credentials = &client.Credentials{Username: "user", Password: "pass\x00word"}
	case "tunnel-no-addrs":
		q.Addrs = nil
		q.TunnelConn = &tunnel.Conn{}
	case "subreq-only":
		q.Queries = nil
		q.SubReq = &gpb.SubscribeRequest{Request: &gpb.SubscribeRequest_Subscribe{Subscribe: &gpb.SubscriptionList{
			Prefix:       &gpb.Path{Target: q.Target},
			Subscription: []*gpb.Subscription{{Path: &gpb.Path{Elem: []*gpb.PathElem{{Name: "*"}}}}},
		}}}
	}
	return q
}

// refusedClause decides what a refused Subscribe call owes: it has returned,
// at the instant it was called, with an error, and nothing happened in
// between. events are the entries recorded between its call and its return.
func refusedClause(who string, kind string, plain bool, returned bool, at, ret time.Duration, errText string, events []event) *verr {
	if !returned {
		return newVerr("refused-blocks", "%s with a %s query, which the client documents to fail at once, has not returned", who, queryName(kind))
	}
	if ret != at {
		return newVerr("refused-late", "%s with a %s query, which the client documents to fail at once, returned at %v, called at %v", who, queryName(kind), ret, at)
	}
	if errText == "<nil>" {
		return newVerr("refused-nil", "%s with a %s query returned nil; the client documents an error", who, queryName(kind))
	}
	for _, e := range events {
		switch e.Kind {
		case "sub-begin", "sub-end":
			if plain {
				continue // (the trace wrapper sits in front of the plain client itself)
			}
			return newVerr("refused-attempt", "%s with a %s query made an underlying attempt (%s at %v) although the client documents that it fails at once", who, queryName(kind), e.Kind, e.At)
		case "new-impl", "connected", "subscribed", "msg":
			return newVerr("refused-attempt", "%s with a %s query reached the transport (%s at %v) although the client documents that it fails at once", who, queryName(kind), e.Kind, e.At)
		case "disconnect", "reset":
			return newVerr("refused-callback", "%s with a %s query ran the %s callback although no attempt was made", who, queryName(kind), e.Kind)
		}
	}
	return nil
}

func queryName(kind string) string {
	if kind == "" {
		return "stream"
	}
	return kind
}
