package clientprop

import (
	"context"
	"fmt"
	"testing"
	"testing/synctest"
	"time"

	"github.com/openconfig/gnmi/client"
)

// Part "lifetime": one client object lives through a generated SEQUENCE of
// calls - Subscribe (each with its own context), cancellation of the latest
// Subscribe's context, Close, Poll - instead of the single Subscribe / single
// stop action of part "random". The transport script (attempts, error kinds)
// and the virtual-time machinery are the ones of half A; the attempts of later
// Subscribe calls continue the script where the earlier ones left it.
//
// What is judged is only what the property states or the client documents:
//
//   - termination: every Subscribe call that has a stop action (cancellation of
//     its context; for a reconnecting client any Close call, earlier ones
//     included: "Close before Subscribe"; for a plain client a Close call while
//     it runs) and every Close call has returned no later than the latest of
//     (stop action, call, release of a deaf transport of that Subscribe) + the
//     current backoff interval (0 for a plain client);
//   - a reconnecting client's Subscribe without a stop action never returns and
//     retries after every ended attempt within the backoff envelope;
//   - disconnect once per ended attempt, reset once before each retry (never
//     before the first attempt of a Subscribe call), nothing while an attempt runs;
//   - once a Close call of a reconnecting client has returned, no underlying
//     attempt begins any more; after any Close call has returned the handler
//     receives the notifications of at most one further message of the streams
//     that existed then;
//   - notifications in hand-over order;
//   - Poll, Impl, and Close of a plain client, before the first Subscribe call
//     return client.ErrClientInit (its documentation).
//
// Every exported entry point of the client is a step (entry.go lists them):
// Poll and Impl / Synced / Leaves are issued on goroutines of their own at
// generated instants relative to Subscribe and Close, over transports whose
// Impl.Poll and Impl.Subscribe may block (Attempt.Poll, Attempt.Sub "park",
// SubDelay). Nothing is demanded OF those calls beyond the above; what is judged
// is that Subscribe and Close keep their bounds and the client keeps
// resubscribing whatever else is in flight. A goroutine of the client left
// waiting for a lock is a verdict of its own (guardedBubble).
//
// The context of every Subscribe call has a generated shape (ctxKinds): a
// context that ends by its own or its parent's deadline is a stop action like a
// call of the cancel function, at the instant the deadline passes.
//
// Two Subscribe calls never overlap (the clients do not define that): a
// "subscribe" step that finds the previous Subscribe running is skipped when
// that one has no stop action yet, and otherwise waits for the previous call's
// deadline first (a missed deadline ends the case as a violation).

// LifeOp is one step of the sequence. It is issued Wait units after the unit
// boundary that follows the previous step (steps never share an instant with
// each other or with an event of the script: step i carries the residue
// 3+4i ns, every event a step causes keeps the residue of that step modulo
// 15625 ns).
type LifeOp struct {
	Kind string `json:"kind"` // "subscribe" | "cancel" | "close" | "poll" | "impl"
	Wait int    `json:"wait,omitempty"`
	// Cancelled (subscribe only): the context handed to Subscribe has already
	// ended (cancel function called, or - a shape that ends by a deadline - the
	// deadline lies in the past).
	Cancelled bool `json:"cancelled,omitempty"`
	// Ctx (subscribe only): the shape of the context of this call (ctxKinds).
	// For the shapes that end by a deadline, the deadline passes Deadline units
	// (+1 ns) after the call.
	Ctx      string `json:"ctx,omitempty"`
	Deadline int    `json:"deadline,omitempty"`
	// Query (subscribe only): the kind of query of this call (query.go); "" is
	// the valid Stream query.
	Query string `json:"query,omitempty"`
	// QOpts (subscribe only): optional fields of client.Query that are set
	// besides (see Scenario.QOpts).
	QOpts []string `json:"qopts,omitempty"`
}

// LScenario is one case of part "lifetime".
type LScenario struct {
	Client       string    `json:"client"` // "base" | "cache"
	Proto        bool      `json:"proto,omitempty"`
	Plain        bool      `json:"plain,omitempty"`
	NilCallbacks bool      `json:"nil_callbacks,omitempty"`
	Callbacks    string    `json:"callbacks,omitempty"` // see Scenario.Callbacks
	BaseDelay    int       `json:"base_delay"`
	MaxDelay     int       `json:"max_delay"`
	Timeout      int       `json:"timeout,omitempty"`
	Decoy        string    `json:"decoy,omitempty"`       // see Scenario.Decoy
	DecoyFirst   bool      `json:"decoy_first,omitempty"` // see Scenario.DecoyFirst
	Attempts     []Attempt `json:"attempts"`
	Ops          []LifeOp  `json:"ops"`
	// Profile is informational except for the non-trivial rule: "" for part
	// "lifetime", "entry" for part "entry" (see genLife).
	Profile string `json:"profile,omitempty"`
	// Shape: see Scenario.Shape.
	Shape string `json:"impl_shape,omitempty"`
}

const maxLifeOps = 24

// script is the half-A view of the scenario (transport script and delays).
func (sc *LScenario) script() *Scenario {
	return &Scenario{Client: sc.Client, Proto: sc.Proto, Plain: sc.Plain, NilCallbacks: sc.NilCallbacks, Callbacks: sc.Callbacks,
		BaseDelay: sc.BaseDelay, MaxDelay: sc.MaxDelay, Timeout: sc.Timeout, Decoy: sc.Decoy, DecoyFirst: sc.DecoyFirst,
		Attempts: sc.Attempts, Stop: "close", Shape: sc.Shape}
}

func (sc *LScenario) validate() error {
	s := sc.script()
	s.Plain = false // the plain rules of half A concern its single stop action
	if err := s.validate(); err != nil {
		return err
	}
	if err := validCallbacks(sc.Plain, sc.NilCallbacks, sc.Callbacks); err != nil {
		return err
	}
	if len(sc.Ops) > maxLifeOps {
		return fmt.Errorf("%d steps (at most %d)", len(sc.Ops), maxLifeOps)
	}
	for i, op := range sc.Ops {
		switch op.Kind {
		case "subscribe", "cancel", "close", "poll", "impl":
		default:
			return fmt.Errorf("step %d kind %q", i, op.Kind)
		}
		if !knownCtxKind(op.Ctx) || (op.Ctx != "" && op.Kind != "subscribe") {
			return fmt.Errorf("step %d: context shape %q", i, op.Ctx)
		}
		if op.Deadline < 0 || op.Deadline > 1000000 || (op.Deadline != 0 && !ctxSelfEnding(op.Ctx)) {
			return fmt.Errorf("step %d: deadline %d", i, op.Deadline)
		}
		if op.Wait < 0 || op.Wait > 1000000 {
			return fmt.Errorf("step %d wait %d", i, op.Wait)
		}
		if op.Cancelled && op.Kind != "subscribe" {
			return fmt.Errorf("step %d: only a subscribe step can carry a cancelled context", i)
		}
		if !knownQueryKind(op.Query) || (op.Query != "" && op.Kind != "subscribe") {
			return fmt.Errorf("step %d: query kind %q", i, op.Query)
		}
		if err := validQOpts(op.QOpts); err != nil || (len(op.QOpts) > 0 && op.Kind != "subscribe") {
			return fmt.Errorf("step %d: query options %q: %v", i, op.QOpts, err)
		}
	}
	if sc.Plain {
		// A plain client can only be stopped by Close while it holds an Impl
		// (Close before that is documented to return ErrClientInit and stop
		// nothing): every attempt of a plain case succeeds or fails at once.
		for i, a := range sc.Attempts {
			if (a.Conn != "ok" && a.Conn != "err") || a.ConnDelay != 0 || a.SubDelay != 0 || a.Sub == "park" {
				return fmt.Errorf("plain client: attempt %d must connect or fail at once", i)
			}
		}
	}
	return nil
}

// lifeCall is one call of the sequence and what became of it.
type lifeCall struct {
	kind string // "subscribe" | "close" | "poll" | "impl"
	op   int    // index of the step (len(Ops) for the closing Close)
	n    int    // ordinal among the calls of its kind
	at   time.Duration

	// written by the calling goroutine under w.mu
	returned bool
	ret      time.Duration
	retSeq   int // len(w.events) after the return was recorded
	err      error

	// subscribe
	query     string // kind of query (query.go)
	refused   bool   // the client documents that this call fails at once
	callSeq   int    // len(w.events) after the call was recorded
	cancel    func() // ends the context (no-op for a shape that ends by its deadline)
	release   func() // frees the context at the end of the case
	ctx       context.Context
	ctxKind   string
	dlAt      time.Duration // instant at which the deadline of the context passes (0: none)
	dlDone    bool          // ... and the harness has seen it pass
	beginBase int           // underlying attempts begun before the call
	stopped   bool
	stopKind  string // "cancel" | "close" | "closed-before" | "cancelled-before"
	stopAt    time.Duration
	phase     string        // where the stop action landed
	bound     time.Duration // current backoff interval at the stop action
	k         int
	deadline  time.Duration // set by settle
	settled   bool

	// close: the Subscribe call that was running when it was called
	sub *lifeCall
}

func (c *lifeCall) String() string {
	return fmt.Sprintf("%s #%d (step %d, called at %v)", kindName(c.kind), c.n, c.op, c.at)
}

func kindName(k string) string {
	switch k {
	case "subscribe":
		return "Subscribe"
	case "close":
		return "Close"
	case "impl":
		return "Impl"
	}
	return "Poll"
}

// runLifeBubble executes one case of part "lifetime" in its own bubble (same
// conventions as runBubble).
func runLifeBubble(t *testing.T, sc *LScenario) (st *stats, err error) {
	st = &stats{}
	if verr := sc.validate(); verr != nil {
		return st, newVerr("harness-error", "invalid scenario: %v", verr)
	}
	register()
	retryMu.Lock()
	defer retryMu.Unlock()
	ob, om, or := client.RetryBaseDelay, client.RetryMaxDelay, client.RetryRandomization
	defer func() { client.RetryBaseDelay, client.RetryMaxDelay, client.RetryRandomization = ob, om, or }()
	client.RetryBaseDelay = time.Duration(sc.BaseDelay) * Unit
	client.RetryMaxDelay = time.Duration(sc.MaxDelay) * Unit
	client.RetryRandomization = 0
	defer curWorld.Store(nil)
	err = newVerr("harness-error", "bubble did not run")
	deadlock, panicked := guardedBubble(t, func() {
		defer func() {
			if r := recover(); r != nil {
				err = newVerr("panic", "panic on the scenario goroutine: %v", r)
			}
		}()
		if v := runLife(sc, st); v != nil {
			err = v
		} else {
			err = nil
		}
	})
	if deadlock != "" {
		return st, newVerr("lock-deadlock", "%s", deadlock)
	}
	if panicked != nil {
		msg := fmt.Sprintf("goroutines of the case are still blocked after the closing Close, the cancellation of every context and the release of every scripted stream: %v", panicked)
		if err != nil {
			err = newVerr(classOf(err), "%s; additionally %s", err.Error(), msg)
		} else {
			err = newVerr("stuck-goroutines", "%s", msg)
		}
	}
	return st, err
}

// runLife is the bubble body: a pure function of the scenario.
func runLife(sc *LScenario, st *stats) *verr {
	script := sc.script()
	w := newWorld(script)
	curWorld.Store(w)
	st.label(shapeLabel(sc.Shape))
	if implShapeUncomparable(sc.Shape) {
		st.label("impl-shape-not-comparable")
	}

	var inner client.Client
	if sc.Client == "cache" {
		inner = client.New()
		st.label("cacheclient")
	} else {
		inner = &client.BaseClient{}
		st.label("baseclient")
	}
	var c client.Client
	switch {
	case sc.Plain:
		c = &traceClient{Client: inner, w: w}
		st.label("plain-client")
	default:
		var l string
		c, l = mkReconnect(&traceClient{Client: inner, w: w}, sc.NilCallbacks, sc.Callbacks,
			func() { w.record("disconnect", -1, "") },
			func() { w.record("reset", -1, "") })
		st.label(l)
	}
	q := client.Query{
		Addrs:   []string{"c18"},
		Target:  "dev",
		Queries: []client.Path{{"*"}},
		Type:    client.Stream,
		Timeout: time.Duration(sc.Timeout) * Unit,
	}
	if sc.Proto && sc.Client == "base" {
		q.ProtoHandler = w.appProto
		st.label("proto-handler")
	} else {
		q.NotificationHandler = w.appNotification
	}

	sleepUntil := func(at time.Duration) {
		if d := at - w.now(); d > 0 {
			time.Sleep(d)
		}
		synctest.Wait()
	}
	var slack time.Duration // how long deaf transports can hold a client
	for _, a := range sc.Attempts {
		slack += a.deafLife()
	}

	var (
		calls   []*lifeCall
		cur     *lifeCall // the latest Subscribe call
		nSub    int
		nClose  int
		nPoll   int
		nImpl   int
		closeAt = time.Duration(-1) // first Close call
		v       *verr               // first violation found while running
	)
	isReturned := func(c *lifeCall) bool {
		w.mu.Lock()
		defer w.mu.Unlock()
		return c.returned
	}
	finish := func(c *lifeCall, kind string, err error) {
		w.notePanic(map[string]string{"ret": "Subscribe", "close-ret": "Close", "poll-ret": "Poll"}[kind]+" #"+fmt.Sprint(c.n), err)
		w.mu.Lock()
		c.returned, c.ret, c.err = true, w.now(), err
		w.events = append(w.events, event{Kind: kind, Attempt: -1, At: c.ret, Note: fmt.Sprintf("#%d %v", c.n, err)})
		c.retSeq = len(w.events)
		if kind == "close-ret" && w.closeRet < 0 {
			w.closeRet = len(w.events)
		}
		w.mu.Unlock()
	}
	// situation classifies, at a quiescent instant, what the running Subscribe
	// call s is doing and returns the index of the current backoff interval
	// (the one running, else the next one). The index counts every attempt the
	// client has ended so far: at most that many intervals have been drawn
	// from its backoff, and the never-reset envelope does not decrease.
	situation := func(s *lifeCall) (phase string, k int) {
		w.mu.Lock()
		defer w.mu.Unlock()
		nBegin, nEnd := w.nBegin, w.nEnd
		k = nEnd
		if s == nil || s.returned {
			return "idle", k
		}
		var as *attemptState
		if len(w.attempts) == nBegin && nBegin > 0 {
			as = w.attempts[nBegin-1]
		}
		mine := nBegin - s.beginBase
		switch {
		case nBegin == nEnd:
			if mine > 0 {
				k = nEnd - 1
			}
			return "backoff", k
		case as == nil || !as.connected:
			if mine <= 1 {
				return "initial-connect", k
			}
			return "reconnect-connect", k
		case !as.subscribed:
			return "subscribing", k
		case as.delivered == 0:
			return "before-first-message", k
		case as.next < len(as.script.Msgs):
			return "streaming", k
		}
		return "streaming-idle", k
	}
	boundOf := func(k int) time.Duration {
		if sc.Plain {
			return 0
		}
		return script.envelope(k)
	}
	// deafUntil: the latest return of an underlying Subscribe over a deaf
	// transport among the attempts of Subscribe call s (the latest call).
	deafUntil := func(s *lifeCall) time.Duration {
		if s == nil {
			return 0
		}
		w.mu.Lock()
		defer w.mu.Unlock()
		var at time.Duration
		for _, e := range w.events {
			if e.Kind == "sub-end" && e.Attempt >= s.beginBase && e.Attempt < len(w.attempts) && w.attempts[e.Attempt].script.Conn == "deaf" && e.At > at {
				at = e.At
			}
		}
		return at
	}
	// settle waits until the stopped Subscribe call s is due and decides its
	// termination clause if the call has still not returned. It reports
	// whether the case can go on.
	settle := func(s *lifeCall) bool {
		if s == nil || s.settled || !s.stopped {
			return true
		}
		from := s.stopAt
		if s.at > from {
			from = s.at
		}
		sleepUntil(from + s.bound + slack)
		deaf := deafUntil(s)
		if deaf > from {
			from = deaf
			st.label("bound-counted-from-deaf-transport-release")
		}
		s.deadline, s.settled = from+s.bound, true
		if !isReturned(s) {
			horizon := w.now() + 4*time.Duration(sc.MaxDelay)*Unit + 2*libraryDefault
			sleepUntil(horizon)
			when := fmt.Sprintf("had not returned at %v either", horizon)
			if isReturned(s) {
				when = fmt.Sprintf("returned at %v", s.ret)
			}
			if v == nil {
				v = newVerr("return-late", "%v: stop action (%s, landed %s) at %v, last deaf transport of this call released at %v, current backoff interval %v (RetryBaseDelay %v, RetryMaxDelay %v, interval index %d), so it is due by %v: it %s",
					s, s.stopKind, s.phase, s.stopAt, deaf, s.bound, time.Duration(sc.BaseDelay)*Unit, time.Duration(sc.MaxDelay)*Unit, s.k, s.deadline, when)
			}
			return false
		}
		return true // (whether it returned in time is decided by judgeLife)
	}
	// markStop notes the first stop action of the running Subscribe call.
	markStop := func(s *lifeCall, kind string, at time.Duration) {
		if s == nil || s.stopped || isReturned(s) {
			return
		}
		s.phase, s.k = situation(s)
		s.stopped, s.stopKind, s.stopAt, s.bound = true, kind, at, boundOf(s.k)
		st.label(kind + "-" + phaseLabel(s.phase))
		if s.n > 0 {
			st.label(kind + "-of-a-later-subscribe-" + phaseLabel(s.phase))
		}
	}

	// advance sleeps until `at`. If the context of the running Subscribe call
	// ends by a deadline that passes on the way, that is the call's stop action:
	// the harness looks at the situation 1 ns before the deadline (deadlines
	// carry a residue no other instant of the case has, and nothing can happen
	// in between) and lets it pass.
	advance := func(at time.Duration) {
		if s := cur; s != nil && s.dlAt > 0 && !s.dlDone && s.dlAt <= at {
			sleepUntil(s.dlAt - time.Nanosecond)
			if isReturned(s) {
				st.label("deadline-passes-after-subscribe-returned")
			} else if s.stopped {
				st.label("deadline-passes-while-stopped-subscribe-unwinds")
			}
			markStop(s, "deadline", s.dlAt)
			w.record("ctx-deadline", -1, fmt.Sprintf("#%d %s", s.n, ctxLabel(s.ctxKind)))
			s.dlDone = true
			sleepUntil(s.dlAt)
			if s.ctx.Err() == nil && v == nil {
				v = newVerr("harness-error", "the deadline of the context of %v did not pass at %v", s, s.dlAt)
			}
		}
		sleepUntil(at)
	}
	// pollWouldShareStream: a Poll call now would read a stream that another
	// call is reading or about to read (a POLL query is or was subscribed and
	// either an attempt is past Impl.Subscribe or another Poll is in flight).
	pollWouldShareStream := func() string {
		pollQuery := false
		for _, k := range calls {
			if k.kind == "subscribe" && queryPollType(k.query) {
				pollQuery = true
			}
		}
		if !pollQuery {
			return ""
		}
		w.mu.Lock()
		defer w.mu.Unlock()
		if w.nBegin > w.nEnd && len(w.attempts) == w.nBegin && w.attempts[w.nBegin-1].subscribed {
			return "attempt-reads-the-stream"
		}
		for _, k := range calls {
			if k.kind == "poll" && !k.returned {
				return "another-poll-in-flight"
			}
		}
		return ""
	}

	issued := 0 // steps issued so far: fixes the residue of the next instant
	next := func(wait int) time.Duration {
		now := w.now()
		base := (now + Unit - 1) / Unit * Unit
		at := base + time.Duration(wait)*Unit + time.Duration(3+4*issued)*time.Nanosecond
		issued++
		return at
	}
	doClose := func(op int, at time.Duration) {
		advance(at)
		k := &lifeCall{kind: "close", op: op, n: nClose, at: w.now()}
		nClose++
		if cur != nil && !isReturned(cur) {
			k.sub = cur
		}
		if closeAt < 0 {
			closeAt = k.at
		}
		// labels: where this Close falls in the life of the client
		switch {
		case nSub == 0:
			st.label("close-before-any-subscribe")
		case k.sub == nil:
			st.label("close-with-no-subscribe-running")
			if cur != nil && cur.refused {
				st.label("close-after-refused-subscribe")
			}
		case k.sub.stopped && k.sub.stopKind == "cancel":
			st.label("close-while-cancelled-subscribe-unwinds")
		case k.sub.stopped && k.sub.stopKind == "deadline":
			st.label("close-while-deadline-ended-subscribe-unwinds")
		case k.sub.stopped:
			st.label("close-while-closed-subscribe-unwinds")
		}
		if k.n > 0 {
			st.label("close-again")
		}
		if cur != nil && cur.dlDone {
			st.label("close-after-deadline-of-context-passed")
		}
		for _, o := range calls {
			if o.kind == "close" && !isReturned(o) {
				st.label("close-while-close-pending")
			}
		}
		_, k.k = situation(k.sub)
		k.bound = boundOf(k.k)
		markStop(k.sub, "close", k.at)
		calls = append(calls, k)
		w.record("close-call", -1, fmt.Sprintf("#%d", k.n))
		go func() { finish(k, "close-ret", guarded(c.Close)) }()
		synctest.Wait()
	}

ops:
	for i, op := range sc.Ops {
		switch op.Kind {
		case "subscribe":
			if cur != nil && !isReturned(cur) {
				if !cur.stopped && cur.dlAt > 0 && !cur.dlDone {
					// the deadline of its context is its stop action: wait for it
					advance(cur.dlAt)
					st.label("subscribe-step-waited-for-deadline-of-previous-context")
				}
				if !cur.stopped {
					st.label("subscribe-step-skipped-previous-still-running")
					continue
				}
				if !settle(cur) {
					break ops
				}
				if !isReturned(cur) {
					break ops
				}
			}
			advance(next(op.Wait))
			s := &lifeCall{kind: "subscribe", op: i, n: nSub, at: w.now(), query: op.Query, refused: queryRefused(op.Query, sc.Plain, sc.Client == "cache")}
			nSub++
			if op.Query != "" {
				st.label("query:" + op.Query)
			}
			if s.refused {
				st.label("subscribe-refused")
				if s.n > 0 {
					st.label("subscribe-refused-on-a-used-client")
				}
			} else if queryInvalid(op.Query, sc.Client == "cache") {
				st.label("every-attempt-rejects-the-query")
			}
			w.mu.Lock()
			s.beginBase = w.nBegin
			w.mu.Unlock()
			after := time.Duration(op.Deadline)*Unit + time.Nanosecond
			if op.Ctx == "parent-deadline" {
				after += time.Nanosecond
			}
			if op.Cancelled {
				after = -time.Hour
			}
			ctx, cancel, release := mkCtx(op.Ctx, after)
			s.cancel, s.release, s.ctx, s.ctxKind = cancel, release, ctx, op.Ctx // (released at the end of the case at the latest)
			st.label(ctxLabel(op.Ctx))
			if ctxSelfEnding(op.Ctx) && !op.Cancelled {
				s.dlAt = s.at + after
				st.label("ctx-with-deadline-that-passes")
			}
			if s.refused {
				// needs no stop action: it fails at once whatever the client's state
			} else if closeAt >= 0 && !sc.Plain {
				// a closed reconnecting client: Close came before Subscribe
				_, s.k = situation(nil)
				s.stopped, s.stopKind, s.stopAt, s.phase, s.bound = true, "closed-before", closeAt, "before-subscribe", boundOf(s.k)
				st.label("subscribe-on-closed-client")
				if s.n > 0 {
					st.label("subscribe-again-on-closed-client")
				}
			} else if s.n > 0 {
				if closeAt >= 0 {
					st.label("plain-subscribe-again-after-close")
				} else {
					st.label("subscribe-again-on-unclosed-client")
				}
			}
			if op.Cancelled {
				cancel()
				st.label("subscribe-with-cancelled-context")
				if !s.stopped && !s.refused {
					_, s.k = situation(nil)
					s.stopped, s.stopKind, s.stopAt, s.phase, s.bound = true, "cancelled-before", s.at, "before-subscribe", boundOf(s.k)
					if s.n > 0 {
						st.label("subscribe-again-with-cancelled-context-on-unclosed-client")
					}
				}
			}
			if cur != nil {
				switch cur.stopKind {
				case "cancel":
					st.label("subscribe-again-after-cancelled-subscribe")
				case "deadline":
					st.label("subscribe-again-after-deadline-ended-subscribe")
				case "close":
					st.label("subscribe-again-after-closed-subscribe")
				case "closed-before", "cancelled-before":
				case "":
					if cur.refused {
						st.label("subscribe-again-after-refused-subscribe")
					} else {
						st.label("subscribe-again-after-subscribe-ended-by-itself")
					}
				}
			}
			cur = s
			calls = append(calls, s)
			s.callSeq = w.record("sub-call", -1, fmt.Sprintf("#%d", s.n))
			sq := mkQueryOpts(mkQuery(op.Query, q, w), op.QOpts)
			for _, o := range op.QOpts {
				st.label("query-opt:" + o)
			}
			go func() {
				finish(s, "ret", guarded(func() error { return c.Subscribe(ctx, sq, script.clientTypes()...) }))
			}()
			synctest.Wait()
		case "cancel":
			if cur == nil {
				st.label("cancel-step-skipped-no-subscribe-yet")
				continue
			}
			advance(next(op.Wait))
			if isReturned(cur) {
				st.label("cancel-after-subscribe-returned")
			}
			if cur.dlAt > 0 && !cur.dlDone {
				st.label("cancel-of-context-whose-deadline-has-not-passed")
			}
			markStop(cur, "cancel", w.now())
			w.record("cancel", -1, fmt.Sprintf("#%d", cur.n))
			cur.cancel()
			synctest.Wait()
		case "close":
			doClose(i, next(op.Wait))
		case "poll":
			advance(next(op.Wait))
			if why := pollWouldShareStream(); why != "" {
				// Poll reads the stream itself; the clients do not define that
				// for a stream Subscribe (or another Poll) is reading. While a
				// reconnecting Subscribe is between attempts or connecting again
				// Poll is documented ("may fail").
				st.label("poll-step-skipped-" + why)
				continue
			}
			p := &lifeCall{kind: "poll", op: i, n: nPoll, at: w.now()}
			nPoll++
			switch {
			case nSub == 0:
				st.label("poll-before-any-subscribe")
			case closeAt >= 0:
				st.label("poll-after-close")
			case cur != nil && !isReturned(cur):
				st.label("poll-while-subscribed")
				ph, _ := situation(cur)
				st.label("poll-" + phaseLabel(ph))
				if cur.stopped {
					st.label("poll-while-stopped-subscribe-unwinds")
				}
			default:
				st.label("poll-after-subscribe-returned")
				if cur != nil && cur.stopped && cur.stopKind != "close" {
					st.label("poll-after-context-ended")
				}
			}
			calls = append(calls, p)
			w.record("poll-call", -1, fmt.Sprintf("#%d", p.n))
			go func() { finish(p, "poll-ret", guarded(c.Poll)) }()
			synctest.Wait()
			if !isReturned(p) {
				st.label("poll-call-blocked-after-its-step")
			}
		case "impl":
			advance(next(op.Wait))
			p := &lifeCall{kind: "impl", op: i, n: nImpl, at: w.now()}
			nImpl++
			switch {
			case nSub == 0:
				st.label("impl-before-any-subscribe")
			case closeAt >= 0:
				st.label("impl-after-close")
			case cur != nil && !isReturned(cur):
				ph, _ := situation(cur)
				st.label("impl-" + phaseLabel(ph))
			default:
				st.label("impl-after-subscribe-returned")
			}
			calls = append(calls, p)
			w.record("impl-call", -1, fmt.Sprintf("#%d", p.n))
			go func() {
				_, err := c.Impl()
				if cc, ok := inner.(*client.CacheClient); ok {
					select {
					case <-cc.Synced():
					default:
					}
					cc.Leaves()
				}
				finish(p, "impl-ret", err)
			}()
			synctest.Wait()
		}
	}

	// The closing Close: every case ends with one (it is the stop action of a
	// Subscribe still running and releases the Impl otherwise).
	if v == nil {
		doClose(len(sc.Ops), next(1))
		settle(cur)
		// every Close is due no later than its own bound or the deadline of
		// the Subscribe it waited for
		var until time.Duration
		for _, k := range calls {
			if k.kind == "close" {
				if d := k.at + k.bound + slack; d > until {
					until = d
				}
			}
		}
		sleepUntil(until)
	}

	// End of the case: release everything the script may still hold.
	w.abort()
	for _, k := range calls {
		if k.release != nil {
			k.release()
		}
	}
	select {
	case <-w.gate:
	default:
		close(w.gate)
	}
	synctest.Wait()

	w.mu.Lock()
	defer w.mu.Unlock()
	st.attempts = w.nBegin
	st.msgs = w.nextMsg
	lifeLabels(sc, w, st, calls)
	if w.paniced != "" {
		// (takes precedence: what followed the panic is its consequence)
		v = newVerr("panic", "%s", w.paniced)
	} else if v == nil {
		v = judgeLife(sc, w, st, calls, deafUntilLocked(w, calls))
	} else if v0 := attemptAfterClose(sc, w); v0 != nil {
		// the more specific finding first
		v0.msg += "; then: " + v.msg
		v = v0
	}
	if v != nil {
		v.msg += "\nhistory: " + w.dump()
		return v
	}
	return nil
}

func phaseLabel(phase string) string {
	switch phase {
	case "initial-connect":
		return "during-initial-connect"
	case "reconnect-connect":
		return "during-reconnect-connect"
	case "before-first-message":
		return "between-connect-and-first-message"
	case "streaming", "streaming-idle":
		return "while-streaming"
	case "backoff":
		return "during-backoff"
	}
	return phase
}

// deafUntilLocked returns, per Subscribe ordinal, the latest return of an
// underlying Subscribe over a deaf transport among that call's attempts.
// Called with w.mu held.
func deafUntilLocked(w *world, calls []*lifeCall) map[int]time.Duration {
	var subs []*lifeCall
	for _, c := range calls {
		if c.kind == "subscribe" {
			subs = append(subs, c)
		}
	}
	out := map[int]time.Duration{}
	for _, e := range w.events {
		if e.Kind != "sub-end" || e.Attempt < 0 || e.Attempt >= len(w.attempts) || w.attempts[e.Attempt].script.Conn != "deaf" {
			continue
		}
		for i, s := range subs {
			if e.Attempt >= s.beginBase && (i+1 == len(subs) || e.Attempt < subs[i+1].beginBase) && e.At > out[s.n] {
				out[s.n] = e.At
			}
		}
	}
	return out
}

// attemptAfterClose: once a Close call of a reconnecting client has returned,
// no underlying attempt begins. Called with w.mu held.
func attemptAfterClose(sc *LScenario, w *world) *verr {
	if sc.Plain || w.closeRet < 0 {
		return nil
	}
	for i, e := range w.events {
		if i >= w.closeRet && e.Kind == "sub-begin" {
			return newVerr("attempt-after-close", "underlying attempt %d began at %v although a Close call of the reconnecting client had returned at %v", e.Attempt, e.At, w.events[w.closeRet-1].At)
		}
	}
	return nil
}

// judgeLife evaluates every clause on the finished history. Called with w.mu held.
func judgeLife(sc *LScenario, w *world, st *stats, calls []*lifeCall, deaf map[int]time.Duration) *verr {
	script := sc.script()
	var subs []*lifeCall
	for _, c := range calls {
		if c.kind == "subscribe" {
			subs = append(subs, c)
		}
	}
	// (0) once a Close of a reconnecting client has returned no attempt begins.
	if v := attemptAfterClose(sc, w); v != nil {
		return v
	}
	// (1) termination of every call.
	for _, c := range calls {
		switch c.kind {
		case "subscribe":
			if c.refused {
				to := len(w.events)
				if c.returned {
					to = c.retSeq - 1
				}
				var between []event
				if c.callSeq <= to {
					between = w.events[c.callSeq:to]
				}
				if v := refusedClause(c.String(), c.query, sc.Plain, c.returned, c.at, c.ret, fmt.Sprint(c.err), between); v != nil {
					return v
				}
				continue
			}
			if !c.stopped {
				if !sc.Plain && c.returned {
					return newVerr("gave-up", "%v of the reconnecting client returned (%v) at %v although the client was not closed and its context not cancelled", c, c.err, c.ret)
				}
				if !c.returned {
					return newVerr("harness-error", "%v has no stop action at the end of the case", c)
				}
				continue
			}
			if !c.returned {
				return newVerr("return-late", "%v: stop action (%s, landed %s) at %v; it never returned", c, c.stopKind, c.phase, c.stopAt)
			}
			from := c.stopAt
			if c.at > from {
				from = c.at
			}
			if d := deaf[c.n]; d > from {
				from = d
			}
			if c.ret > from+c.bound {
				return newVerr("return-late", "%v returned at %v, later than %v = latest of stop action (%s, landed %s, at %v), its call and release of its last deaf transport (%v) + current backoff interval %v (interval index %d)",
					c, c.ret, from+c.bound, c.stopKind, c.phase, c.stopAt, deaf[c.n], c.bound, c.k)
			}
			c.deadline = from + c.bound
		}
	}
	for _, c := range calls {
		if c.kind != "close" {
			continue
		}
		due := c.at
		if c.sub != nil {
			if d := deaf[c.sub.n]; d > due {
				due = d
			}
		}
		due += c.bound
		if c.sub != nil && c.sub.deadline > due {
			due = c.sub.deadline // it waits for that Subscribe
		}
		if !c.returned {
			return newVerr("return-late", "%v (Subscribe running then: %v) never returned; it was due by %v", c, c.sub, due)
		}
		if c.ret > due {
			return newVerr("return-late", "%v returned at %v, later than %v = later of its call and the release of the last deaf transport + current backoff interval %v, or the deadline of the Subscribe it waits for (%v)", c, c.ret, due, c.bound, c.sub)
		}
	}
	// (2) documented: calls before the client was started return ErrClientInit.
	for _, c := range calls {
		before := len(subs) == 0 || c.at < subs[0].at
		if !before || !c.returned {
			continue
		}
		if c.kind == "poll" || c.kind == "impl" || (c.kind == "close" && sc.Plain) {
			if c.err != client.ErrClientInit {
				return newVerr("client-init", "%v was made before the first Subscribe call and returned %v, not client.ErrClientInit", c, c.err)
			}
		}
	}
	// (3) a Subscribe without stop action (until its stop action) retries after
	// every ended attempt within the envelope.
	if !sc.Plain {
		begins := map[int]time.Duration{}
		ends := map[int]time.Duration{}
		for _, e := range w.events {
			switch e.Kind {
			case "sub-begin":
				begins[e.Attempt] = e.At
			case "sub-end":
				ends[e.Attempt] = e.At
			}
		}
		for i, s := range subs {
			hi := w.nBegin
			if i+1 < len(subs) {
				hi = subs[i+1].beginBase
			}
			if s.beginBase >= hi {
				// no attempt at all: only right for a client that was already
				// closed, and for a call the client documents to refuse
				if s.refused {
					continue
				}
				if !s.stopped || s.stopAt > s.at {
					return newVerr("no-attempt", "%v made no underlying attempt although the client had not been closed when it was called", s)
				}
				continue
			}
			for a := s.beginBase; a < hi; a++ {
				e, ended := ends[a]
				if !ended {
					break
				}
				// attempt a is preceded by at most a backoff intervals
				due := e + script.envelope(a)
				if !s.stopped || due >= s.stopAt {
					break // closed (or cancelled) before the retry was due
				}
				b, begun := begins[a+1]
				if !begun || a+1 >= hi {
					return newVerr("no-retry", "%v: attempt %d ended at %v and neither Close nor cancellation came before %v, yet no further attempt was started (retry due by %v)", s, a, e, s.stopAt, due)
				}
				if b > due {
					return newVerr("retry-late", "%v: attempt %d ended at %v; attempt %d began at %v, later than the backoff interval allows (%v)", s, a, e, a+1, b, due)
				}
			}
		}
	}
	// (4) callback discipline, per Subscribe call, for the callbacks that were
	// given (callbacks.go).
	if !sc.Plain {
		hasDisc, hasReset := callbacksGiven(sc.NilCallbacks, sc.Callbacks)
		if v := judgeCallbacks(cbEvents(w.events), hasDisc, hasReset, true); v != nil {
			return v
		}
	}
	// (6) after a Close call returned: at most the notifications of one further
	// message of the streams that existed then.
	msgAttempt := map[int]int{}
	for _, e := range w.events {
		if e.Kind == "msg" {
			var id int
			fmt.Sscan(e.Note, &id)
			msgAttempt[id] = e.Attempt
		}
	}
	for _, c := range calls {
		if c.kind != "close" || !c.returned {
			continue
		}
		begun := 0 // attempts begun when it returned
		for _, e := range w.events[:c.retSeq] {
			if e.Kind == "sub-begin" {
				begun++
			}
		}
		after := map[int]bool{}
		for _, s := range w.seenLog {
			if s.seq >= c.retSeq && msgAttempt[s.msg] < begun {
				after[s.msg] = true
			}
		}
		if len(after) > st.afterClose {
			st.afterClose = len(after)
		}
		if len(after) > 1 {
			return newVerr("delivery-after-close", "the handler received the notifications of %d messages of streams opened before %v had returned at %v (at most one allowed)", len(after), c, c.ret)
		}
	}
	// (7) hand-over order.
	last := 0
	for _, s := range w.seenLog {
		if s.id == 0 {
			continue
		}
		if s.id <= last {
			return newVerr("order", "handler saw notification %d after notification %d", s.id, last)
		}
		last = s.id
	}
	return nil
}

// lifeLabels derives the labels and the non-trivial rule. Called with w.mu held.
func lifeLabels(sc *LScenario, w *world, st *stats, calls []*lifeCall) {
	nSub, nClose, nPoll, nImpl := 0, 0, 0, 0
	for _, c := range calls {
		switch c.kind {
		case "subscribe":
			nSub++
		case "close":
			nClose++
		case "poll":
			nPoll++
		case "impl":
			nImpl++
		}
	}
	if nImpl > 0 {
		st.label("impl-calls>=1")
	}
	// What the transport made of the poll requests, and what the client was
	// asked to do while one of them was blocked inside the transport.
	blocked := map[int]int{} // attempt -> Impl.Poll calls that have not returned
	nBlocked := 0
	stressed := false
	for _, e := range w.events {
		switch e.Kind {
		case "impl-poll":
			st.label("poll-reached-transport")
			if e.Note != "" {
				st.label("poll-reached-transport:" + e.Note)
			}
			blocked[e.Attempt]++
			nBlocked++
		case "impl-poll-ret":
			blocked[e.Attempt]--
			nBlocked--
			if e.Note != "<nil>" {
				st.label("transport-poll-failed")
			}
		case "close-call":
			if nBlocked > 0 {
				st.label("close-while-poll-blocked-in-transport")
				stressed = true
			}
		case "subscribed":
			if nBlocked > 0 {
				st.label("resubscribed-while-poll-blocked-in-transport")
				stressed = true
			}
		case "cancel", "ctx-deadline":
			if nBlocked > 0 {
				st.label("context-ended-while-poll-blocked-in-transport")
			}
		case "sub-park":
			st.label("impl-subscribe-parks")
		case "sub-wait":
			st.label("impl-subscribe-takes-time")
		}
	}
	if nBlocked > 0 {
		st.label("harness-note:transport-poll-unreleased-at-end")
	}
	switch {
	case nSub == 0:
		st.label("subscribe-calls=0")
	case nSub == 1:
		st.label("subscribe-calls=1")
	case nSub == 2:
		st.label("subscribe-calls=2")
	default:
		st.label("subscribe-calls>=3")
	}
	if nClose >= 3 {
		st.label("close-calls>=3")
	}
	if nPoll > 0 {
		st.label("poll-calls>=1")
	}
	for i, as := range w.attempts {
		if i >= len(sc.Attempts) {
			break
		}
		a := as.script
		switch a.Conn {
		case "err":
			st.label("connect-error")
		case "park":
			st.label("connect-parks")
		case "deaf":
			st.label("deaf-transport")
		}
		if as.connected && a.Sub == "err" {
			st.label("subscribe-error")
		}
	}
	if w.nEnd >= len(sc.Attempts) && len(sc.Attempts) > 0 {
		st.label("whole-script-consumed")
	}
	w.errLabels(st)
	// attempts made by a Subscribe call other than the first
	for _, c := range calls {
		if c.kind == "subscribe" && c.n > 0 && w.nBegin > c.beginBase {
			st.label("later-subscribe-made-attempts")
			break
		}
	}
	// Non-trivial: a second (or later) Subscribe call on the same client. Part
	// "entry": the client was closed, or resubscribed, while a poll request was
	// blocked inside the transport.
	st.nontriv = nSub >= 2
	if sc.Profile == "entry" {
		st.nontriv = stressed
	}
	if st.nontriv {
		st.label("nontrivial")
	}
}
