package clientprop

import (
	"context"
	"fmt"
	"regexp"
	"runtime"
	"sort"
	"strings"
	"testing"
	"testing/synctest"
	"time"
)

// Entry points of package client that touch a client object's life (read off
// client.go, cache.go, reconnect.go of /repo/client), and where this engine
// calls them. "other goroutine" = issued by a step of part "lifetime" / "entry"
// on a goroutine of its own, at a generated instant relative to the Subscribe
// and Close calls of the same object.
//
//	Client interface (BaseClient, CacheClient, ReconnectClient all implement it)
//	  Subscribe(ctx, q, clientType...)   every part; the ctx argument has a generated SHAPE (ctxKinds)
//	  Close()                            every part, any instant, repeated
//	  Poll()                             steps "poll" (life.go): before any Subscribe, on STREAM / POLL
//	                                     queries, while a reconnecting Subscribe is in its backoff or is
//	                                     connecting again, after Close, after the context ended; never two
//	                                     at once on a POLL query and never while an attempt reads the stream
//	                                     (Poll reads the stream itself; neither is documented as allowed)
//	  Impl()                             steps "impl"
//	BaseClient        zero value; methods above (Poll/Close/Impl take BaseClient.mu)
//	CacheClient       New(); Subscribe/Poll wrap BaseClient's; Synced(), Leaves() and the embedded
//	                  *ctree.Tree                  steps "impl" also call Synced() and Leaves() on a CacheClient
//	ReconnectClient   Reconnect(c, disconnect, reset); Subscribe (retry loop), Close (cancel, Close the
//	                  wrapped client, wait for Subscribe), Impl(), Poll() (both forward)
//	                  package variables RetryBaseDelay / RetryMaxDelay / RetryRandomization (set per case)
//	Impl interface (the transport; scripted by double.go)
//	  constructor (InitImpl)             ok / error / parks / deaf, with delay
//	  Subscribe(ctx, q)                  ok / error / takes SubDelay units / parks until its context ends
//	  Recv()                             messages with delays, then error / EOF / ErrStopReading / blocks
//	  Poll()                             accepted / error / accepted after PollDelay units / blocks until the
//	                                     transport is closed (or its context ends)
//	  Close()                            returns at once (always closes; error kinds). An Impl.Close that
//	                                     takes virtual time is NOT generated: BaseClient calls it under its
//	                                     mutex, any contender would block on that mutex, and a goroutine
//	                                     blocked on a mutex keeps a synctest bubble's clock from advancing.
//	registry          Register / RegisterTest / NewImpl / RegisteredImpls (parts "types", "content")
//	Query             Validate / Destination / NewQuery (query.go: query kinds)

// ctxValueKey is the key type of the values the generated contexts carry.
type ctxValueKey struct{}

// mkCtx builds a context of shape kind. A shape that ends by itself (a
// deadline) does so `after` from now (after < 0: the deadline lies in the
// past). end() is the cancel function an application would hold for the shape
// (for "parent-deadline" the child's, for "parent-cancel" the parent's);
// release frees everything at the end of a case.
func mkCtx(kind string, after time.Duration) (ctx context.Context, end func(), release func()) {
	const far = 1000 * time.Hour
	bg := context.Background()
	switch kind {
	case "deadline":
		c, cancel := context.WithDeadline(bg, time.Now().Add(after))
		return c, cancel, cancel
	case "value-deadline":
		c, cancel := context.WithDeadline(bg, time.Now().Add(after))
		return context.WithValue(c, ctxValueKey{}, "c18"), cancel, cancel
	case "parent-deadline":
		p, pcancel := context.WithDeadline(bg, time.Now().Add(after))
		c, cancel := context.WithCancel(p)
		return c, cancel, func() { cancel(); pcancel() }
	case "far-deadline":
		c, cancel := context.WithTimeout(bg, far)
		return c, cancel, cancel
	case "value":
		c, cancel := context.WithCancel(context.WithValue(bg, ctxValueKey{}, "c18"))
		return c, cancel, cancel
	case "parent-cancel":
		p, pcancel := context.WithCancel(bg)
		c, cancel := context.WithTimeout(p, far)
		return c, pcancel, func() { cancel(); pcancel() }
	}
	c, cancel := context.WithCancel(bg)
	return c, cancel, cancel
}

func ctxLabel(kind string) string {
	if kind == "" {
		return "ctx:cancel-func"
	}
	return "ctx:" + kind
}

// ---------------------------------------------------------------------------
// guarded bubbles
// ---------------------------------------------------------------------------

// A goroutine of the code under test that waits for a sync.Mutex / RWMutex is
// not "durably blocked" for synctest: synctest.Wait never returns and the
// virtual clock never advances, so a lock cycle (e.g. a lock held across a
// blocking transport call while Close wants it) would hang the process instead
// of failing the case. guardedBubble therefore runs the bubble on a goroutine
// of its own and, when the case has not finished after `lookAfter` of real
// time, LOOKS at the goroutines of the process: the verdict "deadlock" is
// structural - every goroutine that belongs to a synctest bubble is blocked,
// at least one of them on a lock, none is running or runnable, and two looks
// `confirm` apart show the same goroutines in the same states. A case that is
// merely slow (busy machine) always has a running or runnable goroutine and is
// left alone for as long as it takes. On a deadlock verdict the bubble is
// abandoned (its goroutines can never run again: nothing in it can make
// progress) and the verdict is returned, so that rapid can shrink the case.
const (
	guardLookAfter = 1500 * time.Millisecond
	guardConfirm   = 400 * time.Millisecond
)

var bubbleGoroutineRE = regexp.MustCompile(`(?m)^goroutine (\d+) \[([^\]]*)\]:$`)

// abandoned holds the ids of the goroutines of bubbles that were abandoned on
// a deadlock verdict (they stay in every later dump, frozen). Only the
// goroutine that runs the cases touches it.
var abandoned = map[string]bool{}

// lookAtBubbles summarises the goroutines that belong to synctest bubbles.
func lookAtBubbles() (fingerprint string, total, active, onLocks int, lockStacks []string, ids []string) {
	buf := make([]byte, 1<<22)
	buf = buf[:runtime.Stack(buf, true)]
	var parts []string
	untaggedBusy := 0
	for _, g := range strings.Split(string(buf), "\n\n") {
		m := bubbleGoroutineRE.FindStringSubmatch(g)
		if m == nil {
			continue
		}
		state := m[2]
		first := strings.SplitN(state, ",", 2)[0]
		if !strings.Contains(state, "synctest bubble") {
			// (the runtime detaches a goroutine from its bubble while it assists
			// the garbage collector: any untagged busy goroutine other than the
			// one taking this look counts as activity)
			if strings.HasPrefix(first, "running") || strings.HasPrefix(first, "runnable") {
				untaggedBusy++
			}
			continue
		}
		if abandoned[m[1]] {
			continue
		}
		total++
		ids = append(ids, m[1])
		switch {
		case strings.HasPrefix(first, "running"), strings.HasPrefix(first, "runnable"), strings.HasPrefix(first, "syscall"), strings.HasPrefix(first, "IO wait"):
			active++
		case !strings.Contains(first, "(durable)"):
			onLocks++
			lockStacks = append(lockStacks, frames(g))
		}
		parts = append(parts, m[1]+":"+first)
	}
	if untaggedBusy > 1 {
		active += untaggedBusy - 1
	}
	sort.Strings(parts)
	sort.Strings(lockStacks)
	return strings.Join(parts, " "), total, active, onLocks, lockStacks, ids
}

// frames renders the function names of one goroutine's stack (no addresses,
// arguments or goroutine numbers: the text must be the same in every run).
func frames(g string) string {
	var out []string
	for _, l := range strings.Split(g, "\n")[1:] {
		if strings.HasPrefix(l, "\t") || strings.HasPrefix(l, "created by") || l == "" {
			continue
		}
		if i := strings.LastIndex(l, "("); i > 0 {
			l = l[:i]
		}
		if strings.HasPrefix(l, "runtime.") || strings.HasPrefix(l, "internal/") {
			continue
		}
		l = strings.TrimPrefix(l, "github.com/openconfig/gnmi/")
		out = append(out, l)
		if len(out) == 5 {
			break
		}
	}
	return strings.Join(out, " < ")
}

// guardedBubble runs body inside a synctest bubble. deadlock is non-empty if
// the bubble was abandoned on a structural deadlock verdict; otherwise panicked
// carries the value synctest.Test panicked with (blocked goroutines left
// behind), if any.
func guardedBubble(t *testing.T, body func()) (deadlock string, panicked any) {
	done := make(chan any, 1)
	go func() {
		defer func() { done <- recover() }()
		synctest.Test(t, func(*testing.T) { body() })
	}()
	timer := time.NewTimer(guardLookAfter)
	defer timer.Stop()
	for {
		select {
		case r := <-done:
			return "", r
		case <-timer.C:
		}
		fp1, total1, active1, locks1, _, _ := lookAtBubbles()
		if debugGuard {
			fmt.Printf("GUARD look: total=%d active=%d locks=%d fp=%s\n%s\n", total1, active1, locks1, fp1, debugDump())
		}
		select {
		case r := <-done:
			return "", r
		case <-time.After(guardConfirm):
		}
		fp2, total2, active2, locks2, stacks, ids := lookAtBubbles()
		if total1 > 0 && total1 == total2 && active1 == 0 && active2 == 0 && locks1 > 0 && locks2 > 0 && fp1 == fp2 {
			select {
			case r := <-done:
				return "", r
			default:
			}
			for _, id := range ids {
				abandoned[id] = true
			}
			seen := map[string]bool{}
			var distinct []string
			for _, s := range stacks {
				if !seen[s] {
					seen[s] = true
					distinct = append(distinct, s)
				}
			}
			return fmt.Sprintf("every goroutine of the case is blocked and %d of them wait for a lock, i.e. a lock is held across a call that blocks (no goroutine can run, so virtual time cannot advance and nothing the harness would do next - Close, cancellation, the release of a stream - can happen); waiting for locks: %s",
				len(distinct), strings.Join(distinct, " || ")), nil
		}
		timer.Reset(guardConfirm)
	}
}

var debugGuard = false

func debugDump() string {
	buf := make([]byte, 1<<22)
	buf = buf[:runtime.Stack(buf, true)]
	var keep []string
	for _, g := range strings.Split(string(buf), "\n\n") {
		if strings.Contains(strings.SplitN(g, "\n", 2)[0], "synctest bubble") {
			keep = append(keep, g)
		}
	}
	return strings.Join(keep, "\n\n")
}
