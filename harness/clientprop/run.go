package clientprop

import (
	"fmt"
	"sort"
	"strings"
	"sync"
	"testing"
	"testing/synctest"
	"time"

	"github.com/openconfig/gnmi/client"
)

// verr is a violation with its class.
type verr struct {
	class string
	msg   string
}

func (v *verr) Error() string { return v.msg }

func newVerr(class, format string, a ...any) *verr {
	return &verr{class: class, msg: fmt.Sprintf(format, a...)}
}

func classOf(err error) string {
	if v, ok := err.(*verr); ok {
		return v.class
	}
	return "other"
}

// stats is what happened in one case (labels, non-trivial rule).
type stats struct {
	phase      string // where the stop action landed
	attempts   int    // underlying Subscribe calls begun when the case ended
	atStop     int    // ... begun when the stop action was issued
	ended      int    // ... returned when the stop action was issued
	reconnects int    // retries begun when the stop action was issued
	msgs       int    // messages handed over
	afterClose int    // messages delivered after Close returned
	labels     map[string]bool
	nontriv    bool
	// where the stop action landed, deaf-transport view
	noImplYet   bool // the underlying client has never held an Impl
	deafConnect bool // inside the constructor of a deaf transport
	deafNext    bool // in a backoff whose retry uses a deaf transport
}

func (s *stats) label(l string) {
	if s.labels == nil {
		s.labels = map[string]bool{}
	}
	s.labels[l] = true
}

func (s *stats) labelList() []string {
	out := make([]string, 0, len(s.labels))
	for l := range s.labels {
		out = append(out, l)
	}
	sort.Strings(out)
	return out
}

func (s *stats) nontrivial() bool { return s.nontriv }

// libraryDefault is the backoff library's default initial interval (only used
// to size the observation horizon of a late return).
const libraryDefault = 500 * time.Millisecond

// The retry parameters of package client are process-global.
var retryMu sync.Mutex

// runBubble executes one scenario of half A in its own synctest bubble. A call
// of the code under test that never returns leaves the bubble's goroutines
// durably blocked; synctest reports that by a panic on this goroutine once the
// scenario goroutine has finished.
func runBubble(t *testing.T, sc *Scenario) (st *stats, err error) {
	st = &stats{}
	if verr := sc.validate(); verr != nil {
		return st, newVerr("harness-error", "invalid scenario: %v", verr)
	}
	register()
	retryMu.Lock()
	defer retryMu.Unlock()
	ob, om, or := client.RetryBaseDelay, client.RetryMaxDelay, client.RetryRandomization
	defer func() { client.RetryBaseDelay, client.RetryMaxDelay, client.RetryRandomization = ob, om, or }()
	client.RetryBaseDelay = time.Duration(sc.BaseDelay) * Unit
	client.RetryMaxDelay = time.Duration(sc.MaxDelay) * Unit
	client.RetryRandomization = 0
	defer curWorld.Store(nil)
	err = newVerr("harness-error", "bubble did not run")
	deadlock, panicked := guardedBubble(t, func() {
		defer func() {
			if r := recover(); r != nil {
				err = newVerr("panic", "panic on the scenario goroutine: %v", r)
			}
		}()
		if v := run(sc, st); v != nil {
			err = v
		} else {
			err = nil
		}
	})
	if deadlock != "" {
		return st, newVerr("lock-deadlock", "%s", deadlock)
	}
	if panicked != nil {
		msg := fmt.Sprintf("goroutines of the case are still blocked after Close was called, the caller's context cancelled and every scripted stream released: %v", panicked)
		if err != nil {
			err = newVerr(classOf(err), "%s; additionally %s", err.Error(), msg)
		} else {
			err = newVerr("stuck-goroutines", "%s", msg)
		}
	}
	return st, err
}

// run is the bubble body: a pure function of the scenario.
func run(sc *Scenario, st *stats) *verr {
	w := newWorld(sc)
	curWorld.Store(w)
	st.label(shapeLabel(sc.Shape))
	if implShapeUncomparable(sc.Shape) {
		st.label("impl-shape-not-comparable")
	}

	var inner client.Client
	if sc.Client == "cache" {
		inner = client.New()
		st.label("cacheclient")
	} else {
		inner = &client.BaseClient{}
		st.label("baseclient")
	}
	var c client.Client
	switch {
	case sc.Plain:
		c = &traceClient{Client: inner, w: w}
		st.label("plain-client")
	default:
		var l string
		c, l = mkReconnect(&traceClient{Client: inner, w: w}, sc.NilCallbacks, sc.Callbacks,
			func() { w.record("disconnect", -1, "") },
			func() { w.record("reset", -1, "") })
		st.label(l)
	}
	// The caller's context: its shape is generated (ctxKinds). A context that
	// ends by a deadline does so at the stop instant by itself.
	stopAt, subAt := sc.stopInstant(), sc.subInstant()
	after := stopAt - w.now()
	if sc.Stop != "cancel" {
		after = 1000 * time.Hour
	}
	ctx, cancel, release := mkCtx(sc.Ctx, after)
	defer release()
	st.label(ctxLabel(sc.Ctx))
	q := client.Query{
		Addrs:   []string{"c18"},
		Target:  "dev",
		Queries: []client.Path{{"*"}},
		Type:    client.Stream,
		Timeout: time.Duration(sc.Timeout) * Unit,
	}
	if sc.Proto && sc.Client == "base" {
		q.ProtoHandler = w.appProto
		st.label("proto-handler")
	} else {
		q.NotificationHandler = w.appNotification
	}
	q = mkQueryOpts(mkQuery(sc.Query, q, w), sc.QOpts)
	for _, o := range sc.QOpts {
		st.label("query-opt:" + o)
	}
	refused := queryRefused(sc.Query, sc.Plain, sc.Client == "cache")

	sleepUntil := func(at time.Duration) {
		if d := at - w.now(); d > 0 {
			time.Sleep(d)
		}
		synctest.Wait()
	}
	find := func(kind string) (event, bool) {
		w.mu.Lock()
		defer w.mu.Unlock()
		for _, e := range w.events {
			if e.Kind == kind {
				return e, true
			}
		}
		return event{}, false
	}

	subscribe := func() {
		w.record("sub-call", -1, "")
		go func() {
			err := guarded(func() error { return c.Subscribe(ctx, q, sc.clientTypes()...) })
			w.notePanic("Subscribe", err)
			w.record("ret", -1, fmt.Sprint(err))
		}()
		synctest.Wait()
	}
	closeClient := func() {
		w.record("close-call", -1, "")
		go func() {
			err := guarded(c.Close)
			w.notePanic("Close", err)
			w.mu.Lock()
			w.events = append(w.events, event{Kind: "close-ret", Attempt: -1, At: w.now(), Note: fmt.Sprint(err)})
			if w.closeRet < 0 {
				w.closeRet = len(w.events)
			}
			w.mu.Unlock()
		}()
		synctest.Wait()
		if _, ok := find("close-ret"); ok && sc.Plain {
			// messages buffered by the transport arrive now
			close(w.gate)
			synctest.Wait()
		}
	}

	var v *verr
	stopFirst := stopAt < subAt
	var bound time.Duration // the current backoff interval at the stop action
	earlier := 0            // backoffs completed before it

	stop := func() {
		// classify where the action lands (everything else is quiescent)
		w.mu.Lock()
		_, returned := func() (event, bool) {
			for _, e := range w.events {
				if e.Kind == "ret" {
					return e, true
				}
			}
			return event{}, false
		}()
		nBegin, nEnd := w.nBegin, w.nEnd
		var as *attemptState
		if len(w.attempts) == nBegin && nBegin > 0 {
			as = w.attempts[nBegin-1]
		}
		st.atStop, st.ended = nBegin, nEnd
		st.noImplYet = true
		for _, a := range w.attempts {
			if a.subscribed {
				st.noImplYet = false // the underlying client has held an Impl
			}
		}
		st.deafConnect = as != nil && !as.connected && as.script.Conn == "deaf"
		st.deafNext = nBegin == nEnd && !stopFirst && sc.attempt(nBegin).Conn == "deaf" && !queryInvalid(sc.Query, sc.Client == "cache") && !refused
		if nBegin > 0 {
			st.reconnects = nBegin - 1
		}
		switch {
		case stopFirst:
			st.phase = "before-subscribe"
		case returned:
			st.phase = "after-return"
		case nBegin == nEnd:
			st.phase = "backoff"
		case as == nil || !as.connected:
			if nBegin == 1 {
				st.phase = "initial-connect"
			} else {
				st.phase = "reconnect-connect"
			}
		case !as.subscribed:
			st.phase = "subscribing"
		case as.delivered == 0:
			st.phase = "before-first-message"
		case as.next < len(as.script.Msgs):
			st.phase = "streaming"
		default:
			st.phase = "streaming-idle"
		}
		w.mu.Unlock()
		// "the current backoff interval": the one running, else the next one.
		k := nEnd
		if st.phase == "backoff" {
			k = nEnd - 1
		}
		if sc.Plain {
			bound = 0
		} else {
			bound, earlier = sc.envelope(k), k
		}
		if returned && !sc.Plain && !refused && v == nil {
			e, _ := find("ret")
			v = newVerr("gave-up", "Subscribe of the reconnecting client returned (%s) at %v although the client was not closed and its context not cancelled (stop action due at %v); %d attempts begun, %d ended",
				e.Note, e.At, stopAt, nBegin, nEnd)
		}
		if sc.Stop == "close" {
			closeClient()
		} else if ctxSelfEnding(sc.Ctx) {
			// the deadline passes 1 ns from now (nothing else can happen in between)
			w.record("cancel", -1, "deadline of "+ctxLabel(sc.Ctx))
			sleepUntil(stopAt)
			if ctx.Err() == nil {
				v = newVerr("harness-error", "the deadline of the caller's context did not pass at %v", stopAt)
			}
		} else {
			w.record("cancel", -1, ctxLabel(sc.Ctx))
			cancel()
			synctest.Wait()
		}
	}
	// The stop action is classified with everything quiescent; a deadline fires
	// by itself, so the harness looks 1 ns before it does.
	early := time.Duration(0)
	if sc.Stop == "cancel" && ctxSelfEnding(sc.Ctx) {
		early = time.Nanosecond
	}

	if stopFirst {
		sleepUntil(stopAt - early)
		stop()
		sleepUntil(subAt)
		subscribe()
	} else {
		sleepUntil(subAt)
		subscribe()
		sleepUntil(stopAt - early)
		stop()
	}
	from := stopAt
	if subAt > from {
		from = subAt
	}
	// A deaf transport (one that does not watch its context) cannot be
	// interrupted before it has an Impl to close, so no client can return
	// while one is at work: the bound then counts from the instant the last
	// deaf attempt let go (the return of that underlying Subscribe), which is
	// read off the history. At most one attempt runs after the stop action.
	var slack time.Duration
	for _, a := range sc.Attempts {
		slack += a.deafLife()
	}
	sleepUntil(from + bound + slack)
	deafUntil := w.deafUntil()
	if deafUntil > from {
		from = deafUntil
		st.label("bound-counted-from-deaf-transport-release")
	}
	deadline := from + bound

	// Termination: both calls have returned, no later than the deadline.
	ret, okRet := find("ret")
	cret, okClose := find("close-ret")
	if !okRet || (sc.Stop == "close" && !okClose) {
		// Late: keep watching (virtual time is free) to say how late.
		horizon := w.now() + 4*time.Duration(sc.MaxDelay)*Unit + 2*libraryDefault
		sleepUntil(horizon)
		ret, okRet = find("ret")
		cret, okClose = find("close-ret")
		when := func(e event, ok bool) string {
			if ok {
				return fmt.Sprintf("returned at %v", e.At)
			}
			return fmt.Sprintf("had not returned at %v either", horizon)
		}
		if v == nil {
			v = newVerr("return-late", "stop action (%s, landed %s) at %v, Subscribe called at %v, last deaf transport released at %v, current backoff interval %v (RetryBaseDelay %v, RetryMaxDelay %v, %d earlier backoffs), so both calls are due by %v: Subscribe %s",
				sc.Stop, st.phase, stopAt, subAt, deafUntil, bound, time.Duration(sc.BaseDelay)*Unit, time.Duration(sc.MaxDelay)*Unit, earlier, deadline, when(ret, okRet))
			if sc.Stop == "close" {
				v.msg += ", Close " + when(cret, okClose)
			}
		}
	}
	if v == nil {
		switch {
		case ret.At > deadline:
			v = newVerr("return-late", "Subscribe returned at %v, later than %v = latest of stop action (%s, landed %s, at %v), Subscribe call (%v) and release of the last deaf transport (%v) + current backoff interval %v", ret.At, deadline, sc.Stop, st.phase, stopAt, subAt, deafUntil, bound)
		case sc.Stop == "close" && cret.At > deadline:
			v = newVerr("return-late", "Close returned at %v, later than %v = later of its call (landed %s, at %v) and release of the last deaf transport (%v) + current backoff interval %v", cret.At, deadline, st.phase, stopAt, deafUntil, bound)
		}
	}
	if sc.Stop == "cancel" {
		// The context was cancelled instead; Close (now due for releasing the
		// Impl) must return as well.
		at := w.now()
		closeClient()
		if _, ok := find("close-ret"); !ok && v == nil {
			v = newVerr("close-late", "Close called at %v after Subscribe had returned on a cancelled context has not returned", at)
		}
	}

	// End of the case: release everything the script may still hold.
	w.abort()
	release()
	select {
	case <-w.gate:
	default:
		close(w.gate)
	}
	synctest.Wait()

	w.mu.Lock()
	defer w.mu.Unlock()
	st.attempts = w.nBegin
	st.msgs = w.nextMsg
	w.labels(st)
	if w.paniced != "" {
		// (takes precedence: what followed the panic is its consequence)
		v = newVerr("panic", "%s", w.paniced)
	}
	if v == nil && refused {
		// A Subscribe call the client documents to fail at once.
		var call, ret event
		ci, ri := -1, -1
		for i, e := range w.events {
			switch e.Kind {
			case "sub-call":
				call, ci = e, i
			case "ret":
				ret, ri = e, i
			}
		}
		var between []event
		if ci >= 0 && ri > ci {
			between = w.events[ci+1 : ri]
		} else if ci >= 0 {
			between = w.events[ci+1:]
		}
		v = refusedClause("Subscribe", sc.Query, sc.Plain, ri >= 0, call.At, ret.At, ret.Note, between)
	}
	if v != nil {
		v.msg += "\nhistory: " + w.dump()
		return v
	}
	if v = w.judge(st, stopAt); v != nil {
		v.msg += "\nhistory: " + w.dump()
		return v
	}
	return nil
}

// judge evaluates the clauses that are read off the whole history.
// Called with w.mu held.
func (w *world) judge(st *stats, stopAt time.Duration) *verr {
	sc := w.sc
	// (1) an unclosed reconnecting client starts a new attempt after every
	// failure, no later than the backoff interval.
	if !sc.Plain {
		var begins, ends []time.Duration
		for _, e := range w.events {
			switch e.Kind {
			case "sub-begin":
				begins = append(begins, e.At)
			case "sub-end":
				ends = append(ends, e.At)
			}
		}
		for i, e := range ends {
			due := e + sc.envelope(i)
			if due >= stopAt {
				break // closed (or cancelled) before the retry was due
			}
			if i+1 >= len(begins) {
				return newVerr("no-retry", "attempt %d ended at %v and the client was neither closed nor cancelled before %v, yet no further attempt was started (retry due by %v)", i, e, stopAt, due)
			}
			if begins[i+1] > due {
				return newVerr("retry-late", "attempt %d ended at %v; attempt %d began at %v, later than the backoff interval allows (%v)", i, e, i+1, begins[i+1], due)
			}
		}
	}
	// (2) disconnect once per ended attempt, reset once before each retry, in
	// that order - for the callbacks that were given (callbacks.go).
	if !sc.Plain {
		hasDisc, hasReset := callbacksGiven(sc.NilCallbacks, sc.Callbacks)
		if v := judgeCallbacks(cbEvents(w.events), hasDisc, hasReset, false); v != nil {
			return v
		}
	}
	// (3) after Close returned at most the notifications of one further message.
	if w.closeRet >= 0 {
		after := map[int]bool{}
		for _, s := range w.seenLog {
			if s.seq >= w.closeRet {
				after[s.msg] = true
			}
		}
		st.afterClose = len(after)
		if len(after) > 1 {
			var at time.Duration
			for _, e := range w.events {
				if e.Kind == "close-ret" {
					at = e.At
					break
				}
			}
			return newVerr("delivery-after-close", "the handler received the notifications of %d messages after Close had returned at %v (at most one allowed)", len(after), at)
		}
	}
	// (4) the handler saw the notifications in the order the Impl handed them over.
	last := 0
	for _, s := range w.seenLog {
		if s.id == 0 {
			continue
		}
		if s.id <= last {
			return newVerr("order", "handler saw notification %d after notification %d", s.id, last)
		}
		last = s.id
	}
	return nil
}

// deafUntil is the latest instant at which the underlying Subscribe of an
// attempt over a deaf transport returned (0 if there was none).
func (w *world) deafUntil() time.Duration {
	w.mu.Lock()
	defer w.mu.Unlock()
	var at time.Duration
	for _, e := range w.events {
		if e.Kind == "sub-end" && e.Attempt >= 0 && e.Attempt < len(w.attempts) && w.attempts[e.Attempt].script.Conn == "deaf" && e.At > at {
			at = e.At
		}
	}
	return at
}

// labels derives the label set and the non-trivial rule. Called with w.mu held.
func (w *world) labels(st *stats) {
	sc := w.sc
	kind := "close"
	if sc.Stop == "cancel" {
		kind = "cancel"
		st.label("ctx-cancel-instead-of-close")
		if ctxSelfEnding(sc.Ctx) {
			st.label("ctx-ends-by-deadline")
			st.label("ctx-ends-by-deadline-" + phaseLabel(st.phase))
		}
	}
	switch st.phase {
	case "before-subscribe":
		st.label(kind + "-before-subscribe")
	case "initial-connect":
		st.label(kind + "-during-initial-connect")
	case "reconnect-connect":
		st.label(kind + "-during-reconnect-connect")
	case "before-first-message":
		st.label(kind + "-between-connect-and-first-message")
		st.label(kind + "-while-streaming")
	case "streaming", "streaming-idle":
		st.label(kind + "-while-streaming")
	case "backoff":
		st.label(kind + "-during-backoff")
	case "after-return":
		st.label(kind + "-after-subscribe-returned")
	default:
		st.label(kind + "-" + st.phase)
	}
	if st.deafConnect {
		st.label(kind + "-during-deaf-connect")
	}
	if st.phase == "backoff" && st.noImplYet {
		st.label(kind + "-during-backoff-after-failed-first-connect")
	}
	if st.phase == "backoff" && st.deafNext {
		st.label(kind + "-during-backoff-before-deaf-retry")
		if st.noImplYet {
			st.label(kind + "-during-backoff-after-failed-first-connect-before-deaf-retry")
		}
	}
	stopAt := sc.stopInstant()
	for _, e := range w.events {
		if e.Kind == "msg" && e.At > stopAt && e.Attempt < len(w.attempts) && w.attempts[e.Attempt].deaf {
			st.label("deaf-transport-delivers-after-stop-action")
			break
		}
	}
	if !sc.Plain {
		switch {
		case st.reconnects >= 2:
			st.label("reconnect-count>=2")
			st.label("reconnect-count>=1")
		case st.reconnects >= 1:
			st.label("reconnect-count>=1")
		default:
			st.label("reconnect-count=0")
		}
		if st.ended >= len(sc.Attempts) && len(sc.Attempts) > 0 {
			st.label("whole-script-consumed")
		}
	}
	for i, as := range w.attempts {
		if i >= len(sc.Attempts) {
			break
		}
		a := as.script
		switch {
		case a.Conn == "err":
			st.label("connect-error")
		case a.Conn == "park":
			st.label("connect-parks")
		case a.Conn == "deaf":
			st.label("deaf-transport")
		}
		if !as.connected {
			continue
		}
		if a.Sub == "err" {
			st.label("subscribe-error")
			continue
		}
		if a.SubDelay > 0 {
			st.label("impl-subscribe-takes-time")
		}
		if a.Sub == "park" && !as.deaf {
			st.label("impl-subscribe-parks")
			continue
		}
		if as.next < len(a.Msgs) || (!as.endWaited && a.End != "block") {
			continue // interrupted before its scripted end
		}
		switch a.End {
		case "err":
			if len(a.Msgs) == 0 {
				st.label("error-before-data")
			} else {
				st.label("error-after-data")
			}
		case "eof":
			st.label("eof")
		case "stop":
			st.label("stop-reading")
		case "block":
			st.label("blocks-until-closed")
		}
	}
	if sc.Pending > 0 {
		st.label("buffered-messages-at-close")
	}
	w.errLabels(st)
	if sc.Timeout > 0 {
		st.label("query-timeout-set")
	}
	if sc.Query != "" {
		st.label("query:" + sc.Query)
		switch {
		case queryRefused(sc.Query, sc.Plain, sc.Client == "cache"):
			st.label("subscribe-refused")
			if sc.Stop == "close" && st.phase == "after-return" {
				st.label("close-after-refused-subscribe")
			}
		case queryInvalid(sc.Query, sc.Client == "cache"):
			st.label("every-attempt-rejects-the-query")
		}
	}
	// Non-trivial: Close lands inside a backoff sleep or between connect and
	// first message, after at least one reconnect.
	st.nontriv = !sc.Plain && sc.Stop == "close" && st.reconnects >= 1 &&
		(st.phase == "backoff" || st.phase == "before-first-message")
	if st.nontriv {
		st.label("nontrivial")
	}
}

// errLabels records which kinds of error value the failing steps that were
// actually executed returned. Called with w.mu held.
func (w *world) errLabels(st *stats) {
	for sk := range w.errUsed {
		site, kind, _ := strings.Cut(sk, ":")
		st.label("error-value-at-" + site)
		if site != "decoy" {
			st.label("error-value:" + kind)
		}
		if site == "connect" || site == "subscribe" {
			if multiError(kind) {
				st.label("multi-error-before-stream")
			}
		}
		if site == "decoy" {
			st.label("two-client-types")
			if multiError(kind) {
				st.label("two-client-types-multi-error-decoy")
			}
			continue
		}
		if cancelLookalike(kind) && site != "close" {
			st.label("attempt-fails-with-cancellation-lookalike")
		}
	}
}

// dump renders the history. Called with w.mu held.
func (w *world) dump() string {
	var b strings.Builder
	for i, e := range w.events {
		if i > 0 {
			b.WriteString(" | ")
		}
		if i >= 80 {
			fmt.Fprintf(&b, "... %d more", len(w.events)-i)
			break
		}
		fmt.Fprintf(&b, "%v %s", e.At, e.Kind)
		if e.Attempt >= 0 {
			fmt.Fprintf(&b, "#%d", e.Attempt)
		}
		if e.Note != "" && e.Kind != "msg" {
			fmt.Fprintf(&b, "(%s)", e.Note)
		}
	}
	return b.String()
}
