package clientprop

import (
	"context"
	"errors"
	"fmt"
	"io"
	"sync"
	"sync/atomic"
	"time"

	"github.com/openconfig/gnmi/client"
	gpb "github.com/openconfig/gnmi/proto/gnmi"
	"google.golang.org/protobuf/proto"
)

// implType is the name under which the scripted Impl is registered. The
// registry of package client is process-global: the constructor is registered
// once and finds the running case through curWorld (one case at a time).
const implType = "c18-script"

// decoyType is a second registered client type whose constructor fails at once
// (Scenario.Decoy): it exercises the client's "try all types in parallel".
const decoyType = "c18-decoy"

var (
	registerOnce sync.Once
	curWorld     atomic.Pointer[world]
)

func register() {
	registerOnce.Do(registerScripted)
}

// registerScripted registers the scripted transport once per Go shape (shape.go),
// each under a client type name of its own, and the decoy type.
func registerScripted() {
	for _, shape := range implShapes {
		client.RegisterTest(shapedType(shape), shapedCtor(shape))
	}
	client.RegisterTest(decoyType, decoyCtor)
}

// scriptCtor / decoyCtor are the registered constructors (named so that the
// parts that own the whole registry for the length of a case, multi.go, can put
// them back).
func scriptCtor(ctx context.Context, d client.Destination) (client.Impl, error) {
	w := curWorld.Load()
	if w == nil {
		return nil, errors.New("clientprop: no scenario is running")
	}
	return w.newImpl(ctx, d)
}

func decoyCtor(ctx context.Context, d client.Destination) (client.Impl, error) {
	w := curWorld.Load()
	if w == nil {
		return nil, errors.New("clientprop: no scenario is running")
	}
	return nil, w.scriptedErr("decoy", w.sc.Decoy, errScriptDecoy)
}

var (
	errScriptConnect   = errors.New("scripted connect error")
	errScriptTimeout   = errors.New("scripted connect timeout")
	errScriptSubscribe = errors.New("scripted subscribe error")
	errScriptRecv      = errors.New("scripted receive error")
	errTransportClosed = errors.New("transport is closed")
	errScriptClose     = errors.New("scripted close error")
	errScriptDecoy     = errors.New("decoy client type never connects")
	errScriptPoll      = errors.New("scripted poll error")
)

// event is one entry of the recorded history of a case.
type event struct {
	Kind    string        // sub-call, ret, close-call, close-ret, cancel, sub-begin, sub-end, disconnect, reset, new-impl, connected, subscribed, msg, recv-end, impl-close
	Attempt int           // attempt index where it applies
	At      time.Duration // virtual time since the start of the case
	Note    string
}

// seen is one invocation of the application's handler.
type seen struct {
	msg int // id of the message being delivered
	id  int // id of the notification (0 for Connected)
	seq int // position in the event history when it was invoked
}

type attemptState struct {
	idx        int
	script     Attempt
	ctx        context.Context
	closed     chan struct{}
	closeOnce  sync.Once
	connected  bool
	deaf       bool // the transport does not watch its context (see newImpl)
	subscribed bool
	next       int  // next scripted message
	waited     bool // the delay of message `next` has elapsed
	endWaited  bool
	delivered  int // messages handed over on this stream
	announced  bool
	polls      int // Impl.Poll calls on this transport
	nh         client.NotificationHandler
	ph         client.ProtoHandler
}

// world is the state of one case of half A.
type world struct {
	sc    *Scenario
	start time.Time

	mu       sync.Mutex
	events   []event
	attempts []*attemptState
	nBegin   int // underlying Subscribe calls begun / returned (trace wrapper)
	nEnd     int
	seenLog  []seen
	curMsg   int
	nextMsg  int
	nextID   int
	pending  int // plain: buffered messages still to hand over after Close
	aborted  bool
	closeRet int    // len(events) when Close returned, -1 before
	paniced  string // first call of the code under test that panicked (notePanic)
	// errUsed: "site:kind" of every scripted failure that was actually
	// returned with a non-default error kind (labels only).
	errUsed map[string]bool

	never chan struct{} // never closed: parks the code under test once a case is over
	gate  chan struct{} // plain: opened once Close has returned
}

func newWorld(sc *Scenario) *world {
	return &world{sc: sc, start: time.Now(), closeRet: -1, pending: sc.Pending, never: make(chan struct{}), gate: make(chan struct{})}
}

func (w *world) now() time.Duration { return time.Since(w.start) }

func (w *world) record(kind string, attempt int, note string) int {
	w.mu.Lock()
	defer w.mu.Unlock()
	w.events = append(w.events, event{Kind: kind, Attempt: attempt, At: w.now(), Note: note})
	return len(w.events)
}

// scriptedErr builds the error value a failing step returns and notes that a
// non-default kind was used at site ("connect", "subscribe", "recv", "close").
func (w *world) scriptedErr(site, kind string, base error) error {
	if kind != "" {
		w.mu.Lock()
		if w.errUsed == nil {
			w.errUsed = map[string]bool{}
		}
		w.errUsed[site+":"+kind] = true
		w.mu.Unlock()
	}
	return mkErr(kind, base)
}

func (w *world) isAborted() bool {
	w.mu.Lock()
	defer w.mu.Unlock()
	return w.aborted
}

// abort makes every later entry into the scripted Impl park for good: a retry
// loop that ignores Close cannot spin through virtual time once the case has
// been judged; what is left blocked is reported by synctest.
func (w *world) abort() {
	w.mu.Lock()
	w.aborted = true
	w.mu.Unlock()
}

// wait blocks for d, or until ctx is done or stop is closed (stop may be nil).
func wait(ctx context.Context, stop <-chan struct{}, d time.Duration) (elapsed bool) {
	if d <= 0 {
		return true
	}
	t := time.NewTimer(d)
	defer t.Stop()
	select {
	case <-t.C:
		return true
	case <-ctx.Done():
		return false
	case <-stop:
		return false
	}
}

// newImpl is the registered constructor. Like a dialling transport it fails at
// once on a cancelled context, gives up when the destination timeout elapses
// and is interrupted by cancellation.
func (w *world) newImpl(ctx context.Context, d client.Destination) (client.Impl, error) {
	w.mu.Lock()
	as := &attemptState{idx: len(w.attempts), ctx: ctx, closed: make(chan struct{})}
	as.script = w.sc.attempt(as.idx)
	w.attempts = append(w.attempts, as)
	w.events = append(w.events, event{Kind: "new-impl", Attempt: as.idx, At: w.now()})
	aborted := w.aborted
	w.mu.Unlock()
	if aborted {
		<-w.never
	}
	if as.script.Conn == "deaf" {
		// A constructor that does not watch its context (client.InitImpl does
		// not promise to): it takes its time and then succeeds.
		time.Sleep(time.Duration(as.script.ConnDelay) * Unit)
		w.mu.Lock()
		as.connected, as.deaf = true, true
		w.events = append(w.events, event{Kind: "connected", Attempt: as.idx, At: w.now(), Note: "deaf"})
		w.mu.Unlock()
		return &impl{w: w, as: as}, nil
	}
	if err := ctx.Err(); err != nil {
		return nil, err
	}
	timeout := d.Timeout
	if timeout <= 0 {
		timeout = defaultTimeout
	}
	delay := time.Duration(as.script.ConnDelay) * Unit
	fail := as.script.Conn == "err"
	var ferr error = errScriptConnect
	if as.script.Conn == "park" || delay > timeout {
		delay, fail, ferr = timeout, true, errScriptTimeout
	}
	if !wait(ctx, nil, delay) {
		return nil, ctx.Err()
	}
	if fail {
		return nil, w.scriptedErr("connect", as.script.ConnErr, ferr)
	}
	w.mu.Lock()
	as.connected = true
	w.events = append(w.events, event{Kind: "connected", Attempt: as.idx, At: w.now()})
	w.mu.Unlock()
	return &impl{w: w, as: as}, nil
}

// impl is the scripted client.Impl of one attempt.
type impl struct {
	w  *world
	as *attemptState
}

func (i *impl) Subscribe(ctx context.Context, q client.Query) error {
	if i.w.isAborted() {
		<-i.w.never
	}
	if err := ctx.Err(); err != nil && !i.as.deaf {
		return err
	}
	if d := time.Duration(i.as.script.SubDelay) * Unit; d > 0 {
		// the write of the subscription request takes its time
		i.w.record("sub-wait", i.as.idx, "")
		if i.as.deaf {
			time.Sleep(d)
		} else if !wait(ctx, i.as.closed, d) {
			if err := ctx.Err(); err != nil {
				return err
			}
			return errTransportClosed
		}
	}
	if i.as.script.Sub == "err" {
		return i.w.scriptedErr("subscribe", i.as.script.SubErr, errScriptSubscribe)
	}
	if i.as.script.Sub == "park" && !i.as.deaf {
		// the peer does not read: the request cannot be written until the
		// context ends (nobody else holds this Impl yet)
		i.w.record("sub-park", i.as.idx, "")
		select {
		case <-ctx.Done():
			return ctx.Err()
		case <-i.as.closed:
			return errTransportClosed
		}
	}
	i.w.mu.Lock()
	i.as.nh, i.as.ph = q.NotificationHandler, q.ProtoHandler
	i.as.subscribed = true
	i.w.events = append(i.w.events, event{Kind: "subscribed", Attempt: i.as.idx, At: i.w.now()})
	i.w.mu.Unlock()
	return nil
}

// Poll is the write of a poll request (Attempt.Poll). It may be called by any
// goroutine of the application while Subscribe runs elsewhere.
func (i *impl) Poll() error {
	w, as := i.w, i.as
	if w.isAborted() {
		<-w.never
	}
	mode := as.script.Poll
	w.mu.Lock()
	as.polls++
	w.events = append(w.events, event{Kind: "impl-poll", Attempt: as.idx, At: w.now(), Note: mode})
	w.mu.Unlock()
	ret := func(err error) error {
		w.record("impl-poll-ret", as.idx, fmt.Sprint(err))
		return err
	}
	if i.isClosed() {
		return ret(errTransportClosed)
	}
	ctx := as.ctx
	switch mode {
	case "err":
		return ret(errScriptPoll)
	case "delay":
		if wait(ctx, as.closed, time.Duration(as.script.PollDelay)*Unit) {
			return ret(nil)
		}
	case "block":
		select {
		case <-ctx.Done():
		case <-as.closed:
		}
	case "deaf":
		<-as.closed
	default:
		return ret(nil)
	}
	if i.isClosed() {
		return ret(errTransportClosed)
	}
	return ret(ctx.Err())
}

// Close unblocks a pending Recv, as closing a real connection does. It reports
// an error of the scripted kind (every call does), but always closes.
func (i *impl) Close() error {
	i.as.closeOnce.Do(func() {
		i.w.record("impl-close", i.as.idx, "")
		close(i.as.closed)
	})
	if k := i.as.script.CloseErr; k != "" {
		return i.w.scriptedErr("close", k, errScriptClose)
	}
	return nil
}

func (i *impl) isClosed() bool {
	select {
	case <-i.as.closed:
		return true
	default:
		return false
	}
}

// Recv hands over at most one message. A cancelled context ends the stream
// (checked first: ReconnectClient.Close cancels before it closes, so the
// outcome does not depend on which of the two wakes Recv); on a closed Impl
// the buffered messages of a plain scenario are still handed over, one per
// call, then the stream reports the closed transport.
//
// A deaf transport keeps handing over its scripted messages (and its scripted
// end) whatever happens to the context; only its own Close interrupts it. It
// notices the cancellation once it has nothing scripted left and would block.
func (i *impl) Recv() (err error) {
	w, as := i.w, i.as
	if w.isAborted() {
		<-w.never
	}
	defer func() {
		if err != nil {
			w.record("recv-end", as.idx, err.Error())
		}
	}()
	ctx := as.ctx
	if as.deaf {
		ctx = context.Background()
	}
	for {
		if cerr := ctx.Err(); cerr != nil {
			return cerr
		}
		if i.isClosed() {
			w.mu.Lock()
			buffered := w.pending > 0
			if buffered {
				w.pending--
			}
			w.mu.Unlock()
			if !buffered {
				return errTransportClosed
			}
			// The message arrives once Close has returned (the arrival
			// time of a message is the environment's choice).
			<-w.gate
			if w.isAborted() {
				<-w.never
			}
			return i.deliver(w.sc.PendingN)
		}
		if as.next < len(as.script.Msgs) {
			m := as.script.Msgs[as.next]
			if !as.waited {
				if !wait(ctx, as.closed, time.Duration(m.Delay)*Unit) {
					continue
				}
				as.waited = true
			}
			as.next++
			as.waited = false
			return i.deliver(m.N)
		}
		if as.script.End == "block" {
			select {
			case <-as.ctx.Done():
				if as.deaf {
					return as.ctx.Err()
				}
			case <-as.closed:
			}
			continue
		}
		if !as.endWaited {
			if !wait(ctx, as.closed, time.Duration(as.script.EndDelay)*Unit) {
				continue
			}
			as.endWaited = true
		}
		switch as.script.End {
		case "eof":
			return io.EOF
		case "stop":
			return client.ErrStopReading
		default:
			return w.scriptedErr("recv", as.script.EndErr, errScriptRecv)
		}
	}
}

// deliver hands one message with n notifications to the query's handler; the
// first message of a stream is preceded by Connected, as the real Impls do.
func (i *impl) deliver(n int) error {
	w, as := i.w, i.as
	w.mu.Lock()
	w.nextMsg++
	msg := w.nextMsg
	w.curMsg = msg
	as.delivered++
	first := !as.announced
	as.announced = true
	ids := make([]int, n)
	for k := range ids {
		w.nextID++
		ids[k] = w.nextID
	}
	w.events = append(w.events, event{Kind: "msg", Attempt: as.idx, At: w.now(), Note: fmt.Sprint(msg)})
	w.mu.Unlock()
	if as.ph != nil {
		upd := make([]*gpb.Update, n)
		for k, id := range ids {
			upd[k] = &gpb.Update{Path: &gpb.Path{Elem: []*gpb.PathElem{{Name: "c18"}, {Name: fmt.Sprint(id)}}}, Val: &gpb.TypedValue{Value: &gpb.TypedValue_IntVal{IntVal: int64(id)}}}
		}
		return as.ph(&gpb.SubscribeResponse{Response: &gpb.SubscribeResponse_Update{Update: &gpb.Notification{Timestamp: int64(msg), Update: upd}}})
	}
	if as.nh == nil {
		return errors.New("query without handler reached the Impl")
	}
	if first {
		if err := as.nh(client.Connected{}); err != nil {
			return err
		}
	}
	for _, id := range ids {
		if err := as.nh(client.Update{Path: client.Path{"c18", fmt.Sprintf("leaf%d", id%5)}, TS: w.start.Add(time.Duration(id)), Val: id}); err != nil {
			return err
		}
	}
	return nil
}

// appNotification is the application's NotificationHandler.
func (w *world) appNotification(n client.Notification) error {
	id := 0
	switch v := n.(type) {
	case client.Connected:
	case client.Update:
		id, _ = v.Val.(int)
	default:
		return fmt.Errorf("unexpected notification %#v", n)
	}
	w.mu.Lock()
	w.seenLog = append(w.seenLog, seen{msg: w.curMsg, id: id, seq: len(w.events)})
	w.mu.Unlock()
	return nil
}

// appProto is the application's ProtoHandler.
func (w *world) appProto(m proto.Message) error {
	r, ok := m.(*gpb.SubscribeResponse)
	if !ok {
		return fmt.Errorf("unexpected message %T", m)
	}
	w.mu.Lock()
	for _, u := range r.GetUpdate().GetUpdate() {
		w.seenLog = append(w.seenLog, seen{msg: w.curMsg, id: int(u.GetVal().GetIntVal()), seq: len(w.events)})
	}
	w.mu.Unlock()
	return nil
}

// traceClient records when the underlying Subscribe of the reconnecting
// client begins and returns ("each time the underlying Subscribe returns" is
// how reconnect.go defines an ended attempt).
type traceClient struct {
	client.Client
	w *world
}

func (t *traceClient) Subscribe(ctx context.Context, q client.Query, clientType ...string) error {
	t.w.mu.Lock()
	idx := t.w.nBegin
	t.w.nBegin++
	t.w.events = append(t.w.events, event{Kind: "sub-begin", Attempt: idx, At: t.w.now()})
	aborted := t.w.aborted
	t.w.mu.Unlock()
	if aborted {
		<-t.w.never
	}
	err := t.Client.Subscribe(ctx, q, clientType...)
	t.w.mu.Lock()
	if len(t.w.attempts) == idx {
		// The attempt never reached the registered constructor (a query the
		// client rejects before it tries a client type): a placeholder keeps
		// the indices of underlying attempts and of constructed transports
		// aligned; the scripted attempt of that index is skipped.
		t.w.attempts = append(t.w.attempts, &attemptState{idx: idx, script: Attempt{Conn: "none", Sub: "ok", End: "err"}, ctx: ctx, closed: make(chan struct{})})
	}
	t.w.nEnd++
	t.w.events = append(t.w.events, event{Kind: "sub-end", Attempt: idx, At: t.w.now(), Note: fmt.Sprint(err)})
	t.w.mu.Unlock()
	return err
}
