package clientprop

import (
	"context"
	"errors"
	"fmt"
	"io"
	"strings"
	"sync/atomic"
	"testing"
	"testing/synctest"
	"time"

	"github.com/openconfig/gnmi/client"
	gclient "github.com/openconfig/gnmi/client/gnmi"
)

// Parts "types" and "content" (virtual time, one synctest bubble per case, the
// single Subscribe / single stop action of part "random"). Two dimensions the
// scripted transport of double.go fixes are generated here:
//
//   - the clientType ARGUMENT of Subscribe: no type at all (the documented
//     default: every registered type), one, several, the same name listed two
//     or three times (adjacent or not), names nobody registered (the empty name
//     included), in any order - with, per attempt and per registered type, its
//     own outcome (the constructor returns an Impl / fails / parks until its
//     context is cancelled or the destination timeout elapses, each after its
//     own delay; Impl.Subscribe succeeds or fails). The client tries every
//     listed entry in parallel; the first Impl whose Subscribe succeeded serves
//     the stream. Whichever Impl that is, it serves the attempt's one scripted
//     stream, so the verdict does not depend on who wins a tie.
//   - the CONTENT of the notifications a stream hands over, as it matters to
//     the layer between transport and application (CacheClient): a small
//     alphabet of paths that repeat, leaf and branch of the same subtree,
//     timestamps that repeat, go backwards or jump, deletes of paths that are
//     cached, not cached or whole subtrees, updates after deletes, Sync
//     markers; the cache persists across reconnects, so all of it also happens
//     between one stream and the next.
//
// Oracles. The termination bound, "an unclosed reconnecting client keeps
// retrying", the disconnect / reset discipline, at most one further message
// after Close and hand-over order are the unchanged clauses of half A
// (world.judge). Added, as the property states it ("notifications reach the
// application in the order received", on every (re)connected stream): the
// sequence of values the application's NotificationHandler receives is EXACTLY
// the sequence the transport handed to the handler of its query - each value
// during the hand-over call itself, whatever the layer in between does with it.
// For a CacheClient, Leaves() ("the current state of the received tree") is
// judged only as far as every reading of that sentence agrees: every leaf shown
// was received as an Update and no Delete at or above its path was received
// after that Update; a path whose latest received notification is an Update is
// shown (paths that took part in a leaf-versus-branch conflict excepted).
// Which of several received values of a path is shown is NOT judged.
//
// The parts own the registry of package client for the length of a case
// ("no type given" means every registered type) and put it back afterwards.

// xTypeNames maps the tokens of XScenario.Types to client type names. "a", "b"
// and "c" are registered for the length of a case, "u" and "" never are.
var xTypeNames = map[string]string{"a": "c18-x-a", "b": "c18-x-b", "c": "c18-x-c", "u": "c18-x-unregistered", "": ""}

var xRegistered = []string{"a", "b", "c"}

func xIsRegistered(tok string) bool { return tok == "a" || tok == "b" || tok == "c" }

// xPaths is the path alphabet of the content dimension: leaves that share a
// branch, and paths that are a leaf in one notification and a branch in another.
var xPaths = []client.Path{
	{"a", "x"}, {"a", "y"}, {"b"}, {"c", "d", "e"},
	{"a"}, {"c", "d"}, {"c"},
}

// XNote is one notification of a scripted message.
type XNote struct {
	Kind string `json:"kind"`           // "update" | "delete" | "sync"
	Path int    `json:"path,omitempty"` // index into xPaths
	// TS is the timestamp in seconds after a fixed epoch: nothing makes it grow
	// along a stream or from one stream to the next.
	TS int `json:"ts,omitempty"`
}

// XMsg is one message: it arrives Delay units after the previous one.
type XMsg struct {
	Delay int     `json:"delay,omitempty"`
	Notes []XNote `json:"notes"`
}

// XOutcome is what one registered client type does in one attempt.
type XOutcome struct {
	Conn      string `json:"conn"` // "ok" | "err" | "park" (until cancelled or the destination timeout)
	ConnDelay int    `json:"conn_delay,omitempty"`
	Sub       string `json:"sub"` // "ok" | "err" (Impl.Subscribe fails)
}

var xDefaultOutcome = XOutcome{Conn: "ok", Sub: "ok"}

// XAttempt scripts one underlying attempt: the outcome of every registered
// type (Out[0..2] for "a", "b", "c"; a missing entry connects at once) and the
// one stream whichever Impl wins serves.
type XAttempt struct {
	Out      []XOutcome `json:"out,omitempty"`
	Msgs     []XMsg     `json:"msgs,omitempty"`
	End      string     `json:"end"` // "err" | "eof" | "stop" | "block"
	EndDelay int        `json:"end_delay,omitempty"`
}

var xDefaultAttempt = XAttempt{End: "block"}

// XScenario is one case of parts "types" and "content".
type XScenario struct {
	Client       string `json:"client"` // "base" | "cache"
	Plain        bool   `json:"plain,omitempty"`
	NilCallbacks bool   `json:"nil_callbacks,omitempty"`
	Callbacks    string `json:"callbacks,omitempty"` // see Scenario.Callbacks
	BaseDelay    int    `json:"base_delay"`
	MaxDelay     int    `json:"max_delay"`
	Timeout      int    `json:"timeout,omitempty"`
	// Types is the clientType argument of Subscribe as tokens (xTypeNames), in
	// order; empty = no type is given.
	Types    []string   `json:"types"`
	Attempts []XAttempt `json:"attempts"`
	SubAt    int        `json:"sub_at"`
	Stop     string     `json:"stop"` // "close" | "cancel"
	StopAt   int        `json:"stop_at"`
	Target   string     `json:"target,omitempty"`
}

// half is the half-A view: delays, instants and the clauses of world.judge.
func (sc *XScenario) half() *Scenario {
	return &Scenario{Client: sc.Client, Plain: sc.Plain, NilCallbacks: sc.NilCallbacks, Callbacks: sc.Callbacks, BaseDelay: sc.BaseDelay, MaxDelay: sc.MaxDelay,
		Timeout: sc.Timeout, SubAt: sc.SubAt, Stop: sc.Stop, StopAt: sc.StopAt}
}

func (sc *XScenario) attempt(i int) XAttempt {
	if i >= 0 && i < len(sc.Attempts) {
		return sc.Attempts[i]
	}
	return xDefaultAttempt
}

func (a XAttempt) outcome(tok string) XOutcome {
	for i, r := range xRegistered {
		if r == tok && i < len(a.Out) {
			return a.Out[i]
		}
	}
	return xDefaultOutcome
}

// tried lists the tokens the client tries in one attempt.
func (sc *XScenario) tried() []string {
	if len(sc.Types) == 0 {
		return xRegistered
	}
	return sc.Types
}

func (sc *XScenario) typeNames() []string {
	out := make([]string, len(sc.Types))
	for i, t := range sc.Types {
		out[i] = xTypeNames[t]
	}
	return out
}

// fate predicts attempt i: whether a stream is established and after how long
// the set-up is decided (first Impl ready, or last listed entry failed).
func (sc *XScenario) fate(i int) (connected bool, d time.Duration) {
	timeout := sc.half().timeout()
	a := sc.attempt(i)
	best, worst := time.Duration(-1), time.Duration(0)
	for _, tok := range sc.tried() {
		if !xIsRegistered(tok) {
			continue // fails at once
		}
		o := a.outcome(tok)
		at := time.Duration(o.ConnDelay) * Unit
		ok := o.Conn == "ok" && o.Sub == "ok"
		if o.Conn == "park" || at > timeout {
			at, ok = timeout, false
		}
		switch {
		case ok && (best < 0 || at < best):
			best = at
		case !ok && at > worst:
			worst = at
		}
	}
	if best >= 0 {
		return true, best
	}
	return false, worst
}

func (sc *XScenario) validate() error {
	h := sc.half()
	h.Plain = false // the plain rules of half A are restated below for this script
	if err := h.validate(); err != nil {
		return err
	}
	if sc.Plain && sc.StopAt < sc.SubAt {
		return fmt.Errorf("plain client stopped before Subscribe")
	}
	if err := validCallbacks(sc.Plain, sc.NilCallbacks, sc.Callbacks); err != nil {
		return err
	}
	if len(sc.Types) > 8 {
		return fmt.Errorf("%d client types", len(sc.Types))
	}
	for _, t := range sc.Types {
		if _, ok := xTypeNames[t]; !ok {
			return fmt.Errorf("client type token %q", t)
		}
	}
	if len(sc.Attempts) > 64 {
		return fmt.Errorf("too many attempts")
	}
	for i, a := range sc.Attempts {
		if len(a.Out) > len(xRegistered) {
			return fmt.Errorf("attempt %d: %d outcomes", i, len(a.Out))
		}
		for _, o := range a.Out {
			if (o.Conn != "ok" && o.Conn != "err" && o.Conn != "park") || (o.Sub != "ok" && o.Sub != "err") || o.ConnDelay < 0 {
				return fmt.Errorf("attempt %d outcome %+v", i, o)
			}
		}
		switch a.End {
		case "err", "eof", "stop", "block":
		default:
			return fmt.Errorf("attempt %d end %q", i, a.End)
		}
		if a.EndDelay < 0 {
			return fmt.Errorf("attempt %d negative delay", i)
		}
		for _, m := range a.Msgs {
			if m.Delay < 0 || len(m.Notes) < 1 || len(m.Notes) > 16 {
				return fmt.Errorf("attempt %d message %+v", i, m)
			}
			for _, n := range m.Notes {
				switch n.Kind {
				case "update", "delete":
					if n.Path < 0 || n.Path >= len(xPaths) {
						return fmt.Errorf("attempt %d path %d", i, n.Path)
					}
				case "sync":
				default:
					return fmt.Errorf("attempt %d notification kind %q", i, n.Kind)
				}
			}
		}
	}
	if sc.Plain {
		// As in half A a plain client is only closed once Subscribe holds an
		// Impl or has returned: the set-up of its one attempt is decided at once.
		if _, d := sc.fate(0); d != 0 {
			return fmt.Errorf("plain client needs a set-up that is decided at once")
		}
	}
	return nil
}

// xpredict mirrors Scenario.predict for the generator (aiming only).
func (sc *XScenario) xpredict(n int) []span {
	h := sc.half()
	var out []span
	t := h.subInstant()
	intervals := 0
	for i := 0; i < n; i++ {
		a := sc.attempt(i)
		s := span{start: t}
		connected, d := sc.fate(i)
		s.conn = t + d
		cur := s.conn
		if !connected {
			s.first, s.end = cur, cur
		} else {
			s.connected = true
			s.first = cur
			for j, m := range a.Msgs {
				cur += time.Duration(m.Delay) * Unit
				if j == 0 {
					s.first = cur
				}
			}
			if len(a.Msgs) == 0 {
				s.first = cur + time.Duration(a.EndDelay)*Unit
			}
			if a.End == "block" {
				s.blocks, s.end, s.next = true, cur, cur
				out = append(out, s)
				break
			}
			cur += time.Duration(a.EndDelay) * Unit
			s.end = cur
		}
		// (the reset policy is not mirrored: the never-reset envelope is close enough to aim with)
		s.next = s.end + h.envelope(intervals)
		intervals++
		out = append(out, s)
		t = s.next
		if sc.Plain {
			break
		}
	}
	return out
}

// ---------------------------------------------------------------------------
// the scripted transports
// ---------------------------------------------------------------------------

// xstream is the one scripted stream of an attempt, served by whichever Impl
// of the attempt is read from.
type xstream struct {
	attempt   int
	script    XAttempt
	next      int
	waited    bool
	endWaited bool
	delivered int
	announced bool
	reading   bool
}

// ximpl is one constructed transport.
type ximpl struct {
	w         *xworld
	attempt   int
	tok       string
	ctx       context.Context
	closed    chan struct{}
	closeOnce func()
	nh        client.NotificationHandler
	stream    *xstream
}

// xworld is the state of one case: the half-A history plus what the two
// dimensions add.
type xworld struct {
	*world
	xs      *XScenario
	streams map[int]*xstream
	// per attempt: entries dialled / that failed / Impls that became ready /
	// ready Impls closed without having been read from
	dialled, failed, ready, spareClosed map[int]int
	// hand-over log: every value given to the handler of the query, and every
	// value the application's handler received, rendered.
	handed, got []string
	lost        string // first mismatch between the two
	// what the cache layer was shown (labels and the Leaves clause)
	received []xrecv
}

type xrecv struct {
	kind   string
	path   client.Path
	ts     time.Time
	val    int
	stream int // attempt whose stream carried it
}

var xEpoch = time.Unix(1_500_000_000, 0)

func newXWorld(sc *XScenario) *xworld {
	return &xworld{world: newWorld(sc.half()), xs: sc, streams: map[int]*xstream{},
		dialled: map[int]int{}, failed: map[int]int{}, ready: map[int]int{}, spareClosed: map[int]int{}}
}

// curX is the running case (one at a time: retryMu).
var curX atomic.Pointer[xworld]

// xCtor is the constructor registered for token tok.
func xCtor(tok string) client.InitImpl {
	return func(ctx context.Context, d client.Destination) (client.Impl, error) {
		w := curX.Load()
		if w == nil {
			return nil, errors.New("clientprop: no scenario is running")
		}
		w.mu.Lock()
		att := w.nBegin - 1 // constructors run inside the underlying Subscribe
		if att < 0 {
			att = 0
		}
		o := w.xs.attempt(att).outcome(tok)
		w.dialled[att]++
		w.events = append(w.events, event{Kind: "dial", Attempt: att, At: w.now(), Note: tok})
		aborted := w.aborted
		w.mu.Unlock()
		if aborted {
			<-w.never
		}
		fail := func(err error) (client.Impl, error) {
			w.mu.Lock()
			w.failed[att]++
			w.mu.Unlock()
			return nil, err
		}
		if err := ctx.Err(); err != nil {
			return fail(err)
		}
		timeout := d.Timeout
		if timeout <= 0 {
			timeout = defaultTimeout
		}
		delay := time.Duration(o.ConnDelay) * Unit
		bad := o.Conn == "err"
		var ferr error = errScriptConnect
		if o.Conn == "park" || delay > timeout {
			delay, bad, ferr = timeout, true, errScriptTimeout
		}
		if !wait(ctx, nil, delay) {
			return fail(ctx.Err())
		}
		if bad {
			return fail(fmt.Errorf("type %s: %w", tok, ferr))
		}
		im := &ximpl{w: w, attempt: att, tok: tok, ctx: ctx, closed: make(chan struct{})}
		im.closeOnce = onceFunc(func() {
			w.mu.Lock()
			w.events = append(w.events, event{Kind: "impl-close", Attempt: att, At: w.now(), Note: tok})
			if im.nh != nil && im.stream == nil {
				w.spareClosed[att]++
			}
			w.mu.Unlock()
			close(im.closed)
		})
		w.record("connected", att, tok)
		return im, nil
	}
}

func onceFunc(f func()) func() {
	done := make(chan struct{}, 1)
	done <- struct{}{}
	return func() {
		select {
		case <-done:
			f()
		default:
		}
	}
}

func (i *ximpl) Subscribe(ctx context.Context, q client.Query) error {
	w := i.w
	if w.isAborted() {
		<-w.never
	}
	if err := ctx.Err(); err != nil {
		w.mu.Lock()
		w.failed[i.attempt]++
		w.mu.Unlock()
		return err
	}
	if w.xs.attempt(i.attempt).outcome(i.tok).Sub == "err" {
		w.mu.Lock()
		w.failed[i.attempt]++
		w.mu.Unlock()
		return fmt.Errorf("type %s: %w", i.tok, errScriptSubscribe)
	}
	w.mu.Lock()
	i.nh = q.NotificationHandler
	w.ready[i.attempt]++
	w.events = append(w.events, event{Kind: "subscribed", Attempt: i.attempt, At: w.now(), Note: i.tok})
	w.mu.Unlock()
	return nil
}

func (i *ximpl) Poll() error { return nil }

func (i *ximpl) Close() error {
	i.closeOnce()
	return nil
}

func (i *ximpl) isClosed() bool {
	select {
	case <-i.closed:
		return true
	default:
		return false
	}
}

// Recv mirrors impl.Recv of double.go (context before closed flag; Close and
// cancellation interrupt every wait).
func (i *ximpl) Recv() (err error) {
	w := i.w
	if w.isAborted() {
		<-w.never
	}
	w.mu.Lock()
	st := w.streams[i.attempt]
	if st == nil {
		st = &xstream{attempt: i.attempt, script: w.xs.attempt(i.attempt)}
		w.streams[i.attempt] = st
	}
	i.stream = st
	st.reading = true
	w.mu.Unlock()
	defer func() {
		if err != nil {
			w.record("recv-end", i.attempt, err.Error())
		}
	}()
	for {
		if cerr := i.ctx.Err(); cerr != nil {
			return cerr
		}
		if i.isClosed() {
			return errTransportClosed
		}
		if st.next < len(st.script.Msgs) {
			m := st.script.Msgs[st.next]
			if !st.waited {
				if !wait(i.ctx, i.closed, time.Duration(m.Delay)*Unit) {
					continue
				}
				st.waited = true
			}
			st.next++
			st.waited = false
			return i.deliver(st, m)
		}
		if st.script.End == "block" {
			select {
			case <-i.ctx.Done():
			case <-i.closed:
			}
			continue
		}
		if !st.endWaited {
			if !wait(i.ctx, i.closed, time.Duration(st.script.EndDelay)*Unit) {
				continue
			}
			st.endWaited = true
		}
		switch st.script.End {
		case "eof":
			return io.EOF
		case "stop":
			return client.ErrStopReading
		default:
			return errScriptRecv
		}
	}
}

// deliver hands one message to the handler of the query, value by value, and
// checks after each hand-over call that the application's handler received
// exactly that value during the call.
func (i *ximpl) deliver(st *xstream, m XMsg) error {
	w := i.w
	w.mu.Lock()
	w.nextMsg++
	msg := w.nextMsg
	w.curMsg = msg
	st.delivered++
	first := !st.announced
	st.announced = true
	w.events = append(w.events, event{Kind: "msg", Attempt: st.attempt, At: w.now(), Note: fmt.Sprint(msg)})
	w.mu.Unlock()
	if i.nh == nil {
		return fmt.Errorf("query without NotificationHandler reached the Impl")
	}
	hand := func(n client.Notification, rc *xrecv) error {
		r := xrender(n)
		w.mu.Lock()
		w.handed = append(w.handed, r)
		k := len(w.handed)
		if rc != nil {
			rc.stream = st.attempt
			w.received = append(w.received, *rc)
		}
		w.mu.Unlock()
		err := i.nh(n)
		w.mu.Lock()
		if w.lost == "" && (len(w.got) != k || w.got[k-1] != r) {
			if len(w.got) < k {
				w.lost = fmt.Sprintf("%s (value %d the transport handed to the query's handler, stream of attempt %d, message %d) did not reach the application's NotificationHandler: when the hand-over call returned (%v) the application had received %d values", r, k, st.attempt, msg, err, len(w.got))
			} else {
				w.lost = fmt.Sprintf("hand-over %d was %s (stream of attempt %d, message %d) but the application's NotificationHandler had received %d values by the end of the call, the %d-th being %s", k, r, st.attempt, msg, len(w.got), k, w.got[k-1])
			}
		}
		w.mu.Unlock()
		return err
	}
	if first {
		if err := hand(client.Connected{}, nil); err != nil {
			return err
		}
	}
	for _, n := range m.Notes {
		w.mu.Lock()
		w.nextID++
		id := w.nextID
		w.mu.Unlock()
		ts := xEpoch.Add(time.Duration(n.TS) * time.Second)
		var err error
		switch n.Kind {
		case "update":
			p := xPaths[n.Path]
			err = hand(client.Update{Path: append(client.Path{}, p...), TS: ts, Val: id}, &xrecv{kind: "update", path: p, ts: ts, val: id})
		case "delete":
			p := xPaths[n.Path]
			err = hand(client.Delete{Path: append(client.Path{}, p...), TS: ts, Val: id}, &xrecv{kind: "delete", path: p, ts: ts, val: id})
		default:
			err = hand(client.Sync{}, nil)
		}
		if err != nil {
			return err
		}
	}
	return nil
}

func xrender(n client.Notification) string {
	switch v := n.(type) {
	case client.Connected:
		return "Connected"
	case client.Sync:
		return "Sync"
	case client.Update:
		return fmt.Sprintf("Update{%s @%d val %v}", strings.Join(v.Path, "/"), v.TS.Unix()-xEpoch.Unix(), v.Val)
	case client.Delete:
		return fmt.Sprintf("Delete{%s @%d val %v}", strings.Join(v.Path, "/"), v.TS.Unix()-xEpoch.Unix(), v.Val)
	}
	return fmt.Sprintf("%#v", n)
}

// app is the application's NotificationHandler.
func (w *xworld) app(n client.Notification) error {
	id := 0
	switch v := n.(type) {
	case client.Update:
		id, _ = v.Val.(int)
	case client.Delete:
		id, _ = v.Val.(int)
	}
	w.mu.Lock()
	w.got = append(w.got, xrender(n))
	w.seenLog = append(w.seenLog, seen{msg: w.curMsg, id: id, seq: len(w.events)})
	w.mu.Unlock()
	return nil
}

// ownRegistry makes "a", "b", "c" the only registered client types and returns
// the function that puts the registry of the other parts back.
func ownRegistry() (restore func()) {
	client.ResetRegisteredImpls()
	for _, tok := range xRegistered {
		client.RegisterTest(xTypeNames[tok], xCtor(tok))
	}
	return func() {
		client.ResetRegisteredImpls()
		client.Register(gclient.Type, gclient.New) // as the init function of client/gnmi does
		registerScripted()
		client.RegisterTest(realTrapType, realTrapCtor)
		client.RegisterTest(realConnType, realConnCtor)
	}
}

// ---------------------------------------------------------------------------
// runner
// ---------------------------------------------------------------------------

// runXBubble executes one case in its own bubble (conventions of runBubble).
func runXBubble(t *testing.T, sc *XScenario, part string) (st *stats, err error) {
	st = &stats{}
	if verr := sc.validate(); verr != nil {
		return st, newVerr("harness-error", "invalid scenario: %v", verr)
	}
	register()
	retryMu.Lock()
	defer retryMu.Unlock()
	ob, om, or := client.RetryBaseDelay, client.RetryMaxDelay, client.RetryRandomization
	defer func() { client.RetryBaseDelay, client.RetryMaxDelay, client.RetryRandomization = ob, om, or }()
	client.RetryBaseDelay = time.Duration(sc.BaseDelay) * Unit
	client.RetryMaxDelay = time.Duration(sc.MaxDelay) * Unit
	client.RetryRandomization = 0
	defer ownRegistry()()
	defer curX.Store(nil)
	defer func() {
		if r := recover(); r != nil {
			msg := fmt.Sprintf("goroutines of the case are still blocked after Close was called, the caller's context cancelled and every scripted stream released: %v", r)
			if err != nil {
				err = newVerr(classOf(err), "%s; additionally %s", err.Error(), msg)
			} else {
				err = newVerr("stuck-goroutines", "%s", msg)
			}
		}
	}()
	err = newVerr("harness-error", "bubble did not run")
	synctest.Test(t, func(*testing.T) {
		defer func() {
			if r := recover(); r != nil {
				err = newVerr("panic", "panic on the scenario goroutine: %v", r)
			}
		}()
		w := newXWorld(sc) // (inside the bubble: its channels belong to it)
		curX.Store(w)
		if v := runX(sc, w, st, part); v != nil {
			err = v
		} else {
			err = nil
		}
	})
	return st, err
}

// runX is the bubble body: a pure function of the scenario. It follows run()
// of half A step by step (without deaf transports and buffered messages).
func runX(sc *XScenario, w *xworld, st *stats, part string) *verr {
	h := w.sc
	var inner client.Client
	var cache *client.CacheClient
	if sc.Client == "cache" {
		cache = client.New()
		inner = cache
		st.label("cacheclient")
	} else {
		inner = &client.BaseClient{}
		st.label("baseclient")
	}
	var c client.Client
	switch {
	case sc.Plain:
		c = &traceClient{Client: inner, w: w.world}
		st.label("plain-client")
	default:
		var l string
		c, l = mkReconnect(&traceClient{Client: inner, w: w.world}, sc.NilCallbacks, sc.Callbacks,
			func() { w.record("disconnect", -1, "") },
			func() { w.record("reset", -1, "") })
		st.label(l)
	}
	ctx, cancel := context.WithCancel(context.Background())
	defer cancel()
	q := client.Query{
		Addrs:               []string{"c18"},
		Target:              "dev",
		Queries:             []client.Path{{"*"}},
		Type:                client.Stream,
		Timeout:             time.Duration(sc.Timeout) * Unit,
		NotificationHandler: w.app,
	}
	types := sc.typeNames()

	sleepUntil := func(at time.Duration) {
		if d := at - w.now(); d > 0 {
			time.Sleep(d)
		}
		synctest.Wait()
	}
	find := func(kind string) (event, bool) {
		w.mu.Lock()
		defer w.mu.Unlock()
		for _, e := range w.events {
			if e.Kind == kind {
				return e, true
			}
		}
		return event{}, false
	}
	subscribe := func() {
		w.record("sub-call", -1, fmt.Sprintf("types %q", types))
		go func() {
			err := guarded(func() error { return c.Subscribe(ctx, q, types...) })
			w.notePanic("Subscribe", err)
			w.record("ret", -1, fmt.Sprint(err))
		}()
		synctest.Wait()
	}
	closeClient := func() {
		w.record("close-call", -1, "")
		go func() {
			err := guarded(c.Close)
			w.notePanic("Close", err)
			w.mu.Lock()
			w.events = append(w.events, event{Kind: "close-ret", Attempt: -1, At: w.now(), Note: fmt.Sprint(err)})
			if w.closeRet < 0 {
				w.closeRet = len(w.events)
			}
			w.mu.Unlock()
		}()
		synctest.Wait()
	}

	var v *verr
	stopAt, subAt := h.stopInstant(), h.subInstant()
	stopFirst := stopAt < subAt
	var bound time.Duration
	earlier := 0
	stop := func() {
		w.mu.Lock()
		returned := false
		for _, e := range w.events {
			returned = returned || e.Kind == "ret"
		}
		nBegin, nEnd := w.nBegin, w.nEnd
		st.atStop, st.ended = nBegin, nEnd
		if nBegin > 0 {
			st.reconnects = nBegin - 1
		}
		cur := w.streams[nBegin-1]
		switch {
		case stopFirst:
			st.phase = "before-subscribe"
		case returned:
			st.phase = "after-return"
		case nBegin == nEnd:
			st.phase = "backoff"
		case cur == nil || !cur.reading:
			if nBegin == 1 {
				st.phase = "initial-connect"
			} else {
				st.phase = "reconnect-connect"
			}
		case cur.delivered == 0:
			st.phase = "before-first-message"
		case cur.next < len(cur.script.Msgs):
			st.phase = "streaming"
		default:
			st.phase = "streaming-idle"
		}
		w.mu.Unlock()
		k := nEnd
		if st.phase == "backoff" {
			k = nEnd - 1
		}
		if sc.Plain {
			bound = 0
		} else {
			bound, earlier = h.envelope(k), k
		}
		if returned && !sc.Plain && v == nil {
			e, _ := find("ret")
			v = newVerr("gave-up", "Subscribe of the reconnecting client returned (%s) at %v although the client was not closed and its context not cancelled (stop action due at %v); %d attempts begun, %d ended",
				e.Note, e.At, stopAt, nBegin, nEnd)
		}
		if sc.Stop == "close" {
			closeClient()
		} else {
			w.record("cancel", -1, "")
			cancel()
			synctest.Wait()
		}
	}

	if stopFirst {
		sleepUntil(stopAt)
		stop()
		sleepUntil(subAt)
		subscribe()
	} else {
		sleepUntil(subAt)
		subscribe()
		sleepUntil(stopAt)
		stop()
	}
	from := stopAt
	if subAt > from {
		from = subAt
	}
	sleepUntil(from + bound)
	deadline := from + bound

	ret, okRet := find("ret")
	cret, okClose := find("close-ret")
	if !okRet || (sc.Stop == "close" && !okClose) {
		horizon := w.now() + 4*time.Duration(sc.MaxDelay)*Unit + 2*libraryDefault
		sleepUntil(horizon)
		ret, okRet = find("ret")
		cret, okClose = find("close-ret")
		when := func(e event, ok bool) string {
			if ok {
				return fmt.Sprintf("returned at %v", e.At)
			}
			return fmt.Sprintf("had not returned at %v either", horizon)
		}
		if v == nil {
			v = newVerr("return-late", "clientType argument %q: stop action (%s, landed %s) at %v, Subscribe called at %v, current backoff interval %v (RetryBaseDelay %v, RetryMaxDelay %v, %d earlier backoffs), so both calls are due by %v: Subscribe %s",
				types, sc.Stop, st.phase, stopAt, subAt, bound, time.Duration(sc.BaseDelay)*Unit, time.Duration(sc.MaxDelay)*Unit, earlier, deadline, when(ret, okRet))
			if sc.Stop == "close" {
				v.msg += ", Close " + when(cret, okClose)
			}
		}
	}
	if v == nil {
		switch {
		case ret.At > deadline:
			v = newVerr("return-late", "Subscribe returned at %v, later than %v = later of stop action (%s, landed %s, at %v) and Subscribe call (%v) + current backoff interval %v", ret.At, deadline, sc.Stop, st.phase, stopAt, subAt, bound)
		case sc.Stop == "close" && cret.At > deadline:
			v = newVerr("return-late", "Close returned at %v, later than %v = its call (landed %s, at %v) + current backoff interval %v", cret.At, deadline, st.phase, stopAt, bound)
		}
	}
	if sc.Stop == "cancel" {
		at := w.now()
		closeClient()
		if _, ok := find("close-ret"); !ok && v == nil {
			v = newVerr("close-late", "Close called at %v after Subscribe had returned on a cancelled context has not returned", at)
		}
	}

	// End of the case: release everything the script may still hold.
	w.abort()
	cancel()
	synctest.Wait()

	var leaves client.Leaves
	if cache != nil && v == nil {
		leaves = cache.Leaves()
	}

	w.mu.Lock()
	defer w.mu.Unlock()
	st.attempts = w.nBegin
	st.msgs = w.nextMsg
	w.xlabels(st, part)
	fin := func(v *verr) *verr {
		v.msg += "\nhistory: " + w.dump()
		return v
	}
	if w.paniced != "" {
		// (takes precedence: what followed the panic is its consequence)
		return fin(newVerr("panic", "%s", w.paniced))
	}
	if v != nil {
		return fin(v)
	}
	if v = w.judge(st, stopAt); v != nil {
		return fin(v)
	}
	// the application received exactly what the transport handed over
	if w.lost != "" {
		return fin(newVerr("not-delivered", "%s\nhanded over:  %s\napplication:  %s", w.lost, strings.Join(w.handed, ", "), strings.Join(w.got, ", ")))
	}
	if len(w.got) != len(w.handed) {
		return fin(newVerr("not-delivered", "the transport handed %d values to the query's handler, the application's NotificationHandler received %d\nhanded over:  %s\napplication:  %s",
			len(w.handed), len(w.got), strings.Join(w.handed, ", "), strings.Join(w.got, ", ")))
	}
	if cache != nil {
		if v = w.judgeLeaves(leaves); v != nil {
			return fin(v)
		}
	}
	return nil
}

func isPrefix(p, q client.Path) bool { // p is a prefix of (or equal to) q
	if len(p) > len(q) {
		return false
	}
	for i := range p {
		if p[i] != q[i] {
			return false
		}
	}
	return true
}

// judgeLeaves: the part of "Leaves returns the current state of the received
// tree" that does not depend on which received value of a path wins.
// Called with w.mu held.
func (w *xworld) judgeLeaves(leaves client.Leaves) *verr {
	shown := map[string]bool{}
	for _, l := range leaves {
		key := strings.Join(l.Path, "/")
		shown[key] = true
		at := -1
		for i, r := range w.received {
			if r.kind == "update" && strings.Join(r.path, "/") == key && r.val == l.Val && r.ts.Equal(l.TS) {
				at = i
			}
		}
		if at < 0 {
			return newVerr("cache-leaves", "Leaves() shows %s = %v @%d, which no received Update carried", key, l.Val, l.TS.Unix()-xEpoch.Unix())
		}
		for _, r := range w.received[at+1:] {
			if r.kind == "delete" && isPrefix(r.path, l.Path) {
				return newVerr("cache-leaves", "Leaves() shows %s = %v although a Delete of %s was received after that Update", key, l.Val, strings.Join(r.path, "/"))
			}
		}
	}
	// presence: the latest received notification at or above the path is an
	// Update of the path itself; paths that ever met a notification of a
	// strictly longer path, or an Update of a strictly shorter one, are left
	// out (the tree refuses a leaf in place of a branch and vice versa).
	for _, p := range xPaths {
		key := strings.Join(p, "/")
		clean, present := true, false
		for _, r := range w.received {
			switch {
			case len(r.path) > len(p) && isPrefix(p, r.path):
				clean = false
			case len(r.path) < len(p) && isPrefix(r.path, p) && r.kind == "update":
				clean = false
			case r.kind == "update" && len(r.path) == len(p) && isPrefix(p, r.path):
				present = true
			case r.kind == "delete" && isPrefix(r.path, p):
				present = false
			}
		}
		if clean && present && !shown[key] {
			return newVerr("cache-leaves", "Leaves() does not show %s although its latest received notification is an Update (no Delete at or above it afterwards)", key)
		}
	}
	return nil
}

// xlabels derives the labels and the non-trivial rule. Called with w.mu held.
func (w *xworld) xlabels(st *stats, part string) {
	sc := w.xs
	kind := "close"
	if sc.Stop == "cancel" {
		kind = "cancel"
		st.label("ctx-cancel-instead-of-close")
	}
	st.label(kind + "-" + phaseLabel(st.phase))
	if !sc.Plain {
		switch {
		case st.reconnects >= 2:
			st.label("reconnect-count>=2")
			st.label("reconnect-count>=1")
		case st.reconnects >= 1:
			st.label("reconnect-count>=1")
		default:
			st.label("reconnect-count=0")
		}
	}
	// the clientType argument
	count := map[string]int{}
	unreg, distinct := 0, 0
	for _, t := range sc.Types {
		if count[t] == 0 {
			distinct++
		}
		count[t]++
		if !xIsRegistered(t) {
			unreg++
		}
	}
	repeated, nonadjacent, thrice := false, false, false
	for i, t := range sc.Types {
		if count[t] >= 2 {
			repeated = true
		}
		if count[t] >= 3 {
			thrice = true
		}
		for j := i + 2; j < len(sc.Types); j++ {
			if sc.Types[j] == t && sc.Types[i+1] != t {
				nonadjacent = true
			}
		}
	}
	switch {
	case len(sc.Types) == 0:
		st.label("types:none-given(every-registered-type)")
	case len(sc.Types) == 1:
		st.label("types:one")
	case !repeated:
		st.label("types:several-distinct")
	}
	if repeated {
		st.label("types:a-name-repeated")
	}
	if nonadjacent {
		st.label("types:a-name-repeated-not-adjacent")
	}
	if thrice {
		st.label("types:a-name-listed-3x")
	}
	if unreg > 0 && unreg < len(sc.Types) {
		st.label("types:unregistered-name-mixed-in")
	}
	if unreg > 0 && unreg == len(sc.Types) {
		st.label("types:only-unregistered-names")
	}
	if count[""] > 0 {
		st.label("types:empty-name")
	}
	if len(sc.Types) > 0 && sc.Types[0] != "a" && distinct >= 2 {
		st.label("types:order-permuted")
	}
	// what the attempts did, as observed
	allFailed := false
	for att := 0; att < w.nEnd; att++ {
		n := w.dialled[att]
		switch {
		case w.ready[att] == 0:
			st.label("attempt:every-listed-type-fails")
			allFailed = true
			if repeated {
				st.label("attempt:every-listed-type-fails,a-name-repeated")
			}
		case w.ready[att] >= 2:
			st.label("attempt:two-or-more-impls-ready")
			if w.spareClosed[att] > 0 {
				st.label("attempt:spare-impl-closed")
			}
		case n >= 2:
			st.label("attempt:one-type-wins-the-others-fail")
		}
	}
	// content, as the cache layer sees it
	last := map[string]xrecv{}
	deleted := map[string]bool{}
	streams := 0
	interesting := false
	for _, r := range w.handed {
		if r == "Connected" {
			streams++
		}
	}
	if streams >= 2 {
		st.label("content:two-or-more-streams-delivered")
	}
	for _, r := range w.received {
		key := strings.Join(r.path, "/")
		switch r.kind {
		case "update":
			if old, ok := last[key]; ok {
				st.label("content:path-updated-again")
				switch {
				case r.ts.Before(old.ts):
					st.label("content:older-timestamp-than-cached")
					if r.stream != old.stream {
						st.label("content:older-timestamp-than-cached-from-an-earlier-stream")
					}
					interesting = true
				case r.ts.Equal(old.ts):
					st.label("content:same-timestamp-as-cached")
					interesting = true
				default:
					st.label("content:newer-timestamp-than-cached")
				}
			} else if deleted[key] {
				st.label("content:update-after-delete")
				interesting = true
			}
			for k := range last {
				if k != key && (strings.HasPrefix(k, key+"/") || strings.HasPrefix(key, k+"/")) {
					st.label("content:leaf-versus-branch")
				}
			}
			last[key] = r
			delete(deleted, key)
		case "delete":
			hit := false
			for k := range last {
				if k == key || strings.HasPrefix(k, key+"/") {
					hit = true
					if k != key {
						st.label("content:delete-of-a-subtree")
					}
					delete(last, k)
					deleted[k] = true
				}
			}
			if hit {
				st.label("content:delete-of-cached-path")
			} else {
				st.label("content:delete-of-uncached-path")
			}
			deleted[key] = true
		}
	}
	if part == "content" {
		st.nontriv = interesting
	} else {
		st.nontriv = allFailed && (len(sc.Types) == 0 || repeated || unreg > 0)
	}
	if st.nontriv {
		st.label("nontrivial")
	}
}
