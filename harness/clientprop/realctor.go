package clientprop

import (
	"context"
	"fmt"
	"math"
	"net"

	"github.com/openconfig/gnmi/client"
	gclient "github.com/openconfig/gnmi/client/gnmi"
	"google.golang.org/grpc"
	"google.golang.org/grpc/credentials"
	"google.golang.org/grpc/credentials/insecure"
)

// Every exported constructor of the real transport (part "real").
//
// client/gnmi exports two ways to make its client.Impl:
//
//	gnmi.New(ctx, d)               dials d itself (grpc.DialContext, blocking, bounded by
//	                               d.Timeout) and wraps the connection; registered by the
//	                               package's init function as client type "gnmi".
//	gnmi.NewFromConn(ctx, conn, d) wraps a *grpc.ClientConn the CALLER dialled; used by
//	                               applications that register a client type of their own
//	                               (client.Register) whose constructor dials in its own way.
//
// (ToSubscribeRequest is a variable holding the request builder, not a
// constructor; nothing else in the package yields an Impl.)
//
// RScenario.Ctor chooses, for every Subscribe call of a case, which of the two
// made the transport: "" = gnmi.New (client type "gnmi", or the trap type that
// only calls gnmi.New), "from-conn" = realConnType below, an application-
// registered type that dials and hands the connection to gnmi.NewFromConn. The
// generic client (BaseClient / CacheClient, plain or under client.Reconnect)
// owes the same for both: the oracles do not look at Ctor.

const realConnType = "c18-gnmi-from-conn"

var realCtors = []string{"", "from-conn"}

func knownRealCtor(c string) bool {
	for _, k := range realCtors {
		if k == c {
			return true
		}
	}
	return false
}

// realConnCtor is the constructor registered as realConnType: what an
// application that dials for itself does. The dial is the one gnmi.New makes
// (blocking, bounded by the destination's timeout, TLS or not, the tunnel
// connection if one was handed in); the traps of the dial are kept.
func realConnCtor(ctx context.Context, d client.Destination) (client.Impl, error) {
	w := curReal.Load()
	if w != nil {
		w.trap("pre-dial")
	}
	if d.TunnelConn == nil && len(d.Addrs) != 1 {
		return nil, fmt.Errorf("destination needs exactly one address: %v", d.Addrs)
	}
	opts := []grpc.DialOption{
		grpc.WithBlock(),
		grpc.WithDefaultCallOptions(grpc.MaxCallRecvMsgSize(math.MaxInt32)),
	}
	if d.TLS == nil {
		opts = append(opts, grpc.WithTransportCredentials(insecure.NewCredentials()))
	} else {
		opts = append(opts, grpc.WithTransportCredentials(credentials.NewTLS(d.TLS)))
	}
	if d.TunnelConn != nil {
		opts = append(opts, grpc.WithContextDialer(func(context.Context, string) (net.Conn, error) {
			return d.TunnelConn, nil
		}))
	}
	dctx, cancel := context.WithTimeout(ctx, d.Timeout)
	defer cancel()
	addr := ""
	if len(d.Addrs) != 0 {
		addr = d.Addrs[0]
	}
	conn, err := grpc.DialContext(dctx, addr, opts...)
	if err != nil {
		return nil, fmt.Errorf("Dialer(%s, %v): %v", addr, d.Timeout, err)
	}
	impl, err := gclient.NewFromConn(ctx, conn, d)
	if err != nil {
		conn.Close()
		return nil, err
	}
	if w != nil {
		w.trap("post-dial")
	}
	return impl, nil
}
