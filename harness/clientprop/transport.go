package clientprop

import (
	"context"
	"fmt"
	"net"
	"strconv"
	"strings"
	"sync"
	"time"

	"github.com/openconfig/gnmi/client"
	gclient "github.com/openconfig/gnmi/client/gnmi"
	gpb "github.com/openconfig/gnmi/proto/gnmi"
	"google.golang.org/grpc"
	"google.golang.org/grpc/codes"
	"google.golang.org/grpc/status"
)

// TMsg is one SubscribeResponse of a scripted connection: a sync marker, or a
// notification with Upd updates and Del deletes (paths carry connection,
// message and entry index, so every notification is distinguishable).
type TMsg struct {
	Sync bool `json:"sync,omitempty"`
	Upd  int  `json:"upd,omitempty"`
	Del  int  `json:"del,omitempty"`
}

// TConn scripts one connection: the responses sent, then the handler returns
// an error ("err") or nil ("eof").
type TConn struct {
	Msgs []TMsg `json:"msgs,omitempty"`
	End  string `json:"end"`
}

// TScenario is one case of half B. Connections after the scripted ones stay
// open and silent until the client goes away.
type TScenario struct {
	Client string  `json:"client"` // "base" | "cache"
	Conns  []TConn `json:"conns"`
}

func (sc *TScenario) validate() error {
	if sc.Client != "base" && sc.Client != "cache" {
		return fmt.Errorf("client %q", sc.Client)
	}
	if len(sc.Conns) == 0 || len(sc.Conns) > 32 {
		return fmt.Errorf("%d connections", len(sc.Conns))
	}
	for i, c := range sc.Conns {
		if c.End != "err" && c.End != "eof" {
			return fmt.Errorf("connection %d end %q", i, c.End)
		}
		for _, m := range c.Msgs {
			if m.Upd < 0 || m.Del < 0 || m.Upd > 64 || m.Del > 64 || (!m.Sync && m.Upd+m.Del == 0) {
				return fmt.Errorf("connection %d message %+v", i, m)
			}
		}
	}
	return nil
}

// expected number of notifications (other than Connected) the handler receives.
func (sc *TScenario) expected() int {
	n := 0
	for _, c := range sc.Conns {
		for _, m := range c.Msgs {
			if m.Sync {
				n++
			} else {
				n += m.Upd + m.Del
			}
		}
	}
	return n
}

type tstats struct {
	streams   int // streams on which the handler received something
	conns     int
	received  int
	labels    map[string]bool
	nontriv   bool
	guardSkip bool
}

func (s *tstats) label(l string) {
	if s.labels == nil {
		s.labels = map[string]bool{}
	}
	s.labels[l] = true
}

func (s *tstats) labelList() []string {
	out := make([]string, 0, len(s.labels))
	for l := range s.labels {
		out = append(out, l)
	}
	return out
}

// scriptServer is the in-process gNMI server.
type scriptServer struct {
	gpb.UnimplementedGNMIServer
	sc     *TScenario
	mu     sync.Mutex
	conns  int
	parked chan struct{} // closed when the first unscripted connection arrives
	once   sync.Once
}

func (s *scriptServer) Subscribe(stream gpb.GNMI_SubscribeServer) error {
	if _, err := stream.Recv(); err != nil {
		return err
	}
	s.mu.Lock()
	idx := s.conns
	s.conns++
	s.mu.Unlock()
	if idx >= len(s.sc.Conns) {
		s.once.Do(func() { close(s.parked) })
		<-stream.Context().Done()
		return stream.Context().Err()
	}
	c := s.sc.Conns[idx]
	for mi, m := range c.Msgs {
		var r *gpb.SubscribeResponse
		if m.Sync {
			r = &gpb.SubscribeResponse{Response: &gpb.SubscribeResponse_SyncResponse{SyncResponse: true}}
		} else {
			n := &gpb.Notification{Timestamp: int64(1000*idx + mi + 1), Prefix: &gpb.Path{Target: "dev"}}
			for k := 0; k < m.Upd; k++ {
				n.Update = append(n.Update, &gpb.Update{
					Path: tagPath(idx, mi, "u", k),
					Val:  &gpb.TypedValue{Value: &gpb.TypedValue_IntVal{IntVal: int64(1000000*idx + 1000*mi + k)}},
				})
			}
			for k := 0; k < m.Del; k++ {
				n.Delete = append(n.Delete, tagPath(idx, mi, "d", k))
			}
			r = &gpb.SubscribeResponse{Response: &gpb.SubscribeResponse_Update{Update: n}}
		}
		if err := stream.Send(r); err != nil {
			return err
		}
	}
	if c.End == "err" {
		return status.Error(codes.Unavailable, "scripted stream failure")
	}
	return nil
}

func tagPath(conn, msg int, kind string, k int) *gpb.Path {
	return &gpb.Path{Elem: []*gpb.PathElem{{Name: "c" + strconv.Itoa(conn)}, {Name: "m" + strconv.Itoa(msg)}, {Name: kind + strconv.Itoa(k)}}}
}

// tok is one thing the application observed, in the order observed.
type tok struct {
	kind           string // connected | sync | u | d | disconnect | reset | other
	conn, msg, idx int
	raw            string
}

func parseTag(p client.Path, val any, isUpdate bool) tok {
	// target "dev" first (from the prefix), then c<conn> m<msg> <kind><idx>
	t := tok{kind: "other", raw: fmt.Sprintf("%v=%v", p, val)}
	if len(p) != 4 || p[0] != "dev" || len(p[1]) < 2 || len(p[2]) < 2 || len(p[3]) < 2 {
		return t
	}
	c, e1 := strconv.Atoi(p[1][1:])
	m, e2 := strconv.Atoi(p[2][1:])
	k, e3 := strconv.Atoi(p[3][1:])
	if p[1][0] != 'c' || p[2][0] != 'm' || e1 != nil || e2 != nil || e3 != nil {
		return t
	}
	kind := p[3][:1]
	if (kind == "u") != isUpdate || (kind != "u" && kind != "d") {
		return t
	}
	if isUpdate {
		if v, ok := val.(int64); !ok || v != int64(1000000*c+1000*m+k) {
			return t
		}
	}
	t.kind, t.conn, t.msg, t.idx = kind, c, m, k
	return t
}

// guard bounds the real time one case may take; its expiry is inconclusive.
var transportGuard = 30 * time.Second

// errInconclusive marks a case whose completion was not observed in time.
type errInconclusive struct{ what string }

func (e *errInconclusive) Error() string { return e.what }

// runTransport executes one case of half B over real sockets.
func runTransport(sc *TScenario) (st *tstats, err error) {
	st = &tstats{}
	defer func() {
		if r := recover(); r != nil {
			err = newVerr("panic", "panic: %v", r)
		}
	}()
	if verr := sc.validate(); verr != nil {
		return st, newVerr("harness-error", "invalid scenario: %v", verr)
	}
	retryMu.Lock()
	defer retryMu.Unlock()
	ob, om, or := client.RetryBaseDelay, client.RetryMaxDelay, client.RetryRandomization
	defer func() { client.RetryBaseDelay, client.RetryMaxDelay, client.RetryRandomization = ob, om, or }()
	client.RetryBaseDelay, client.RetryMaxDelay, client.RetryRandomization = time.Millisecond, 2*time.Millisecond, 0

	lis, lerr := net.Listen("tcp", "127.0.0.1:0")
	if lerr != nil {
		return st, &errInconclusive{"listen: " + lerr.Error()}
	}
	srv := grpc.NewServer()
	ss := &scriptServer{sc: sc, parked: make(chan struct{})}
	gpb.RegisterGNMIServer(srv, ss)
	go srv.Serve(lis)
	defer srv.Stop()

	var (
		mu       sync.Mutex
		trace    []tok
		received int
	)
	want := sc.expected()
	all := make(chan struct{})
	if want == 0 {
		close(all)
	}
	handler := func(n client.Notification) error {
		var t tok
		switch v := n.(type) {
		case client.Connected:
			t = tok{kind: "connected"}
		case client.Sync:
			t = tok{kind: "sync"}
		case client.Update:
			t = parseTag(v.Path, v.Val, true)
		case client.Delete:
			t = parseTag(v.Path, nil, false)
		default:
			t = tok{kind: "other", raw: fmt.Sprintf("%#v", n)}
		}
		mu.Lock()
		trace = append(trace, t)
		if t.kind != "connected" {
			received++
			if received == want {
				close(all)
			}
		}
		mu.Unlock()
		return nil
	}
	var inner client.Client
	if sc.Client == "cache" {
		inner = client.New()
		st.label("cacheclient")
	} else {
		inner = &client.BaseClient{}
		st.label("baseclient")
	}
	rc := client.Reconnect(inner,
		func() { mu.Lock(); trace = append(trace, tok{kind: "disconnect"}); mu.Unlock() },
		func() { mu.Lock(); trace = append(trace, tok{kind: "reset"}); mu.Unlock() })
	q := client.Query{
		Addrs:               []string{lis.Addr().String()},
		Target:              "dev",
		Queries:             []client.Path{{"*"}},
		Type:                client.Stream,
		Timeout:             10 * time.Second,
		NotificationHandler: handler,
	}
	ctx, cancel := context.WithCancel(context.Background())
	defer cancel()
	subDone := make(chan error, 1)
	go func() { subDone <- rc.Subscribe(ctx, q, gclient.Type) }()

	guard := time.NewTimer(transportGuard)
	defer guard.Stop()
	expired := ""
	// completion: every scripted notification has reached the handler and the
	// client has come back after the last scripted stream ended
	for _, ch := range []chan struct{}{all, ss.parked} {
		select {
		case <-ch:
		case err := <-subDone:
			rc.Close()
			return st, newVerr("gave-up", "Subscribe of the reconnecting client returned (%v) before it was closed", err)
		case <-guard.C:
			expired = "completion not observed"
		}
		if expired != "" {
			break
		}
	}
	closed := make(chan struct{})
	go func() { rc.Close(); close(closed) }()
	if expired == "" {
		select {
		case <-subDone:
		case <-guard.C:
			expired = "Subscribe did not return after Close"
		}
	}
	if expired == "" {
		select {
		case <-closed:
		case <-guard.C:
			expired = "Close did not return"
		}
	}
	mu.Lock()
	got := append([]tok(nil), trace...)
	mu.Unlock()
	if expired != "" {
		mu.Lock()
		r := received
		mu.Unlock()
		st.guardSkip = true
		return st, &errInconclusive{fmt.Sprintf("%s within %v of real time (%d of %d notifications received, %d connections served)", expired, transportGuard, r, want, ss.connCount())}
	}
	st.conns = ss.connCount()
	st.received = want
	return st, judgeTransport(sc, got, st)
}

func (s *scriptServer) connCount() int {
	s.mu.Lock()
	defer s.mu.Unlock()
	return s.conns
}

// judgeTransport is the order oracle: the trace is cut into streams at the
// disconnect callbacks (handler and callbacks all run on the Subscribe
// goroutine, so the trace is totally ordered). On every stream on which the
// application received anything, Connected is first; the other notifications
// are those of one scripted connection, message by message in the order sent
// (within one message: updates in their order, deletes in their order);
// streams follow the order of the server's connections.
func judgeTransport(sc *TScenario, trace []tok, st *tstats) error {
	var streams [][]tok
	cur := []tok{}
	for _, t := range trace {
		switch t.kind {
		case "disconnect":
			streams = append(streams, cur)
			cur = []tok{}
		case "reset":
		case "other":
			return newVerr("order", "the handler received a notification the server never sent: %s", t.raw)
		default:
			cur = append(cur, t)
		}
	}
	if len(cur) > 0 {
		streams = append(streams, cur)
	}
	lastConn := -1
	seenConn := map[int]bool{}
	for si, s := range streams {
		if len(s) == 0 {
			continue
		}
		st.streams++
		if s[0].kind != "connected" {
			return newVerr("connected-first", "stream %d: the first notification is %s, not Connected; stream: %s", si, render(s[0]), renderAll(s))
		}
		data := s[1:]
		// which scripted connection is this?
		conn := -1
		for _, t := range data {
			if t.kind == "u" || t.kind == "d" {
				conn = t.conn
				break
			}
		}
		if conn < 0 {
			// only sync markers (they carry no tag): this must be the next scripted connection that sends anything
			for c := lastConn + 1; c < len(sc.Conns); c++ {
				if len(sc.Conns[c].Msgs) == 0 {
					continue
				}
				conn = c
				break
			}
		}
		if conn < 0 || conn >= len(sc.Conns) {
			return newVerr("order", "stream %d carries notifications of no scripted connection: %s", si, renderAll(s))
		}
		if conn <= lastConn || seenConn[conn] {
			return newVerr("order", "stream %d carries connection %d after connection %d was already delivered", si, conn, lastConn)
		}
		lastConn, seenConn[conn] = conn, true
		// expected groups
		pos := 0
		for mi, m := range sc.Conns[conn].Msgs {
			size := m.Upd + m.Del
			if m.Sync {
				size = 1
			}
			if pos+size > len(data) {
				return newVerr("order", "stream %d (connection %d): message %d incomplete or missing: got %s", si, conn, mi, renderAll(data[pos:]))
			}
			grp := data[pos : pos+size]
			pos += size
			if m.Sync {
				if grp[0].kind != "sync" {
					return newVerr("order", "stream %d (connection %d): expected the sync of message %d, got %s; stream: %s", si, conn, mi, render(grp[0]), renderAll(s))
				}
				continue
			}
			nu, nd := 0, 0
			for _, t := range grp {
				if (t.kind != "u" && t.kind != "d") || t.conn != conn || t.msg != mi {
					return newVerr("order", "stream %d (connection %d): within message %d got %s; stream: %s", si, conn, mi, render(t), renderAll(s))
				}
				if t.kind == "u" {
					if t.idx != nu {
						return newVerr("order", "stream %d (connection %d) message %d: update %d arrived in position %d", si, conn, mi, t.idx, nu)
					}
					nu++
				} else {
					if t.idx != nd {
						return newVerr("order", "stream %d (connection %d) message %d: delete %d arrived in position %d", si, conn, mi, t.idx, nd)
					}
					nd++
				}
			}
			if nu != m.Upd || nd != m.Del {
				return newVerr("order", "stream %d (connection %d) message %d: got %d updates and %d deletes, sent %d and %d", si, conn, mi, nu, nd, m.Upd, m.Del)
			}
		}
		if pos != len(data) {
			return newVerr("order", "stream %d (connection %d): %d notifications beyond what was sent: %s", si, conn, len(data)-pos, renderAll(data[pos:]))
		}
	}
	// labels / non-trivial
	withData := 0
	for _, c := range sc.Conns {
		if len(c.Msgs) > 0 {
			withData++
		}
		if c.End == "err" {
			st.label("stream-fails")
		} else {
			st.label("stream-ends")
		}
		if len(c.Msgs) == 0 {
			st.label("stream-without-data")
		}
		for _, m := range c.Msgs {
			switch {
			case m.Sync:
				st.label("sync")
			case m.Upd > 0 && m.Del > 0:
				st.label("updates-and-deletes-in-one-message")
			case m.Del > 0:
				st.label("deletes")
			case m.Upd > 1:
				st.label("multi-update-message")
			}
		}
	}
	if st.streams != withData {
		return newVerr("order", "%d scripted connections carried data but the application saw %d streams", withData, st.streams)
	}
	if st.streams >= 2 {
		st.label("reconnected-streams>=2")
		st.nontriv = true
	}
	return nil
}

func render(t tok) string {
	switch t.kind {
	case "u", "d":
		return fmt.Sprintf("c%d/m%d/%s%d", t.conn, t.msg, t.kind, t.idx)
	case "other":
		return "other(" + t.raw + ")"
	}
	return t.kind
}

func renderAll(ts []tok) string {
	parts := make([]string, 0, len(ts))
	for i, t := range ts {
		if i >= 40 {
			parts = append(parts, "...")
			break
		}
		parts = append(parts, render(t))
	}
	return "[" + strings.Join(parts, " ") + "]"
}
