package clientprop

import (
	"fmt"

	"github.com/openconfig/gnmi/client"
	"pgregory.net/rapid"
)

// The constructor arguments of client.Reconnect(c, disconnect, reset) as a
// generated dimension. Both callbacks are documented as optional ("it may be
// nil"), independently of each other, so every part that builds a reconnecting
// client draws one of the four combinations:
//
//	both given            NilCallbacks false, Callbacks ""
//	none given            NilCallbacks true,  Callbacks ""     Reconnect(c, nil, nil)
//	disconnect only       Callbacks "disconnect-only"          Reconnect(c, disconnect, nil)
//	reset only            Callbacks "reset-only"               Reconnect(c, nil, reset)
//
// (two fields because the older replay files carry nil_callbacks only.) The
// callback-discipline clause of the property - "invoking the disconnect
// callback once per ended attempt and the reset callback before each retry" -
// is judged for the callbacks that were GIVEN; a nil one is simply absent from
// the trace, and the discipline of the other is unchanged by its absence:
//
//	disconnect only: every ended attempt is followed by exactly one disconnect
//	                 call before the next attempt begins / Subscribe returns;
//	reset only:      between the end of an attempt and the begin of the next
//	                 attempt exactly one reset call, none before the first
//	                 attempt, none while an attempt runs.
//
// A panic of a call of the code under test (a nil callback invoked) is a
// violation of the termination clause: the call never returns.
const (
	cbDisconnectOnly = "disconnect-only"
	cbResetOnly      = "reset-only"
)

// callbacksGiven decodes the two scenario fields.
func callbacksGiven(nilCallbacks bool, callbacks string) (disc, reset bool) {
	switch {
	case callbacks == cbDisconnectOnly:
		return true, false
	case callbacks == cbResetOnly:
		return false, true
	case nilCallbacks:
		return false, false
	}
	return true, true
}

func validCallbacks(plain, nilCallbacks bool, callbacks string) error {
	switch callbacks {
	case "":
		return nil
	case cbDisconnectOnly, cbResetOnly:
		if plain || nilCallbacks {
			return fmt.Errorf("callbacks %q on a plain client / together with nil_callbacks", callbacks)
		}
		return nil
	}
	return fmt.Errorf("callbacks %q", callbacks)
}

// genCallbacks draws the combination for a reconnecting client: both callbacks
// half of the time, each of the other three combinations one time in six.
func genCallbacks(t *rapid.T) (nilCallbacks bool, callbacks string) {
	switch rapid.SampledFrom([]string{"both", "both", "both", "both", "both", "both", "none", "none", cbDisconnectOnly, cbDisconnectOnly, cbResetOnly, cbResetOnly}).Draw(t, "callbacks") {
	case "none":
		return true, ""
	case cbDisconnectOnly:
		return false, cbDisconnectOnly
	case cbResetOnly:
		return false, cbResetOnly
	}
	return false, ""
}

// mkReconnect builds the reconnecting client of a case; the label says which
// constructor arguments were nil.
func mkReconnect(inner client.Client, nilCallbacks bool, callbacks string, disconnect, reset func()) (client.Client, string) {
	d, r := callbacksGiven(nilCallbacks, callbacks)
	switch {
	case d && r:
		return client.Reconnect(inner, disconnect, reset), "reconnect-client"
	case d:
		return client.Reconnect(inner, disconnect, nil), "reconnect-disconnect-callback-only"
	case r:
		return client.Reconnect(inner, nil, reset), "reconnect-reset-callback-only"
	}
	return client.Reconnect(inner, nil, nil), "reconnect-nil-callbacks"
}

// panicError is what guarded returns for a call that panicked.
type panicError struct{ what string }

func (p *panicError) Error() string { return "PANIC: " + p.what }

// guarded runs one call of the code under test and turns a panic into an error
// value (a panic on a goroutine of the harness would kill the process before
// the case can be reported and shrunk).
func guarded(f func() error) (err error) {
	defer func() {
		if r := recover(); r != nil {
			err = &panicError{fmt.Sprint(r)}
		}
	}()
	return f()
}

// cbEv is one entry of a trace as the callback clause reads it. Kinds:
// sub-call, ret (a Subscribe call of the reconnecting client), sub-begin,
// sub-end (an underlying attempt), disconnect, reset. when is appended to the
// messages (" at 5ms" in the virtual-time parts, "" in the real-time ones).
type cbEv struct {
	kind    string
	attempt int
	when    string
}

// judgeCallbacks evaluates the callback-discipline clause for the callbacks
// that were given. perCall: the trace carries sub-call / ret events (several
// Subscribe calls on one client object) and nothing may happen outside a call;
// otherwise the trace is that of one Subscribe call.
func judgeCallbacks(evs []cbEv, hasDisc, hasReset, perCall bool) *verr {
	if !hasDisc && !hasReset {
		return nil
	}
	const (
		idle    = iota // before the first attempt / after reset
		running        // between sub-begin and sub-end
		ended          // after sub-end: disconnect due (if given)
		disc           // after disconnect: reset (if given) then retry, or return
		outside        // no Subscribe call is running
	)
	state, attempt, first := idle, -1, true
	if perCall {
		state = outside
	}
	for _, e := range evs {
		switch e.kind {
		case "sub-call":
			state, first = idle, true
		case "sub-begin":
			switch state {
			case idle:
			case disc:
				if hasReset {
					return newVerr("reset-discipline", "attempt %d began%s without a reset call after the disconnect of attempt %d", e.attempt, e.when, attempt)
				}
			case ended:
				if hasDisc {
					return newVerr("disconnect-discipline", "attempt %d began%s without a disconnect call for ended attempt %d", e.attempt, e.when, attempt)
				}
				// (only the reset callback was given)
				return newVerr("reset-discipline", "attempt %d began%s without a reset call after attempt %d had ended (want one before each retry)", e.attempt, e.when, attempt)
			case outside:
				return newVerr("attempt-outside-subscribe", "attempt %d began%s while no Subscribe call was running", e.attempt, e.when)
			default:
				return newVerr("harness-error", "attempt %d began while attempt %d was running", e.attempt, attempt)
			}
			state, attempt, first = running, e.attempt, false
		case "sub-end":
			state = ended
		case "disconnect":
			switch state {
			case ended:
				state = disc
			case disc, idle:
				return newVerr("disconnect-discipline", "disconnect called again%s for ended attempt %d (want once per ended attempt)", e.when, attempt)
			case running:
				return newVerr("disconnect-discipline", "disconnect called%s while attempt %d was still running", e.when, attempt)
			case outside:
				return newVerr("disconnect-discipline", "disconnect called%s while no Subscribe call was running", e.when)
			}
		case "reset":
			switch state {
			case disc:
				state = idle
			case ended:
				if hasDisc {
					return newVerr("reset-discipline", "reset called%s before the disconnect call for ended attempt %d", e.when, attempt)
				}
				state = idle // (only the reset callback was given)
			case idle:
				if first {
					return newVerr("reset-discipline", "reset called%s before the first attempt of a Subscribe call", e.when)
				}
				return newVerr("reset-discipline", "reset called twice%s before the retry after attempt %d", e.when, attempt)
			case running:
				return newVerr("reset-discipline", "reset called%s while attempt %d was running (want before the retry)", e.when, attempt)
			case outside:
				return newVerr("reset-discipline", "reset called%s while no Subscribe call was running", e.when)
			}
		case "ret":
			if state == ended && hasDisc {
				return newVerr("disconnect-discipline", "Subscribe returned%s without a disconnect call for ended attempt %d", e.when, attempt)
			}
			if state == running && perCall {
				return newVerr("harness-error", "Subscribe returned%s while attempt %d was running", e.when, attempt)
			}
			if perCall {
				state = outside
			}
		}
	}
	return nil
}

// cbEvents converts the history of a virtual-time case.
func cbEvents(events []event) []cbEv {
	out := make([]cbEv, 0, len(events))
	for _, e := range events {
		switch e.Kind {
		case "sub-call", "ret", "sub-begin", "sub-end", "disconnect", "reset":
			out = append(out, cbEv{kind: e.Kind, attempt: e.Attempt, when: fmt.Sprintf(" at %v", e.At)})
		}
	}
	return out
}

// notePanic remembers the first call of the code under test that panicked.
func (w *world) notePanic(what string, err error) {
	if p, ok := err.(*panicError); ok {
		w.mu.Lock()
		if w.paniced == "" {
			w.paniced = fmt.Sprintf("%s panicked at %v: %s", what, w.now(), p.what)
		}
		w.mu.Unlock()
	}
}
