package clientprop

import (
	"fmt"
	"os"
	"runtime"
	"strconv"
	"strings"
	"time"
)

// The hang verdict of part "real".
//
// The clause: once the stop action of a Subscribe call has been issued - the
// context it was given has ended (cancel function, deadline), or Close was
// called on a reconnecting client - the call returns. Real sockets force real
// time, so "has not returned yet" by itself decides nothing (the 30 s guard
// only ever yields INCONCLUSIVE). What decides is a STRUCTURAL look at the
// process, in the manner of guardedBubble (entry.go):
//
//	the call has not returned although its stop action was issued, AND the
//	process is QUIESCENT: nothing in it can take another step unless something
//	new is done to it from outside - and the harness, which is the only
//	outside there is, is doing nothing but look.
//
// Quiescent means, in one look (realQuiet):
//
//	(a) every goroutine of the process other than the looking one is parked on
//	    a channel, a select, a condition variable, a lock, a WaitGroup or in the
//	    network poller. A goroutine that is running, runnable, in a system call
//	    or in time.Sleep (the retry loop's backoff) means "not quiescent";
//	(b) no goroutine is inside a step that is bounded by a timer of its own and
//	    shows as a parked select: a dial (grpc.DialContext and the connection
//	    back-off below it run until Query.Timeout) or a trap of the harness;
//	(c) every TCP socket of the case (the listener's port, at either end; read
//	    from /proc/self/net/tcp) is LISTEN, ESTABLISHED or TIME_WAIT with an
//	    empty send queue (nothing unacknowledged, so nothing is in flight) and
//	    an empty receive queue (nothing has arrived that a parked reader has
//	    not been told about yet);
//	(d) (c) holds before and after (a)/(b) were read (goroutine states are read
//	    with the world stopped).
//
// and the verdict needs realQuietLooks consecutive quiescent looks, at least
// realQuietEvery apart, during which the trace did not grow.
//
// Soundness (why the unchanged client can never be caught in that state): a
// stop action is issued by calling a cancel function, by a runtime timer firing
// (deadline) or by starting a goroutine that calls Close - each of which leaves
// a RUNNABLE goroutine behind before it returns (closing a channel readies its
// waiters synchronously). From there the news travels only by (1) goroutines
// that run and ready others, (2) bytes written to a socket - visible as the
// sender's unacknowledged send queue, then as the receiver's unread receive
// queue until the parked reader has been woken and has read them, (3) timers.
// So at every instant between the stop action and the return of the call that
// honours it there is a runnable/running goroutine, a goroutine in a system
// call, or a non-empty socket queue, except while the only thing pending is a
// timer. The timers the unchanged client, gRPC and the harness arm on these
// paths are: the backoff sleep (state "sleep", excluded by (a)), the dial
// timeout (excluded by (b)), the harness's traps (excluded by (b)), the
// deadline of the caller's context (the harness waits for ctx.Done() before it
// starts looking) and HTTP/2 keepalive (hours). The scripted server is quiet
// by construction: a handler that holds a stream open waits for the end of
// the stream's context and for nothing else; a burst is a bounded number of
// messages. Hence quiescence with an unreturned, stopped call means the news of
// the stop action has reached everything it will ever reach and the call is
// still blocked: waiting longer cannot change it. The looks are paced by real
// time, but time decides nothing: a slow or preempted process is not
// quiescent (some goroutine is runnable), it is simply looked at again.
//
// If /proc/self/net/tcp cannot be read the structural verdict is unavailable
// and the 30 s guard (INCONCLUSIVE) is all there is.
const (
	realQuietLooks = 3
	realQuietEvery = 2 * time.Millisecond
	// realFast is how long a stopped call is simply waited for before the
	// harness starts looking (the unchanged client returns within microseconds).
	realFast = 20 * time.Millisecond
)

// parkedStates are the goroutine states (first word group of the header of a
// goroutine dump) that count as parked for (a).
var parkedStates = []string{
	"chan receive", "chan send", "select", "IO wait",
	"sync.Cond.Wait", "sync.Mutex.Lock", "sync.RWMutex.Lock", "sync.RWMutex.RLock", "sync.WaitGroup.Wait", "semacquire",
	"GC worker (idle)", "GC sweep wait", "GC scavenge wait", "finalizer wait", "force gc (idle)", "cleanup wait",
}

// timedFrames: a goroutine with one of these on its stack is inside a step
// bounded by a timer of its own (b).
var timedFrames = []string{
	"google.golang.org/grpc.DialContext",
	"google.golang.org/grpc.(*addrConn).resetTransport",
	"clientprop.(*rworld).trap",
}

// realSubscribeFrame marks the goroutines that run a Subscribe call of a case.
const realSubscribeFrame = "clientprop.(*rworld).runSubscribe"

// goroutinesQuiet reads the goroutines of the process ((a) and (b)). where
// renders the stacks of the goroutines running a Subscribe call of the case.
func goroutinesQuiet() (quiet bool, why string, where []string) {
	buf := make([]byte, 1<<22)
	buf = buf[:runtime.Stack(buf, true)]
	quiet = true
	for _, g := range strings.Split(string(buf), "\n\n") {
		m := bubbleGoroutineRE.FindStringSubmatch(g)
		if m == nil {
			continue
		}
		if strings.Contains(g, "clientprop.goroutinesQuiet") {
			continue // the looking goroutine
		}
		first := strings.SplitN(m[2], ",", 2)[0]
		if strings.Contains(g, realSubscribeFrame) {
			where = append(where, "["+first+"] "+frames(g))
		}
		if first == "syscall" && strings.Contains(g, "os/signal.signal_recv") {
			continue
		}
		parked := false
		for _, p := range parkedStates {
			if strings.HasPrefix(first, p) {
				parked = true
			}
		}
		if !parked {
			if quiet {
				why = "goroutine " + m[1] + " [" + first + "] " + frames(g)
			}
			quiet = false
			continue
		}
		for _, f := range timedFrames {
			if strings.Contains(g, f) {
				if quiet {
					why = "goroutine " + m[1] + " is inside " + f
				}
				quiet = false
			}
		}
	}
	return quiet, why, where
}

// socketsQuiet reads /proc/self/net/tcp ((c)) for the given local ports.
func socketsQuiet(ports []int) (quiet, known bool, why string) {
	data, err := os.ReadFile("/proc/self/net/tcp")
	if err != nil {
		return false, false, err.Error()
	}
	want := map[string]bool{}
	for _, p := range ports {
		want[fmt.Sprintf("%04X", p)] = true
	}
	lines := strings.Split(string(data), "\n")
	if len(lines) < 1 || !strings.Contains(lines[0], "tx_queue") {
		return false, false, "unexpected format of /proc/self/net/tcp"
	}
	for _, l := range lines[1:] {
		f := strings.Fields(l)
		if len(f) < 5 {
			continue
		}
		_, lp, ok1 := strings.Cut(f[1], ":")
		_, rp, ok2 := strings.Cut(f[2], ":")
		if !ok1 || !ok2 || (!want[lp] && !want[rp]) {
			continue
		}
		switch f[3] {
		case "0A", "01", "06": // LISTEN, ESTABLISHED, TIME_WAIT
		default:
			return false, true, "socket " + f[1] + "->" + f[2] + " in TCP state " + f[3]
		}
		if f[3] == "06" {
			continue
		}
		tx, rx, ok := strings.Cut(f[4], ":")
		if !ok {
			return false, false, "unexpected format of /proc/self/net/tcp"
		}
		t, e1 := strconv.ParseUint(tx, 16, 64)
		r, e2 := strconv.ParseUint(rx, 16, 64)
		if e1 != nil || e2 != nil {
			return false, false, "unexpected format of /proc/self/net/tcp"
		}
		if t != 0 || r != 0 {
			return false, true, fmt.Sprintf("socket %s->%s has %d bytes unacknowledged and %d bytes unread", f[1], f[2], t, r)
		}
	}
	return true, true, ""
}

// realQuiet is one look.
func realQuiet(ports []int) (quiet, known bool, why string, where []string) {
	q, known, why := socketsQuiet(ports)
	if !known || !q {
		return false, known, why, nil
	}
	gq, gwhy, where := goroutinesQuiet()
	if !gq {
		return false, true, gwhy, where
	}
	q, known, why = socketsQuiet(ports)
	return q && known, known, why, where
}
