package clientprop

import (
	"crypto/ecdsa"
	"crypto/elliptic"
	"crypto/rand"
	"crypto/tls"
	"crypto/x509"
	"crypto/x509/pkix"
	"fmt"
	"math/big"
	"net"
	"sync"
	"time"

	"github.com/openconfig/gnmi/client"
	gpb "github.com/openconfig/gnmi/proto/gnmi"
	"github.com/openconfig/grpctunnel/tunnel"
)

// Every field of client.Query (client/query.go) as a generated dimension. The
// fields, and where each is generated:
//
//	Addrs               required; the live server, or (Query "dead") a port nobody listens on        real
//	                    none at all (kind "no-addrs")                                                random, lifetime
//	AddressChains       opt "address-chains" (no transport of the repository reads it)               real, random, lifetime
//	Target              set, or opt "no-target" (empty: "an end target vs. a collector")              real, random, lifetime
//	Replica             opt "replica"                                                                real, random, lifetime
//	UpdatesOnly         opt "updates-only" (goes into the SubscribeRequest)                          real, random, lifetime
//	Queries             valid, six kinds of path the request builder rejects (RStep.Query), none     real / random, lifetime ("no-queries")
//	Type                Stream, Poll, Once (RStep.Type; query kinds "poll", "once", "unknown")       real / random, lifetime
//	Timeout             10 s, 30 ms on the dead address, opt "timeout-unset" (default 1 minute)       real; Scenario.Timeout in the virtual-time parts
//	NotificationHandler / ProtoHandler   opt "proto" (BaseClient only: a CacheClient installs its own) real; Scenario.Proto, kinds "no-handler", "two-handlers"
//	Credentials         opt "credentials" (per-RPC credentials; kind "bad-credentials")              real, random, lifetime
//	TLS                 RScenario.TLS (server and query); opt "tls" over the scripted transport      real / random, lifetime
//	Extra               opt "extra" ("arbitrary additional metadata to be passed to the target")     real, random, lifetime
//	SubReq              opt "subreq" (besides Queries), "subreq-only" (instead of them)              real, random, lifetime ("subreq-only" is a kind there)
//	TunnelConn          opts "tunnel-conn" / "tunnel-no-addrs" (Validate accepts a query without     real (plain clients: a TCP connection made by the
//	                    Addrs then); over the scripted transport a zero tunnel.Conn and the kind     harness is handed over as the one tunnel connection),
//	                    "tunnel-no-addrs"                                                            random, lifetime
//	Encoding            opt "encoding" (goes into the SubscribeRequest)                              real, random, lifetime
//
// The options change nothing in what the property demands: whatever the shape
// of a valid query, Subscribe and Close terminate, the callbacks keep their
// discipline and the notifications their order. (What the server receives -
// metadata, credentials, request fields - is not judged here.)

// realOpts are the options of part "real"; queryOpts those of the scripted
// transport (mkQueryOpts).
var (
	realOpts  = []string{"extra", "credentials", "replica", "updates-only", "address-chains", "encoding", "no-target", "subreq", "subreq-only", "proto", "timeout-unset", "tunnel-conn", "tunnel-no-addrs"}
	queryOpts = []string{"extra", "credentials", "replica", "updates-only", "address-chains", "encoding", "no-target", "subreq", "tls", "tunnel-conn"}
)

func knownOpt(list []string, o string) bool {
	for _, k := range list {
		if k == o {
			return true
		}
	}
	return false
}

func hasOpt(opts []string, o string) bool { return knownOpt(opts, o) }

func validRealShape(s RStep, plain bool) error {
	switch s.Type {
	case "", "poll":
	case "once":
		if !plain {
			return fmt.Errorf("a Once query under the reconnecting client (refused by documentation; see part random)")
		}
	default:
		return fmt.Errorf("query type %q", s.Type)
	}
	if len(s.Opts) > len(realOpts) {
		return fmt.Errorf("%d options", len(s.Opts))
	}
	for _, o := range s.Opts {
		if !knownOpt(realOpts, o) {
			return fmt.Errorf("query option %q", o)
		}
	}
	if (hasOpt(s.Opts, "tunnel-conn") || hasOpt(s.Opts, "tunnel-no-addrs")) && !plain {
		return fmt.Errorf("a tunnel connection (one connection) under the reconnecting client")
	}
	if hasOpt(s.Opts, "tunnel-conn") && hasOpt(s.Opts, "tunnel-no-addrs") {
		return fmt.Errorf("two tunnel options")
	}
	if hasOpt(s.Opts, "timeout-unset") && s.Query == "dead" {
		return fmt.Errorf("the dead address with the default timeout of one minute")
	}
	if !knownCtxKind(s.Ctx) {
		return fmt.Errorf("context shape %q", s.Ctx)
	}
	if s.Deadline < 0 || s.Deadline > 1000 || (s.Deadline != 0 && !ctxSelfEnding(s.Ctx)) {
		return fmt.Errorf("deadline %d", s.Deadline)
	}
	return nil
}

func subReqFor(target string, typ client.Type) *gpb.SubscribeRequest {
	mode := gpb.SubscriptionList_STREAM
	switch typ {
	case client.Poll:
		mode = gpb.SubscriptionList_POLL
	case client.Once:
		mode = gpb.SubscriptionList_ONCE
	}
	return &gpb.SubscribeRequest{Request: &gpb.SubscribeRequest_Subscribe{Subscribe: &gpb.SubscriptionList{
		Mode:         mode,
		Prefix:       &gpb.Path{Target: target},
		Subscription: []*gpb.Subscription{{Path: &gpb.Path{Elem: []*gpb.PathElem{{Name: "*"}}}}},
	}}}
}

// applyOpts sets the optional fields that do not depend on the transport. An
// option never turns a query that Query.Validate rejects (query.go) into a
// valid one: credentials are only added where there are none, a ready-made
// request only besides Queries, a tunnel connection only besides an address.
func applyOpts(q client.Query, opts []string, addr string) client.Query {
	for _, o := range opts {
		switch o {
		case "extra":
			q.Extra = map[string]string{"x-c18-case": "1", "x-collector": "lab-7"}
		case "credentials":
			if q.Credentials != nil {
				continue
			}
			q.Credentials = &client.Credentials{Username: "c18", Password: "not a secret"}
		case "replica":
			q.Replica = 2
		case "updates-only":
			q.UpdatesOnly = true
		case "address-chains":
			q.AddressChains = [][]string{{addr}, {"127.0.0.1:1", addr}}
		case "encoding":
			q.Encoding = gpb.Encoding_JSON_IETF
		case "no-target":
			q.Target = ""
		case "subreq":
			if len(q.Queries) == 0 {
				continue
			}
			q.SubReq = subReqFor(q.Target, q.Type)
		case "subreq-only":
			q.SubReq = subReqFor(q.Target, q.Type)
			q.Queries = nil
		case "tls":
			q.TLS = &tls.Config{InsecureSkipVerify: true}
		case "tunnel-conn":
			if q.TunnelConn == nil && len(q.Addrs) > 0 {
				q.TunnelConn = &tunnel.Conn{} // (scripted transport: nothing reads it)
			}
		}
	}
	return q
}

// mkQueryOpts: the options over the scripted transport (parts random,
// lifetime, entry). "no-target" before "subreq" so that the request agrees.
func mkQueryOpts(q client.Query, opts []string) client.Query {
	addr := "c18"
	if len(q.Addrs) > 0 {
		addr = q.Addrs[0]
	}
	return applyOpts(q, opts, addr)
}

// the certificate of the process (RScenario.TLS)
var (
	realCertOnce sync.Once
	realCert     tls.Certificate
	realCertErr  error
)

func realServerTLS() (*tls.Config, error) {
	realCertOnce.Do(func() {
		key, err := ecdsa.GenerateKey(elliptic.P256(), rand.Reader)
		if err != nil {
			realCertErr = err
			return
		}
		tmpl := &x509.Certificate{
			SerialNumber: big.NewInt(18),
			Subject:      pkix.Name{CommonName: "c18"},
			NotBefore:    time.Now().Add(-time.Hour),
			NotAfter:     time.Now().Add(24 * time.Hour),
			KeyUsage:     x509.KeyUsageDigitalSignature,
			ExtKeyUsage:  []x509.ExtKeyUsage{x509.ExtKeyUsageServerAuth},
			IPAddresses:  []net.IP{net.ParseIP("127.0.0.1")},
		}
		der, err := x509.CreateCertificate(rand.Reader, tmpl, tmpl, &key.PublicKey, key)
		if err != nil {
			realCertErr = err
			return
		}
		realCert = tls.Certificate{Certificate: [][]byte{der}, PrivateKey: key}
	})
	if realCertErr != nil {
		return nil, realCertErr
	}
	return &tls.Config{Certificates: []tls.Certificate{realCert}}, nil
}

func validQOpts(opts []string) error {
	if len(opts) > len(queryOpts) {
		return fmt.Errorf("%d query options", len(opts))
	}
	for _, o := range opts {
		if !knownOpt(queryOpts, o) {
			return fmt.Errorf("query option %q", o)
		}
	}
	return nil
}
