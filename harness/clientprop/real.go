package clientprop

import (
	"context"
	"crypto/tls"
	"fmt"
	"net"
	"os"
	"runtime"
	"strconv"
	"strings"
	"sync"
	"sync/atomic"
	"time"

	"github.com/openconfig/gnmi/client"
	gclient "github.com/openconfig/gnmi/client/gnmi"
	gpb "github.com/openconfig/gnmi/proto/gnmi"
	"github.com/openconfig/grpctunnel/tunnel"
	"google.golang.org/grpc"
	"google.golang.org/grpc/codes"
	"google.golang.org/grpc/credentials"
	"google.golang.org/grpc/status"
	"google.golang.org/protobuf/proto"
)

// Part "real": the lifecycle of half A (a generated SEQUENCE of Subscribe /
// cancel / Close calls on one client object) over the REAL gNMI transport
// (client/gnmi, the registered "gnmi" client type) against an in-process gRPC
// server on a loopback socket, instead of the scripted client.Impl. What the
// scripted transport cannot show is what the real one does when it is only
// half set up: the dial succeeded, but the Subscribe RPC cannot be established
// on the connection - the context is cancelled (or Close called) between the
// dial and the start of the RPC or between the start of the RPC and the first
// Send, the request builder rejects a query path (noticed only after the RPC
// was opened), the server refuses the RPC or closes the stream at once - and
// the generic client then closes that transport again.
//
// Real sockets force real time, so nothing here is judged by a clock:
//
//   - no panic (a panic on a goroutine of the client kills the process; the
//     scenario is announced beforehand and the driver reports the crash);
//   - every Subscribe and Close call returns: waited for with a generous guard
//     whose expiry makes the case INCONCLUSIVE, never a violation;
//   - order-only clauses on the recorded trace (one mutex; the callbacks, the
//     handler and the begin/end of every underlying attempt are recorded on the
//     goroutine that runs Subscribe, stop actions BEFORE they are issued, a
//     return of Close AFTER it happened): Subscribe of a reconnecting client
//     does not return unless a stop action (cancellation of its context, any
//     Close call) was issued first - it keeps retrying after every set-up
//     failure; disconnect once per ended attempt, reset once before each retry,
//     neither while an attempt runs; no underlying attempt begins after a Close
//     call of the reconnecting client has returned; on every stream Connected
//     precedes everything else and the updates arrive in the order sent.
//
// Waiting "until the first sync / N disconnect callbacks / the trap fired"
// only decides where the next step lands; such a wait gives up after a while
// and the step is issued anyway.
//
// Further dimensions (realquery.go, callbacks.go):
//
//   - the SHAPE of every query: each optional field of client.Query set or not
//     (Extra, Credentials, TLS with a TLS server, Replica, UpdatesOnly,
//     AddressChains, Encoding, Target, SubReq besides / instead of Queries,
//     ProtoHandler instead of NotificationHandler, Timeout unset, a tunnel
//     connection handed in as Query.TunnelConn), the types Poll and Once;
//   - the constructor arguments of client.Reconnect: both callbacks, none, only
//     disconnect, only reset; the discipline is judged for those given;
//   - HOW a subscription ends: through its CONTEXT - a cancel function, a value
//     or parent context, a deadline of real time - and not only through Close,
//     while the server holds the stream open and quiet or is MID-BURST
//     (RConn.Burst, RStep.Burst);
//   - the clause "Subscribe returns once its context has ended (or its
//     reconnecting client was closed)" is decided structurally, not by a clock:
//     a stopped call that has not returned while the whole process is quiescent
//     is a violation (realquiet.go explains the verdict and why it is sound);
//     the 30 s guard remains for everything that is not quiescent. Calls whose
//     context has ended are awaited BEFORE the closing Close (RScenario.
//     NoEndWait keeps the older race between the two in one case in four).

// RConn scripts how the server treats one Subscribe RPC (in arrival order;
// RPCs beyond the script get 1 update, a sync, and stay open).
type RConn struct {
	// Mode: "refuse" (the handler returns a status error without reading the
	// request), "eof" (it returns nil at once: the stream is closed),
	// "recv-err" (it reads the request, then fails), "data".
	Mode string `json:"mode"`
	N    int    `json:"n,omitempty"`    // data: updates sent
	Sync bool   `json:"sync,omitempty"` // data: a sync_response after them
	End  string `json:"end,omitempty"`  // data: "block" | "err" | "eof"
	// Burst (data, End "block"): the stream is not merely quiet. Once the harness
	// opens the burst gate of the case (right before a cancel / close step that
	// asks for it) the handler sends Burst further updates back to back - the
	// stop action lands while the server is MID-BURST - and only then holds the
	// stream open and quiet. A bounded burst keeps the hang verdict structural:
	// a client that ignores the end of its context drains it and then blocks.
	Burst int `json:"burst,omitempty"`
}

// RStep is one step of the sequence.
type RStep struct {
	Kind string `json:"kind"` // "subscribe" | "cancel" | "close"
	// After: what the harness waits for (on the latest Subscribe call) before it
	// issues the step: "" nothing, "begin" an underlying attempt has begun (the
	// step then lands in its set-up), "sync" a sync has been delivered, "disc" N
	// disconnect callbacks, "trap" the trap of that call fired, "ret" the call
	// returned. A wait that cannot be satisfied in the state reached is skipped.
	After string `json:"after,omitempty"`
	N     int    `json:"n,omitempty"`
	// subscribe:
	// Query: "" (valid), a kind of query path the request builder rejects (see
	// realBadPaths), or "dead" (an address nobody listens on, Timeout 30 ms).
	Query     string `json:"query,omitempty"`
	Cancelled bool   `json:"cancelled,omitempty"` // the context is already cancelled
	// Trap: inside the set-up of underlying attempt TrapAttempt of this call
	// (0 = the first), at point "pre-dial" (constructor entered), "post-dial"
	// (connection is up, RPC not started) or "post-rpc" (RPC opened, request
	// being built, nothing sent), the harness performs TrapAct: "cancel" (the
	// call's context), "close" (Close on another goroutine; the set-up goes
	// on once the attempt's context is done or Close has returned) or "linger"
	// (no stop action: the set-up merely pauses for 2 ms, which lets a server
	// that refuses the RPC or closes the stream win the race against the first
	// Send). TrapLinger: the set-up also pauses 1 ms after a "cancel" (grpc
	// notices a cancelled context asynchronously).
	Trap        string `json:"trap,omitempty"`
	TrapAttempt int    `json:"trap_attempt,omitempty"`
	TrapAct     string `json:"trap_act,omitempty"`
	TrapLinger  bool   `json:"trap_linger,omitempty"`
	// subscribe: the SHAPE of the query (realquery.go): Type "" (Stream), "poll"
	// or "once" (plain clients only: the reconnecting client documents that it
	// refuses Once); Opts names the optional fields of client.Query that are set.
	Type string   `json:"type,omitempty"`
	Opts []string `json:"opts,omitempty"`
	// subscribe: the shape of the caller's context (ctxKinds of scenario.go). For
	// the shapes that end by a deadline the deadline passes Deadline ms of real
	// time after the call (where that lands - in the dial, the set-up, the
	// stream, a backoff - is up to the machine and is only labelled); the call
	// then has its stop action from the start and a later cancel step merely
	// waits for the deadline.
	Ctx      string `json:"ctx,omitempty"`
	Deadline int    `json:"deadline,omitempty"`
	// cancel / close: open the burst gate of the case first and wait until the
	// first update of the burst has been delivered (see RConn.Burst).
	Burst bool `json:"burst,omitempty"`
}

// RScenario is one case of part "real".
type RScenario struct {
	Client       string `json:"client"` // "base" | "cache"
	Plain        bool   `json:"plain,omitempty"`
	NilCallbacks bool   `json:"nil_callbacks,omitempty"`
	Callbacks    string `json:"callbacks,omitempty"` // see Scenario.Callbacks
	// TLS: the server speaks TLS (a certificate made for the process) and every
	// query carries Query.TLS.
	TLS   bool    `json:"tls,omitempty"`
	Conns []RConn `json:"conns,omitempty"`
	Steps []RStep `json:"steps"`
	// NoEndWait: the closing Close is issued at once, racing with Subscribe
	// calls whose context has ended and which are still unwinding (the shape of
	// the part before the clause "Subscribe returns once its context has ended"
	// was judged). Otherwise every such call is awaited - with the structural
	// hang verdict of realquiet.go - BEFORE the closing Close, which would end
	// the stream by closing the connection and hide a context that is ignored.
	NoEndWait bool `json:"no_end_wait,omitempty"`
	// Ctor: which exported constructor of client/gnmi makes the transport of
	// every Subscribe call (realctor.go): "" = gnmi.New, "from-conn" = an
	// application-registered client type that dials itself and wraps the
	// connection with gnmi.NewFromConn.
	Ctor string `json:"ctor,omitempty"`
}

// realBadPaths: query paths the gNMI request builder rejects - after the RPC
// has been opened on the new connection.
var realBadPaths = map[string][]client.Path{
	"key-without-name":   {{"interfaces", "interface[eth0]", "state"}},
	"stray-bracket":      {{"a]"}},
	"empty-element":      {{"a", "", "b"}},
	"key-without-value":  {{"a[b=]"}},
	"garbage-after-keys": {{"a[b=c]d"}},
	"second-path-bad":    {{"a"}, {"[x=y]"}},
}

var realBadKinds = []string{"key-without-name", "stray-bracket", "empty-element", "key-without-value", "garbage-after-keys", "second-path-bad"}

func (sc *RScenario) validate() error {
	if sc.Client != "base" && sc.Client != "cache" {
		return fmt.Errorf("client %q", sc.Client)
	}
	if !knownRealCtor(sc.Ctor) {
		return fmt.Errorf("constructor %q", sc.Ctor)
	}
	if len(sc.Conns) > 16 || len(sc.Steps) == 0 || len(sc.Steps) > 16 {
		return fmt.Errorf("%d connections, %d steps", len(sc.Conns), len(sc.Steps))
	}
	for i, c := range sc.Conns {
		switch c.Mode {
		case "refuse", "eof", "recv-err":
		case "data":
			if c.End != "block" && c.End != "err" && c.End != "eof" {
				return fmt.Errorf("connection %d end %q", i, c.End)
			}
		default:
			return fmt.Errorf("connection %d mode %q", i, c.Mode)
		}
		if c.N < 0 || c.N > 32 {
			return fmt.Errorf("connection %d: %d updates", i, c.N)
		}
		if c.Burst < 0 || c.Burst > 256 || (c.Burst > 0 && (c.Mode != "data" || c.End != "block")) {
			return fmt.Errorf("connection %d: burst %d", i, c.Burst)
		}
	}
	if err := validCallbacks(sc.Plain, sc.NilCallbacks, sc.Callbacks); err != nil {
		return err
	}
	for i, s := range sc.Steps {
		switch s.Kind {
		case "subscribe", "cancel", "close":
		default:
			return fmt.Errorf("step %d kind %q", i, s.Kind)
		}
		switch s.After {
		case "", "begin", "sync", "disc", "trap", "ret":
		default:
			return fmt.Errorf("step %d after %q", i, s.After)
		}
		if s.N < 0 || s.N > 8 {
			return fmt.Errorf("step %d n %d", i, s.N)
		}
		if s.Kind != "subscribe" {
			if s.Query != "" || s.Cancelled || s.Trap != "" || s.TrapAct != "" || s.TrapLinger || s.Type != "" || len(s.Opts) > 0 || s.Ctx != "" || s.Deadline != 0 {
				return fmt.Errorf("step %d: only a subscribe step carries a query, a context or a trap", i)
			}
			continue
		}
		if s.Burst {
			return fmt.Errorf("step %d: only a cancel or close step opens the burst gate", i)
		}
		if err := validRealShape(s, sc.Plain); err != nil {
			return fmt.Errorf("step %d: %v", i, err)
		}
		if _, bad := realBadPaths[s.Query]; !bad && s.Query != "" && s.Query != "dead" {
			return fmt.Errorf("step %d query %q", i, s.Query)
		}
		switch s.Trap {
		case "":
		case "pre-dial", "post-dial", "post-rpc":
			if s.TrapAct != "cancel" && s.TrapAct != "close" && s.TrapAct != "linger" {
				return fmt.Errorf("step %d trap action %q", i, s.TrapAct)
			}
			if s.TrapAttempt < 0 || s.TrapAttempt > 8 {
				return fmt.Errorf("step %d trap attempt %d", i, s.TrapAttempt)
			}
		default:
			return fmt.Errorf("step %d trap %q", i, s.Trap)
		}
	}
	return nil
}

// ---------------------------------------------------------------------------
// the server
// ---------------------------------------------------------------------------

type realServer struct {
	gpb.UnimplementedGNMIServer
	w    *rworld
	mu   sync.Mutex
	rpcs int
	used map[string]bool // modes of scripted connections that were served
}

var defaultRConn = RConn{Mode: "data", N: 1, Sync: true, End: "block"}

// realBurstCap bounds stage 1 of a burst (see realServer.Subscribe).
const realBurstCap = 3000

func (s *realServer) Subscribe(stream gpb.GNMI_SubscribeServer) error {
	s.mu.Lock()
	idx := s.rpcs
	s.rpcs++
	c := defaultRConn
	if idx < len(s.w.sc.Conns) {
		c = s.w.sc.Conns[idx]
		s.used[c.Mode] = true
	}
	s.mu.Unlock()
	switch c.Mode {
	case "refuse":
		return status.Error(codes.PermissionDenied, "scripted refusal")
	case "eof":
		return nil
	}
	if _, err := stream.Recv(); err != nil {
		return err
	}
	if c.Mode == "recv-err" {
		return status.Error(codes.Unavailable, "scripted failure after the request")
	}
	update := func(k int) *gpb.SubscribeResponse {
		n := &gpb.Notification{Timestamp: int64(1000*idx + k + 1), Prefix: &gpb.Path{Target: "dev"}, Update: []*gpb.Update{{
			Path: &gpb.Path{Elem: []*gpb.PathElem{{Name: "c" + strconv.Itoa(idx)}, {Name: "k" + strconv.Itoa(k)}}},
			Val:  &gpb.TypedValue{Value: &gpb.TypedValue_IntVal{IntVal: int64(1000*idx + k)}},
		}}}
		return &gpb.SubscribeResponse{Response: &gpb.SubscribeResponse_Update{Update: n}}
	}
	for k := 0; k < c.N; k++ {
		if err := stream.Send(update(k)); err != nil {
			return err
		}
	}
	if c.Sync {
		if err := stream.Send(&gpb.SubscribeResponse{Response: &gpb.SubscribeResponse_SyncResponse{SyncResponse: true}}); err != nil {
			return err
		}
	}
	switch c.End {
	case "err":
		return status.Error(codes.Unavailable, "scripted stream failure")
	case "eof":
		return nil
	}
	owed := c.N
	if c.Sync {
		owed++
	}
	s.w.mu.Lock()
	s.w.owed = owed // (everything sent on the stream that is now held open)
	s.w.mu.Unlock()
	s.w.park(1)
	defer s.w.park(-1)
	if c.Burst > 0 {
		s.w.mu.Lock()
		s.w.gateWaiters++
		s.w.mu.Unlock()
		s.w.wake()
		select {
		case <-stream.Context().Done():
			s.w.mu.Lock()
			s.w.gateWaiters--
			s.w.mu.Unlock()
			return stream.Context().Err()
		case <-s.w.burstGate:
		}
		s.w.mu.Lock()
		s.w.bursts++
		s.w.mu.Unlock()
		// stage 1: back to back until the harness has issued its stop action
		// (burstStop; at most realBurstCap messages), stage 2: Burst more.
		k := c.N
	stage1:
		for ; k < c.N+realBurstCap; k++ {
			select {
			case <-s.w.burstStop:
				break stage1
			default:
			}
			if err := stream.Send(update(k)); err != nil {
				return err
			}
		}
		for j := 0; j < c.Burst; j++ {
			if err := stream.Send(update(k)); err != nil {
				return err
			}
			k++
		}
		s.w.mu.Lock()
		s.w.burstsDone++
		s.w.mu.Unlock()
		s.w.wake()
	}
	// quiet from here on: only the end of the stream's context wakes the handler
	<-stream.Context().Done()
	s.w.mu.Lock()
	s.w.streamEnds++
	s.w.mu.Unlock()
	s.w.wake()
	return stream.Context().Err()
}

// ---------------------------------------------------------------------------
// the recorded trace
// ---------------------------------------------------------------------------

// rev is one entry of the trace. Kinds: sub-call, ret, cancel, close-call,
// close-ret, trap (call = Subscribe ordinal); sub-begin, sub-end (n = attempt);
// disconnect, reset; connected, sync, upd (n = connection tag, k = index),
// other.
type rev struct {
	kind string
	call int
	n, k int
	note string
}

type rcall struct {
	n         int
	step      RStep
	cancel    context.CancelFunc
	beginBase int // underlying attempts begun before the call
	stopped   bool
	returned  bool
	fired     bool // its trap
	closedAt  int  // Close calls issued when it was called
	ctx       context.Context
	release   func()
	// closedStreaming (plain clients): a Close call was issued while the stream of
	// this call was established (the handler had been invoked on it, so the
	// transport was installed in the client): that Close is a stop action of the
	// call - "for any timing of Close relative to Subscribe ... while streaming
	// ... both calls return".
	closedStreaming bool
	// selfEnding: the context ends by a deadline (the stop action was issued
	// with the call); ctxEnded: the harness ended it (cancel step, trap,
	// Cancelled) or saw its deadline pass.
	selfEnding bool
	ctxEnded   bool
}

type rworld struct {
	sc *RScenario
	c  client.Client

	mu      sync.Mutex
	trace   []rev
	calls   []*rcall
	cur     *rcall // latest Subscribe call
	nBegin  int
	nEnd    int
	attempt context.Context // context of the running underlying attempt
	parked  int             // server handlers holding a stream open
	owed    int             // messages the latest of them had sent before
	nClose  int             // Close calls issued
	paniced string
	poke    chan struct{}
	closes  sync.WaitGroup

	ports       []int         // TCP ports of the case (realquiet.go)
	burstGate   chan struct{} // closed by the first step that asks for the burst
	burstStop   chan struct{} // closed once that step has issued its stop action
	burstOpen   bool
	gateWaiters int // handlers waiting at the gate
	bursts      int // bursts begun / completed by server handlers
	burstsDone  int
	streamEnds  int        // parked handlers that saw their stream's context end
	tunnels     []net.Conn // connections dialled by the harness (opt "tunnel-conn")
	noLooks     string     // why the structural hang verdict is unavailable
	looks       int        // looks taken by awaitStopped / found quiescent
	quietLooks  int
}

func (w *rworld) rec(e rev) {
	w.mu.Lock()
	w.trace = append(w.trace, e)
	w.mu.Unlock()
	w.wake()
}

func (w *rworld) wake() {
	select {
	case w.poke <- struct{}{}:
	default:
	}
}

func (w *rworld) park(d int) {
	w.mu.Lock()
	w.parked += d
	w.mu.Unlock()
	w.wake()
}

// await waits until cond (evaluated under w.mu) holds or patience runs out.
func (w *rworld) await(patience time.Duration, cond func() bool) bool {
	t := time.NewTimer(patience)
	defer t.Stop()
	for {
		w.mu.Lock()
		ok := cond()
		w.mu.Unlock()
		if ok {
			return true
		}
		select {
		case <-w.poke:
		case <-t.C:
			w.mu.Lock()
			ok := cond()
			w.mu.Unlock()
			return ok
		}
	}
}

// rtrace records begin and return of every underlying Subscribe.
type rtrace struct {
	client.Client
	w *rworld
}

func (t *rtrace) Subscribe(ctx context.Context, q client.Query, clientType ...string) error {
	w := t.w
	w.mu.Lock()
	idx := w.nBegin
	w.nBegin++
	w.attempt = ctx
	note := ""
	if q.ProtoHandler != nil {
		note = "proto"
	}
	w.trace = append(w.trace, rev{kind: "sub-begin", n: idx, note: note})
	w.mu.Unlock()
	w.wake()
	err := t.Client.Subscribe(ctx, q, clientType...)
	w.mu.Lock()
	w.nEnd++
	w.trace = append(w.trace, rev{kind: "sub-end", n: idx, note: fmt.Sprint(err)})
	w.mu.Unlock()
	w.wake()
	return err
}

func (w *rworld) handler(n client.Notification) error {
	e := rev{kind: "other", note: fmt.Sprintf("%#v", n)}
	switch v := n.(type) {
	case client.Connected:
		e = rev{kind: "connected"}
	case client.Sync:
		e = rev{kind: "sync"}
	case client.Update:
		// target "dev", c<conn>, k<index>, value 1000*conn+index
		if len(v.Path) == 3 && v.Path[0] == "dev" {
			if val, ok := v.Val.(int64); ok {
				if t, ok := parseRealTag(v.Path[1], v.Path[2], val); ok {
					e = t
				}
			}
		}
	}
	w.rec(e)
	return nil
}

func parseRealTag(c, k string, val int64) (rev, bool) {
	if !strings.HasPrefix(c, "c") || !strings.HasPrefix(k, "k") {
		return rev{}, false
	}
	ci, e1 := strconv.Atoi(c[1:])
	ki, e2 := strconv.Atoi(k[1:])
	if e1 != nil || e2 != nil || val != int64(1000*ci+ki) {
		return rev{}, false
	}
	return rev{kind: "upd", n: ci, k: ki}, true
}

// protoHandler is the ProtoHandler of a query with opt "proto": the raw
// responses, in the order received (no Connected notification exists there).
func (w *rworld) protoHandler(m proto.Message) error {
	e := rev{kind: "other", note: fmt.Sprintf("%v", m)}
	if r, ok := m.(*gpb.SubscribeResponse); ok {
		switch v := r.Response.(type) {
		case *gpb.SubscribeResponse_SyncResponse:
			e = rev{kind: "sync"}
		case *gpb.SubscribeResponse_Update:
			if n := v.Update; n != nil && len(n.Update) == 1 && n.Update[0].GetPath() != nil && len(n.Update[0].Path.Elem) == 2 {
				u := n.Update[0]
				if t, ok := parseRealTag(u.Path.Elem[0].Name, u.Path.Elem[1].Name, u.GetVal().GetIntVal()); ok && n.GetPrefix().GetTarget() == "dev" {
					e = t
				}
			}
		}
	}
	w.rec(e)
	return nil
}

// ---------------------------------------------------------------------------
// traps: the two seams the harness uses to act at a chosen point INSIDE the
// set-up of an attempt. Neither replaces anything of the transport: the trap
// client type calls the real constructor and returns the real *gnmi.Client;
// the request-builder variable of client/gnmi ("can be stubbed") calls the
// original builder.
// ---------------------------------------------------------------------------

const realTrapType = "c18-gnmi-with-dial-traps"

var (
	realOnce  sync.Once
	curReal   atomic.Pointer[rworld]
	realGuard = 30 * time.Second // expiry = INCONCLUSIVE
	// realPatience bounds a wait that only decides where a step lands.
	realPatience = 2 * time.Second
)

func realInstall() {
	realOnce.Do(func() {
		client.RegisterTest(realTrapType, realTrapCtor)
		client.RegisterTest(realConnType, realConnCtor)
		orig := gclient.ToSubscribeRequest
		gclient.ToSubscribeRequest = func(q client.Query) (*gpb.SubscribeRequest, error) {
			if w := curReal.Load(); w != nil {
				w.trap("post-rpc")
			}
			return orig(q)
		}
	})
}

// realTrapCtor is the constructor registered as realTrapType.
func realTrapCtor(ctx context.Context, d client.Destination) (client.Impl, error) {
	w := curReal.Load()
	if w != nil {
		w.trap("pre-dial")
	}
	impl, err := gclient.New(ctx, d)
	if err != nil {
		return nil, err
	}
	if w != nil {
		w.trap("post-dial")
	}
	return impl, nil
}

// trap runs on the goroutine that sets the attempt up.
func (w *rworld) trap(point string) {
	w.mu.Lock()
	call := w.cur
	if call == nil || call.returned || call.fired || call.step.Trap != point || w.nBegin-call.beginBase-1 != call.step.TrapAttempt || w.nBegin == w.nEnd {
		w.mu.Unlock()
		return
	}
	call.fired = true
	act := call.step.TrapAct
	actx := w.attempt
	w.trace = append(w.trace, rev{kind: "trap", call: call.n, note: point + "/" + act})
	if act != "linger" {
		call.stopped = true
	}
	if act == "cancel" {
		call.ctxEnded = true
		w.trace = append(w.trace, rev{kind: "cancel", call: call.n})
	}
	w.mu.Unlock()
	w.wake()
	switch act {
	case "linger":
		time.Sleep(2 * time.Millisecond)
		return
	case "cancel":
		call.cancel()
		if call.step.TrapLinger {
			time.Sleep(time.Millisecond)
		}
		return
	}
	ret := w.closeAsync()
	// Close of a reconnecting client cancels the attempt and then waits for
	// Subscribe; Close of a plain client returns.
	t := time.NewTimer(realPatience)
	defer t.Stop()
	select {
	case <-actx.Done():
	case <-ret:
	case <-t.C:
	}
}

// closeAsync records and issues a Close call on a goroutine of its own.
func (w *rworld) closeAsync() <-chan struct{} {
	ret := make(chan struct{})
	w.mu.Lock()
	w.nClose++
	if !w.sc.Plain {
		for _, c := range w.calls {
			if !c.returned {
				c.stopped = true
			}
		}
	} else if c := w.cur; c != nil && !c.returned && w.nBegin > w.nEnd && w.nBegin > c.beginBase {
		// Close of a plain client ends a stream, not a connection attempt: it is
		// a stop action of the running call only if the stream is established -
		// a notification of the running attempt has reached the handler, which
		// happens after the client installed the transport Close acts on.
		for i := len(w.trace) - 1; i >= 0 && w.trace[i].kind != "sub-begin"; i-- {
			if k := w.trace[i].kind; k == "connected" || k == "upd" || k == "sync" {
				c.stopped, c.closedStreaming = true, true
				break
			}
		}
	}
	w.trace = append(w.trace, rev{kind: "close-call"})
	w.mu.Unlock()
	w.closes.Add(1)
	go func() {
		defer w.closes.Done()
		defer close(ret)
		defer w.recoverPanic("Close")
		err := w.c.Close()
		w.mu.Lock()
		w.trace = append(w.trace, rev{kind: "close-ret", note: fmt.Sprint(err)})
		w.mu.Unlock()
		w.wake()
	}()
	return ret
}

func (w *rworld) recoverPanic(what string) {
	if r := recover(); r != nil {
		w.mu.Lock()
		if w.paniced == "" {
			w.paniced = fmt.Sprintf("%s panicked: %v", what, r)
		}
		w.mu.Unlock()
		w.wake()
	}
}

// ---------------------------------------------------------------------------
// running one case
// ---------------------------------------------------------------------------

// awaitStopped waits for done (evaluated under w.mu) once a stop action has
// been issued for what it stands for: the return of a Subscribe call whose
// context has ended or whose reconnecting client was closed, the return of a
// Close call. ended, if not nil, is a context whose end is that stop action and
// may still be ahead (a deadline): it is waited for first. The verdicts:
// ok (done holds), stuck (the structural hang verdict of realquiet.go: the
// process is quiescent and done still does not hold; the text says where the
// Subscribe calls of the case are parked), or neither = the guard expired.
func (w *rworld) awaitStopped(done func() bool, ended context.Context) (ok bool, stuck string) {
	cond := func() bool { return done() || w.paniced != "" }
	guard := time.Now().Add(realGuard)
	if ended != nil {
		t := time.NewTimer(realGuard)
		select {
		case <-ended.Done():
		case <-t.C:
		}
		t.Stop()
	}
	if w.await(realFast, cond) {
		return true, ""
	}
	streak, lastLen := 0, -1
	for time.Now().Before(guard) {
		if w.await(realQuietEvery, cond) {
			return true, ""
		}
		if w.noLooks != "" {
			continue
		}
		quiet, known, why, where := realQuiet(w.ports)
		if !known {
			w.noLooks = why
			continue
		}
		w.mu.Lock()
		if cond() {
			// (it returned while the look was taken)
			w.mu.Unlock()
			return true, ""
		}
		n := len(w.trace)
		w.looks++
		if quiet {
			w.quietLooks++
			if os.Getenv("C18_REAL_DEBUG") != "" {
				buf := make([]byte, 1<<20)
				buf = buf[:runtime.Stack(buf, true)]
				fmt.Printf("QUIETLOOK streak=%d where=%v\n trace %s\n%s\n", streak, where, renderTrace(w.trace), buf)
			}
		}
		w.mu.Unlock()
		switch {
		case !quiet:
			streak = 0
		case streak == 0 || n == lastLen:
			streak++
		default:
			streak = 1
		}
		lastLen = n
		if streak >= realQuietLooks {
			w.mu.Lock()
			now := cond()
			ends, parked := w.streamEnds, w.parked
			w.mu.Unlock()
			if now {
				return true, ""
			}
			return false, fmt.Sprintf("%d consecutive looks at the process found it quiescent (every goroutine parked on a channel / select / lock / the network poller, none in a dial, a backoff sleep or a trap; every socket of the case idle with empty queues); %d server handlers are holding a stream open and have not seen its context end (%d have); the Subscribe calls of the case are parked at: %s",
				streak, parked, ends, strings.Join(where, " || "))
		}
	}
	return false, ""
}

// runSubscribe is the body of the goroutine of one Subscribe call (its name
// marks that goroutine in the dumps of realquiet.go).
func (w *rworld) runSubscribe(call *rcall, ctx context.Context, q client.Query, typ string, subs *sync.WaitGroup) {
	defer subs.Done()
	defer w.recoverPanic("Subscribe")
	err := w.c.Subscribe(ctx, q, typ)
	w.mu.Lock()
	call.returned = true
	w.trace = append(w.trace, rev{kind: "ret", call: call.n, note: fmt.Sprint(err)})
	w.mu.Unlock()
	w.wake()
}

// mkRealQuery builds the query of one Subscribe step.
func (w *rworld) mkRealQuery(s RStep, addr, dead string, st *tstats) client.Query {
	q := client.Query{
		Addrs:               []string{addr},
		Target:              "dev",
		Queries:             []client.Path{{"*"}},
		Type:                client.Stream,
		Timeout:             10 * time.Second,
		NotificationHandler: w.handler,
	}
	switch s.Type {
	case "poll":
		q.Type = client.Poll
		st.label("query-type:poll")
	case "once":
		q.Type = client.Once
		st.label("query-type:once")
	}
	switch {
	case s.Query == "dead":
		q.Addrs, q.Timeout = []string{dead}, 30*time.Millisecond
		st.label("dead-address")
	case s.Query != "":
		q.Queries = realBadPaths[s.Query]
		st.label("bad-path:" + s.Query)
	}
	if w.sc.TLS {
		q.TLS = &tls.Config{InsecureSkipVerify: true}
	}
	var plainOpts []string // (the tunnel connection of this part is made below)
	for _, o := range s.Opts {
		if o != "tunnel-conn" && o != "tunnel-no-addrs" {
			plainOpts = append(plainOpts, o)
		}
	}
	q = applyOpts(q, plainOpts, q.Addrs[0])
	for _, o := range s.Opts {
		switch o {
		case "proto":
			if w.sc.Client == "cache" {
				continue // a CacheClient installs its own handler
			}
			q.NotificationHandler, q.ProtoHandler = nil, w.protoHandler
		case "timeout-unset":
			q.Timeout = 0
		case "tunnel-conn", "tunnel-no-addrs":
			// Query.TunnelConn is ONE established connection (the transport then
			// dials nothing): the harness makes it, a plain TCP connection to the
			// address of the query. (validate keeps it to plain clients: a retry
			// would find the same connection used up.)
			c, derr := net.DialTimeout("tcp", q.Addrs[0], 2*time.Second)
			if derr != nil {
				st.label("tunnel-connection-not-made")
				continue
			}
			w.mu.Lock()
			w.tunnels = append(w.tunnels, c)
			w.mu.Unlock()
			q.TunnelConn = &tunnel.Conn{ReadWriteCloser: c}
			if o == "tunnel-no-addrs" {
				q.Addrs = nil
			}
		}
		st.label("query-opt:" + o)
	}
	if len(s.Opts) == 0 && s.Type == "" {
		st.label("query-shape:minimal")
	}
	if len(s.Opts) >= 3 {
		st.label("query-opts>=3")
	}
	return q
}

func runReal(sc *RScenario) (st *tstats, err error) {
	st = &tstats{}
	defer func() {
		if r := recover(); r != nil {
			err = newVerr("panic", "panic: %v", r)
		}
	}()
	if verr := sc.validate(); verr != nil {
		return st, newVerr("harness-error", "invalid scenario: %v", verr)
	}
	realInstall()
	retryMu.Lock()
	defer retryMu.Unlock()
	ob, om, or := client.RetryBaseDelay, client.RetryMaxDelay, client.RetryRandomization
	defer func() { client.RetryBaseDelay, client.RetryMaxDelay, client.RetryRandomization = ob, om, or }()
	client.RetryBaseDelay, client.RetryMaxDelay, client.RetryRandomization = time.Millisecond, 2*time.Millisecond, 0

	lis, lerr := net.Listen("tcp", "127.0.0.1:0")
	if lerr != nil {
		return st, &errInconclusive{"listen: " + lerr.Error()}
	}
	if sc.Ctor == "" {
		st.label("ctor:gnmi.New")
	} else {
		st.label("ctor:gnmi.NewFromConn")
	}
	w := &rworld{sc: sc, poke: make(chan struct{}, 1), burstGate: make(chan struct{}), burstStop: make(chan struct{})}
	w.ports = append(w.ports, lis.Addr().(*net.TCPAddr).Port)
	dead := ""
	for _, s := range sc.Steps {
		if s.Query == "dead" && dead == "" {
			l2, e2 := net.Listen("tcp", "127.0.0.1:0")
			if e2 != nil {
				lis.Close()
				return st, &errInconclusive{"listen: " + e2.Error()}
			}
			dead = l2.Addr().String()
			w.ports = append(w.ports, l2.Addr().(*net.TCPAddr).Port)
			l2.Close()
		}
	}
	var sopts []grpc.ServerOption
	if sc.TLS {
		cfg, cerr := realServerTLS()
		if cerr != nil {
			lis.Close()
			return st, &errInconclusive{"certificate: " + cerr.Error()}
		}
		sopts = append(sopts, grpc.Creds(credentials.NewTLS(cfg)))
		st.label("tls")
	}
	srv := grpc.NewServer(sopts...)
	ss := &realServer{w: w, used: map[string]bool{}}
	gpb.RegisterGNMIServer(srv, ss)
	go srv.Serve(lis)
	defer srv.Stop()
	defer func() {
		w.mu.Lock()
		tunnels := w.tunnels
		w.mu.Unlock()
		for _, t := range tunnels {
			t.Close()
		}
	}()

	var inner client.Client
	if sc.Client == "cache" {
		inner = client.New()
		st.label("cacheclient")
	} else {
		inner = &client.BaseClient{}
		st.label("baseclient")
	}
	hasDisc, hasReset := callbacksGiven(sc.NilCallbacks, sc.Callbacks)
	if sc.Plain {
		w.c = &rtrace{Client: inner, w: w}
		st.label("plain-client")
	} else {
		var l string
		w.c, l = mkReconnect(&rtrace{Client: inner, w: w}, sc.NilCallbacks, sc.Callbacks,
			func() { w.rec(rev{kind: "disconnect"}) },
			func() { w.rec(rev{kind: "reset"}) })
		st.label(l)
	}
	curReal.Store(w)
	defer curReal.Store(nil)

	var subs sync.WaitGroup
	closedAny := false
	inconclusive := ""
	var hang *verr
	// heldQuiet (under w.mu): the server holds the running attempt's stream open
	// and everything it had sent before has reached the handler - nothing more
	// will happen on that stream by itself.
	heldQuiet := func() bool {
		if w.parked == 0 {
			return false
		}
		got := 0
		for i := len(w.trace) - 1; i >= 0 && w.trace[i].kind != "sub-begin"; i-- {
			if k := w.trace[i].kind; k == "upd" || k == "sync" {
				got++
			}
		}
		return got >= w.owed
	}
	// counters read under w.mu
	since := func(call *rcall, kind string) int {
		n, on := 0, false
		for _, e := range w.trace {
			if e.kind == "sub-call" && e.call == call.n {
				on = true
			}
			if on && e.kind == kind {
				n++
			}
		}
		return n
	}
	// phase says, for the labels, what the latest Subscribe call is doing.
	phaseLocked := func() string {
		c := w.cur
		switch {
		case c == nil:
			return "before-any-subscribe"
		case c.returned:
			return "with-no-subscribe-running"
		case c.stopped && !(c.selfEnding && !c.ctxEnded):
			return "while-stopped-subscribe-unwinds"
		case w.nBegin == w.nEnd:
			if w.nBegin == c.beginBase {
				return "before-first-attempt"
			}
			return "during-backoff"
		}
		got := false
		for i := len(w.trace) - 1; i >= 0 && w.trace[i].kind != "sub-begin"; i-- {
			if k := w.trace[i].kind; k == "connected" || k == "upd" || k == "sync" {
				got = true
			}
		}
		if got {
			if w.bursts > w.burstsDone {
				return "while-streaming-mid-burst"
			}
			if w.parked > 0 {
				return "while-streaming-quiet-stream"
			}
			return "while-streaming"
		}
		return "during-set-up"
	}
	phase := func() string {
		w.mu.Lock()
		defer w.mu.Unlock()
		return phaseLocked()
	}
	// settle awaits the return of a Subscribe call whose stop action was issued.
	settle := func(c *rcall, what string) bool {
		var ended context.Context
		if c.selfEnding {
			ended = c.ctx
		}
		ok, stuck := w.awaitStopped(func() bool { return c.returned }, ended)
		switch {
		case ok:
			w.mu.Lock()
			byClose := c.closedStreaming && !c.ctxEnded && !c.selfEnding
			w.mu.Unlock()
			if byClose {
				// (awaited with nothing but the Close call to end it)
				st.label("plain-close-while-streaming-awaited-without-cancel")
			}
			return true
		case stuck != "":
			w.mu.Lock()
			why := "Close had been called on its reconnecting client"
			if c.closedStreaming {
				why = "Close had been called on its plain client while the stream was established"
			}
			if c.ctx.Err() != nil {
				why = fmt.Sprintf("its context had ended (%v)", c.ctx.Err())
			}
			closes := w.nClose
			w.mu.Unlock()
			hang = newVerr("stop-ignored", "Subscribe #%d has not returned although %s (%s; %d Close calls issued so far) and nothing is left that could make it return: %s", c.n, why, what, closes, stuck)
		default:
			inconclusive = fmt.Sprintf("Subscribe #%d has not returned although its stop action was issued (%s)", c.n, what)
		}
		return false
	}
	// openBurst opens the burst gate and waits for the first update of a burst;
	// the step then issues its stop action and calls the returned function,
	// which tells the server that it has (the burst goes on for RConn.Burst
	// messages more and ends).
	openBurst := func() (issued func()) {
		w.mu.Lock()
		first := !w.burstOpen
		w.burstOpen = true
		waiting := w.gateWaiters
		base := len(w.trace)
		cur := w.cur
		w.mu.Unlock()
		if !first {
			return func() {}
		}
		close(w.burstGate)
		issued = func() { close(w.burstStop) }
		if waiting == 0 {
			st.label("burst-gate-opened-with-no-stream-waiting")
			return issued
		}
		if w.await(realPatience/8, func() bool {
			for _, e := range w.trace[base:] {
				if e.kind == "upd" {
					return true
				}
			}
			return cur == nil || cur.returned
		}) {
			st.label("burst-begun-before-the-step")
		} else {
			st.label("wait-gave-up:burst")
		}
		return issued
	}

	for _, s := range sc.Steps {
		// the wait in front of the step
		w.mu.Lock()
		cur := w.cur
		running := cur != nil && !cur.returned
		w.mu.Unlock()
		switch {
		case s.After == "" || cur == nil:
		case s.After == "ret":
			w.mu.Lock()
			due := running && cur.stopped
			w.mu.Unlock()
			switch {
			case due:
				if settle(cur, "awaited by the step that follows") {
					st.label("step-after-return")
					if cur.ctxEnded || cur.selfEnding {
						st.label("ctx-ended-call-awaited-without-close")
					}
				}
			case running && sc.Plain:
				// a plain client's Subscribe may end by itself
				if w.await(realPatience/4, func() bool { return cur.returned || heldQuiet() }) {
					st.label("step-after-return")
				} else {
					st.label("wait-gave-up:ret")
				}
			}
		case !running:
		case s.After == "sync" && cur.step.Query == "" && !cur.step.Cancelled && (sc.Plain || !closedAny):
			n := 1
			if w.await(realPatience, func() bool { return since(cur, "sync") >= n || cur.returned || heldQuiet() }) {
				st.label("step-after-sync")
			} else {
				st.label("wait-gave-up:sync")
			}
		case s.After == "disc" && !sc.Plain && (hasDisc || hasReset):
			n := s.N
			if n < 1 {
				n = 1
			}
			counted := "disconnect" // (the callback that was given)
			if !hasDisc {
				counted = "reset"
			}
			if w.await(realPatience, func() bool { return since(cur, counted) >= n || cur.returned || heldQuiet() }) {
				st.label("step-after-disconnects")
			} else {
				st.label("wait-gave-up:disc")
			}
		case s.After == "trap" && cur.step.Trap != "":
			if w.await(realPatience, func() bool {
				return cur.fired || cur.returned || heldQuiet() || w.nEnd-cur.beginBase > cur.step.TrapAttempt
			}) {
				st.label("step-after-trap")
			} else {
				st.label("wait-gave-up:trap")
			}
		case s.After == "begin":
			if w.await(realPatience, func() bool { return w.nBegin > cur.beginBase || cur.returned }) {
				st.label("step-after-attempt-began")
			} else {
				st.label("wait-gave-up:begin")
			}
		}
		if inconclusive != "" || hang != nil {
			break
		}
		w.mu.Lock()
		p := w.paniced
		w.mu.Unlock()
		if p != "" {
			break
		}

		switch s.Kind {
		case "subscribe":
			w.mu.Lock()
			cur = w.cur
			running = cur != nil && !cur.returned
			stopped := running && cur.stopped
			w.mu.Unlock()
			if running && !stopped && sc.Plain {
				// Close of a plain client ends an established stream
				w.mu.Lock()
				closedSince := w.nClose > cur.closedAt
				w.mu.Unlock()
				if closedSince && w.await(realPatience/4, func() bool { return cur.returned }) {
					running = false
				}
			}
			if running && !stopped {
				st.label("subscribe-step-skipped-previous-still-running")
				continue
			}
			if running {
				if !settle(cur, "awaited by the Subscribe step that follows") {
					break
				}
			}
			q := w.mkRealQuery(s, lis.Addr().String(), dead, st)
			after := time.Duration(s.Deadline) * time.Millisecond
			ctx, cancel, release := mkCtx(s.Ctx, after)
			st.label(ctxLabel(s.Ctx))
			typ := gclient.Type
			if s.Trap == "pre-dial" || s.Trap == "post-dial" {
				typ = realTrapType
			}
			if sc.Ctor == "from-conn" {
				typ = realConnType // (has the traps of the dial as well)
			}
			w.mu.Lock()
			call := &rcall{n: len(w.calls), step: s, cancel: cancel, release: release, ctx: ctx, beginBase: w.nBegin, closedAt: w.nClose}
			call.selfEnding = ctxSelfEnding(s.Ctx) && !s.Cancelled
			call.stopped = s.Cancelled || call.selfEnding || (closedAny && !sc.Plain)
			call.ctxEnded = s.Cancelled
			w.calls = append(w.calls, call)
			w.cur = call
			note := ""
			if call.stopped {
				note = "stopped"
			}
			w.trace = append(w.trace, rev{kind: "sub-call", call: call.n, note: note})
			w.mu.Unlock()
			if s.Cancelled {
				cancel()
				st.label("subscribe-with-cancelled-context")
			}
			if call.selfEnding {
				st.label("ctx-with-deadline-that-passes")
				// (label only: what the call was doing when the deadline passed)
				stop := context.AfterFunc(ctx, func() {
					w.mu.Lock()
					ph := "deadline-passes-" + phaseLocked()
					if w.cur != call {
						ph = "deadline-passes-after-a-later-subscribe"
					}
					if call.ctxEnded {
						ph = "context-with-deadline-cancelled-before-it-passed"
					}
					call.ctxEnded = true
					w.trace = append(w.trace, rev{kind: "ctx-deadline", call: call.n, note: ph})
					w.mu.Unlock()
					w.wake()
				})
				defer stop()
			}
			if closedAny && !sc.Plain {
				st.label("subscribe-on-closed-client")
			}
			if call.n > 0 {
				st.label("subscribe-again")
			}
			subs.Add(1)
			go w.runSubscribe(call, ctx, q, typ, &subs)
		case "cancel":
			w.mu.Lock()
			cur = w.cur
			w.mu.Unlock()
			if cur == nil {
				st.label("cancel-step-skipped-no-subscribe-yet")
				continue
			}
			issued := func() {}
			if s.Burst {
				issued = openBurst()
			}
			ph := phase()
			w.mu.Lock()
			cur.stopped, cur.ctxEnded = true, true
			w.trace = append(w.trace, rev{kind: "cancel", call: cur.n})
			w.mu.Unlock()
			st.label("cancel-" + ph)
			if cur.selfEnding {
				st.label("cancel-of-context-with-deadline")
			}
			cur.cancel()
			issued()
		case "close":
			issued := func() {}
			if s.Burst {
				issued = openBurst()
			}
			st.label("close-" + phase())
			if closedAny {
				st.label("close-again")
			}
			closedAny = true
			w.closeAsync()
			issued()
			w.mu.Lock()
			if c := w.cur; c != nil && c.closedStreaming {
				st.label("plain-close-finds-established-stream")
			}
			w.mu.Unlock()
		}
		if inconclusive != "" || hang != nil {
			break
		}
	}

	// Every Subscribe call whose context has ended (or ends by its deadline) is
	// due WITHOUT any Close: the clause "Subscribe returns once its context has
	// ended". The closing Close would hide a context that is ignored.
	if inconclusive == "" && hang == nil && !sc.NoEndWait {
		w.mu.Lock()
		calls := append([]*rcall(nil), w.calls...)
		p := w.paniced
		w.mu.Unlock()
		for _, c := range calls {
			w.mu.Lock()
			due := !c.returned && (c.ctxEnded || c.selfEnding)
			w.mu.Unlock()
			if !due || p != "" {
				continue
			}
			if !settle(c, "awaited before the closing Close") {
				break
			}
			st.label("ctx-ended-call-awaited-without-close")
		}
	} else if sc.NoEndWait {
		st.label("closing-close-races-with-ended-contexts")
	}

	// The closing Close, then everything must come back.
	if inconclusive == "" && hang == nil {
		ret := w.closeAsync()
		closedAny = true
		returned := func() bool {
			select {
			case <-ret:
				return true
			default:
				return false
			}
		}
		if ok, stuck := w.awaitStopped(returned, nil); !ok {
			if stuck != "" {
				hang = newVerr("close-blocks", "the closing Close call has not returned and nothing is left that could make it return: %s", stuck)
			} else {
				inconclusive = "the closing Close call has not returned"
			}
		}
	}
	if inconclusive == "" && hang == nil {
		// Close alone must end every Subscribe call of a reconnecting client, and
		// the call of a plain client whose established stream a Close call found
		w.mu.Lock()
		calls := append([]*rcall(nil), w.calls...)
		w.mu.Unlock()
		for _, c := range calls {
			w.mu.Lock()
			due := !sc.Plain || c.closedStreaming
			w.mu.Unlock()
			if !due {
				continue
			}
			if !settle(c, "the closing Close has returned") {
				break
			}
		}
	}
	w.mu.Lock()
	for _, c := range w.calls {
		if !c.returned {
			c.stopped, c.ctxEnded = true, true
			w.trace = append(w.trace, rev{kind: "cancel", call: c.n})
		}
	}
	calls := append([]*rcall(nil), w.calls...)
	w.mu.Unlock()
	for _, c := range calls {
		c.cancel()
		c.release()
	}
	if inconclusive == "" && hang == nil {
		for _, c := range calls {
			if !settle(c, "the closing Close has returned and every context was cancelled") {
				break
			}
		}
	}
	if inconclusive == "" && hang == nil {
		all := make(chan struct{})
		go func() { subs.Wait(); w.closes.Wait(); close(all) }()
		g := time.NewTimer(realGuard)
		select {
		case <-all:
		case <-g.C:
			inconclusive = "a Close call has not returned after the closing Close and the cancellation of every context"
		}
		g.Stop()
	}
	w.mu.Lock()
	trace := append([]rev(nil), w.trace...)
	paniced := w.paniced
	noLooks := w.noLooks
	w.mu.Unlock()
	if paniced != "" {
		return st, newVerr("panic", "%s\ntrace: %s", paniced, renderTrace(trace))
	}
	if hang != nil {
		hang.msg += "\ntrace: " + renderTrace(trace)
		return st, hang
	}
	if inconclusive != "" {
		st.guardSkip = true
		if noLooks != "" {
			inconclusive += " (no structural verdict: " + noLooks + ")"
		}
		return st, &errInconclusive{fmt.Sprintf("%s within %v of real time; trace: %s", inconclusive, realGuard, renderTrace(trace))}
	}
	ss.mu.Lock()
	for m := range ss.used {
		st.label("server-" + m)
	}
	ss.mu.Unlock()
	w.mu.Lock()
	if w.looks > 0 {
		// a stopped call took longer than realFast to return (busy machine)
		st.label("slow-return-looked-at")
	}
	if w.quietLooks > 0 {
		// ... and a look found the process quiescent although the call did
		// return afterwards: must never happen (see realquiet.go); recorded so
		// that it would be seen long before three in a row could occur
		st.label("NEAR-MISS:quiescent-look-before-a-return")
	}
	w.mu.Unlock()
	if v := judgeReal(sc, trace, st); v != nil {
		v.msg += "\ntrace: " + renderTrace(trace)
		return st, v
	}
	if os.Getenv("C18_REAL_DEBUG") != "" {
		fmt.Printf("DEBUG %s\n  labels %v\n  trace %s\n", mustJSON(sc), st.labelList(), renderTrace(trace))
	}
	return st, nil
}

// judgeReal evaluates the order-only clauses on the trace.
func judgeReal(sc *RScenario, trace []rev, st *tstats) *verr {
	reconnect := !sc.Plain
	// (1) a reconnecting client's Subscribe returns only after a stop action.
	if reconnect {
		stopped := map[int]bool{}
		closeCalled := false
		for _, e := range trace {
			switch e.kind {
			case "sub-call":
				if e.note == "stopped" {
					stopped[e.call] = true
				}
			case "cancel":
				stopped[e.call] = true
			case "close-call":
				closeCalled = true
			case "ret":
				if !stopped[e.call] && !closeCalled {
					return newVerr("gave-up", "Subscribe #%d of the reconnecting client returned (%s) although its context had not been cancelled and Close had not been called", e.call, e.note)
				}
			}
		}
	}
	// (2) no attempt begins once a Close call of a reconnecting client returned.
	if reconnect {
		closed := false
		for _, e := range trace {
			switch e.kind {
			case "close-ret":
				closed = true
			case "sub-begin":
				if closed {
					return newVerr("attempt-after-close", "underlying attempt %d began after a Close call of the reconnecting client had returned", e.n)
				}
			}
		}
	}
	// (3) callback discipline, per Subscribe call, for the callbacks that were
	// given (callbacks.go).
	if reconnect {
		hasDisc, hasReset := callbacksGiven(sc.NilCallbacks, sc.Callbacks)
		evs := make([]cbEv, 0, len(trace))
		for _, e := range trace {
			switch e.kind {
			case "sub-call", "ret", "sub-begin", "sub-end", "disconnect", "reset":
				evs = append(evs, cbEv{kind: e.kind, attempt: e.n})
			}
		}
		if v := judgeCallbacks(evs, hasDisc, hasReset, true); v != nil {
			return v
		}
	}
	// (4) per stream: Connected first, one connection's updates in the order sent.
	// (a query with a ProtoHandler receives the raw responses: no Connected)
	in, lastConn, proto := false, -1, false
	var stream []rev
	flush := func() *verr {
		defer func() { stream = nil }()
		if len(stream) == 0 {
			return nil
		}
		st.streams++
		rest := stream
		if !proto {
			if stream[0].kind != "connected" {
				return newVerr("connected-first", "a stream's first notification is %s, not Connected", renderRev(stream[0]))
			}
			rest = stream[1:]
		} else {
			st.label("stream-through-proto-handler")
		}
		conn, next, synced := -1, 0, false
		for _, e := range rest {
			switch e.kind {
			case "connected":
				return newVerr("connected-first", "Connected delivered twice on one stream")
			case "sync":
				synced = true
			case "upd":
				if conn < 0 {
					conn = e.n
					if conn <= lastConn {
						return newVerr("order", "a stream carries connection %d after connection %d was delivered", conn, lastConn)
					}
					lastConn = conn
				}
				// (the sync is sent after the first N updates and before the burst)
				script := defaultRConn
				if conn >= 0 && conn < len(sc.Conns) {
					script = sc.Conns[conn]
				}
				if e.n != conn || e.k != next || (synced && e.k < script.N) || (!synced && script.Sync && e.k >= script.N) {
					return newVerr("order", "stream of connection %d: got %s where update %d was due (sync seen: %v; the sync is sent after update %d)", conn, renderRev(e), next, synced, script.N-1)
				}
				if e.k >= script.N {
					st.label("burst-update-delivered")
				}
				next++
			default:
				return newVerr("order", "the handler received a notification the server never sent: %s", e.note)
			}
		}
		if next > 0 {
			st.label("stream-with-updates")
		}
		return nil
	}
	for _, e := range trace {
		switch e.kind {
		case "sub-begin":
			in, proto = true, e.note == "proto"
		case "sub-end":
			in = false
			if v := flush(); v != nil {
				return v
			}
		case "connected", "sync", "upd", "other":
			if in {
				stream = append(stream, e)
			} else {
				st.label("notification-outside-an-attempt")
			}
		}
	}
	if v := flush(); v != nil {
		return v
	}
	realLabels(sc, trace, st)
	return nil
}

// realLabels derives the labels and the non-trivial rule from what happened.
func realLabels(sc *RScenario, trace []rev, st *tstats) {
	failedAfterDial := false
	ended, discs := 0, 0
	for _, e := range trace {
		switch e.kind {
		case "sub-call":
			discs = 0
		case "ctx-deadline":
			st.label(e.note)
		case "trap":
			st.label("trap-fired:" + e.note)
			if !strings.HasPrefix(e.note, "pre-dial") && !strings.HasSuffix(e.note, "/linger") {
				failedAfterDial = true
			}
		case "sub-end":
			ended++
			if e.note != "<nil>" {
				st.label("attempt-failed")
			} else {
				st.label("attempt-ended-without-error")
			}
			if strings.Contains(e.note, "generating SubscribeRequest proto") {
				st.label("set-up-failure:request-builder-rejects-the-path")
				failedAfterDial = true
			}
			if strings.Contains(e.note, "failed to initialize Subscribe RPC") {
				st.label("set-up-failure:rpc-not-started")
			}
			if strings.Contains(e.note, "client.Send(") {
				st.label("set-up-failure:first-send-fails")
				failedAfterDial = true
			}
			if strings.Contains(e.note, "Dialer(") {
				st.label("dial-failure")
				if strings.Contains(e.note, "context canceled") || strings.Contains(e.note, "context deadline exceeded") {
					st.label("dial-failure:context-ended")
				} else {
					st.label("dial-failure:other")
				}
			}
		case "disconnect":
			discs++
			if discs >= 2 {
				st.label("disconnects-in-one-subscribe>=2")
			}
		case "reset":
			st.label("retried")
		}
	}
	if ended >= 3 {
		st.label("attempts-ended>=3")
	}
	nSub, nClose := 0, 0
	for _, e := range trace {
		switch e.kind {
		case "sub-call":
			nSub++
		case "close-call":
			nClose++
		}
	}
	if nSub >= 2 {
		st.label("subscribe-calls>=2")
	}
	if nClose >= 2 {
		st.label("close-calls>=2")
	}
	// Non-trivial: a Subscribe set-up failed AFTER a successful dial, or a
	// subscription whose server held the stream open (quiet or mid-burst) was
	// ended through its context and awaited without any Close.
	ctxEndedInStream := false
	for l := range st.labels {
		if strings.HasPrefix(l, "cancel-while-streaming-") || strings.HasPrefix(l, "deadline-passes-while-streaming") {
			ctxEndedInStream = true
		}
	}
	if ctxEndedInStream && st.labels["ctx-ended-call-awaited-without-close"] {
		st.label("ctx-ended-in-held-stream-and-awaited")
	} else {
		ctxEndedInStream = false
	}
	// ... or the established stream of a plain client was ended by Close alone.
	st.nontriv = failedAfterDial || ctxEndedInStream || st.labels["plain-close-while-streaming-awaited-without-cancel"]
	if st.nontriv {
		st.label("nontrivial")
	}
}

func renderRev(e rev) string {
	switch e.kind {
	case "upd":
		return fmt.Sprintf("c%d/k%d", e.n, e.k)
	case "sub-begin":
		return fmt.Sprintf("sub-begin#%d", e.n)
	case "sub-end":
		return fmt.Sprintf("sub-end#%d(%s)", e.n, cut(e.note, 90))
	case "sub-call", "cancel", "ctx-deadline":
		return fmt.Sprintf("%s(#%d %s)", e.kind, e.call, e.note)
	case "ret":
		return fmt.Sprintf("ret(#%d %s)", e.call, cut(e.note, 90))
	case "trap":
		return fmt.Sprintf("trap(#%d %s)", e.call, e.note)
	case "close-ret", "other":
		return fmt.Sprintf("%s(%s)", e.kind, cut(e.note, 90))
	}
	return e.kind
}

func cut(s string, n int) string {
	s = strings.ReplaceAll(s, "\n", " ")
	if len(s) > n {
		return s[:n] + "..."
	}
	return s
}

func renderTrace(trace []rev) string {
	parts := make([]string, 0, len(trace))
	for i, e := range trace {
		if i >= 120 {
			parts = append(parts, fmt.Sprintf("... %d more", len(trace)-i))
			break
		}
		parts = append(parts, renderRev(e))
	}
	return strings.Join(parts, " | ")
}
