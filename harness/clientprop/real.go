package clientprop

import (
	"context"
	"fmt"
	"net"
	"strconv"
	"strings"
	"sync"
	"sync/atomic"
	"time"

	"github.com/openconfig/gnmi/client"
	gclient "github.com/openconfig/gnmi/client/gnmi"
	gpb "github.com/openconfig/gnmi/proto/gnmi"
	"google.golang.org/grpc"
	"google.golang.org/grpc/codes"
	"google.golang.org/grpc/status"
)

// Part "real": the lifecycle of half A (a generated SEQUENCE of Subscribe /
// cancel / Close calls on one client object) over the REAL gNMI transport
// (client/gnmi, the registered "gnmi" client type) against an in-process gRPC
// server on a loopback socket, instead of the scripted client.Impl. What the
// scripted transport cannot show is what the real one does when it is only
// half set up: the dial succeeded, but the Subscribe RPC cannot be established
// on the connection - the context is cancelled (or Close called) between the
// dial and the start of the RPC or between the start of the RPC and the first
// Send, the request builder rejects a query path (noticed only after the RPC
// was opened), the server refuses the RPC or closes the stream at once - and
// the generic client then closes that transport again.
//
// Real sockets force real time, so nothing here is judged by a clock:
//
//   - no panic (a panic on a goroutine of the client kills the process; the
//     scenario is announced beforehand and the driver reports the crash);
//   - every Subscribe and Close call returns: waited for with a generous guard
//     whose expiry makes the case INCONCLUSIVE, never a violation;
//   - order-only clauses on the recorded trace (one mutex; the callbacks, the
//     handler and the begin/end of every underlying attempt are recorded on the
//     goroutine that runs Subscribe, stop actions BEFORE they are issued, a
//     return of Close AFTER it happened): Subscribe of a reconnecting client
//     does not return unless a stop action (cancellation of its context, any
//     Close call) was issued first - it keeps retrying after every set-up
//     failure; disconnect once per ended attempt, reset once before each retry,
//     neither while an attempt runs; no underlying attempt begins after a Close
//     call of the reconnecting client has returned; on every stream Connected
//     precedes everything else and the updates arrive in the order sent.
//
// Waiting "until the first sync / N disconnect callbacks / the trap fired"
// only decides where the next step lands; such a wait gives up after a while
// and the step is issued anyway.

// RConn scripts how the server treats one Subscribe RPC (in arrival order;
// RPCs beyond the script get 1 update, a sync, and stay open).
type RConn struct {
	// Mode: "refuse" (the handler returns a status error without reading the
	// request), "eof" (it returns nil at once: the stream is closed),
	// "recv-err" (it reads the request, then fails), "data".
	Mode string `json:"mode"`
	N    int    `json:"n,omitempty"`    // data: updates sent
	Sync bool   `json:"sync,omitempty"` // data: a sync_response after them
	End  string `json:"end,omitempty"`  // data: "block" | "err" | "eof"
}

// RStep is one step of the sequence.
type RStep struct {
	Kind string `json:"kind"` // "subscribe" | "cancel" | "close"
	// After: what the harness waits for (on the latest Subscribe call) before it
	// issues the step: "" nothing, "begin" an underlying attempt has begun (the
	// step then lands in its set-up), "sync" a sync has been delivered, "disc" N
	// disconnect callbacks, "trap" the trap of that call fired, "ret" the call
	// returned. A wait that cannot be satisfied in the state reached is skipped.
	After string `json:"after,omitempty"`
	N     int    `json:"n,omitempty"`
	// subscribe:
	// Query: "" (valid), a kind of query path the request builder rejects (see
	// realBadPaths), or "dead" (an address nobody listens on, Timeout 30 ms).
	Query     string `json:"query,omitempty"`
	Cancelled bool   `json:"cancelled,omitempty"` // the context is already cancelled
	// Trap: inside the set-up of underlying attempt TrapAttempt of this call
	// (0 = the first), at point "pre-dial" (constructor entered), "post-dial"
	// (connection is up, RPC not started) or "post-rpc" (RPC opened, request
	// being built, nothing sent), the harness performs TrapAct: "cancel" (the
	// call's context), "close" (Close on another goroutine; the set-up goes
	// on once the attempt's context is done or Close has returned) or "linger"
	// (no stop action: the set-up merely pauses for 2 ms, which lets a server
	// that refuses the RPC or closes the stream win the race against the first
	// Send). TrapLinger: the set-up also pauses 1 ms after a "cancel" (grpc
	// notices a cancelled context asynchronously).
	Trap        string `json:"trap,omitempty"`
	TrapAttempt int    `json:"trap_attempt,omitempty"`
	TrapAct     string `json:"trap_act,omitempty"`
	TrapLinger  bool   `json:"trap_linger,omitempty"`
}

// RScenario is one case of part "real".
type RScenario struct {
	Client       string  `json:"client"` // "base" | "cache"
	Plain        bool    `json:"plain,omitempty"`
	NilCallbacks bool    `json:"nil_callbacks,omitempty"`
	Conns        []RConn `json:"conns,omitempty"`
	Steps        []RStep `json:"steps"`
}

// realBadPaths: query paths the gNMI request builder rejects - after the RPC
// has been opened on the new connection.
var realBadPaths = map[string][]client.Path{
	"key-without-name":   {{"interfaces", "interface[eth0]", "state"}},
	"stray-bracket":      {{"a]"}},
	"empty-element":      {{"a", "", "b"}},
	"key-without-value":  {{"a[b=]"}},
	"garbage-after-keys": {{"a[b=c]d"}},
	"second-path-bad":    {{"a"}, {"[x=y]"}},
}

var realBadKinds = []string{"key-without-name", "stray-bracket", "empty-element", "key-without-value", "garbage-after-keys", "second-path-bad"}

func (sc *RScenario) validate() error {
	if sc.Client != "base" && sc.Client != "cache" {
		return fmt.Errorf("client %q", sc.Client)
	}
	if len(sc.Conns) > 16 || len(sc.Steps) == 0 || len(sc.Steps) > 16 {
		return fmt.Errorf("%d connections, %d steps", len(sc.Conns), len(sc.Steps))
	}
	for i, c := range sc.Conns {
		switch c.Mode {
		case "refuse", "eof", "recv-err":
		case "data":
			if c.End != "block" && c.End != "err" && c.End != "eof" {
				return fmt.Errorf("connection %d end %q", i, c.End)
			}
		default:
			return fmt.Errorf("connection %d mode %q", i, c.Mode)
		}
		if c.N < 0 || c.N > 32 {
			return fmt.Errorf("connection %d: %d updates", i, c.N)
		}
	}
	for i, s := range sc.Steps {
		switch s.Kind {
		case "subscribe", "cancel", "close":
		default:
			return fmt.Errorf("step %d kind %q", i, s.Kind)
		}
		switch s.After {
		case "", "begin", "sync", "disc", "trap", "ret":
		default:
			return fmt.Errorf("step %d after %q", i, s.After)
		}
		if s.N < 0 || s.N > 8 {
			return fmt.Errorf("step %d n %d", i, s.N)
		}
		if s.Kind != "subscribe" {
			if s.Query != "" || s.Cancelled || s.Trap != "" || s.TrapAct != "" || s.TrapLinger {
				return fmt.Errorf("step %d: only a subscribe step carries a query, a context or a trap", i)
			}
			continue
		}
		if _, bad := realBadPaths[s.Query]; !bad && s.Query != "" && s.Query != "dead" {
			return fmt.Errorf("step %d query %q", i, s.Query)
		}
		switch s.Trap {
		case "":
		case "pre-dial", "post-dial", "post-rpc":
			if s.TrapAct != "cancel" && s.TrapAct != "close" && s.TrapAct != "linger" {
				return fmt.Errorf("step %d trap action %q", i, s.TrapAct)
			}
			if s.TrapAttempt < 0 || s.TrapAttempt > 8 {
				return fmt.Errorf("step %d trap attempt %d", i, s.TrapAttempt)
			}
		default:
			return fmt.Errorf("step %d trap %q", i, s.Trap)
		}
	}
	return nil
}

// ---------------------------------------------------------------------------
// the server
// ---------------------------------------------------------------------------

type realServer struct {
	gpb.UnimplementedGNMIServer
	w    *rworld
	mu   sync.Mutex
	rpcs int
	used map[string]bool // modes of scripted connections that were served
}

var defaultRConn = RConn{Mode: "data", N: 1, Sync: true, End: "block"}

func (s *realServer) Subscribe(stream gpb.GNMI_SubscribeServer) error {
	s.mu.Lock()
	idx := s.rpcs
	s.rpcs++
	c := defaultRConn
	if idx < len(s.w.sc.Conns) {
		c = s.w.sc.Conns[idx]
		s.used[c.Mode] = true
	}
	s.mu.Unlock()
	switch c.Mode {
	case "refuse":
		return status.Error(codes.PermissionDenied, "scripted refusal")
	case "eof":
		return nil
	}
	if _, err := stream.Recv(); err != nil {
		return err
	}
	if c.Mode == "recv-err" {
		return status.Error(codes.Unavailable, "scripted failure after the request")
	}
	for k := 0; k < c.N; k++ {
		n := &gpb.Notification{Timestamp: int64(1000*idx + k + 1), Prefix: &gpb.Path{Target: "dev"}, Update: []*gpb.Update{{
			Path: &gpb.Path{Elem: []*gpb.PathElem{{Name: "c" + strconv.Itoa(idx)}, {Name: "k" + strconv.Itoa(k)}}},
			Val:  &gpb.TypedValue{Value: &gpb.TypedValue_IntVal{IntVal: int64(1000*idx + k)}},
		}}}
		if err := stream.Send(&gpb.SubscribeResponse{Response: &gpb.SubscribeResponse_Update{Update: n}}); err != nil {
			return err
		}
	}
	if c.Sync {
		if err := stream.Send(&gpb.SubscribeResponse{Response: &gpb.SubscribeResponse_SyncResponse{SyncResponse: true}}); err != nil {
			return err
		}
	}
	switch c.End {
	case "err":
		return status.Error(codes.Unavailable, "scripted stream failure")
	case "eof":
		return nil
	}
	s.w.park(1)
	defer s.w.park(-1)
	<-stream.Context().Done()
	return stream.Context().Err()
}

// ---------------------------------------------------------------------------
// the recorded trace
// ---------------------------------------------------------------------------

// rev is one entry of the trace. Kinds: sub-call, ret, cancel, close-call,
// close-ret, trap (call = Subscribe ordinal); sub-begin, sub-end (n = attempt);
// disconnect, reset; connected, sync, upd (n = connection tag, k = index),
// other.
type rev struct {
	kind string
	call int
	n, k int
	note string
}

type rcall struct {
	n         int
	step      RStep
	cancel    context.CancelFunc
	beginBase int // underlying attempts begun before the call
	stopped   bool
	returned  bool
	fired     bool // its trap
	closedAt  int  // Close calls issued when it was called
}

type rworld struct {
	sc *RScenario
	c  client.Client

	mu      sync.Mutex
	trace   []rev
	calls   []*rcall
	cur     *rcall // latest Subscribe call
	nBegin  int
	nEnd    int
	attempt context.Context // context of the running underlying attempt
	parked  int             // server handlers holding a stream open
	nClose  int             // Close calls issued
	paniced string
	poke    chan struct{}
	closes  sync.WaitGroup
}

func (w *rworld) rec(e rev) {
	w.mu.Lock()
	w.trace = append(w.trace, e)
	w.mu.Unlock()
	w.wake()
}

func (w *rworld) wake() {
	select {
	case w.poke <- struct{}{}:
	default:
	}
}

func (w *rworld) park(d int) {
	w.mu.Lock()
	w.parked += d
	w.mu.Unlock()
	w.wake()
}

// await waits until cond (evaluated under w.mu) holds or patience runs out.
func (w *rworld) await(patience time.Duration, cond func() bool) bool {
	t := time.NewTimer(patience)
	defer t.Stop()
	for {
		w.mu.Lock()
		ok := cond()
		w.mu.Unlock()
		if ok {
			return true
		}
		select {
		case <-w.poke:
		case <-t.C:
			w.mu.Lock()
			ok := cond()
			w.mu.Unlock()
			return ok
		}
	}
}

// rtrace records begin and return of every underlying Subscribe.
type rtrace struct {
	client.Client
	w *rworld
}

func (t *rtrace) Subscribe(ctx context.Context, q client.Query, clientType ...string) error {
	w := t.w
	w.mu.Lock()
	idx := w.nBegin
	w.nBegin++
	w.attempt = ctx
	w.trace = append(w.trace, rev{kind: "sub-begin", n: idx})
	w.mu.Unlock()
	w.wake()
	err := t.Client.Subscribe(ctx, q, clientType...)
	w.mu.Lock()
	w.nEnd++
	w.trace = append(w.trace, rev{kind: "sub-end", n: idx, note: fmt.Sprint(err)})
	w.mu.Unlock()
	w.wake()
	return err
}

func (w *rworld) handler(n client.Notification) error {
	e := rev{kind: "other", note: fmt.Sprintf("%#v", n)}
	switch v := n.(type) {
	case client.Connected:
		e = rev{kind: "connected"}
	case client.Sync:
		e = rev{kind: "sync"}
	case client.Update:
		// target "dev", c<conn>, k<index>, value 1000*conn+index
		if len(v.Path) == 3 && v.Path[0] == "dev" && strings.HasPrefix(v.Path[1], "c") && strings.HasPrefix(v.Path[2], "k") {
			c, e1 := strconv.Atoi(v.Path[1][1:])
			k, e2 := strconv.Atoi(v.Path[2][1:])
			if val, ok := v.Val.(int64); ok && e1 == nil && e2 == nil && val == int64(1000*c+k) {
				e = rev{kind: "upd", n: c, k: k}
			}
		}
	}
	w.rec(e)
	return nil
}

// ---------------------------------------------------------------------------
// traps: the two seams the harness uses to act at a chosen point INSIDE the
// set-up of an attempt. Neither replaces anything of the transport: the trap
// client type calls the real constructor and returns the real *gnmi.Client;
// the request-builder variable of client/gnmi ("can be stubbed") calls the
// original builder.
// ---------------------------------------------------------------------------

const realTrapType = "c18-gnmi-with-dial-traps"

var (
	realOnce  sync.Once
	curReal   atomic.Pointer[rworld]
	realGuard = 30 * time.Second // expiry = INCONCLUSIVE
	// realPatience bounds a wait that only decides where a step lands.
	realPatience = 2 * time.Second
)

func realInstall() {
	realOnce.Do(func() {
		client.RegisterTest(realTrapType, realTrapCtor)
		orig := gclient.ToSubscribeRequest
		gclient.ToSubscribeRequest = func(q client.Query) (*gpb.SubscribeRequest, error) {
			if w := curReal.Load(); w != nil {
				w.trap("post-rpc")
			}
			return orig(q)
		}
	})
}

// realTrapCtor is the constructor registered as realTrapType.
func realTrapCtor(ctx context.Context, d client.Destination) (client.Impl, error) {
	w := curReal.Load()
	if w != nil {
		w.trap("pre-dial")
	}
	impl, err := gclient.New(ctx, d)
	if err != nil {
		return nil, err
	}
	if w != nil {
		w.trap("post-dial")
	}
	return impl, nil
}

// trap runs on the goroutine that sets the attempt up.
func (w *rworld) trap(point string) {
	w.mu.Lock()
	call := w.cur
	if call == nil || call.returned || call.fired || call.step.Trap != point || w.nBegin-call.beginBase-1 != call.step.TrapAttempt || w.nBegin == w.nEnd {
		w.mu.Unlock()
		return
	}
	call.fired = true
	act := call.step.TrapAct
	actx := w.attempt
	w.trace = append(w.trace, rev{kind: "trap", call: call.n, note: point + "/" + act})
	if act != "linger" {
		call.stopped = true
	}
	if act == "cancel" {
		w.trace = append(w.trace, rev{kind: "cancel", call: call.n})
	}
	w.mu.Unlock()
	w.wake()
	switch act {
	case "linger":
		time.Sleep(2 * time.Millisecond)
		return
	case "cancel":
		call.cancel()
		if call.step.TrapLinger {
			time.Sleep(time.Millisecond)
		}
		return
	}
	ret := w.closeAsync()
	// Close of a reconnecting client cancels the attempt and then waits for
	// Subscribe; Close of a plain client returns.
	t := time.NewTimer(realPatience)
	defer t.Stop()
	select {
	case <-actx.Done():
	case <-ret:
	case <-t.C:
	}
}

// closeAsync records and issues a Close call on a goroutine of its own.
func (w *rworld) closeAsync() <-chan struct{} {
	ret := make(chan struct{})
	w.mu.Lock()
	w.nClose++
	if !w.sc.Plain {
		// (Close of a plain client ends a stream, not a connection attempt)
		for _, c := range w.calls {
			if !c.returned {
				c.stopped = true
			}
		}
	}
	w.trace = append(w.trace, rev{kind: "close-call"})
	w.mu.Unlock()
	w.closes.Add(1)
	go func() {
		defer w.closes.Done()
		defer close(ret)
		defer w.recoverPanic("Close")
		err := w.c.Close()
		w.mu.Lock()
		w.trace = append(w.trace, rev{kind: "close-ret", note: fmt.Sprint(err)})
		w.mu.Unlock()
		w.wake()
	}()
	return ret
}

func (w *rworld) recoverPanic(what string) {
	if r := recover(); r != nil {
		w.mu.Lock()
		if w.paniced == "" {
			w.paniced = fmt.Sprintf("%s panicked: %v", what, r)
		}
		w.mu.Unlock()
		w.wake()
	}
}

// ---------------------------------------------------------------------------
// running one case
// ---------------------------------------------------------------------------

func runReal(sc *RScenario) (st *tstats, err error) {
	st = &tstats{}
	defer func() {
		if r := recover(); r != nil {
			err = newVerr("panic", "panic: %v", r)
		}
	}()
	if verr := sc.validate(); verr != nil {
		return st, newVerr("harness-error", "invalid scenario: %v", verr)
	}
	realInstall()
	retryMu.Lock()
	defer retryMu.Unlock()
	ob, om, or := client.RetryBaseDelay, client.RetryMaxDelay, client.RetryRandomization
	defer func() { client.RetryBaseDelay, client.RetryMaxDelay, client.RetryRandomization = ob, om, or }()
	client.RetryBaseDelay, client.RetryMaxDelay, client.RetryRandomization = time.Millisecond, 2*time.Millisecond, 0

	lis, lerr := net.Listen("tcp", "127.0.0.1:0")
	if lerr != nil {
		return st, &errInconclusive{"listen: " + lerr.Error()}
	}
	dead := ""
	for _, s := range sc.Steps {
		if s.Query == "dead" && dead == "" {
			l2, e2 := net.Listen("tcp", "127.0.0.1:0")
			if e2 != nil {
				lis.Close()
				return st, &errInconclusive{"listen: " + e2.Error()}
			}
			dead = l2.Addr().String()
			l2.Close()
		}
	}
	w := &rworld{sc: sc, poke: make(chan struct{}, 1)}
	srv := grpc.NewServer()
	ss := &realServer{w: w, used: map[string]bool{}}
	gpb.RegisterGNMIServer(srv, ss)
	go srv.Serve(lis)
	defer srv.Stop()

	var inner client.Client
	if sc.Client == "cache" {
		inner = client.New()
		st.label("cacheclient")
	} else {
		inner = &client.BaseClient{}
		st.label("baseclient")
	}
	switch {
	case sc.Plain:
		w.c = &rtrace{Client: inner, w: w}
		st.label("plain-client")
	case sc.NilCallbacks:
		w.c = client.Reconnect(&rtrace{Client: inner, w: w}, nil, nil)
		st.label("reconnect-nil-callbacks")
	default:
		w.c = client.Reconnect(&rtrace{Client: inner, w: w},
			func() { w.rec(rev{kind: "disconnect"}) },
			func() { w.rec(rev{kind: "reset"}) })
		st.label("reconnect-client")
	}
	curReal.Store(w)
	defer curReal.Store(nil)

	var subs sync.WaitGroup
	closedAny := false
	inconclusive := ""
	// counters read under w.mu
	since := func(call *rcall, kind string) int {
		n, on := 0, false
		for _, e := range w.trace {
			if e.kind == "sub-call" && e.call == call.n {
				on = true
			}
			if on && e.kind == kind {
				n++
			}
		}
		return n
	}
	// phase says, for the labels, what the latest Subscribe call is doing.
	phase := func() string {
		w.mu.Lock()
		defer w.mu.Unlock()
		c := w.cur
		switch {
		case c == nil:
			return "before-any-subscribe"
		case c.returned:
			return "with-no-subscribe-running"
		case c.stopped:
			return "while-stopped-subscribe-unwinds"
		case w.nBegin == w.nEnd:
			if w.nBegin == c.beginBase {
				return "before-first-attempt"
			}
			return "during-backoff"
		}
		got := false
		for i := len(w.trace) - 1; i >= 0 && w.trace[i].kind != "sub-begin"; i-- {
			if k := w.trace[i].kind; k == "connected" || k == "upd" || k == "sync" {
				got = true
			}
		}
		if got {
			return "while-streaming"
		}
		return "during-set-up"
	}

	for _, s := range sc.Steps {
		// the wait in front of the step
		w.mu.Lock()
		cur := w.cur
		running := cur != nil && !cur.returned
		w.mu.Unlock()
		switch {
		case s.After == "" || cur == nil:
		case s.After == "ret":
			w.mu.Lock()
			due := running && cur.stopped
			w.mu.Unlock()
			switch {
			case due:
				if !w.await(realGuard, func() bool { return cur.returned || w.paniced != "" }) {
					inconclusive = fmt.Sprintf("Subscribe #%d has not returned although its stop action was issued", cur.n)
				}
				st.label("step-after-return")
			case running && sc.Plain:
				// a plain client's Subscribe may end by itself
				if w.await(realPatience/4, func() bool { return cur.returned || w.parked > 0 }) {
					st.label("step-after-return")
				} else {
					st.label("wait-gave-up:ret")
				}
			}
		case !running:
		case s.After == "sync" && cur.step.Query == "" && !cur.step.Cancelled && (sc.Plain || !closedAny):
			n := 1
			if w.await(realPatience, func() bool { return since(cur, "sync") >= n || cur.returned || w.parked > 0 }) {
				st.label("step-after-sync")
			} else {
				st.label("wait-gave-up:sync")
			}
		case s.After == "disc" && !sc.Plain && !sc.NilCallbacks:
			n := s.N
			if n < 1 {
				n = 1
			}
			if w.await(realPatience, func() bool { return since(cur, "disconnect") >= n || cur.returned || w.parked > 0 }) {
				st.label("step-after-disconnects")
			} else {
				st.label("wait-gave-up:disc")
			}
		case s.After == "trap" && cur.step.Trap != "":
			if w.await(realPatience, func() bool {
				return cur.fired || cur.returned || w.parked > 0 || w.nEnd-cur.beginBase > cur.step.TrapAttempt
			}) {
				st.label("step-after-trap")
			} else {
				st.label("wait-gave-up:trap")
			}
		case s.After == "begin":
			if w.await(realPatience, func() bool { return w.nBegin > cur.beginBase || cur.returned }) {
				st.label("step-after-attempt-began")
			} else {
				st.label("wait-gave-up:begin")
			}
		}
		if inconclusive != "" {
			break
		}
		w.mu.Lock()
		p := w.paniced
		w.mu.Unlock()
		if p != "" {
			break
		}

		switch s.Kind {
		case "subscribe":
			w.mu.Lock()
			cur = w.cur
			running = cur != nil && !cur.returned
			stopped := running && cur.stopped
			w.mu.Unlock()
			if running && !stopped && sc.Plain {
				// Close of a plain client ends an established stream
				w.mu.Lock()
				closedSince := w.nClose > cur.closedAt
				w.mu.Unlock()
				if closedSince && w.await(realPatience/4, func() bool { return cur.returned }) {
					running = false
				}
			}
			if running && !stopped {
				st.label("subscribe-step-skipped-previous-still-running")
				continue
			}
			if running {
				if !w.await(realGuard, func() bool { return cur.returned || w.paniced != "" }) {
					inconclusive = fmt.Sprintf("Subscribe #%d has not returned although its stop action was issued", cur.n)
					break
				}
			}
			ctx, cancel := context.WithCancel(context.Background())
			q := client.Query{
				Addrs:               []string{lis.Addr().String()},
				Target:              "dev",
				Queries:             []client.Path{{"*"}},
				Type:                client.Stream,
				Timeout:             10 * time.Second,
				NotificationHandler: w.handler,
			}
			switch {
			case s.Query == "dead":
				q.Addrs, q.Timeout = []string{dead}, 30*time.Millisecond
				st.label("dead-address")
			case s.Query != "":
				q.Queries = realBadPaths[s.Query]
				st.label("bad-path:" + s.Query)
			}
			typ := gclient.Type
			if s.Trap == "pre-dial" || s.Trap == "post-dial" {
				typ = realTrapType
			}
			w.mu.Lock()
			call := &rcall{n: len(w.calls), step: s, cancel: cancel, beginBase: w.nBegin, closedAt: w.nClose}
			call.stopped = s.Cancelled || (closedAny && !sc.Plain)
			w.calls = append(w.calls, call)
			w.cur = call
			note := ""
			if call.stopped {
				note = "stopped"
			}
			w.trace = append(w.trace, rev{kind: "sub-call", call: call.n, note: note})
			w.mu.Unlock()
			if s.Cancelled {
				cancel()
				st.label("subscribe-with-cancelled-context")
			}
			if closedAny && !sc.Plain {
				st.label("subscribe-on-closed-client")
			}
			if call.n > 0 {
				st.label("subscribe-again")
			}
			subs.Add(1)
			go func() {
				defer subs.Done()
				defer w.recoverPanic("Subscribe")
				err := w.c.Subscribe(ctx, q, typ)
				w.mu.Lock()
				call.returned = true
				w.trace = append(w.trace, rev{kind: "ret", call: call.n, note: fmt.Sprint(err)})
				w.mu.Unlock()
				w.wake()
			}()
		case "cancel":
			ph := phase()
			w.mu.Lock()
			cur = w.cur
			if cur != nil {
				cur.stopped = true
				w.trace = append(w.trace, rev{kind: "cancel", call: cur.n})
			}
			w.mu.Unlock()
			if cur == nil {
				st.label("cancel-step-skipped-no-subscribe-yet")
				continue
			}
			st.label("cancel-" + ph)
			cur.cancel()
		case "close":
			st.label("close-" + phase())
			if closedAny {
				st.label("close-again")
			}
			closedAny = true
			w.closeAsync()
		}
	}

	// The closing Close, then everything must come back.
	if inconclusive == "" {
		ret := w.closeAsync()
		closedAny = true
		g := time.NewTimer(realGuard)
		select {
		case <-ret:
		case <-g.C:
			inconclusive = "the closing Close call has not returned"
		}
		g.Stop()
	}
	if inconclusive == "" && !sc.Plain {
		// Close alone must end every Subscribe call of a reconnecting client
		all := make(chan struct{})
		go func() { subs.Wait(); close(all) }()
		g := time.NewTimer(realGuard)
		select {
		case <-all:
		case <-g.C:
			inconclusive = "a Subscribe call of the reconnecting client has not returned after Close had"
		}
		g.Stop()
	}
	w.mu.Lock()
	for _, c := range w.calls {
		if !c.returned {
			c.stopped = true
			w.trace = append(w.trace, rev{kind: "cancel", call: c.n})
		}
	}
	calls := append([]*rcall(nil), w.calls...)
	w.mu.Unlock()
	for _, c := range calls {
		c.cancel()
	}
	if inconclusive == "" {
		all := make(chan struct{})
		go func() { subs.Wait(); w.closes.Wait(); close(all) }()
		g := time.NewTimer(realGuard)
		select {
		case <-all:
		case <-g.C:
			inconclusive = "a Subscribe or Close call has not returned after the closing Close and the cancellation of every context"
		}
		g.Stop()
	}
	w.mu.Lock()
	trace := append([]rev(nil), w.trace...)
	paniced := w.paniced
	w.mu.Unlock()
	if paniced != "" {
		return st, newVerr("panic", "%s\ntrace: %s", paniced, renderTrace(trace))
	}
	if inconclusive != "" {
		st.guardSkip = true
		return st, &errInconclusive{fmt.Sprintf("%s within %v of real time; trace: %s", inconclusive, realGuard, renderTrace(trace))}
	}
	ss.mu.Lock()
	for m := range ss.used {
		st.label("server-" + m)
	}
	ss.mu.Unlock()
	if v := judgeReal(sc, trace, st); v != nil {
		v.msg += "\ntrace: " + renderTrace(trace)
		return st, v
	}
	return st, nil
}

// judgeReal evaluates the order-only clauses on the trace.
func judgeReal(sc *RScenario, trace []rev, st *tstats) *verr {
	reconnect := !sc.Plain
	// (1) a reconnecting client's Subscribe returns only after a stop action.
	if reconnect {
		stopped := map[int]bool{}
		closeCalled := false
		for _, e := range trace {
			switch e.kind {
			case "sub-call":
				if e.note == "stopped" {
					stopped[e.call] = true
				}
			case "cancel":
				stopped[e.call] = true
			case "close-call":
				closeCalled = true
			case "ret":
				if !stopped[e.call] && !closeCalled {
					return newVerr("gave-up", "Subscribe #%d of the reconnecting client returned (%s) although its context had not been cancelled and Close had not been called", e.call, e.note)
				}
			}
		}
	}
	// (2) no attempt begins once a Close call of a reconnecting client returned.
	if reconnect {
		closed := false
		for _, e := range trace {
			switch e.kind {
			case "close-ret":
				closed = true
			case "sub-begin":
				if closed {
					return newVerr("attempt-after-close", "underlying attempt %d began after a Close call of the reconnecting client had returned", e.n)
				}
			}
		}
	}
	// (3) callback discipline, per Subscribe call.
	if reconnect && !sc.NilCallbacks {
		const (
			idle = iota
			running
			ended
			disc
			outside
		)
		state, attempt, first := outside, -1, true
		for _, e := range trace {
			switch e.kind {
			case "sub-call":
				state, first = idle, true
			case "sub-begin":
				switch state {
				case idle:
				case disc:
					return newVerr("reset-discipline", "attempt %d began without a reset call after the disconnect of attempt %d", e.n, attempt)
				case ended:
					return newVerr("disconnect-discipline", "attempt %d began without a disconnect call for ended attempt %d", e.n, attempt)
				case outside:
					return newVerr("attempt-outside-subscribe", "attempt %d began while no Subscribe call was running", e.n)
				default:
					return newVerr("harness-error", "attempt %d began while attempt %d was running", e.n, attempt)
				}
				state, attempt, first = running, e.n, false
			case "sub-end":
				state = ended
			case "disconnect":
				switch state {
				case ended:
					state = disc
				case disc, idle:
					return newVerr("disconnect-discipline", "disconnect called again for ended attempt %d (want once per ended attempt)", attempt)
				case running:
					return newVerr("disconnect-discipline", "disconnect called while attempt %d was still running", attempt)
				case outside:
					return newVerr("disconnect-discipline", "disconnect called while no Subscribe call was running")
				}
			case "reset":
				switch state {
				case disc:
					state = idle
				case idle:
					if first {
						return newVerr("reset-discipline", "reset called before the first attempt of a Subscribe call")
					}
					return newVerr("reset-discipline", "reset called twice before the retry after attempt %d", attempt)
				case ended:
					return newVerr("reset-discipline", "reset called before the disconnect call for ended attempt %d", attempt)
				case running:
					return newVerr("reset-discipline", "reset called while attempt %d was running (want before the retry)", attempt)
				case outside:
					return newVerr("reset-discipline", "reset called while no Subscribe call was running")
				}
			case "ret":
				if state == ended {
					return newVerr("disconnect-discipline", "Subscribe returned without a disconnect call for ended attempt %d", attempt)
				}
				if state == running {
					return newVerr("harness-error", "Subscribe returned while attempt %d was running", attempt)
				}
				state = outside
			}
		}
	}
	// (4) per stream: Connected first, one connection's updates in the order sent.
	in, lastConn := false, -1
	var stream []rev
	flush := func() *verr {
		defer func() { stream = nil }()
		if len(stream) == 0 {
			return nil
		}
		st.streams++
		if stream[0].kind != "connected" {
			return newVerr("connected-first", "a stream's first notification is %s, not Connected", renderRev(stream[0]))
		}
		conn, next, synced := -1, 0, false
		for _, e := range stream[1:] {
			switch e.kind {
			case "connected":
				return newVerr("connected-first", "Connected delivered twice on one stream")
			case "sync":
				synced = true
			case "upd":
				if conn < 0 {
					conn = e.n
					if conn <= lastConn {
						return newVerr("order", "a stream carries connection %d after connection %d was delivered", conn, lastConn)
					}
					lastConn = conn
				}
				if e.n != conn || e.k != next || synced {
					return newVerr("order", "stream of connection %d: got %s where update %d was due (sync seen: %v)", conn, renderRev(e), next, synced)
				}
				next++
			default:
				return newVerr("order", "the handler received a notification the server never sent: %s", e.note)
			}
		}
		if next > 0 {
			st.label("stream-with-updates")
		}
		return nil
	}
	for _, e := range trace {
		switch e.kind {
		case "sub-begin":
			in = true
		case "sub-end":
			in = false
			if v := flush(); v != nil {
				return v
			}
		case "connected", "sync", "upd", "other":
			if in {
				stream = append(stream, e)
			} else {
				st.label("notification-outside-an-attempt")
			}
		}
	}
	if v := flush(); v != nil {
		return v
	}
	realLabels(sc, trace, st)
	return nil
}

// realLabels derives the labels and the non-trivial rule from what happened.
func realLabels(sc *RScenario, trace []rev, st *tstats) {
	failedAfterDial := false
	ended, discs := 0, 0
	for _, e := range trace {
		switch e.kind {
		case "sub-call":
			discs = 0
		case "trap":
			st.label("trap-fired:" + e.note)
			if !strings.HasPrefix(e.note, "pre-dial") && !strings.HasSuffix(e.note, "/linger") {
				failedAfterDial = true
			}
		case "sub-end":
			ended++
			if e.note != "<nil>" {
				st.label("attempt-failed")
			} else {
				st.label("attempt-ended-without-error")
			}
			if strings.Contains(e.note, "generating SubscribeRequest proto") {
				st.label("set-up-failure:request-builder-rejects-the-path")
				failedAfterDial = true
			}
			if strings.Contains(e.note, "failed to initialize Subscribe RPC") {
				st.label("set-up-failure:rpc-not-started")
			}
			if strings.Contains(e.note, "client.Send(") {
				st.label("set-up-failure:first-send-fails")
				failedAfterDial = true
			}
			if strings.Contains(e.note, "Dialer(") {
				st.label("dial-failure")
			}
		case "disconnect":
			discs++
			if discs >= 2 {
				st.label("disconnects-in-one-subscribe>=2")
			}
		case "reset":
			st.label("retried")
		}
	}
	if ended >= 3 {
		st.label("attempts-ended>=3")
	}
	nSub, nClose := 0, 0
	for _, e := range trace {
		switch e.kind {
		case "sub-call":
			nSub++
		case "close-call":
			nClose++
		}
	}
	if nSub >= 2 {
		st.label("subscribe-calls>=2")
	}
	if nClose >= 2 {
		st.label("close-calls>=2")
	}
	// Non-trivial: a Subscribe set-up failed AFTER a successful dial.
	st.nontriv = failedAfterDial
	if st.nontriv {
		st.label("nontrivial")
	}
}

func renderRev(e rev) string {
	switch e.kind {
	case "upd":
		return fmt.Sprintf("c%d/k%d", e.n, e.k)
	case "sub-begin":
		return fmt.Sprintf("sub-begin#%d", e.n)
	case "sub-end":
		return fmt.Sprintf("sub-end#%d(%s)", e.n, cut(e.note, 90))
	case "sub-call", "cancel":
		return fmt.Sprintf("%s(#%d %s)", e.kind, e.call, e.note)
	case "ret":
		return fmt.Sprintf("ret(#%d %s)", e.call, cut(e.note, 90))
	case "trap":
		return fmt.Sprintf("trap(#%d %s)", e.call, e.note)
	case "close-ret", "other":
		return fmt.Sprintf("%s(%s)", e.kind, cut(e.note, 90))
	}
	return e.kind
}

func cut(s string, n int) string {
	s = strings.ReplaceAll(s, "\n", " ")
	if len(s) > n {
		return s[:n] + "..."
	}
	return s
}

func renderTrace(trace []rev) string {
	parts := make([]string, 0, len(trace))
	for i, e := range trace {
		if i >= 120 {
			parts = append(parts, fmt.Sprintf("... %d more", len(trace)-i))
			break
		}
		parts = append(parts, renderRev(e))
	}
	return strings.Join(parts, " | ")
}
