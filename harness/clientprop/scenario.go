// Package clientprop decides property C18: client Subscribe/Close always
// terminate and the reconnecting client keeps its callback discipline.
//
//	half A (virtual time)   run.go + double.go: client.Reconnect(BaseClient|CacheClient)
//	                        (or the plain client) over a scripted client.Impl inside a
//	                        testing/synctest bubble; Close / context cancellation at a
//	                        generated virtual instant; termination bound, restart bound
//	                        and callback trace judged on the recorded events.
//	                        errkind.go: the KIND of error value each failing step of the
//	                        scripted transport returns (error lists, wrapped sentinels,
//	                        cancellation look-alikes, typed nil, ...); a second, always
//	                        failing client type tried in parallel (Scenario.Decoy).
//	        part "lifetime" life.go: the same machinery under a generated SEQUENCE of
//	                        Subscribe / cancel / Close / Poll calls on one client object
//	                        (Subscribe again after Close or cancellation, Close twice,
//	                        Close or Poll before any Subscribe, cancelled contexts).
//	        part "entry"    life.go + entry.go: the lifetime machinery aimed at the OTHER entry
//	                        points of the client (Poll, Impl, Synced, Leaves as steps issued on
//	                        their own goroutines) over transports whose poll and subscription
//	                        writes block (Attempt.Poll, Sub "park", SubDelay); entry.go also has
//	                        the shapes of the caller's context (deadline, parent deadline,
//	                        values; Scenario.Ctx, LifeOp.Ctx) and the guarded bubble that turns
//	                        a lock held across a blocking call into a verdict.
//	        query.go        the KIND of query of every Subscribe call of parts "random" and
//	                        "lifetime" (Stream / Poll / Once / Unknown type, the ways
//	                        Query.Validate rejects a query): calls the client documents to
//	                        refuse return at once, run nothing, and leave the client object
//	                        usable - every later Subscribe / Close is judged as before.
//	        parts "types", "content"  multi.go: the clientType ARGUMENT of Subscribe (none,
//	                        one, several, repeated and unregistered names, per-type
//	                        outcomes) and the CONTENT of the notifications (repeating
//	                        paths, timestamps that go backwards, deletes) as generated
//	                        dimensions; the application receives exactly what the
//	                        transport handed over.
//	half B (real transport) transport.go: the real gNMI Impl against an in-process gRPC
//	                        server with a scripted Subscribe handler; order-only oracle.
//	        part "real"     real.go: lifecycle sequences (Subscribe / cancel / Close on one
//	                        client object, plain and reconnecting) over the real gNMI Impl
//	                        with set-ups that fail AFTER a successful dial (rejected query
//	                        paths, cancellation / Close between dial, RPC start and first
//	                        Send, a server that refuses or closes the stream); no panic,
//	                        every call returns (guard = inconclusive), order-only clauses.
//	                        realquery.go: every field of client.Query as a dimension (also
//	                        Scenario.QOpts / LifeOp.QOpts over the scripted transport);
//	                        realquiet.go: subscriptions ended through their context while the
//	                        server holds the stream, decided by a structural hang verdict
//	                        (process quiescent, sockets idle) instead of the guard.
//	                        The same verdict decides "Subscribe of a PLAIN client returns once a
//	                        Close call that found its established stream has returned".
//	                        realctor.go: every exported constructor of client/gnmi (gnmi.New and
//	                        an application-registered type built on gnmi.NewFromConn).
//	        shape.go        the Go SHAPE of the scripted transport (pointer, struct value,
//	                        not-comparable struct value, func type, map type) as a generated
//	                        dimension of parts "random", "lifetime" and "entry".
//	        callbacks.go    the constructor arguments of client.Reconnect: every combination
//	                        of nil / given disconnect and reset callbacks, in every part that
//	                        builds a reconnecting client; one shared judge of the callback
//	                        discipline for the callbacks that were given; panics of calls of
//	                        the code under test are verdicts, not crashes.
package clientprop

import (
	"fmt"
	"time"

	"github.com/cenkalti/backoff/v4"
)

// Unit is the granularity of every scripted delay of half A. All instants of a
// case are virtual (synctest), so the unit only has to be large compared with
// the nanosecond offsets below.
const Unit = time.Millisecond

// Offsets that keep the harness's own actions off the instants at which the
// script or the backoff produce events (those are sums of multiples of 15625 ns
// as long as MaxDelay <= 11 x BaseDelay): Subscribe is issued 3 ns and the stop
// action 7 ns after their unit instant.
const (
	subOffset  = 3 * time.Nanosecond
	stopOffset = 7 * time.Nanosecond
)

// defaultTimeout mirrors the documented default of Destination.Timeout.
const defaultTimeout = time.Minute

// Msg is one message a scripted stream hands to Recv: it arrives Delay units
// after the previous one (or after Subscribe) and carries N notifications.
type Msg struct {
	Delay int `json:"delay"`
	N     int `json:"n"`
}

// Attempt scripts one underlying connection attempt.
type Attempt struct {
	// Conn: "ok" (the constructor returns an Impl after ConnDelay units),
	// "err" (it fails after ConnDelay units), "park" (it blocks until its
	// context is cancelled or the destination timeout elapses, then fails),
	// "deaf" (a transport that does not watch its context: the constructor
	// takes ConnDelay units whatever happens and then succeeds, the stream
	// hands over its scripted messages and its scripted end until the Impl
	// itself is closed; only a stream with nothing left - End "block" -
	// notices the cancellation).
	Conn      string `json:"conn"`
	ConnDelay int    `json:"conn_delay,omitempty"`
	// Sub: "ok", "err" (Impl.Subscribe fails) or "park" (Impl.Subscribe blocks,
	// as the write of the subscription request does when the peer has stopped
	// reading, until its context ends or the Impl is closed, and then fails; a
	// deaf transport cannot park: there "park" is read as "ok"). SubDelay: the
	// call takes that many units first (a deaf transport cannot be interrupted
	// meanwhile, the others give up when their context ends).
	Sub      string `json:"sub"`
	SubDelay int    `json:"sub_delay,omitempty"`
	Msgs     []Msg  `json:"msgs,omitempty"`
	// End is what Recv does after the last message, EndDelay units later:
	// "err", "eof" (io.EOF), "stop" (client.ErrStopReading) or "block" (blocks
	// until the Impl is closed or its context cancelled).
	End      string `json:"end"`
	EndDelay int    `json:"end_delay,omitempty"`
	// ConnErr / SubErr / EndErr / CloseErr choose the KIND of error value the
	// failing step returns (see errKinds in errkind.go): the constructor
	// (Conn "err" or "park"), Impl.Subscribe (Sub "err"), Recv (End "err") and
	// Impl.Close (any non-empty kind makes Close fail). Empty = the plain
	// errors.New value (Close: nil).
	ConnErr  string `json:"conn_err,omitempty"`
	SubErr   string `json:"sub_err,omitempty"`
	EndErr   string `json:"end_err,omitempty"`
	CloseErr string `json:"close_err,omitempty"`
	// Poll is what Impl.Poll (the write of a poll request) does on the transport
	// of this attempt: "" (accepted at once), "err" (fails at once), "delay"
	// (accepted after PollDelay units unless the transport is closed or its
	// context ends first), "block" (the peer has stopped reading: blocks until
	// the transport is closed or its context ends, then fails), "deaf" (the
	// same, but only closing the transport releases it). On a closed transport
	// every Poll fails at once.
	Poll      string `json:"poll,omitempty"`
	PollDelay int    `json:"poll_delay,omitempty"`
}

// Shapes of the caller's context (Scenario.Ctx, LifeOp.Ctx): HOW the context a
// Subscribe call is given comes to its end.
//
//	""                a cancel function (context.WithCancel)
//	"deadline"        its own deadline passes (context.WithDeadline); Err() is DeadlineExceeded
//	"parent-deadline" the deadline of its PARENT passes; the context itself is a WithCancel child
//	"value-deadline"  deadline as above, wrapped in context.WithValue
//	"far-deadline"    carries a deadline that is never reached AND is ended by its cancel function
//	"value"           carries a value and is ended by its cancel function
//	"parent-cancel"   a WithTimeout child (deadline never reached) of a parent whose cancel function is called
//
// The first three after "" end by themselves at the chosen instant; the others
// when the harness calls the cancel function.
var ctxKinds = []string{"", "deadline", "parent-deadline", "value-deadline", "far-deadline", "value", "parent-cancel"}

func knownCtxKind(k string) bool {
	for _, c := range ctxKinds {
		if c == k {
			return true
		}
	}
	return false
}

// ctxSelfEnding: the context ends by a deadline, not by a cancel function.
func ctxSelfEnding(k string) bool {
	return k == "deadline" || k == "parent-deadline" || k == "value-deadline"
}

// Scenario is one case of half A.
type Scenario struct {
	Client       string `json:"client"`                  // "base" | "cache"
	Proto        bool   `json:"proto,omitempty"`         // base only: ProtoHandler instead of NotificationHandler
	Plain        bool   `json:"plain,omitempty"`         // no Reconnect wrapper (one attempt)
	NilCallbacks bool   `json:"nil_callbacks,omitempty"` // Reconnect(c, nil, nil)
	Callbacks    string `json:"callbacks,omitempty"`     // "" | "disconnect-only" | "reset-only": only that callback is given (callbacks.go)
	BaseDelay    int    `json:"base_delay"`              // client.RetryBaseDelay in units
	MaxDelay     int    `json:"max_delay"`               // client.RetryMaxDelay in units
	Timeout      int    `json:"timeout,omitempty"`       // Query.Timeout in units, 0 = unset (default 1 minute)
	// Decoy, if not empty, makes every Subscribe call name TWO client types,
	// which the client tries in parallel: the scripted transport and a decoy
	// type whose constructor fails at once with an error value of this kind
	// ("plain" for the errors.New value). DecoyFirst lists the decoy first.
	// The decoy never yields an Impl, so the script alone decides the outcome
	// of every attempt.
	Decoy      string `json:"decoy,omitempty"`
	DecoyFirst bool   `json:"decoy_first,omitempty"`
	// Query is the kind of query Subscribe is given (query.go): "" is the valid
	// Stream query; the others vary the query type and the ways Query.Validate
	// rejects a query.
	Query string `json:"query,omitempty"`
	// QOpts names the optional fields of client.Query that are set besides
	// (queryOpts, realquery.go): they change nothing in what the client owes.
	QOpts []string `json:"qopts,omitempty"`
	// Attempts scripts the first len(Attempts) attempts; every later attempt
	// connects at once, delivers nothing and blocks.
	Attempts []Attempt `json:"attempts"`
	// Pending (plain only): messages the transport has already buffered when
	// Close is called and still hands over afterwards (the situation of
	// TestClientUpdatesAfterClose), each with PendingN notifications.
	Pending  int `json:"pending,omitempty"`
	PendingN int `json:"pending_n,omitempty"`
	// SubAt / StopAt: unit instants of the Subscribe call and of the stop
	// action; StopAt < SubAt means the client is closed (or the context
	// cancelled) before Subscribe is called.
	SubAt  int    `json:"sub_at"`
	Stop   string `json:"stop"` // "close" | "cancel" (= the caller's context ends, in the way Ctx says)
	StopAt int    `json:"stop_at"`
	// Ctx is the shape of the caller's context (ctxKinds). With Stop "cancel" it
	// ends at the stop instant - by its deadline or by a cancel function; with
	// Stop "close" a deadline it carries is never reached.
	Ctx string `json:"ctx,omitempty"`
	// Target is informational (what the generator aimed StopAt at).
	Target string `json:"target,omitempty"`
	// Shape is the Go shape of the registered transport double (implShapes,
	// shape.go): a pointer, a struct value, a struct value that is not
	// comparable, a func or map type. It changes nothing in what the client owes.
	Shape string `json:"impl_shape,omitempty"`
}

func (sc *Scenario) subInstant() time.Duration  { return time.Duration(sc.SubAt)*Unit + subOffset }
func (sc *Scenario) stopInstant() time.Duration { return time.Duration(sc.StopAt)*Unit + stopOffset }

func (sc *Scenario) timeout() time.Duration {
	if sc.Timeout <= 0 {
		return defaultTimeout
	}
	return time.Duration(sc.Timeout) * Unit
}

// deafLife is how long a deaf attempt can keep a client busy once started.
func (a Attempt) deafLife() time.Duration {
	if a.Conn != "deaf" {
		return 0
	}
	n := a.ConnDelay + a.SubDelay + a.EndDelay
	for _, m := range a.Msgs {
		n += m.Delay
	}
	return time.Duration(n) * Unit
}

var defaultAttempt = Attempt{Conn: "ok", Sub: "ok", End: "block"}

// clientTypes is the clientType argument of every Subscribe call of the case.
func (sc *Scenario) clientTypes() []string {
	typ := shapedType(sc.Shape)
	switch {
	case sc.Decoy == "":
		return []string{typ}
	case sc.DecoyFirst:
		return []string{decoyType, typ}
	}
	return []string{typ, decoyType}
}

func (sc *Scenario) attempt(i int) Attempt {
	if i >= 0 && i < len(sc.Attempts) {
		return sc.Attempts[i]
	}
	return defaultAttempt
}

// validate rejects scenarios the engine does not define (hand-edited replays).
func (sc *Scenario) validate() error {
	if sc.Client != "base" && sc.Client != "cache" {
		return fmt.Errorf("client %q", sc.Client)
	}
	if sc.BaseDelay < 1 || sc.MaxDelay < sc.BaseDelay || sc.MaxDelay > 11*sc.BaseDelay {
		return fmt.Errorf("delays base=%d max=%d (need 1 <= base <= max <= 11*base)", sc.BaseDelay, sc.MaxDelay)
	}
	if sc.Stop != "close" && sc.Stop != "cancel" {
		return fmt.Errorf("stop %q", sc.Stop)
	}
	if err := validCallbacks(sc.Plain, sc.NilCallbacks, sc.Callbacks); err != nil {
		return err
	}
	if sc.SubAt < 0 || sc.StopAt < 0 || sc.Timeout < 0 || sc.Pending < 0 {
		return fmt.Errorf("negative instant")
	}
	if sc.Decoy != "" && !knownErrKind(sc.Decoy) {
		return fmt.Errorf("decoy error kind %q", sc.Decoy)
	}
	if !knownQueryKind(sc.Query) {
		return fmt.Errorf("query kind %q", sc.Query)
	}
	if err := validQOpts(sc.QOpts); err != nil {
		return err
	}
	if !knownCtxKind(sc.Ctx) {
		return fmt.Errorf("context shape %q", sc.Ctx)
	}
	if !knownImplShape(sc.Shape) {
		return fmt.Errorf("transport shape %q", sc.Shape)
	}
	if len(sc.Attempts) > 64 {
		return fmt.Errorf("too many attempts")
	}
	for i, a := range sc.Attempts {
		switch a.Conn {
		case "ok", "err", "park", "deaf":
		default:
			return fmt.Errorf("attempt %d conn %q", i, a.Conn)
		}
		switch a.Sub {
		case "ok", "err", "park":
		default:
			return fmt.Errorf("attempt %d sub %q", i, a.Sub)
		}
		switch a.Poll {
		case "", "err", "delay", "block", "deaf":
		default:
			return fmt.Errorf("attempt %d poll %q", i, a.Poll)
		}
		if a.SubDelay < 0 || a.PollDelay < 0 || a.SubDelay > 100000 || a.PollDelay > 100000 {
			return fmt.Errorf("attempt %d: sub/poll delay", i)
		}
		switch a.End {
		case "err", "eof", "stop", "block":
		default:
			return fmt.Errorf("attempt %d end %q", i, a.End)
		}
		if a.ConnDelay < 0 || a.EndDelay < 0 {
			return fmt.Errorf("attempt %d negative delay", i)
		}
		for _, k := range []string{a.ConnErr, a.SubErr, a.EndErr, a.CloseErr} {
			if k != "" && !knownErrKind(k) {
				return fmt.Errorf("attempt %d error kind %q", i, k)
			}
		}
		if a.EndErr == "eof" || a.EndErr == "stop" {
			return fmt.Errorf("attempt %d: Recv returning the raw %s value is End %q, not an error kind", i, a.EndErr, a.EndErr)
		}
		for _, m := range a.Msgs {
			if m.Delay < 0 || m.N < 1 || m.N > 16 {
				return fmt.Errorf("attempt %d message %+v", i, m)
			}
		}
	}
	if sc.Plain {
		// The plain client documents ErrClientInit for operations before
		// Subscribe produced an Impl: the engine only closes a plain client
		// that has one.
		if sc.StopAt < sc.SubAt {
			return fmt.Errorf("plain client stopped before Subscribe")
		}
		if len(sc.Attempts) < 1 || sc.Attempts[0].Conn != "ok" || sc.Attempts[0].ConnDelay != 0 || sc.Attempts[0].Sub != "ok" || sc.Attempts[0].SubDelay != 0 {
			return fmt.Errorf("plain client needs an attempt that connects at once")
		}
	} else if sc.Pending != 0 {
		return fmt.Errorf("pending messages are a plain-client feature")
	}
	// (A deaf transport under a client that was closed before Subscribe is
	// accepted here for replays but never generated: see genScenario.)
	if sc.Pending > 0 && (sc.PendingN < 1 || sc.PendingN > 16) {
		return fmt.Errorf("pending_n %d", sc.PendingN)
	}
	return nil
}

// envelope returns the k-th interval (k = 0, 1, ...) of the exponential
// backoff configured by the scenario when it is never reset. Resets only ever
// shorten an interval, so this is an upper bound of "the current backoff
// interval" after k earlier backoffs whatever the reset policy. It is computed
// by the same library with the documented parameters (initial interval
// RetryBaseDelay, cap RetryMaxDelay, no randomisation).
func (sc *Scenario) envelope(k int) time.Duration {
	e := backoff.NewExponentialBackOff()
	e.MaxElapsedTime = 0
	e.InitialInterval = time.Duration(sc.BaseDelay) * Unit
	e.MaxInterval = time.Duration(sc.MaxDelay) * Unit
	e.RandomizationFactor = 0
	e.Reset()
	var d time.Duration
	for i := 0; i <= k; i++ {
		d = e.NextBackOff()
	}
	return d
}

// span is the predicted life of one attempt (generator targeting only; the
// oracle never consults it).
type span struct {
	start, conn, first, end, next time.Duration
	connected                     bool // the stream was established
	blocks                        bool // never ends by itself
}

// predict mirrors the retry loop on the script: used by the generator to aim
// the stop instant at a chosen phase. A wrong prediction only shifts labels.
func (sc *Scenario) predict(n int) []span {
	e := backoff.NewExponentialBackOff()
	e.MaxElapsedTime = 0
	e.InitialInterval = time.Duration(sc.BaseDelay) * Unit
	e.MaxInterval = time.Duration(sc.MaxDelay) * Unit
	e.RandomizationFactor = 0
	e.Reset()
	var out []span
	t := sc.subInstant()
	for i := 0; i < n; i++ {
		a := sc.attempt(i)
		if queryInvalid(sc.Query, sc.Client == "cache") {
			a = Attempt{Conn: "err", Sub: "ok", End: "err"} // every attempt fails at once
		}
		s := span{start: t}
		okErr := false // attempt returns nil
		d := time.Duration(a.ConnDelay) * Unit
		failed := a.Conn != "ok" && a.Conn != "deaf"
		if a.Conn == "park" || (d > sc.timeout() && a.Conn != "deaf") {
			d = sc.timeout()
			failed = true
		}
		s.conn = t + d
		cur := s.conn
		if !failed {
			cur += time.Duration(a.SubDelay) * Unit
		}
		park := !failed && a.Sub == "park" && a.Conn != "deaf"
		switch {
		case park:
			s.first, s.end, s.blocks = cur, cur, true
		case failed || a.Sub == "err":
			s.first, s.end = cur, cur
		default:
			s.connected = true
			s.first = cur
			for j, m := range a.Msgs {
				cur += time.Duration(m.Delay) * Unit
				if j == 0 {
					s.first = cur
				}
			}
			if len(a.Msgs) == 0 {
				s.first = cur + time.Duration(a.EndDelay)*Unit
			}
			if a.End == "block" {
				s.blocks = true
				s.end = cur
			} else {
				cur += time.Duration(a.EndDelay) * Unit
				s.end = cur
				okErr = a.End == "eof" || a.End == "stop"
			}
		}
		if s.blocks {
			s.next = s.end
			out = append(out, s)
			break
		}
		if okErr || s.end-s.start > time.Duration(sc.MaxDelay)*Unit {
			e.Reset()
		}
		s.next = s.end + e.NextBackOff()
		out = append(out, s)
		t = s.next
		if sc.Plain {
			break
		}
	}
	return out
}

// unitsWithin returns the unit instants u with lo <= u*Unit+stopOffset < hi.
func unitsWithin(lo, hi time.Duration) (int, int, bool) {
	ulo := 0
	if lo > stopOffset {
		ulo = int((lo - stopOffset + Unit - 1) / Unit)
	}
	if hi <= stopOffset {
		return 0, 0, false
	}
	uhi := int((hi - stopOffset - 1) / Unit)
	if uhi < ulo {
		return 0, 0, false
	}
	return ulo, uhi, true
}
