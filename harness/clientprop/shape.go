package clientprop

import (
	"context"
	"errors"

	"github.com/openconfig/gnmi/client"
)

// The Go SHAPE of the transport double.
//
// client.Impl is an interface and client.Register takes any InitImpl: nothing
// says that a transport is a pointer. The repository's own test double
// (fakeStreamingClient) is a struct VALUE. A client that treats the Impl it was
// handed as anything but an opaque interface value - compares two of them, uses
// one as a map key, type-switches on pointer-ness - behaves differently (up to a
// run-time panic: "comparing uncomparable type", "hash of unhashable type") for
// shapes no pointer-typed double ever shows. So the shape is a generated
// dimension of every virtual-time part that uses the scripted transport
// (Scenario.Shape, LScenario.Shape): the script, the oracles and the non-trivial
// rule are exactly those of the pointer shape; every shape forwards each method
// to the one *impl of the attempt (value receivers share their state through
// the pointer they hold; slices, maps and funcs are inert ballast).
//
//	""            *impl (pointer to struct)
//	"value"       struct value with value receivers, comparable fields only
//	"value-slice" struct value holding a slice         (dynamic type not comparable)
//	"value-map"   struct value holding a map           (not comparable)
//	"value-func"  struct value holding a func          (not comparable)
//	"value-iface" struct value holding an interface whose dynamic value is a slice
//	              (the type IS comparable, comparing two such values panics)
//	"value-array" array of one struct holding a slice  (not comparable)
//	"func"        a named func type implementing Impl  (not comparable)
//	"map"         a named map type implementing Impl   (not comparable)
//
// Each shape is registered under a client type name of its own (shapedType).
var implShapes = []string{"", "value", "value-slice", "value-map", "value-func", "value-iface", "value-array", "func", "map"}

func knownImplShape(s string) bool {
	for _, k := range implShapes {
		if k == s {
			return true
		}
	}
	return false
}

// implShapeUncomparable: comparing two Impl values of that shape panics.
func implShapeUncomparable(s string) bool { return s != "" && s != "value" }

// shapedType is the registered client type name of a shape.
func shapedType(shape string) string {
	if shape == "" {
		return implType
	}
	return implType + "-" + shape
}

// shapeLabel is the evidence label of a shape.
func shapeLabel(shape string) string {
	if shape == "" {
		return "impl-shape:pointer"
	}
	return "impl-shape:" + shape
}

// shapedCtor is the registered constructor of a shape: the scripted constructor
// of double.go, its result wrapped.
func shapedCtor(shape string) client.InitImpl {
	if shape == "" {
		return scriptCtor
	}
	return func(ctx context.Context, d client.Destination) (client.Impl, error) {
		w := curWorld.Load()
		if w == nil {
			return nil, errors.New("clientprop: no scenario is running")
		}
		im, err := w.newImpl(ctx, d)
		if err != nil {
			return nil, err
		}
		core, ok := im.(*impl)
		if !ok {
			return nil, errors.New("clientprop: scripted constructor returned an unexpected type")
		}
		return shapeOf(core, shape), nil
	}
}

func shapeOf(core *impl, shape string) client.Impl {
	switch shape {
	case "value":
		return valImpl{p: core}
	case "value-slice":
		return sliceImpl{p: core, ballast: []int{core.as.idx}}
	case "value-map":
		return mapFieldImpl{p: core, ballast: map[string]int{"attempt": core.as.idx}}
	case "value-func":
		return funcFieldImpl{p: core, ballast: func() {}}
	case "value-iface":
		return ifaceImpl{p: core, ballast: []int{core.as.idx}}
	case "value-array":
		return arrayImpl{{p: core, ballast: []int{core.as.idx}}}
	case "func":
		return funcImpl(func() *impl { return core })
	case "map":
		return mapImpl{"impl": core}
	}
	return core
}

type valImpl struct{ p *impl }

func (v valImpl) Subscribe(ctx context.Context, q client.Query) error { return v.p.Subscribe(ctx, q) }
func (v valImpl) Recv() error                                         { return v.p.Recv() }
func (v valImpl) Close() error                                        { return v.p.Close() }
func (v valImpl) Poll() error                                         { return v.p.Poll() }

type sliceImpl struct {
	p       *impl
	ballast []int
}

func (v sliceImpl) Subscribe(ctx context.Context, q client.Query) error { return v.p.Subscribe(ctx, q) }
func (v sliceImpl) Recv() error                                         { return v.p.Recv() }
func (v sliceImpl) Close() error                                        { return v.p.Close() }
func (v sliceImpl) Poll() error                                         { return v.p.Poll() }

type mapFieldImpl struct {
	p       *impl
	ballast map[string]int
}

func (v mapFieldImpl) Subscribe(ctx context.Context, q client.Query) error {
	return v.p.Subscribe(ctx, q)
}
func (v mapFieldImpl) Recv() error  { return v.p.Recv() }
func (v mapFieldImpl) Close() error { return v.p.Close() }
func (v mapFieldImpl) Poll() error  { return v.p.Poll() }

type funcFieldImpl struct {
	p       *impl
	ballast func()
}

func (v funcFieldImpl) Subscribe(ctx context.Context, q client.Query) error {
	return v.p.Subscribe(ctx, q)
}
func (v funcFieldImpl) Recv() error  { return v.p.Recv() }
func (v funcFieldImpl) Close() error { return v.p.Close() }
func (v funcFieldImpl) Poll() error  { return v.p.Poll() }

type ifaceImpl struct {
	p       *impl
	ballast any
}

func (v ifaceImpl) Subscribe(ctx context.Context, q client.Query) error { return v.p.Subscribe(ctx, q) }
func (v ifaceImpl) Recv() error                                         { return v.p.Recv() }
func (v ifaceImpl) Close() error                                        { return v.p.Close() }
func (v ifaceImpl) Poll() error                                         { return v.p.Poll() }

type arrayImpl [1]sliceImpl

func (v arrayImpl) Subscribe(ctx context.Context, q client.Query) error {
	return v[0].p.Subscribe(ctx, q)
}
func (v arrayImpl) Recv() error  { return v[0].p.Recv() }
func (v arrayImpl) Close() error { return v[0].p.Close() }
func (v arrayImpl) Poll() error  { return v[0].p.Poll() }

type funcImpl func() *impl

func (f funcImpl) Subscribe(ctx context.Context, q client.Query) error { return f().Subscribe(ctx, q) }
func (f funcImpl) Recv() error                                         { return f().Recv() }
func (f funcImpl) Close() error                                        { return f().Close() }
func (f funcImpl) Poll() error                                         { return f().Poll() }

type mapImpl map[string]*impl

func (m mapImpl) Subscribe(ctx context.Context, q client.Query) error {
	return m["impl"].Subscribe(ctx, q)
}
func (m mapImpl) Recv() error  { return m["impl"].Recv() }
func (m mapImpl) Close() error { return m["impl"].Close() }
func (m mapImpl) Poll() error  { return m["impl"].Poll() }
