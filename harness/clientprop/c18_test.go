package clientprop

import (
	"encoding/json"
	"flag"
	"fmt"
	"os"
	"testing"
	"time"

	"pgregory.net/rapid"
	"verif/harness/internal/vstat"
)

const propertyID = "C18"

func TestMain(m *testing.M) {
	flag.Parse()
	// The reconnect loop logs one glog ERROR line per retry; keep that off
	// stderr and out of /tmp unless the driver chose a place.
	tmp := ""
	if f := flag.Lookup("log_dir"); f != nil && f.Value.String() == "" {
		if d, err := os.MkdirTemp("", "clientprop-glog-"); err == nil {
			tmp = d
			flag.Set("log_dir", d)
			flag.Set("stderrthreshold", "FATAL")
		}
	}
	code := m.Run()
	if tmp != "" {
		os.RemoveAll(tmp)
	}
	os.Exit(code)
}

// ---------------------------------------------------------------------------
// open findings (DESIGN.md section 5): a class is a predicate on the scenario
// compiled into the engine, with a built-in minimal probe input. Nothing is
// excluded unless known_findings.json lists an open finding of C18 with that
// class name.
// ---------------------------------------------------------------------------

type knownClass struct {
	name  string
	part  string                // "random" | "transport"
	inA   func(*Scenario) bool  // predicate for half A scenarios
	inB   func(*TScenario) bool // predicate for half B scenarios
	probe func(*testing.T, json.RawMessage) error
}

// ClassFirstBackoff: client.Reconnect configures the exponential backoff after
// constructing it and never calls its Reset, so until the first reset in the
// retry loop (a stream that ended without error, or an attempt that outlived
// RetryMaxDelay) the sleep is the backoff library's default initial interval
// (500 ms) instead of RetryBaseDelay and is not capped by RetryMaxDelay. The
// defect is invisible exactly when RetryBaseDelay equals that default, so the
// class is "reconnecting client whose RetryBaseDelay is not 500 ms"; while the
// finding is open the search continues on scenarios with RetryBaseDelay = 500 ms.
const ClassFirstBackoff = "first-backoff-ignores-retry-delays"

const libraryDefaultInitial = 500 * time.Millisecond

func inFirstBackoffClass(sc *Scenario) bool {
	return !sc.Plain && time.Duration(sc.BaseDelay)*Unit != libraryDefaultInitial
}

// probeFirstBackoff is the minimal input of the class: RetryBaseDelay =
// RetryMaxDelay = 2 ms, the first attempt fails to connect, Close follows at once.
var probeFirstBackoff = Scenario{Client: "base", BaseDelay: 2, MaxDelay: 2, Attempts: []Attempt{{Conn: "err", Sub: "ok", End: "err"}}, Stop: "close"}

// knownClasses lists the class predicates this engine knows.
var knownClasses = []knownClass{
	{
		name: ClassFirstBackoff,
		part: "random",
		inA:  inFirstBackoffClass,
		probe: func(t *testing.T, input json.RawMessage) error {
			sc := probeFirstBackoff
			var recorded Scenario
			if len(input) > 0 && json.Unmarshal(input, &recorded) == nil && recorded.validate() == nil && inFirstBackoffClass(&recorded) {
				sc = recorded
			}
			_, err := runBubble(t, &sc)
			return err
		},
	},
}

// openClasses consults the known-findings file for part, probes every listed
// class once (KNOWN-FINDING line while it still fails) and returns the active
// classes.
func openClasses(t *testing.T, rec *vstat.Recorder, part string) []knownClass {
	var out []knownClass
	open := vstat.OpenClasses(propertyID)
	for class, f := range open {
		var kc *knownClass
		for i := range knownClasses {
			if knownClasses[i].name == class {
				kc = &knownClasses[i]
			}
		}
		if kc == nil {
			rec.Note("open finding %s names class %q which this engine does not know; nothing is excluded for it", f.ID, class)
			continue
		}
		if kc.part != part {
			continue
		}
		if perr := kc.probe(t, f.Input); perr != nil {
			what := f.What
			if what == "" {
				what = perr.Error()
			}
			line := fmt.Sprintf("KNOWN-FINDING: property=%s %s [%s, class %s]", propertyID, what, f.ID, class)
			rec.KnownFinding(line)
			fmt.Println(line)
		} else {
			rec.Note("open finding %s (class %s) is listed as open but its probe input passes now; the class is still excluded until the record is closed", f.ID, class)
		}
		out = append(out, *kc)
	}
	return out
}

// ---------------------------------------------------------------------------
// parts
// ---------------------------------------------------------------------------

// TestC18Random: half A, generated scripts and stop instants in virtual time.
func TestC18Random(t *testing.T) {
	if !vstat.Enabled(propertyID) {
		t.Skip()
	}
	rec := vstat.New(propertyID, "random")
	known := openClasses(t, rec, "random")
	// while the first-backoff finding is open most generated scenarios use the
	// one RetryBaseDelay outside its class
	favourDefault := false
	for _, k := range known {
		favourDefault = favourDefault || k.name == ClassFirstBackoff
	}
	rec.RunRapid(t, func(rt *rapid.T) {
		sc := genScenario(rt, favourDefault)
		for _, k := range known {
			if k.inA != nil && k.inA(sc) {
				rec.Excluded(k.name)
				rt.SkipNow()
			}
		}
		rec.Current(sc)
		st, err := runBubble(t, sc)
		rec.Case(sc, st.nontrivial(), st.labelList()...)
		if err != nil {
			rt.Fatalf("%s", rec.Fail(sc, classOf(err), "%v", err))
		}
	})
}

// TestC18Lifetime: half A machinery, a generated sequence of Subscribe /
// cancel / Close / Poll calls on one client object (life.go).
func TestC18Lifetime(t *testing.T) {
	if !vstat.Enabled(propertyID) {
		t.Skip()
	}
	rec := vstat.New(propertyID, "lifetime")
	rec.RunRapid(t, func(rt *rapid.T) {
		sc := genLife(rt, "")
		rec.Current(sc)
		st, err := runLifeBubble(t, sc)
		rec.Case(sc, st.nontrivial(), st.labelList()...)
		if err != nil {
			rt.Fatalf("%s", rec.Fail(sc, classOf(err), "%v", err))
		}
	})
}

// TestC18Entry: the lifetime machinery aimed at the other entry points of the
// client (Poll, Impl, Synced, Leaves) over transports whose poll and
// subscription writes block (entry.go, genLife profile "entry").
func TestC18Entry(t *testing.T) {
	if !vstat.Enabled(propertyID) {
		t.Skip()
	}
	rec := vstat.New(propertyID, "entry")
	rec.RunRapid(t, func(rt *rapid.T) {
		sc := genLife(rt, "entry")
		rec.Current(sc)
		st, err := runLifeBubble(t, sc)
		rec.Case(sc, st.nontrivial(), st.labelList()...)
		if err != nil {
			rt.Fatalf("%s", rec.Fail(sc, classOf(err), "%v", err))
		}
	})
}

// TestC18Transport: half B, the real gNMI Impl against an in-process server.
func TestC18Transport(t *testing.T) {
	if !vstat.Enabled(propertyID) {
		t.Skip()
	}
	rec := vstat.New(propertyID, "transport")
	known := openClasses(t, rec, "transport")
	rec.RunRapid(t, func(rt *rapid.T) {
		sc := genTScenario(rt)
		for _, k := range known {
			if k.inB != nil && k.inB(sc) {
				rec.Excluded(k.name)
				rt.SkipNow()
			}
		}
		rec.Current(sc)
		st, err := runTransport(sc)
		if inc, ok := err.(*errInconclusive); ok {
			rec.Note("INCONCLUSIVE case (not judged): %s; scenario %s", inc.what, mustJSON(sc))
			rec.Label("inconclusive-guard-expired")
			rt.Skip("inconclusive: " + inc.what)
		}
		rec.Case(sc, st.nontriv, st.labelList()...)
		if err != nil {
			rt.Fatalf("%s", rec.Fail(sc, classOf(err), "%v", err))
		}
	})
}

// TestC18Real: the lifecycle sequences over the real gNMI transport and an
// in-process gRPC server (real.go).
func TestC18Real(t *testing.T) {
	if !vstat.Enabled(propertyID) {
		t.Skip()
	}
	rec := vstat.New(propertyID, "real")
	rec.RunRapid(t, func(rt *rapid.T) {
		sc := genReal(rt)
		rec.Current(sc)
		st, err := runReal(sc)
		if inc, ok := err.(*errInconclusive); ok {
			rec.Note("INCONCLUSIVE case (not judged): %s; scenario %s", inc.what, mustJSON(sc))
			rec.Label("inconclusive-guard-expired")
			rt.Skip("inconclusive: " + inc.what)
		}
		rec.Case(sc, st.nontriv, st.labelList()...)
		if err != nil {
			rt.Fatalf("%s", rec.Fail(sc, classOf(err), "%v", err))
		}
	})
}

// TestC18Types / TestC18Content: the clientType argument of Subscribe and the
// content of the scripted notifications as generated dimensions (multi.go).
func TestC18Types(t *testing.T)   { runXPart(t, "types") }
func TestC18Content(t *testing.T) { runXPart(t, "content") }

func runXPart(t *testing.T, part string) {
	if !vstat.Enabled(propertyID) {
		t.Skip()
	}
	rec := vstat.New(propertyID, part)
	rec.RunRapid(t, func(rt *rapid.T) {
		sc := genX(rt, part)
		rec.Current(sc)
		st, err := runXBubble(t, sc, part)
		rec.Case(sc, st.nontrivial(), st.labelList()...)
		if err != nil {
			rt.Fatalf("%s", rec.Fail(sc, classOf(err), "%v", err))
		}
	})
}

func mustJSON(v any) string {
	b, _ := json.Marshal(v)
	return string(b)
}

// TestReplay re-runs a saved scenario of either half without the generators
// (and without any known-class exclusion: a replay always executes its input).
func TestReplay(t *testing.T) {
	rf, ok, err := vstat.LoadReplay()
	if !ok {
		t.Skip()
	}
	if err != nil {
		t.Fatal(err)
	}
	rec := vstat.New(rf.Property, "replay")
	defer rec.Flush(true)
	msg := replayOne(t, rf)
	if msg != "" {
		rec.AddViolation(json.RawMessage(rf.Scenario), rf.Kind, rf.Class, "%s", msg)
		fmt.Println("REPLAY-FAIL:", msg)
		t.Fail()
		return
	}
	rec.Case(json.RawMessage(rf.Scenario), false, "replayed")
	fmt.Println("REPLAY-OK")
}

func replayOne(t *testing.T, rf *vstat.ReplayFile) string {
	if rf.Property != propertyID {
		return "replay file is for property " + rf.Property + ", this engine decides " + propertyID
	}
	if len(rf.Scenario) == 0 || string(rf.Scenario) == "null" {
		return "no scenario in replay file"
	}
	switch rf.Part {
	case "transport":
		var sc TScenario
		if err := json.Unmarshal(rf.Scenario, &sc); err != nil {
			return "bad scenario: " + err.Error()
		}
		// a real-time case: give a flaky environment three chances to complete
		for i := 0; i < 3; i++ {
			_, err := runTransport(&sc)
			if _, inconclusive := err.(*errInconclusive); inconclusive {
				continue
			}
			if err != nil {
				return err.Error()
			}
			return ""
		}
		return "inconclusive: completion not observed in three runs"
	case "real":
		var sc RScenario
		if err := json.Unmarshal(rf.Scenario, &sc); err != nil {
			return "bad scenario: " + err.Error()
		}
		// a real-time case: give a flaky environment three chances to complete
		for i := 0; i < 3; i++ {
			_, err := runReal(&sc)
			if _, inconclusive := err.(*errInconclusive); inconclusive {
				continue
			}
			if err != nil {
				return err.Error()
			}
			return ""
		}
		return "inconclusive: completion not observed in three runs"
	case "types", "content":
		var sc XScenario
		if err := json.Unmarshal(rf.Scenario, &sc); err != nil {
			return "bad scenario: " + err.Error()
		}
		if _, err := runXBubble(t, &sc, rf.Part); err != nil {
			return err.Error()
		}
		return ""
	case "lifetime", "entry":
		var sc LScenario
		if err := json.Unmarshal(rf.Scenario, &sc); err != nil {
			return "bad scenario: " + err.Error()
		}
		if _, err := runLifeBubble(t, &sc); err != nil {
			return err.Error()
		}
		return ""
	default: // "random" and hand-written files
		var sc Scenario
		if err := json.Unmarshal(rf.Scenario, &sc); err != nil {
			return "bad scenario: " + err.Error()
		}
		if _, err := runBubble(t, &sc); err != nil {
			return err.Error()
		}
		return ""
	}
}
