package clientprop

import (
	"context"
	"errors"
	"fmt"
	"io"

	"github.com/openconfig/gnmi/client"
	"github.com/openconfig/gnmi/errlist"
	"google.golang.org/grpc/codes"
	"google.golang.org/grpc/status"
)

// The KIND of error value a failing step of the scripted transport returns.
// The client code only promises to treat "an error" as a failed attempt; which
// Go value carries the failure (a list of errors, a wrapped sentinel, a value
// that merely looks like a cancellation, an uncomparable type, a typed nil, an
// empty message) must not change whether Subscribe and Close return or whether
// the reconnecting client retries. Every kind is a non-nil error interface
// value, and none of them is the raw io.EOF / client.ErrStopReading the read
// loop defines as a clean end when it comes out of Recv (validate rejects
// those two for the Recv site; they are the End kinds "eof" and "stop").

// scriptErr is a pointer error type whose nil pointer is a usable (non-nil
// interface) error value and whose message may be empty.
type scriptErr struct{ msg string }

func (e *scriptErr) Error() string {
	if e == nil {
		return "typed nil error"
	}
	return e.msg
}

// errSlice is an error whose underlying type is a slice of errors (errlist
// flattens such values; the type is not comparable).
type errSlice []error

func (e errSlice) Error() string { return fmt.Sprintf("%d errors: %v", len(e), []error(e)) }

// errKinds lists every kind; "" (not listed) is the plain errors.New value of
// the site.
var errKinds = []string{
	"plain",
	"wrapped",
	"empty",
	"typed-nil",
	"errlist-0", "errlist-1", "errlist-2", "errlist-3",
	"slice-0", "slice-2",
	"joined",
	"canceled", "canceled-wrapped", "deadline",
	"eof", "eof-wrapped", "unexpected-eof",
	"stop", "stop-wrapped",
	"status-unavailable", "status-canceled", "status-deadline",
	"client-init",
}

func knownErrKind(k string) bool {
	for _, e := range errKinds {
		if e == k {
			return true
		}
	}
	return false
}

// recvErrKinds are the kinds Recv may return for End "err" (everything but the
// two values that mean a clean end there).
var recvErrKinds = func() []string {
	var out []string
	for _, k := range errKinds {
		if k != "eof" && k != "stop" {
			out = append(out, k)
		}
	}
	return out
}()

// cancelLookalike reports kinds that look like "the context ended" although
// nobody cancelled anything.
func cancelLookalike(k string) bool {
	switch k {
	case "canceled", "canceled-wrapped", "deadline", "status-canceled", "status-deadline":
		return true
	}
	return false
}

// multiError reports kinds that carry a list of errors.
func multiError(k string) bool {
	switch k {
	case "errlist-0", "errlist-1", "errlist-2", "errlist-3", "slice-0", "slice-2", "joined":
		return true
	}
	return false
}

// mkErr builds the error value of kind k for a failing step whose plain error
// is base. A fresh value is built on every call (no aliasing between attempts).
func mkErr(k string, base error) error {
	part := func(i int) error { return fmt.Errorf("%v (part %d)", base, i) }
	list := func(n int) error {
		var l errlist.List
		for i := 0; i < n; i++ {
			l.Add(part(i))
		}
		if n == 0 {
			// what a careless "return errlist.Error{...}" produces
			return errlist.Error{}
		}
		return l.Err()
	}
	switch k {
	case "", "plain":
		return base
	case "wrapped":
		return fmt.Errorf("transport: %w", base)
	case "empty":
		return &scriptErr{}
	case "typed-nil":
		var p *scriptErr
		return p
	case "errlist-0":
		return list(0)
	case "errlist-1":
		return list(1)
	case "errlist-2":
		return list(2)
	case "errlist-3":
		return list(3)
	case "slice-0":
		return errSlice{}
	case "slice-2":
		return errSlice{part(0), part(1)}
	case "joined":
		return errors.Join(part(0), part(1))
	case "canceled":
		return context.Canceled
	case "canceled-wrapped":
		return fmt.Errorf("%v: %w", base, context.Canceled)
	case "deadline":
		return context.DeadlineExceeded
	case "eof":
		return io.EOF
	case "eof-wrapped":
		return fmt.Errorf("%v: %w", base, io.EOF)
	case "unexpected-eof":
		return io.ErrUnexpectedEOF
	case "stop":
		return client.ErrStopReading
	case "stop-wrapped":
		return fmt.Errorf("%v: %w", base, client.ErrStopReading)
	case "status-unavailable":
		return status.Error(codes.Unavailable, base.Error())
	case "status-canceled":
		return status.Error(codes.Canceled, base.Error())
	case "status-deadline":
		return status.Error(codes.DeadlineExceeded, base.Error())
	case "client-init":
		return client.ErrClientInit
	}
	return base
}
