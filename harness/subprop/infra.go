// Package subprop decides the Subscribe-server properties C04 (STREAM
// convergence and sync discipline), C05 (ONCE/POLL), C07 (ACL), C08 (stalled
// subscribers) and the subscriber part of C14 by running generated scenarios —
// a writer history, subscriptions, and the schedule itself — against the real
// cache.Cache + subscribe.Server inside a testing/synctest bubble: virtual
// time, quiescence after every step, named gates inside operations.
package subprop

import (
	"context"
	"fmt"
	"io"
	"net"
	"sync"

	pb "github.com/openconfig/gnmi/proto/gnmi"
	"google.golang.org/grpc/metadata"
	"google.golang.org/grpc/peer"
	"google.golang.org/protobuf/proto"
)

type addr struct{ s string }

func (a addr) Network() string { return "mem" }
func (a addr) String() string  { return a.s }

var _ net.Addr = addr{}

type userKey struct{}

// sent is one response that passed the stream's Send.
type sent struct {
	r    *pb.SubscribeResponse // clone taken when Send was called
	step int                   // scenario step during which it passed
	at   int64                 // virtual time (ns) when it passed
	call int                   // scenario step during which Send was called (the server's checks come before the call)
}

// memStream is an in-memory pb.GNMI_SubscribeServer. Send passes only when the
// harness has granted credit (or opened the gate for good); Recv is fed by the
// harness. It carries a peer in its context exactly as gRPC does and honours
// cancellation of its context in both directions.
type memStream struct {
	ctx    context.Context
	cancel context.CancelFunc
	recvC  chan *pb.SubscribeRequest // harness -> handler; closed = client EOF
	tokens chan struct{}             // one token lets one Send pass
	freeC  chan struct{}             // closed = every Send passes
	freed  bool

	mu        sync.Mutex
	out       []sent
	inSend    bool  // a Send is parked waiting for credit
	sendStart int64 // virtual time the parked Send began
	sendCalls int   // number of Send invocations (incl. the parked one)
	now       func() int64
	curStep   func() int
}

func newMemStream(parent context.Context, user int, id int, now func() int64, curStep func() int) *memStream {
	ctx := peer.NewContext(parent, &peer.Peer{Addr: addr{fmt.Sprintf("mem:%d", id)}})
	ctx = context.WithValue(ctx, userKey{}, user)
	ctx, cancel := context.WithCancel(ctx)
	return &memStream{ctx: ctx, cancel: cancel, recvC: make(chan *pb.SubscribeRequest, 16), tokens: make(chan struct{}, 1<<16),
		freeC: make(chan struct{}), now: now, curStep: curStep}
}

func (s *memStream) Context() context.Context     { return s.ctx }
func (s *memStream) SetHeader(metadata.MD) error  { return nil }
func (s *memStream) SendHeader(metadata.MD) error { return nil }
func (s *memStream) SetTrailer(metadata.MD)       {}
func (s *memStream) SendMsg(m interface{}) error  { return s.Send(m.(*pb.SubscribeResponse)) }
func (s *memStream) RecvMsg(m interface{}) error {
	r, err := s.Recv()
	if err != nil {
		return err
	}
	proto.Merge(m.(proto.Message), r)
	return nil
}

func (s *memStream) Send(r *pb.SubscribeResponse) error {
	c := proto.Clone(r).(*pb.SubscribeResponse)
	s.mu.Lock()
	s.sendCalls++
	s.inSend = true
	s.sendStart = s.now()
	callStep := s.curStep()
	s.mu.Unlock()
	select {
	case <-s.tokens:
	case <-s.freeC:
	case <-s.ctx.Done():
		s.mu.Lock()
		s.inSend = false
		s.mu.Unlock()
		return s.ctx.Err()
	}
	s.mu.Lock()
	s.inSend = false
	s.out = append(s.out, sent{c, s.curStep(), s.now(), callStep})
	s.mu.Unlock()
	return nil
}

func (s *memStream) Recv() (*pb.SubscribeRequest, error) {
	select {
	case r, ok := <-s.recvC:
		if !ok {
			return nil, io.EOF
		}
		return r, nil
	case <-s.ctx.Done():
		return nil, s.ctx.Err()
	}
}

func (s *memStream) grant(n int) {
	for i := 0; i < n; i++ {
		select {
		case s.tokens <- struct{}{}:
		default:
		}
	}
}

func (s *memStream) free() {
	if !s.freed {
		s.freed = true
		close(s.freeC)
	}
}

func (s *memStream) snapshot() (out []sent, parked bool, start int64) {
	s.mu.Lock()
	defer s.mu.Unlock()
	return append([]sent(nil), s.out...), s.inSend, s.sendStart
}

// ---- gates ------------------------------------------------------------------------

// gates parks goroutines of the code under test at named schedule points
// (verifhook.Point). A gate is armed for (point, key); the next arrival with
// that key parks on a channel created inside the bubble until released.
// key == nil arms "the next arrival at this point, whatever its key".
type gates struct {
	mu     sync.Mutex
	armed  []*gate
	parked []*gate
}

type gate struct {
	point   string
	key     interface{}
	owner   string // who armed it (for releasing): "sub:<i>" or "w:<i>"
	ch      chan struct{}
	arrived bool
}

func (g *gates) arm(point string, key interface{}, owner string) *gate {
	gt := &gate{point: point, key: key, owner: owner, ch: make(chan struct{})}
	g.mu.Lock()
	g.armed = append(g.armed, gt)
	g.mu.Unlock()
	return gt
}

// handler is installed with verifhook.Set.
func (g *gates) handler(name string, key interface{}) {
	g.mu.Lock()
	var hit *gate
	for i, gt := range g.armed {
		if gt.point == name && (gt.key == nil || gt.key == key) {
			hit = gt
			g.armed = append(g.armed[:i], g.armed[i+1:]...)
			break
		}
	}
	if hit != nil {
		hit.arrived = true
		g.parked = append(g.parked, hit)
	}
	g.mu.Unlock()
	if hit != nil {
		<-hit.ch
	}
}

// release lets the goroutine parked at a gate of owner continue and disarms
// gates of that owner that were never reached. It reports whether something
// was actually parked.
func (g *gates) release(owner string) bool {
	g.mu.Lock()
	defer g.mu.Unlock()
	was := false
	keep := g.parked[:0]
	for _, gt := range g.parked {
		if gt.owner == owner {
			close(gt.ch)
			was = true
			continue
		}
		keep = append(keep, gt)
	}
	g.parked = keep
	ka := g.armed[:0]
	for _, gt := range g.armed {
		if gt.owner != owner {
			ka = append(ka, gt)
		}
	}
	g.armed = ka
	return was
}

func (g *gates) releaseAll() {
	g.mu.Lock()
	defer g.mu.Unlock()
	for _, gt := range g.parked {
		close(gt.ch)
	}
	g.parked = nil
	g.armed = nil
}

func (g *gates) isParked(owner string) bool {
	g.mu.Lock()
	defer g.mu.Unlock()
	for _, gt := range g.parked {
		if gt.owner == owner {
			return true
		}
	}
	return false
}
