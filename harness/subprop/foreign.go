package subprop

import (
	"fmt"
	"runtime/debug"
	"sort"
	"sync"
	"testing"
	"testing/synctest"
	"time"

	"github.com/openconfig/gnmi/cache"
	"github.com/openconfig/gnmi/ctree"
	pb "github.com/openconfig/gnmi/proto/gnmi"
	"github.com/openconfig/gnmi/subscribe"
	"google.golang.org/protobuf/encoding/prototext"
	"verif/harness/internal/vstat"
)

// C05, part "foreign": ONCE and POLL against the cache's own query, leaf for leaf.
//
// The cache is filled through both of its entry points: Cache.GnmiUpdate (the notification's prefix names the
// target it is stored in) and the per-target handle Cache.GetTarget(x).GnmiUpdate, which stores under x whatever
// the prefix says - the device's own name for itself (an FQDN, another registered target's name, nothing at all).
// All of these are leaves of target x: Cache.Query(x, ...) returns them. A ONCE subscription, and every pass of a
// POLL subscription, for (x | "*", path) must send exactly the notifications that Cache.Query returns for the same
// target and path at a quiescent cache - none missing ("returns every matching leaf"), none extra, each once - then
// the sync_response. Differential oracle: the expectation is computed by the cache, not by a model.

type FWrite struct {
	Store int      `json:"store"` // the target whose tree receives the notification
	Name  string   `json:"name"`  // what the prefix names as target ("=": the same target, through Cache.GnmiUpdate)
	Path  []string `json:"path"`
	V     int64    `json:"v"`
}

type Foreign struct {
	Targets int      `json:"targets"`
	Writes  []FWrite `json:"writes"`
	Sub     int      `json:"sub"`   // target subscribed to; -1: "*"
	Query   []string `json:"query"` // subscription path, may hold "*"
	Mode    string   `json:"mode"`  // once | poll
	Polls   int      `json:"polls"`
	Between []FWrite `json:"between,omitempty"` // poll: written between the first and the second pass
}

func notiKey(n *pb.Notification) string {
	return prototext.MarshalOptions{}.Format(n)
}

func runForeign(t *testing.T, sc *Foreign) (leaves int, err error) {
	defer vstat.Watchdog(30*time.Second, 5*time.Second)()
	synctest.Test(t, func(t *testing.T) {
		defer func() {
			if r := recover(); r != nil {
				err = fmt.Errorf("panic: %v\n%s", r, trimStack(debug.Stack()))
			}
		}()
		var targets []string
		for i := 0; i < sc.Targets; i++ {
			targets = append(targets, fmt.Sprintf("t%d", i))
		}
		c := cache.New(targets)
		srv, serr := subscribe.NewServer(c)
		if serr != nil {
			err = serr
			return
		}
		c.SetClient(srv.Update)
		ts := int64(1000)
		write := func(ws []FWrite) {
			for _, w := range ws {
				ts++
				store := targets[w.Store%len(targets)]
				var elems []*pb.PathElem
				for _, e := range w.Path {
					elems = append(elems, &pb.PathElem{Name: e})
				}
				n := &pb.Notification{Timestamp: ts, Update: []*pb.Update{{Path: &pb.Path{Elem: elems}, Val: &pb.TypedValue{Value: &pb.TypedValue_IntVal{IntVal: w.V}}}}}
				if w.Name == "=" {
					n.Prefix = &pb.Path{Target: store}
					c.GnmiUpdate(n) // a refusal (a leaf where a branch is) is the cache's business: the oracle is its own query
					continue
				}
				if w.Name != "" {
					n.Prefix = &pb.Path{Target: w.Name}
				}
				if h := c.GetTarget(store); h != nil {
					h.GnmiUpdate(n)
				}
			}
		}
		write(sc.Writes)
		tgt := "*"
		if sc.Sub >= 0 {
			tgt = targets[sc.Sub%len(targets)]
		}
		expect := func() []string {
			var out []string
			c.Query(tgt, sc.Query, func(_ []string, _ *ctree.Leaf, v interface{}) error {
				if n, ok := v.(*pb.Notification); ok {
					out = append(out, notiKey(n))
				}
				return nil
			})
			sort.Strings(out)
			return out
		}
		st := newChanStream(0)
		defer st.cancel()
		var mu sync.Mutex
		var got []string
		syncs := 0
		returned := make(chan error, 1)
		go func() { returned <- srv.Subscribe(st) }()
		go func() {
			for {
				select {
				case r := <-st.sendC:
					mu.Lock()
					if r.GetSyncResponse() {
						syncs++
					} else if n := r.GetUpdate(); n != nil {
						got = append(got, notiKey(n))
					}
					mu.Unlock()
				case <-st.ctx.Done():
					return
				}
			}
		}()
		mode := pb.SubscriptionList_ONCE
		if sc.Mode == "poll" {
			mode = pb.SubscriptionList_POLL
		}
		var qe []*pb.PathElem
		for _, e := range sc.Query {
			qe = append(qe, &pb.PathElem{Name: e})
		}
		st.recvC <- &pb.SubscribeRequest{Request: &pb.SubscribeRequest_Subscribe{Subscribe: &pb.SubscriptionList{
			Prefix: &pb.Path{Target: tgt}, Mode: mode, Subscription: []*pb.Subscription{{Path: &pb.Path{Elem: qe}}}}}}
		passes := 1
		if sc.Mode == "poll" {
			passes += sc.Polls
		}
		for pass := 0; pass < passes; pass++ {
			if pass == 1 {
				write(sc.Between)
			}
			if pass > 0 {
				st.recvC <- &pb.SubscribeRequest{Request: &pb.SubscribeRequest_Poll{Poll: &pb.Poll{}}}
			}
			synctest.Wait()
			want := expect()
			mu.Lock()
			have := append([]string{}, got...)
			ns := syncs
			got, syncs = nil, 0
			mu.Unlock()
			sort.Strings(have)
			leaves += len(want)
			what := fmt.Sprintf("%s of (%s, %v), pass %d", sc.Mode, tgt, sc.Query, pass)
			if ns != 1 {
				select {
				case e := <-returned:
					err = fmt.Errorf("%s: the RPC ended with %v after %d notifications and %d sync_responses; Cache.Query returns %d leaves for the same target and path", what, e, len(have), ns, len(want))
				default:
					err = fmt.Errorf("%s: %d sync_responses at quiescence, want 1 (%d notifications received, Cache.Query returns %d leaves)", what, ns, len(have), len(want))
				}
				return
			}
			i, j := 0, 0
			for i < len(want) || j < len(have) {
				switch {
				case j == len(have) || (i < len(want) && want[i] < have[j]):
					err = fmt.Errorf("%s: a leaf that Cache.Query returns for this target and path was not sent before the sync_response: %s (sent %d of %d)", what, want[i], len(have), len(want))
					return
				case i == len(want) || have[j] < want[i]:
					err = fmt.Errorf("%s: sent a notification that Cache.Query does not return for this target and path (or sent one twice): %s", what, have[j])
					return
				}
				i, j = i+1, j+1
			}
		}
		if sc.Mode == "once" {
			select {
			case e := <-returned:
				if e != nil {
					err = fmt.Errorf("once of (%s, %v): complete answer, then the RPC ended with %v", tgt, sc.Query, e)
				}
			default:
				err = fmt.Errorf("once of (%s, %v): the RPC has not ended at quiescence after its sync_response", tgt, sc.Query)
			}
		}
	})
	return leaves, err
}
