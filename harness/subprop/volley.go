package subprop

import (
	"fmt"
	"runtime/debug"
	"sync"
	"testing"
	"testing/synctest"
	"time"

	"github.com/openconfig/gnmi/cache"
	pb "github.com/openconfig/gnmi/proto/gnmi"
	"github.com/openconfig/gnmi/subscribe"
	"verif/harness/internal/gn"
	"verif/harness/internal/vstat"
)

// C04, part "volley": an idle STREAM subscriber (its queue empty, its sender asleep) and several writers that
// update their own leaves AT THE SAME INSTANT, round after round, on the real scheduler inside a synctest bubble.
// After every round the bubble is brought to quiescence (synctest.Wait: every goroutine durably blocked) and the
// subscriber must have received the value of that round for every leaf: "afterwards every accepted change to a
// matching leaf". A wake-up lost between two simultaneous insertions leaves the sender asleep on a non-empty queue,
// which shows as a round whose values never arrive. Schedule-independent oracle; structural deadlock verdict.

type Volley struct {
	Seed    int64 `json:"seed"`
	Writers int   `json:"writers"`
	Targets int   `json:"targets"`
	Rounds  int   `json:"rounds"`
	Star    bool  `json:"star"` // the subscriber asks for all targets (else for target t0 only; writers then all write t0)
	GlogV   int   `json:"glog_v"`
}

func genVolley(seed int64, rounds int) *Volley {
	r := uint64(seed)*2862933555777941757 + 3037000493
	next := func(n int) int { r = r*6364136223846793005 + 1442695040888963407; return int((r >> 33) % uint64(n)) }
	v := &Volley{Seed: seed, Writers: 2 + next(5), Targets: 1 + next(3), Rounds: rounds, Star: next(2) == 0, GlogV: []int{0, 0, 2}[next(3)]}
	if !v.Star {
		v.Targets = 1
	}
	return v
}

func runVolley(t *testing.T, sc *Volley) (done int, err error) {
	defer vstat.Watchdog(30*time.Second, 5*time.Second)()
	defer vstat.SetGlogV(sc.GlogV)()
	synctest.Test(t, func(t *testing.T) {
		defer func() {
			if r := recover(); r != nil {
				err = fmt.Errorf("panic: %v\n%s", r, trimStack(debug.Stack()))
			}
		}()
		var targets []string
		for i := 0; i < sc.Targets; i++ {
			targets = append(targets, fmt.Sprintf("t%d", i))
		}
		c := cache.New(targets)
		srv, serr := subscribe.NewServer(c)
		if serr != nil {
			err = serr
			return
		}
		c.SetClient(srv.Update)
		tgt := "t0"
		if sc.Star {
			tgt = "*"
		}
		st := newChanStream(0)
		defer st.cancel()
		var mu sync.Mutex
		got := map[string]int64{}
		go func() { srv.Subscribe(st) }()
		go func() {
			for {
				select {
				case r := <-st.sendC:
					if n := r.GetUpdate(); n != nil && len(n.Update) == 1 {
						k := n.GetPrefix().GetTarget() + "/" + gn.Key(gn.RefIndex(n.Update[0].Path, false))
						mu.Lock()
						got[k] = n.Update[0].GetVal().GetIntVal()
						mu.Unlock()
					}
				case <-st.ctx.Done():
					return
				}
			}
		}()
		st.recvC <- &pb.SubscribeRequest{Request: &pb.SubscribeRequest_Subscribe{Subscribe: &pb.SubscriptionList{
			Prefix: &pb.Path{Target: tgt}, Mode: pb.SubscriptionList_STREAM, Subscription: []*pb.Subscription{{Path: &pb.Path{}}}}}}
		synctest.Wait()
		type wr struct {
			target, leaf string
			start, done  chan int64
		}
		var ws []*wr
		for i := 0; i < sc.Writers; i++ {
			ws = append(ws, &wr{target: targets[i%len(targets)], leaf: fmt.Sprintf("w%d", i), start: make(chan int64), done: make(chan int64)})
		}
		var errMu sync.Mutex
		var werr error
		for _, w := range ws {
			go func(w *wr) {
				for v := range w.start {
					n := &pb.Notification{Timestamp: 1000 + v, Prefix: &pb.Path{Target: w.target},
						Update: []*pb.Update{{Path: gn.Path("", "", []gn.Elem{{Name: w.leaf}}, false, 0), Val: gn.Val{Kind: "int", I: v}.TV()}}}
					if e := c.GnmiUpdate(n); e != nil {
						errMu.Lock()
						werr = fmt.Errorf("round %d: update of %s/%s refused: %v", v, w.target, w.leaf, e)
						errMu.Unlock()
					}
					w.done <- v
				}
			}(w)
		}
		defer func() {
			for _, w := range ws {
				close(w.start)
			}
		}()
		for round := int64(1); round <= int64(sc.Rounds); round++ {
			// all writers leave at once (each is parked on its start channel; the sends below complete back to back)
			for _, w := range ws {
				w.start <- round
			}
			for _, w := range ws {
				<-w.done
			}
			synctest.Wait()
			if werr != nil {
				err = werr
				return
			}
			mu.Lock()
			for _, w := range ws {
				if v := got[w.target+"/"+w.leaf]; v != round {
					err = fmt.Errorf("round %d: %d writers updated their own leaves at the same instant and returned; at the next quiescent point (every goroutine durably blocked, the subscriber reading freely) the idle STREAM subscriber of %q has value %d for %s/%s, not %d: an accepted change was never delivered", round, sc.Writers, tgt, v, w.target, w.leaf, round)
					break
				}
			}
			mu.Unlock()
			if err != nil {
				return
			}
			done = int(round)
		}
	})
	return done, err
}
