package subprop

import (
	"testing"

	"pgregory.net/rapid"
	"verif/harness/internal/vstat"
)

func genFWrites(t *rapid.T, targets int, min, max int, label string) []FWrite {
	names := []string{"=", "=", "=", "=", "", "dev.example.net", "t0", "t1", "t2", "*"}
	return rapid.SliceOfN(rapid.Custom(func(t *rapid.T) FWrite {
		return FWrite{
			Store: rapid.IntRange(0, targets-1).Draw(t, "store"),
			Name:  rapid.SampledFrom(names).Draw(t, "name"),
			Path:  rapid.SliceOfN(rapid.SampledFrom([]string{"a", "b", "c"}), 1, 3).Draw(t, "path"),
			V:     int64(rapid.IntRange(0, 9).Draw(t, "v")),
		}
	}), min, max).Draw(t, label)
}

func genForeign(t *rapid.T) *Foreign {
	sc := &Foreign{Targets: rapid.IntRange(1, 3).Draw(t, "targets")}
	sc.Writes = genFWrites(t, sc.Targets, 1, 14, "writes")
	sc.Sub = rapid.IntRange(-1, sc.Targets-1).Draw(t, "sub")
	sc.Query = rapid.SliceOfN(rapid.SampledFrom([]string{"a", "b", "c", "*", "*"}), 0, 3).Draw(t, "query")
	sc.Mode = rapid.SampledFrom([]string{"once", "poll"}).Draw(t, "mode")
	if sc.Mode == "poll" {
		sc.Polls = rapid.IntRange(1, 3).Draw(t, "polls")
		sc.Between = genFWrites(t, sc.Targets, 0, 4, "between")
	}
	return sc
}

// TestC05Foreign: part "foreign" (foreign.go).
func TestC05Foreign(t *testing.T) {
	if !vstat.Enabled("C05") {
		t.Skip()
	}
	rec := vstat.New("C05", "foreign")
	rec.RunRapid(t, func(rt *rapid.T) {
		sc := genForeign(rt)
		rec.Current(sc)
		leaves, err := runForeign(t, sc)
		foreign, labels := false, []string{"mode=" + sc.Mode}
		for _, w := range append(append([]FWrite{}, sc.Writes...), sc.Between...) {
			if w.Name != "=" {
				foreign = true
			}
		}
		if foreign {
			labels = append(labels, "leaf-stored-through-a-target-handle-under-another-name")
		}
		if sc.Sub < 0 {
			labels = append(labels, "all-targets")
		}
		rec.Case(sc, foreign && leaves > 0, labels...)
		if err != nil {
			rt.Fatalf("%s", rec.Fail(sc, "oracle", "%v", err))
		}
	})
}
