package subprop

import (
	"encoding/json"
	"flag"
	"fmt"
	"os"
	"testing"

	"pgregory.net/rapid"
	"verif/harness/internal/vstat"
)

func TestMain(m *testing.M) {
	flag.Parse()
	os.Exit(m.Run())
}

func propTest(t *testing.T, prop string, parts ...string) {
	if !vstat.Enabled(prop) {
		t.Skip()
	}
	part := "random"
	if len(parts) > 0 {
		part = parts[0]
	}
	rec := vstat.New(prop, part)
	gen := genScenario(prop)
	rec.RunRapid(t, func(rt *rapid.T) {
		sc := gen(rt)
		rec.Current(sc)
		st, err := run(t, sc, prop)
		rec.Case(sc, st.nontrivial(prop), st.labels()...)
		if err != nil {
			class := "oracle"
			if f, ok := err.(*failure); ok && f.prop == "PANIC" {
				class = "panic"
			}
			rt.Fatalf("%s", rec.Fail(sc, class, "%v", err))
		}
	})
}

func TestC04Random(t *testing.T) { propTest(t, "C04") }
func TestC05Random(t *testing.T) { propTest(t, "C05") }
func TestC07Random(t *testing.T) { propTest(t, "C07") }
func TestC08Random(t *testing.T) { propTest(t, "C08") }

// TestC08Huge: targets with more than 65536 leaves (part "huge"; a handful of cases, each costs seconds).
func TestC08Huge(t *testing.T) {
	if !vstat.Enabled("C08") {
		t.Skip()
	}
	rec := vstat.New("C08", "huge")
	rec.RunRapid(t, func(rt *rapid.T) {
		sc := genHugeScenario(rt)
		rec.Current(sc)
		st, err := run(t, sc, "C08")
		rec.Case(sc, true, append(st.labels(), "target-with-more-than-65536-leaves")...)
		if err != nil {
			class := "oracle"
			if f, ok := err.(*failure); ok && f.prop == "PANIC" {
				class = "panic"
			}
			rt.Fatalf("%s", rec.Fail(sc, class, "%v", err))
		}
	})
}

// TestC05Huge: ONCE / POLL answers of 9000-70000 leaves to a reader slower than the walk (part "huge").
func TestC05Huge(t *testing.T) {
	if !vstat.Enabled("C05") {
		t.Skip()
	}
	rec := vstat.New("C05", "huge")
	rec.RunRapid(t, func(rt *rapid.T) {
		sc := genHugeOnceScenario(rt)
		rec.Current(sc)
		st, err := run(t, sc, "C05")
		rec.Case(sc, true, append(st.labels(), "answer-of-9000-or-more-leaves-to-a-slow-reader")...)
		if err != nil {
			class := "oracle"
			if f, ok := err.(*failure); ok && f.prop == "PANIC" {
				class = "panic"
			}
			rt.Fatalf("%s", rec.Fail(sc, class, "%v", err))
		}
	})
}

// TestC07Huge: an all-targets subscriber denied a target of 10000-70000 leaves (part "huge"; each case costs seconds).
func TestC07Huge(t *testing.T) {
	if !vstat.Enabled("C07") {
		t.Skip()
	}
	rec := vstat.New("C07", "huge")
	rec.RunRapid(t, func(rt *rapid.T) {
		sc := genHugeACLScenario(rt)
		rec.Current(sc)
		st, err := run(t, sc, "C07")
		rec.Case(sc, true, append(st.labels(), "denied-target-with-10000-or-more-leaves")...)
		if err != nil {
			class := "oracle"
			if f, ok := err.(*failure); ok && f.prop == "PANIC" {
				class = "panic"
			}
			rt.Fatalf("%s", rec.Fail(sc, class, "%v", err))
		}
	})
}
func TestC14Sub(t *testing.T) { propTest(t, "C14", "subscribers") }

// TestReplay re-runs a saved scenario without the library.
func TestReplay(t *testing.T) {
	rf, ok, err := vstat.LoadReplay()
	if !ok {
		t.Skip()
	}
	if err != nil {
		t.Fatal(err)
	}
	rec := vstat.New(rf.Property, "replay")
	defer rec.Flush(true)
	if rf.Property == "C04" && rf.Part == "volley" {
		var vsc Volley
		vmsg := ""
		if err := json.Unmarshal(rf.Scenario, &vsc); err != nil || vsc.Writers < 1 {
			vmsg = fmt.Sprintf("bad scenario: %v", err)
		} else {
			vsc.Rounds *= 10
			if _, err := runVolley(t, &vsc); err != nil {
				vmsg = err.Error()
			}
		}
		if vmsg != "" {
			rec.AddViolation(json.RawMessage(rf.Scenario), rf.Kind, rf.Class, "%s", vmsg)
			fmt.Println("REPLAY-FAIL:", vmsg)
			t.Fail()
			return
		}
		rec.Case(json.RawMessage(rf.Scenario), false, "replayed")
		fmt.Println("REPLAY-OK")
		return
	}
	if rf.Property == "C05" && rf.Part == "foreign" {
		var fsc Foreign
		fmsg := ""
		if err := json.Unmarshal(rf.Scenario, &fsc); err != nil || fsc.Targets < 1 {
			fmsg = fmt.Sprintf("bad scenario: %v", err)
		} else if _, err := runForeign(t, &fsc); err != nil {
			fmsg = err.Error()
		}
		if fmsg != "" {
			rec.AddViolation(json.RawMessage(rf.Scenario), rf.Kind, rf.Class, "%s", fmsg)
			fmt.Println("REPLAY-FAIL:", fmsg)
			t.Fail()
			return
		}
		rec.Case(json.RawMessage(rf.Scenario), false, "replayed")
		fmt.Println("REPLAY-OK")
		return
	}
	if rf.Property == "C05" && rf.Part == "stress" {
		var osc OnceStress
		omsg := ""
		if err := json.Unmarshal(rf.Scenario, &osc); err != nil || osc.Hot < 1 {
			omsg = fmt.Sprintf("bad scenario: %v", err)
		} else {
			for i := 0; i < 20 && omsg == ""; i++ { // the schedule is not reproducible: try a few times
				if _, err := runOnceStress(t, &osc); err != nil {
					omsg = err.Error()
				}
			}
		}
		if omsg != "" {
			rec.AddViolation(json.RawMessage(rf.Scenario), rf.Kind, rf.Class, "%s", omsg)
			fmt.Println("REPLAY-FAIL:", omsg)
			t.Fail()
			return
		}
		rec.Case(json.RawMessage(rf.Scenario), false, "replayed")
		fmt.Println("REPLAY-OK")
		return
	}
	if rf.Kind == "stress" {
		var ssc StressScenario
		smsg := ""
		if err := json.Unmarshal(rf.Scenario, &ssc); err != nil || ssc.Targets < 1 {
			smsg = fmt.Sprintf("bad scenario: %v", err)
		} else {
			for i := 0; i < 20 && smsg == ""; i++ { // the schedule is not reproducible: try a few times
				if _, err := runStress(t, &ssc); err != nil {
					smsg = err.Error()
				}
			}
		}
		if smsg != "" {
			rec.AddViolation(json.RawMessage(rf.Scenario), rf.Kind, rf.Class, "%s", smsg)
			fmt.Println("REPLAY-FAIL:", smsg)
			t.Fail()
			return
		}
		rec.Case(json.RawMessage(rf.Scenario), false, "replayed")
		fmt.Println("REPLAY-OK")
		return
	}
	var sc Scenario
	msg := ""
	if err := json.Unmarshal(rf.Scenario, &sc); err != nil || sc.Targets < 1 {
		msg = fmt.Sprintf("bad scenario: %v", err)
	} else if _, err := run(t, &sc, rf.Property); err != nil {
		msg = err.Error()
	}
	if msg != "" {
		rec.AddViolation(json.RawMessage(rf.Scenario), rf.Kind, rf.Class, "%s", msg)
		fmt.Println("REPLAY-FAIL:", msg)
		t.Fail()
		return
	}
	rec.Case(json.RawMessage(rf.Scenario), false, "replayed")
	fmt.Println("REPLAY-OK")
}

var stressN = flag.Int("c04.stress", 300, "number of free-running workloads in TestC04Stress")

// TestC04Stress: free-running workloads (real scheduler, no gates) inside a
// synctest bubble; built with -race by the driver.
func TestC04Stress(t *testing.T) {
	if !vstat.Enabled("C04") {
		t.Skip()
	}
	rec := vstat.New("C04", "stress")
	rec.SetRequested(*stressN)
	rec.Note("free-running part: workloads are a function of the seed, schedules are the real scheduler's and cannot be replayed; a replay re-runs the workload")
	for i := 0; i < *stressN; i++ {
		sc := genStress(*vstat.Seed*1_000_003 + int64(i))
		rec.Current(sc)
		overlap, err := runStress(t, sc)
		labels := []string{"free-running"}
		if len(sc.Writers) > 1 {
			labels = append(labels, "multiple-writers")
		}
		rec.Case(sc, overlap && len(sc.Subs) > 1, labels...)
		if err != nil {
			rec.AddViolation(sc, "stress", "oracle", "%v", err)
			t.Fail()
			break
		}
	}
	rec.Flush(true)
}

var onceStressN = flag.Int("c05.stress", 40, "number of free-running ONCE/POLL workloads in TestC05Stress")

// TestC05Stress: ONCE calls and POLL rounds racing writers on the real scheduler (inside a synctest bubble).
func TestC05Stress(t *testing.T) {
	if !vstat.Enabled("C05") {
		t.Skip()
	}
	rec := vstat.New("C05", "stress")
	rec.SetRequested(*onceStressN)
	rec.Note("free-running part: workloads are a function of the seed, schedules are the real scheduler's and cannot be replayed; a replay re-runs the workload")
	for i := 0; i < *onceStressN; i++ {
		sc := genOnceStress(*vstat.Seed*1_000_003 + int64(i))
		rec.Current(sc)
		rounds, err := runOnceStress(t, sc)
		labels := []string{"free-running", "mode:" + sc.Modes, "path:" + sc.Path}
		if sc.GlogV > 0 {
			labels = append(labels, "glog-verbosity>0")
		}
		if sc.ACL {
			labels = append(labels, "server-with-an-acl-that-admits-everybody")
		}
		rec.Case(sc, rounds >= 20 && sc.Hot > 1, labels...)
		if err != nil {
			rec.AddViolation(sc, "stress", "oracle", "%v", err)
			t.Fail()
			break
		}
	}
	rec.Flush(true)
}

var volleyN = flag.Int("c04.volleys", 12, "number of volley workloads in TestC04Volley")
var volleyRounds = flag.Int("c04.volleyrounds", 1500, "rounds per volley workload")

// TestC04Volley: simultaneous writers against an idle STREAM subscriber, round after round (see volley.go).
func TestC04Volley(t *testing.T) {
	if !vstat.Enabled("C04") {
		t.Skip()
	}
	rec := vstat.New("C04", "volley")
	rec.SetRequested(*volleyN)
	rec.Note("free-running part: workloads are a function of the seed, schedules are the real scheduler's; a replay re-runs the workload")
	for i := 0; i < *volleyN; i++ {
		sc := genVolley(*vstat.Seed*1_000_003+int64(i), *volleyRounds)
		rec.Current(sc)
		done, err := runVolley(t, sc)
		labels := []string{"free-running", fmt.Sprintf("writers=%d", sc.Writers)}
		if sc.Star {
			labels = append(labels, "all-targets-subscriber")
		}
		rec.Case(sc, done >= 100 && sc.Writers >= 2, labels...)
		if err != nil {
			rec.AddViolation(sc, "volley", "oracle", "%v", err)
			t.Fail()
			break
		}
	}
	rec.Flush(true)
}
