package subprop

import (
	"context"
	"errors"
	"fmt"
	"github.com/openconfig/gnmi/proto/gnmi_ext"
	"math"
	"runtime"
	"runtime/debug"
	"slices"
	"sort"
	"strings"
	"sync"
	"testing"
	"testing/synctest"
	"time"

	"github.com/openconfig/gnmi/cache"
	"github.com/openconfig/gnmi/ctree"
	"github.com/openconfig/gnmi/metadata"
	pb "github.com/openconfig/gnmi/proto/gnmi"
	"github.com/openconfig/gnmi/subscribe"
	"github.com/openconfig/gnmi/verifhook"
	"google.golang.org/grpc/codes"
	"google.golang.org/grpc/status"
	"google.golang.org/protobuf/proto"
	"verif/harness/internal/gn"
	"verif/harness/internal/vstat"
)

// ---- statistics -----------------------------------------------------------------------

type stats struct {
	writeWhileParkedBeforeSync, writerParkedAtFeedDuringWalk, convergenceChecked, syncChecked  bool
	updatesOnly, starSub, globMid, nonEmptyResult, pollRound, onceDone, invalidOrigin          bool
	deniedSingle, failUser, starDeniedAndAllowedAfterSync, deniedFiltered                      bool
	stalledDuringWrite, burstCoalesced, burstWithDelete, timeoutFired, shortStallSurvived      bool
	exactChecked, removeWithSub, removeStarSurvives, resetSeen, staticRound, dynamicRound      bool
	modelAmbiguous, backdated, richNames, sleptWithACL, parkedInsideFeed, removeReaddRace      bool
	startedWhileInsideFeed, mixedEnc, nilPath, perPathOrigins, rpcDeadline, walkParkedInInsert bool
	aclFlipped, oddTargetNames, updatesOnlyRound, atomicTwist                                  bool
	foreignWrite, foreignDeniedStored, pollFlood, pollFloodBig, pollFloodLeftStalled           bool
	dressed, malformedFirst, twinPaths, streamHalfClosed                                       bool
	nearValue, nearFine, rpcEndedDuringItsWalk, readd, emptyList                               bool
	valueKinds                                                                                 map[string]bool
	skippedSteps, maxBulk, maxOnceLeaves                                                       int
}

func (s *stats) labels() []string {
	var l []string
	for k := range s.valueKinds {
		l = append(l, "value-kind:"+k)
	}
	sort.Strings(l)
	add := func(b bool, n string) {
		if b {
			l = append(l, n)
		}
	}
	add(s.writeWhileParkedBeforeSync, "write-while-sub-parked-between-start-and-sync")
	add(s.writerParkedAtFeedDuringWalk, "writer-parked-at-feed-while-walk-ran")
	add(s.convergenceChecked, "convergence-checked")
	add(s.syncChecked, "sync-discipline-checked")
	add(s.updatesOnly, "updates-only")
	add(s.starSub, "all-targets-subscription")
	add(s.globMid, "glob-in-non-final-position")
	add(s.nonEmptyResult, "non-empty-result")
	add(s.pollRound, "poll-round")
	add(s.onceDone, "once-completed")
	add(s.invalidOrigin, "invalid-origin-combination")
	add(s.deniedSingle, "single-target-denied")
	add(s.failUser, "rpc-acl-unavailable")
	add(s.starDeniedAndAllowedAfterSync, "star-sub-denied-and-allowed-updated-after-sync")
	add(s.deniedFiltered, "response-for-denied-target-filtered")
	add(s.stalledDuringWrite, "write-while-a-subscriber-is-stalled")
	add(s.burstCoalesced, "burst-coalesced-2plus-updates-to-one-leaf")
	add(s.burstWithDelete, "burst-with-delete")
	add(s.timeoutFired, "send-timeout-fired")
	add(s.shortStallSurvived, "short-stall-survived")
	add(s.exactChecked, "backlog-model-compared")
	add(s.modelAmbiguous, "backlog-model-dropped(sender-idle-multi-offer)")
	add(s.removeWithSub, "remove-with-single-target-subscriber")
	add(s.removeStarSurvives, "remove-with-star-subscriber")
	add(s.resetSeen, "reset")
	add(s.staticRound, "static-round-exact")
	add(s.dynamicRound, "round-with-concurrent-writer")
	add(s.parkedInsideFeed, "writer-parked-inside-the-feed-callback")
	add(s.startedWhileInsideFeed, "subscription-started-while-a-writer-was-inside-the-feed-callback")
	add(s.removeReaddRace, "remove-racing-with-re-add-and-update")
	add(s.walkParkedInInsert, "writer-started-while-a-walk-was-parked-inside-a-queue-insertion")
	add(s.mixedEnc, "writer-notification-in-deprecated-or-mixed-path-encoding")
	add(s.nilPath, "subscription-with-unset-path")
	add(s.rpcDeadline, "stream-context-carries-an-rpc-deadline")
	add(s.perPathOrigins, "paths-of-one-request-with-different-origins")
	add(s.backdated, "backdated-notification")
	add(s.richNames, "names-with-common-string-prefix-or-slash")
	add(s.sleptWithACL, "quiet-period-with-acl")
	add(s.aclFlipped, "grant-changed-while-streams-were-open")
	add(s.atomicTwist, "atomic-container-re-sent-with-the-same-values-on-rotated-member-paths")
	add(s.updatesOnlyRound, "once-or-poll-round-with-updates-only")
	add(s.oddTargetNames, "target-names-with-glob-character-case-twins-or-separators")
	add(s.foreignWrite, "notification-stored-through-another-targets-entry-point")
	add(s.foreignDeniedStored, "notification-naming-a-denied-target-stored-under-an-allowed-one")
	add(s.pollFlood, "poll-triggers-while-the-subscriber-is-stalled")
	add(s.pollFloodBig, "poll-triggers-while-stalled>=5")
	add(s.pollFloodLeftStalled, "poll-client-left-stalled-after-triggers")
	add(s.dressed, "request-dressed-with-unimplemented-fields")
	add(s.rpcEndedDuringItsWalk, "rpc-ended-while-its-own-walk-was-inside-a-queue-insertion")
	add(s.readd, "registered-target-added-again")
	add(s.emptyList, "subscription-list-without-subscriptions")
	add(s.nearValue, "update-carrying-the-smallest-change-of-the-stored-value")
	add(s.nearFine, "smallest-change-of-a-decimal-beyond-float32-precision")
	add(s.streamHalfClosed, "stream-client-half-closed-its-sending-side")
	add(s.malformedFirst, "first-message-is-not-a-subscription-request")
	add(s.twinPaths, "paths-of-one-request-that-read-the-same-when-joined")
	add(s.maxBulk > 32, "bulk-update>32")
	add(s.maxBulk > 64, "bulk-update>64")
	add(s.maxBulk > 256, "bulk-update>256")
	return l
}

func (s *stats) nontrivial(prop string) bool {
	switch prop {
	case "C04":
		return s.convergenceChecked && (s.writeWhileParkedBeforeSync || s.writerParkedAtFeedDuringWalk)
	case "C05":
		return s.nonEmptyResult && (s.globMid || s.starSub) && (s.staticRound || s.dynamicRound)
	case "C07":
		return s.starDeniedAndAllowedAfterSync
	case "C08":
		return s.burstCoalesced && s.burstWithDelete && s.stalledDuringWrite
	case "C14":
		return s.removeWithSub || s.removeStarSurvives
	}
	return false
}

// ---- failure plumbing ---------------------------------------------------------------------

type failure struct {
	prop, msg string
}

func (f *failure) Error() string { return f.prop + ": " + f.msg }

// ---- ACL double ---------------------------------------------------------------------------------

type aclDouble struct {
	spec    *ACLSpec
	targets int
	// the table can change while streams are open (aclflip steps): flips[i] toggles (user, target) from step on
	mu    sync.Mutex
	flips []aclFlip
	step  func() int
}

type aclFlip struct{ step, user, target int }

// rpcACL keeps the context it was created with, as a backend does that looks grants up per check:
// once that context is done it fails closed.
type rpcACL struct {
	a    *aclDouble
	user int
	ctx  context.Context
}

func (a *aclDouble) NewRPCACL(ctx context.Context) (subscribe.RPCACL, error) {
	u, _ := ctx.Value(userKey{}).(int)
	if u < len(a.spec.FailUser) && a.spec.FailUser[u] {
		kind := ""
		if u < len(a.spec.FailKind) {
			kind = a.spec.FailKind[u]
		}
		return nil, aclError(kind)
	}
	if u%2 == 1 {
		// every second user gets the same ACL as a plain struct value with a cache map in it: a legal
		// implementation of the interface whose dynamic type cannot be compared or hashed
		return rpcACLValue{rpcACL: &rpcACL{a, u, ctx}, seen: map[string]int{}}, nil
	}
	return &rpcACL{a, u, ctx}, nil
}

// rpcACLValue: value receiver, uncomparable dynamic type (see NewRPCACL).
type rpcACLValue struct {
	*rpcACL
	seen map[string]int
}

func (r rpcACLValue) Check(target string) bool { return r.rpcACL.Check(target) }

// aclError builds the error value an ACL backend may fail with: whatever it is or carries,
// "authorisation could not be established" and the call is rejected as unauthenticated.
func aclError(kind string) error {
	switch kind {
	case "status-unavailable":
		return status.Error(codes.Unavailable, "acl backend down")
	case "status-denied":
		return status.Error(codes.PermissionDenied, "acl backend says no")
	case "wrapped-status":
		return fmt.Errorf("acl lookup: %w", status.Error(codes.Unavailable, "acl backend down"))
	case "status-ok":
		return okStatusError{}
	case "canceled":
		return context.Canceled
	case "empty-text":
		return errors.New("")
	}
	return errors.New("no credentials")
}

// okStatusError is an error that carries the gRPC status OK.
type okStatusError struct{}

func (okStatusError) Error() string              { return "acl: inconsistent backend answer" }
func (okStatusError) GRPCStatus() *status.Status { return status.New(codes.OK, "") }

func (a *aclDouble) Check(string, string) bool { return true }

func (r *rpcACL) Check(target string) bool {
	if r.ctx.Err() != nil {
		return false
	}
	return r.a.allowed(r.user, target)
}

// allowed is the grant as of now; allowedAt as of a scenario step.
func (a *aclDouble) allowed(user int, target string) bool {
	st := 1 << 30
	if a.step != nil {
		st = a.step()
	}
	return a.allowedAt(user, target, st)
}

func (a *aclDouble) allowedAt(user int, target string, step int) bool {
	for i := 0; i < a.targets; i++ {
		if targetName(i) == target {
			ok := user < len(a.spec.Allow) && i < len(a.spec.Allow[user]) && a.spec.Allow[user][i]
			a.mu.Lock()
			for _, f := range a.flips {
				if f.user == user && f.target == i && f.step <= step {
					ok = !ok
				}
			}
			a.mu.Unlock()
			return ok
		}
	}
	return false
}

func (a *aclDouble) flipped() bool {
	a.mu.Lock()
	defer a.mu.Unlock()
	return len(a.flips) > 0
}

// ---- world ----------------------------------------------------------------------------------

type fedEntry struct {
	step int
	n    *pb.Notification
}

type subState struct {
	i        int
	spec     SubSpec
	stream   *memStream
	req      *pb.SubscribeRequest
	target   string
	patterns [][]string // with the target (or "*") as first element
	patErr   bool       // invalid origin combination

	started, ended bool
	retErr         error
	endedAt        int64
	startStep      int
	regStep        int // step during which registration completed (-1: not yet)
	syncStep       int // step during which the sync was sent (-1)
	snapshot       map[string]string
	excused        map[string]bool // keys deleted/replaced between start and sync
	cancelled      bool
	eofSent        bool
	polls          int // poll triggers issued
	writesDuring   bool
	ambiguous      map[string]bool // keys written by a writer in flight across registration (updates_only)
	targetRemoved  bool            // its single target was removed while it was registered
	removedStep    int
	startLive      bool // the target existed when the RPC started
	lastPollStep   int

	// C08 backlog model (valid only after a drain with an empty queue)
	modelValid  bool
	inflight    *qitem
	pending     []*qitem
	expect      []qdeliver // deliveries the model predicts since it became valid
	seenOut     int        // responses already accounted for when the model became valid
	idleAtStart bool       // no item was in flight when the current step began
	offers      int        // items offered during the current step
	stallStart  int64      // virtual time the currently parked Send began (from the stream)
	timedOut    bool
	first       *pb.SubscribeRequest // what is sent first when spec.First says so (nil with "eof": nothing is)
	flooded     bool                 // poll triggers were issued while it was not reading (pollflood): the C05 round clauses do not apply
}

type qitem struct {
	id    string // key + generation for updates; unique for deletes / sync
	kind  string // upd del
	key   string
	n     *pb.Notification // for deletes: the notification itself
	count uint32
	tgt   string
}

type qdeliver struct {
	kind string
	key  string
	val  string
	dup  uint32
}

type writer struct {
	owner  string
	target string
	done   bool
	err    error
	op     *WOp
	step   int
	alive  []*subState // subscriptions that were running when the operation began
	n      *pb.Notification
	cb     bool   // parked inside the feed callback
	via    string // noti: the target through whose entry point it is written ("" = the one its prefix names)
}

type world struct {
	// callback gate: the harness owns the cache's change-feed callback, so a writer can be
	// parked inside it (before or after the entry is forwarded) without any hook in the code
	cleanups   []func()
	lastAtomic map[string][]*pb.Update // per target/origin/prefix: the updates of the atomic notification built last
	cbMu       sync.Mutex
	cbPoint    string
	cbArm      int
	t          *testing.T
	sc         *Scenario
	prop       string
	chk        map[string]bool
	c          *cache.Cache
	srv        *subscribe.Server
	g          *gates
	acl        *aclDouble
	subs       []*subState
	step       int
	ts         int64
	base       time.Time

	mu           sync.Mutex
	fed          []fedEntry
	known        map[string]bool            // keys (with target) currently stored, as seen through the feed
	lastTouch    map[string]int             // key -> step of the last fed change
	gen          map[string]int             // key -> leaf generation (bumped by deletes)
	latestVal    map[string]string          // key#gen -> value most recently fed for that leaf object
	submitted    map[string]map[string]bool // key -> set of "ts|value" submitted by writers
	parked       []*writer
	busy         map[string]bool
	live         map[string]bool
	st           stats
	fail         *failure
	stored       map[*pb.Notification]*pb.Notification // stored notification object -> its content when first seen at a quiescent point
	noCacheReads bool                                  // the harness must not query the cache now (a Remove in progress may hold the cache's write lock)
	foreign      bool                                  // a writer stored a notification through another target's entry point (WOp.Via)
}

func (w *world) failf(prop, format string, a ...any) {
	if !w.chk[prop] {
		return
	}
	panic(&failure{prop, fmt.Sprintf(format, a...)})
}

func (w *world) now() int64   { return time.Since(w.base).Nanoseconds() }
func (w *world) curStep() int { return w.step }

func valRepr(n *pb.Notification) string {
	mo := proto.MarshalOptions{Deterministic: true}
	if n.GetAtomic() {
		var sb strings.Builder
		sb.WriteString("atomic:")
		for _, u := range n.Update {
			c := proto.Clone(u).(*pb.Update)
			c.Duplicates = 0
			c.Val = normZero(c.Val)
			b, _ := mo.Marshal(c)
			fmt.Fprintf(&sb, "%x;", b)
		}
		return sb.String()
	}
	if len(n.Update) != 1 {
		return fmt.Sprintf("malformed:%d-updates", len(n.Update))
	}
	// the value in either encoding (val, or the deprecated value field); negative zero is the same value as zero
	// (an event-driven cache rightly withholds 0 -> -0: the leaf's value is unchanged)
	c := &pb.Update{Val: normZero(n.Update[0].GetVal()), Value: n.Update[0].GetValue()}
	b, _ := mo.Marshal(c)
	return fmt.Sprintf("%x", b)
}

// normZero returns v with a negative floating-point zero replaced by zero (a copy when it has to change).
func normZero(v *pb.TypedValue) *pb.TypedValue {
	switch x := v.GetValue().(type) {
	case *pb.TypedValue_DoubleVal:
		if x.DoubleVal == 0 {
			return &pb.TypedValue{Value: &pb.TypedValue_DoubleVal{DoubleVal: 0}}
		}
	case *pb.TypedValue_FloatVal:
		if x.FloatVal == 0 {
			return &pb.TypedValue{Value: &pb.TypedValue_FloatVal{FloatVal: 0}}
		}
	}
	return v
}

func keyOfUpdate(n *pb.Notification, u *pb.Update) []string {
	if n.GetAtomic() {
		return gn.RefIndex(n.GetPrefix(), true)
	}
	return append(gn.RefIndex(n.GetPrefix(), true), gn.RefIndex(u.GetPath(), false)...)
}

func keyOfDelete(n *pb.Notification, d *pb.Path) []string {
	return append(gn.RefIndex(n.GetPrefix(), true), gn.RefIndex(d, false)...)
}

func isMeta(k []string) bool { return len(k) > 1 && k[1] == metadata.Root }

// tap sees every change the cache feeds, before the server does.
func (w *world) tap(l *ctree.Leaf) {
	n, ok := l.Value().(*pb.Notification)
	if !ok {
		return
	}
	c := proto.Clone(n).(*pb.Notification)
	w.mu.Lock()
	defer w.mu.Unlock()
	w.fed = append(w.fed, fedEntry{w.step, c})
	switch {
	case len(c.Delete) > 0:
		for _, d := range c.Delete {
			pat := keyOfDelete(c, d)
			// A delete that names a known leaf exactly concerns that leaf alone (a leaf has nothing below it):
			// no scan, or a Reset of a large target costs leaves x leaves.
			exact := ""
			base := pat
			if n := len(base); n > 0 && base[n-1] == "*" {
				base = base[:n-1] // a trailing glob also matches the node itself
			}
			if !slices.Contains(base, "*") && w.known[gn.Key(base)] {
				exact = gn.Key(base)
				delete(w.known, exact)
				w.lastTouch[exact] = w.step
				w.gen[exact]++
			} else {
				for k := range w.known {
					if gn.Matches(pat, gn.Unkey(k)) {
						delete(w.known, k)
						w.lastTouch[k] = w.step
						w.gen[k]++
					}
				}
			}
			for _, s := range w.subs {
				if s.started && s.syncStep < 0 {
					if _, in := s.snapshot[exact]; exact != "" && (in || len(s.snapshot) == 0) {
						// the snapshot is the tree at one instant: the leaf it holds here has nothing below it either
						if in {
							s.excused[exact] = true
						}
						continue
					}
					for k := range s.snapshot {
						if gn.Matches(pat, gn.Unkey(k)) {
							s.excused[k] = true
						}
					}
				}
			}
		}
	case len(c.Update) > 0:
		k := gn.Key(keyOfUpdate(c, c.Update[0]))
		w.known[k] = true
		w.lastTouch[k] = w.step
		w.latestVal[fmt.Sprintf("%s#%d", k, w.gen[k])] = valRepr(c)
	}
	w.offerToModels(c)
}

// content returns what the cache stores for a target: key (with target) -> value repr.
func (w *world) content(target string) map[string]string {
	out := map[string]string{}
	w.c.Query(target, []string{"*"}, func(p []string, _ *ctree.Leaf, v interface{}) error {
		if n, ok := v.(*pb.Notification); ok {
			out[gn.Key(append([]string{target}, p...))] = valRepr(n)
		}
		return nil
	})
	return out
}

func (w *world) allowedTarget(s *subState, target string) bool {
	if s.target != "*" && s.target != target {
		return false
	}
	if w.acl != nil && !w.acl.allowed(s.spec.User, target) {
		return false
	}
	return true
}

func (s *subState) matches(k []string) bool {
	for _, p := range s.patterns {
		if gn.Matches(p, k) {
			return true
		}
	}
	return false
}

// expected is the matching content of the cache for a subscription right now.
func (w *world) expected(s *subState) map[string]string {
	out := map[string]string{}
	for i := 0; i < w.sc.Targets; i++ {
		name := targetName(i)
		if !w.live[name] || !w.allowedTarget(s, name) {
			continue
		}
		for k, v := range w.content(name) {
			if s.matches(gn.Unkey(k)) {
				out[k] = v
			}
		}
	}
	return out
}

// completePath is the documented rule for joining a subscription prefix and path.
func completePath(prefix, p *pb.Path) ([]string, bool) {
	op, oq := prefix.GetOrigin(), p.GetOrigin()
	pi := gn.RefIndex(prefix, false)
	switch {
	case op != "" && oq != "":
		return nil, false
	case op != "":
		return append(append([]string{op}, pi...), gn.RefIndex(p, false)...), true
	case oq != "":
		if len(pi) > 0 {
			return nil, false
		}
		return append([]string{oq}, gn.RefIndex(p, false)...), true
	}
	return append(pi, gn.RefIndex(p, false)...), true
}

func (w *world) newSub(i int, spec SubSpec) *subState {
	s := &subState{i: i, spec: spec, regStep: -1, syncStep: -1, excused: map[string]bool{}, ambiguous: map[string]bool{}}
	s.target = "*"
	if spec.Target >= 0 {
		s.target = targetName(spec.Target % w.sc.Targets)
	}
	prefix := gn.Path(s.target, spec.POrigin, spec.PElems, spec.PElement, 0)
	sl := &pb.SubscriptionList{Prefix: prefix, UpdatesOnly: spec.UpdatesOnly}
	origins := map[string]bool{}
	switch spec.Mode {
	case "once":
		sl.Mode = pb.SubscriptionList_ONCE
	case "poll":
		sl.Mode = pb.SubscriptionList_POLL
	default:
		sl.Mode = pb.SubscriptionList_STREAM
	}
	if len(spec.Paths) == 0 {
		w.st.emptyList = true
	}
	joined := map[string]string{}
	for _, p := range spec.Paths {
		idx := gn.IndexOfElems(p.Elems, false)
		if prev, ok := joined[strings.Join(idx, "/")]; ok && prev != gn.Key(idx) {
			w.st.twinPaths = true
		}
		joined[strings.Join(idx, "/")] = gn.Key(idx)
		pp := gn.Path("", p.Origin, p.Elems, p.Element, 0)
		if p.Unset && p.Origin == "" && len(p.Elems) == 0 {
			pp = nil
			w.st.nilPath = true
		}
		origins[p.Origin] = true
		if len(origins) > 1 {
			w.st.perPathOrigins = true
		}
		sl.Subscription = append(sl.Subscription, &pb.Subscription{Path: pp})
		full, ok := completePath(prefix, pp)
		if !ok {
			s.patErr = true
			continue
		}
		s.patterns = append(s.patterns, append([]string{s.target}, full...))
		for j, e := range full {
			if e == "*" && j < len(full)-1 {
				w.st.globMid = true
			}
		}
	}
	var dressExt []*gnmi_ext.Extension
	if spec.Dress > 0 {
		// fields the server does not implement: whatever they hold, the request behaves like the plain one
		d := uint64(spec.Dress)
		next := func(n uint64) uint64 { d = d*6364136223846793005 + 1442695040888963407; return (d >> 33) % n }
		sl.Qos = &pb.QOSMarking{Marking: uint32(next(64))}
		sl.AllowAggregation = next(2) == 0
		sl.Encoding = pb.Encoding([]int32{0, 1, 2, 3, 4, 9}[next(6)])
		if next(3) == 0 {
			dressExt = []*gnmi_ext.Extension{{Ext: &gnmi_ext.Extension_RegisteredExt{RegisteredExt: &gnmi_ext.RegisteredExtension{Id: 7, Msg: []byte("x")}}},
				{Ext: &gnmi_ext.Extension_History{History: &gnmi_ext.History{Request: &gnmi_ext.History_SnapshotTime{SnapshotTime: 5}}}}}[:1+next(2)]
		}
		if next(3) == 0 {
			sl.UseModels = []*pb.ModelData{{Name: "m", Organization: "o", Version: "1"}}
		}
		for _, sub := range sl.Subscription {
			if sub.Path != nil && next(4) == 0 {
				sub.Path.Target = []string{"elsewhere", "*", "t0"}[next(3)] // the target of a subscription path is the prefix's: this one is never read
			}
			sub.Mode = pb.SubscriptionMode([]int32{0, 1, 2, 0, 1, 2, 3, -1, 100}[next(9)])
			sub.SampleInterval = []uint64{0, 1, 1_000_000_000, 1 << 62}[next(4)]
			sub.SuppressRedundant = next(2) == 0
			sub.HeartbeatInterval = []uint64{0, 1, 60_000_000_000}[next(3)]
		}
		w.st.dressed = true
	}
	s.req = &pb.SubscribeRequest{Request: &pb.SubscribeRequest_Subscribe{Subscribe: sl}, Extension: dressExt}
	switch spec.First {
	case "poll":
		s.first = &pb.SubscribeRequest{Request: &pb.SubscribeRequest_Poll{Poll: &pb.Poll{}}}
	case "noprefix":
		c := proto.Clone(sl).(*pb.SubscriptionList)
		c.Prefix = nil
		s.first = &pb.SubscribeRequest{Request: &pb.SubscribeRequest_Subscribe{Subscribe: c}}
	case "notarget":
		c := proto.Clone(sl).(*pb.SubscriptionList)
		c.Prefix.Target = ""
		s.first = &pb.SubscribeRequest{Request: &pb.SubscribeRequest_Subscribe{Subscribe: c}}
	case "empty":
		s.first = &pb.SubscribeRequest{}
	}
	if spec.First != "" {
		w.st.malformedFirst = true
	}
	if s.target == "*" {
		w.st.starSub = true
	}
	if spec.UpdatesOnly {
		w.st.updatesOnly = true
	}
	if s.patErr {
		w.st.invalidOrigin = true
	}
	return s
}

// ---- steps -------------------------------------------------------------------------------------

func (w *world) buildNoti(op *WOp) *pb.Notification {
	name := targetName(op.T % w.sc.Targets)
	w.ts += 10
	ts := w.ts
	if op.Back > 0 && ts > int64(10*op.Back) {
		ts = ts - int64(10*op.Back) + 5
		w.st.backdated = true
	}
	if op.Old {
		ts = 5
	}
	origin, prefix := op.Origin, op.Prefix
	var first []gn.Elem
	if op.Pick > 0 && !op.Atomic {
		w.mu.Lock()
		var ks []string
		for k := range w.known {
			p := gn.Unkey(k)
			if p[0] == name && len(p) > 1 && !isMeta(p) {
				ks = append(ks, k)
			}
		}
		w.mu.Unlock()
		sort.Strings(ks)
		if len(ks) > 0 {
			leaf := gn.Unkey(ks[(op.Pick-1)%len(ks)])[1:]
			origin, prefix = "", nil
			for _, e := range leaf {
				first = append(first, gn.Elem{Name: e})
			}
		}
	}
	// Enc: 0 structured everywhere, 1 deprecated strings everywhere, 2 prefix deprecated + paths structured,
	// 3 prefix structured + paths deprecated, 4 structured plus stray deprecated strings (to be ignored)
	pfx := gn.Path(name, origin, prefix, op.Enc == 1 || op.Enc == 2, 0)
	if op.Enc == 4 && len(pfx.Elem) > 0 {
		pfx.Element = []string{"stray"}
	}
	if op.Enc != 0 {
		w.st.mixedEnc = true
	}
	n := &pb.Notification{Timestamp: ts, Prefix: pfx, Atomic: op.Atomic}
	for i, u := range op.Updates {
		p := u.Path
		if i == 0 && first != nil {
			p = first
		}
		if w.st.valueKinds == nil {
			w.st.valueKinds = map[string]bool{}
		}
		w.st.valueKinds[u.Val.Kind] = true
		upd := gn.MakeUpdate(w.wpath(op, p), u.Val)
		if i == 0 && first != nil && op.Near && !w.noCacheReads && len(w.parked) == 0 {
			if nv := w.nearStored(name, first); nv != nil {
				upd.Val, upd.Value = nv, nil
				w.st.nearValue = true
			}
		}
		n.Update = append(n.Update, upd)
	}
	if op.Atomic {
		ak := name + "|" + origin + "|" + gn.Key(gn.IndexOfElems(prefix, false))
		if last := w.lastAtomic[ak]; op.Twist && len(last) >= 2 {
			// the container sent last at this prefix: same values in the same order, member paths rotated by one
			n.Update = nil
			for i := range last {
				n.Update = append(n.Update, &pb.Update{Path: proto.Clone(last[(i+1)%len(last)].Path).(*pb.Path), Val: last[i].Val, Value: last[i].Value})
			}
			w.st.atomicTwist = true
		}
		if w.lastAtomic == nil {
			w.lastAtomic = map[string][]*pb.Update{}
		}
		w.lastAtomic[ak] = n.Update
	}
	if b := op.Bulk; b != nil && !op.Atomic {
		for i := b.Start; i < b.Start+b.N; i++ {
			p := append(append([]gn.Elem{}, b.At...), gn.Elem{Name: fmt.Sprintf("k%d", i)})
			if b.Leaf != "" {
				p = append(p, gn.Elem{Name: b.Leaf})
			}
			n.Update = append(n.Update, &pb.Update{Path: w.wpath(op, p), Val: gn.Val{Kind: "int", I: b.V}.TV()})
		}
		if b.N > w.st.maxBulk {
			w.st.maxBulk = b.N
		}
	}
	for i, d := range op.Deletes {
		p := d
		if i == 0 && first != nil && len(op.Updates) == 0 {
			p = first
			if op.Star && len(p) > 0 {
				p = append(append([]gn.Elem{}, p[:len(p)-1]...), gn.Elem{Name: "*"})
			}
		}
		n.Delete = append(n.Delete, w.wpath(op, p))
	}
	return n
}

// nearStored returns the smallest change of the value stored at the leaf (nil if there is none to derive).
func (w *world) nearStored(name string, leaf []gn.Elem) *pb.TypedValue {
	var p []string
	for _, e := range leaf {
		p = append(p, e.Name)
	}
	var cur *pb.TypedValue
	w.c.Query(name, p, func(_ []string, _ *ctree.Leaf, v interface{}) error {
		if nt, ok := v.(*pb.Notification); ok && !nt.GetAtomic() && len(nt.GetUpdate()) == 1 {
			cur = nt.Update[0].GetVal()
		}
		return nil
	})
	switch x := cur.GetValue().(type) {
	case *pb.TypedValue_IntVal:
		return &pb.TypedValue{Value: &pb.TypedValue_IntVal{IntVal: x.IntVal + 1}}
	case *pb.TypedValue_UintVal:
		return &pb.TypedValue{Value: &pb.TypedValue_UintVal{UintVal: x.UintVal + 1}}
	case *pb.TypedValue_DecimalVal:
		if d := x.DecimalVal.GetDigits(); d >= 1<<24 || d <= -(1<<24) {
			w.st.nearFine = true
		}
		return &pb.TypedValue{Value: &pb.TypedValue_DecimalVal{DecimalVal: &pb.Decimal64{Digits: x.DecimalVal.GetDigits() + 1, Precision: x.DecimalVal.GetPrecision()}}}
	case *pb.TypedValue_DoubleVal:
		return &pb.TypedValue{Value: &pb.TypedValue_DoubleVal{DoubleVal: math.Nextafter(x.DoubleVal, math.Inf(1))}}
	case *pb.TypedValue_FloatVal:
		return &pb.TypedValue{Value: &pb.TypedValue_FloatVal{FloatVal: math.Nextafter32(x.FloatVal, float32(math.Inf(1)))}}
	case *pb.TypedValue_StringVal:
		return &pb.TypedValue{Value: &pb.TypedValue_StringVal{StringVal: x.StringVal + "x"}}
	case *pb.TypedValue_BoolVal:
		return &pb.TypedValue{Value: &pb.TypedValue_BoolVal{BoolVal: !x.BoolVal}}
	}
	return nil
}

// wpath builds an update/delete path of a writer notification in the encoding op.Enc asks for.
func (w *world) wpath(op *WOp, p []gn.Elem) *pb.Path {
	out := gn.Path("", "", p, op.Enc == 1 || op.Enc == 3, 0)
	if op.Enc == 4 && len(out.Elem) > 0 {
		out.Element = []string{"stray", "x"}
	}
	return out
}

func (w *world) recordSubmitted(n *pb.Notification) {
	w.mu.Lock()
	defer w.mu.Unlock()
	add := func(k []string, v string) {
		ks := gn.Key(k)
		if w.submitted[ks] == nil {
			w.submitted[ks] = map[string]bool{}
		}
		w.submitted[ks][fmt.Sprintf("%d|%s", n.Timestamp, v)] = true
	}
	if n.Atomic {
		if len(n.Update) > 0 {
			add(gn.RefIndex(n.Prefix, true), valRepr(n))
		}
		return
	}
	for _, u := range n.Update {
		single := &pb.Notification{Update: []*pb.Update{u}}
		add(append(gn.RefIndex(n.Prefix, true), gn.RefIndex(u.Path, false)...), valRepr(single))
	}
}

func (w *world) doWriter(wr *writer) {
	defer func() {
		if r := recover(); r != nil {
			if f, ok := r.(*failure); ok {
				w.fail = f
			} else {
				w.fail = &failure{"PANIC", fmt.Sprintf("panic in a writer: %v\n%s", r, trimStack(debug.Stack()))}
			}
		}
		wr.done = true
	}()
	name := wr.target
	switch wr.op.Kind {
	case "noti":
		w.recordSubmitted(wr.n)
		if wr.via != "" {
			if t := w.c.GetTarget(wr.via); t != nil {
				wr.err = t.GnmiUpdate(wr.n)
			}
			break
		}
		wr.err = w.c.GnmiUpdate(wr.n)
	case "reset":
		w.c.Reset(name)
	case "remove":
		w.c.Remove(name)
	case "add", "readd":
		w.c.Add(name)
	case "sync":
		w.c.Sync(name)
	case "connect":
		w.c.Connect(name)
	case "updmeta":
		w.c.UpdateMetadata()
	}
}

func (w *world) anyStalled() bool {
	for _, s := range w.subs {
		if s.started && !s.ended {
			if _, parked, _ := s.stream.snapshot(); parked {
				return true
			}
		}
	}
	return false
}

func (w *world) stepWriter(st Step) {
	op := st.W
	if op == nil {
		return
	}
	name := targetName(op.T % w.sc.Targets)
	if op.Kind != "updmeta" && w.busy[name] {
		// one writer per target (as in the collector): its previous operation is still parked
		w.st.skippedSteps++
		return
	}
	if (op.Kind == "add" || op.Kind == "remove" || op.Kind == "readd") && w.resetParked() {
		// a parked Reset holds the cache's read lock
		w.st.skippedSteps++
		return
	}
	switch op.Kind {
	case "add":
		if w.live[name] {
			w.st.skippedSteps++
			return
		}
	case "readd":
		// Add of a name that is registered: the target starts afresh (nothing is announced); only generated where
		// no STREAM subscription can be open (C05 profile)
		if !w.live[name] {
			w.st.skippedSteps++
			return
		}
		for _, s := range w.subs {
			if s.spec.Mode == "stream" {
				w.st.skippedSteps++
				return
			}
		}
	case "remove":
		if !w.live[name] {
			w.st.skippedSteps++
			return
		}
		for _, s := range w.subs {
			if s.started && !s.ended && s.target == name && s.regStep < 0 {
				// a subscription caught between its target check and its registration: not scheduled (see DESIGN)
				w.st.skippedSteps++
				return
			}
		}
	case "noti", "reset", "sync", "connect":
		if !w.live[name] {
			// unknown target: must be refused without effect; exercised in cacheprop
			w.st.skippedSteps++
			return
		}
	}
	stalled := w.anyStalled()
	parkedBeforeSync := false
	for _, s := range w.subs {
		if s.started && !s.ended && s.syncStep < 0 && w.g.isParked(fmt.Sprintf("sub:%d", s.i)) && s.spec.Mode == "stream" {
			parkedBeforeSync = true
		}
		if s.started && !s.ended {
			s.writesDuring = true
		}
	}
	wr := &writer{owner: fmt.Sprintf("w:%d", w.step), target: name, op: op, step: w.step}
	if op.Kind == "noti" && op.Via > 0 && w.sc.Targets > 1 {
		if via := targetName((op.T%w.sc.Targets + op.Via) % w.sc.Targets); via != name {
			if !w.live[via] || w.busy[via] {
				w.st.skippedSteps++
				return
			}
			// stored in via's tree; every response built from it names <name>: only the trace monitors judge from here on
			wr.via, w.foreign, w.st.foreignWrite = via, true, true
			st.ParkFeed, st.ParkCB = false, 0
			if w.acl != nil {
				for u := range w.sc.ACL.Allow {
					if !w.acl.allowed(u, name) && w.acl.allowed(u, via) {
						w.st.foreignDeniedStored = true
					}
				}
			}
		}
	}
	for _, s := range w.subs {
		if s.started && !s.ended {
			wr.alive = append(wr.alive, s)
		}
	}
	if op.Kind == "noti" {
		wr.n = w.buildNoti(op)
	}
	// A leaf of a subscription's start-time snapshot that this operation may delete
	// need not be sent before the sync: excuse it now (the delete may take effect in
	// the tree long before it is fed, if the writer parks in between).
	for _, s := range w.subs {
		if !s.started || s.syncStep >= 0 {
			continue
		}
		for k := range s.snapshot {
			ku := gn.Unkey(k)
			if ku[0] != name {
				continue
			}
			switch op.Kind {
			case "reset", "remove":
				s.excused[k] = true
			case "noti":
				for _, d := range wr.n.Delete {
					if gn.Matches(keyOfDelete(wr.n, d), ku) {
						s.excused[k] = true
					}
				}
			}
		}
	}
	if st.ParkFeed && op.Kind == "noti" {
		w.g.arm("cache.feed", nil, wr.owner)
	} else if st.ParkCB > 0 && (op.Kind == "noti" || op.Kind == "reset") {
		// inside the change-feed callback, after its ParkCB-th entry was forwarded
		w.armFeedGate("feed.after", st.ParkCB, wr.owner)
	}
	go w.doWriter(wr)
	synctest.Wait()
	w.disarmFeedGate()
	if w.fail != nil {
		panic(w.fail)
	}
	if !wr.done {
		if w.g.isParked(wr.owner) {
			w.parked = append(w.parked, wr)
			w.busy[name] = true
			if st.ParkCB > 0 && !st.ParkFeed {
				w.st.parkedInsideFeed = true
				wr.cb = true
			}
		} else {
			w.failf("C08", "step %d: the cache did not finish accepting %s for %s although nothing parked it at a gate (a subscriber stalled=%v): accepting an update must never wait on a subscriber", w.step, op.Kind, name, stalled)
			w.failf(w.prop, "step %d: writer operation %s on %s blocked", w.step, op.Kind, name)
		}
	} else {
		w.g.release(wr.owner) // disarm a gate that was not reached
		w.afterWriter(wr)
	}
	if stalled {
		w.st.stalledDuringWrite = true
	}
	if parkedBeforeSync && op.Kind == "noti" {
		w.st.writeWhileParkedBeforeSync = true
	}
	if op.Kind == "reset" {
		w.st.resetSeen = true
	}
}

// afterWriter updates the harness's own bookkeeping once a writer operation completed.
func (w *world) afterWriter(wr *writer) {
	switch wr.op.Kind {
	case "readd":
		w.st.readd = true
		w.mu.Lock()
		for k := range w.known {
			if gn.Unkey(k)[0] == wr.target {
				delete(w.known, k)
				w.lastTouch[k] = w.step
				w.gen[k]++
			}
		}
		w.mu.Unlock()
	case "add":
		w.live[wr.target] = true
	case "remove":
		delete(w.live, wr.target)
		for _, s := range wr.alive {
			// (with grants that change while streams are open, the grant that let the subscription start counts:
			// the removal of its target ends a single-target stream whatever the ACL says by then)
			allowed := w.allowedTarget(s, wr.target)
			if !allowed && w.acl != nil && (s.target == "*" || s.target == wr.target) && w.acl.allowedAt(s.spec.User, wr.target, s.startStep) {
				allowed = true
			}
			if s.regStep >= 0 && s.spec.Mode == "stream" && !(s.patErr && !s.spec.UpdatesOnly) && allowed {
				if s.target == wr.target {
					s.targetRemoved = true
					s.removedStep = w.step
					w.st.removeWithSub = true
				} else if s.target == "*" {
					w.st.removeStarSurvives = true
				}
			}
		}
	}
}

func (w *world) stepStart(st Step) {
	if len(w.subs) == 0 {
		return
	}
	s := w.subs[st.Sub%len(w.subs)]
	if s.started {
		w.st.skippedSteps++
		return
	}
	s.started = true
	s.startStep = w.step
	for _, wr := range w.parked {
		if wr.cb {
			w.st.startedWhileInsideFeed = true
		}
	}
	parent := context.Background()
	if s.spec.Deadline {
		// the caller's RPC deadline as gRPC hands it to the handler; far enough away (a day of
		// virtual time) never to expire within a scenario. The timer it arms is stopped with the stream.
		var stop context.CancelFunc
		parent, stop = context.WithTimeout(parent, 24*time.Hour)
		w.cleanups = append(w.cleanups, stop)
		w.st.rpcDeadline = true
	}
	s.stream = newMemStream(parent, s.spec.User, s.i, w.now, w.curStep)
	if !s.spec.Gated {
		s.stream.free()
	}
	s.snapshot = w.expected(s)
	s.startLive = s.target == "*" || w.live[s.target]
	switch {
	case s.spec.First == "" && s.spec.HalfClose && s.spec.Mode != "poll":
		s.stream.recvC <- s.req
		close(s.stream.recvC)
		s.eofSent = true
		w.st.streamHalfClosed = true
	case s.spec.First == "":
		s.stream.recvC <- s.req
	case s.first != nil:
		s.cancelled = true // the scenario itself ends this RPC: its first message is not a request
		s.stream.recvC <- s.first
	default:
		s.cancelled = true
		close(s.stream.recvC) // "eof": the client half-closes without having sent anything
		s.eofSent = true
	}
	owner := fmt.Sprintf("sub:%d", s.i)
	queueGate := st.Park == "coalesce.next.empty" || st.Park == "coalesce.insert.checked"
	switch {
	case queueGate:
		// keyed by the queue, which the harness cannot name: "the next arrival" — during this
		// step only the new subscription's sender can find its queue empty
		w.g.arm(st.Park, nil, owner)
	case st.Park != "":
		w.g.arm(st.Park, pb.GNMI_SubscribeServer(s.stream), owner)
	}
	// registration is observed through a permanent, non-parking probe
	go func() {
		defer func() {
			if r := recover(); r != nil {
				w.fail = &failure{"PANIC", fmt.Sprintf("panic in Subscribe: %v\n%s", r, trimStack(debug.Stack()))}
			}
			s.ended = true
			s.endedAt = w.now()
			s.stream.cancel() // as gRPC does when the handler returns
		}()
		s.retErr = w.srv.Subscribe(s.stream)
	}()
	synctest.Wait()
	if queueGate && !w.g.isParked(owner) {
		w.g.release(owner) // not reached in this step: disarm, so that no other sender takes it later
	}
	if w.fail != nil {
		panic(w.fail)
	}
	w.noteProgress()
}

// noteProgress records registration and sync instants of every subscription.
func (w *world) noteProgress() {
	for _, s := range w.subs {
		if !s.started {
			continue
		}
		if s.syncStep < 0 {
			out, _, _ := s.stream.snapshot()
			for _, o := range out {
				if o.r.GetSyncResponse() {
					s.syncStep = o.step
					break
				}
			}
		}
	}
}

func (w *world) stepRelease(st Step) {
	if len(w.subs) == 0 {
		return
	}
	s := w.subs[st.Sub%len(w.subs)]
	owner := fmt.Sprintf("sub:%d", s.i)
	if !s.started || !w.g.isParked(owner) {
		w.st.skippedSteps++
		return
	}
	if st.Park != "" {
		w.g.arm(st.Park, pb.GNMI_SubscribeServer(s.stream), owner+"+")
	}
	for _, wr := range w.parked {
		if wr.op.Kind == "noti" {
			w.st.writerParkedAtFeedDuringWalk = true
		}
	}
	w.g.release(owner)
	synctest.Wait()
	// re-own the follow-up gate
	w.g.mu.Lock()
	for _, gt := range w.g.parked {
		if gt.owner == owner+"+" {
			gt.owner = owner
		}
	}
	keep := w.g.armed[:0]
	for _, gt := range w.g.armed {
		if gt.owner != owner+"+" {
			keep = append(keep, gt)
		}
	}
	w.g.armed = keep
	w.g.mu.Unlock()
	if w.fail != nil {
		panic(w.fail)
	}
	w.noteProgress()
}

func (w *world) stepRelW(st Step) {
	if len(w.parked) == 0 {
		w.st.skippedSteps++
		return
	}
	i := st.N % len(w.parked)
	wr := w.parked[i]
	w.parked = append(w.parked[:i], w.parked[i+1:]...)
	w.markWrites()
	w.g.release(wr.owner)
	synctest.Wait()
	if w.fail != nil {
		panic(w.fail)
	}
	if !wr.done {
		w.failf(w.prop, "step %d: released writer (%s on %s) did not finish", w.step, wr.op.Kind, wr.target)
	}
	delete(w.busy, wr.target)
	w.afterWriter(wr)
	w.noteProgress()
}

// markWrites notes that the cache may change during the life of every running subscription.
func (w *world) markWrites() {
	for _, s := range w.subs {
		if s.started && !s.ended {
			s.writesDuring = true
		}
	}
}

func (w *world) releaseEverything() {
	if len(w.parked) > 0 {
		w.markWrites()
	}
	w.g.releaseAll()
	synctest.Wait()
	for _, wr := range w.parked {
		delete(w.busy, wr.target)
		if wr.done {
			w.afterWriter(wr)
		}
	}
	w.parked = nil
}

// drain lets every subscriber receive everything that is pending.
func (w *world) drain() {
	w.releaseEverything()
	for iter := 0; iter < 10000; iter++ {
		progressed := false
		for _, s := range w.subs {
			if s.started && !s.ended && s.spec.Gated {
				if _, parked, _ := s.stream.snapshot(); parked {
					// (nothing is written while draining: handing out credits in small batches is the same as one at a time)
					w.modelGrant(s, 32)
					s.stream.grant(32)
					progressed = true
				}
			}
		}
		if !progressed {
			break
		}
		synctest.Wait()
	}
	for _, s := range w.subs {
		if s.started && s.spec.Gated {
		drainTokens:
			for {
				select {
				case <-s.stream.tokens:
				default:
					break drainTokens
				}
			}
		}
	}
	if w.fail != nil {
		panic(w.fail)
	}
	w.noteProgress()
}

func trimStack(b []byte) string {
	lines := strings.Split(string(b), "\n")
	var keep []string
	for i := 0; i+1 < len(lines); i++ {
		if strings.Contains(lines[i], "github.com/openconfig/gnmi/") {
			keep = append(keep, strings.TrimSpace(lines[i]), "  "+strings.TrimSpace(lines[i+1]))
		}
		if len(keep) >= 12 {
			break
		}
	}
	return strings.Join(keep, "\n")
}

// ---- the case ------------------------------------------------------------------------------------

// run executes the scenario inside a fresh synctest bubble.
func run(t *testing.T, sc *Scenario, prop string) (st *stats, err error) {
	w := &world{t: t, sc: sc, prop: prop, chk: map[string]bool{prop: true, "PANIC": true}}
	st = &w.st
	targetNames = sc.TNames
	defer func() { targetNames = nil }()
	if len(sc.TNames) > 0 {
		w.st.oddTargetNames = true
	}
	defer vstat.Watchdog(20*time.Second, 5*time.Second)()
	synctest.Test(t, func(t *testing.T) {
		defer func() {
			if r := recover(); r != nil {
				if f, ok := r.(*failure); ok {
					err = f
				} else {
					err = &failure{"PANIC", fmt.Sprintf("panic: %v\n%s", r, trimStack(debug.Stack()))}
				}
			}
			// leave nothing behind in the bubble
			verifhook.Set(nil)
			if w.g != nil {
				w.g.releaseAll()
			}
			for _, s := range w.subs {
				if s.stream != nil {
					s.stream.free()
					s.stream.cancel()
				}
			}
			for _, f := range w.cleanups {
				f()
			}
			synctest.Wait()
		}()
		w.body()
	})
	return st, err
}

func (w *world) body() {
	sc := w.sc
	w.base = time.Now()
	w.g = &gates{}
	w.known, w.lastTouch, w.gen = map[string]bool{}, map[string]int{}, map[string]int{}
	w.latestVal = map[string]string{}
	w.submitted, w.busy, w.live = map[string]map[string]bool{}, map[string]bool{}, map[string]bool{}
	w.ts = 1_000_000
	var copts []cache.Option
	if !sc.EventDriven {
		copts = append(copts, cache.DisableEventDrivenEmulation())
	}
	var targets []string
	for i := 0; i < sc.Targets; i++ {
		targets = append(targets, targetName(i))
		w.live[targetName(i)] = true
	}
	w.c = cache.New(targets, copts...)
	sopts := []subscribe.Option{subscribe.WithStats()}
	if sc.TimeoutSec > 0 {
		sopts = append(sopts, subscribe.WithTimeout(time.Duration(sc.TimeoutSec)*time.Second))
	}
	if sc.ACL != nil {
		w.acl = &aclDouble{spec: sc.ACL, targets: sc.Targets, step: w.curStep}
		sopts = append(sopts, subscribe.WithACL(w.acl))
	}
	srv, err := subscribe.NewServer(w.c, sopts...)
	if err != nil {
		panic(&failure{"INFRA", err.Error()})
	}
	w.srv = srv
	w.c.SetClient(func(l *ctree.Leaf) {
		w.feedGate("feed.before")
		w.tap(l)
		srv.Update(l)
		w.feedGate("feed.after")
	})
	for i, sp := range sc.Subs {
		w.subs = append(w.subs, w.newSub(i, sp))
		w.st.richNames = w.st.richNames || hasRich(sp.PElems)
		for _, p := range sp.Paths {
			w.st.richNames = w.st.richNames || hasRich(p.Elems)
		}
	}
	verifhook.Set(func(name string, key interface{}) {
		if name == "sub.registered" {
			for _, s := range w.subs {
				if s.stream != nil && key == pb.GNMI_SubscribeServer(s.stream) && s.regStep < 0 {
					s.regStep = w.step
					w.markAmbiguous(s)
				}
			}
		}
		w.g.handler(name, key)
	})

	for i, st := range sc.Steps {
		w.step = i
		for _, s := range w.subs {
			s.idleAtStart, s.offers = s.inflight == nil, 0
		}
		switch st.Kind {
		case "w":
			w.stepWriter(st)
		case "start":
			w.stepStart(st)
		case "release":
			w.stepRelease(st)
		case "relw":
			w.stepRelW(st)
		case "grant":
			w.stepGrant(st)
		case "poll":
			w.stepPoll(st)
		case "pollflood":
			w.stepPollFlood(st)
		case "free":
			// the reader of a gated subscription stops pacing itself: every send passes from now on
			if len(w.subs) > 0 {
				if s := w.subs[st.Sub%len(w.subs)]; s.started && s.stream != nil {
					s.stream.free()
					synctest.Wait()
				}
			}
		case "eof":
			w.stepEOF(st)
		case "cancel":
			w.stepCancel(st)
		case "sleep":
			w.stepSleep(st)
		case "rmadd":
			w.stepRemoveReadd(st)
		case "wrace":
			w.stepWalkRace(st)
		case "aclflip":
			// a grant is given or revoked while streams are open; from here on only the trace monitor
			// (nothing denied at the time it was sent) judges ACL scenarios, convergence is not defined
			if w.acl != nil && len(w.sc.ACL.Allow) > 0 && w.sc.ACL.Dynamic {
				w.acl.mu.Lock()
				w.acl.flips = append(w.acl.flips, aclFlip{w.step, st.Sub % len(w.sc.ACL.Allow), st.N % w.sc.Targets})
				w.acl.mu.Unlock()
				w.st.aclFlipped = true
			}
		case "check":
			synctest.Wait()
			w.noteProgress()
			w.checkAll(false)
		case "drain":
			w.drain()
			w.checkAll(true)
		default:
			panic(&failure{"INFRA", "unknown step " + st.Kind})
		}
		w.monitorSends()
		w.checkEnded()
	}
	w.step = len(sc.Steps)
	for _, s := range w.subs {
		s.idleAtStart, s.offers = s.inflight == nil, 0
	}
	w.drain()
	w.checkAll(true)
	w.monitorSends()
	w.checkEnded()
	w.finish()
}

// markAmbiguous notes writers in flight across a registration (their keys are
// not judged for an updates_only subscription).
func (w *world) markAmbiguous(s *subState) {
	for _, wr := range w.parked {
		if wr.op.Kind != "noti" {
			continue
		}
		n := &pb.Notification{Prefix: gn.Path(wr.target, wr.op.Origin, wr.op.Prefix, false, 0), Atomic: wr.op.Atomic}
		for _, u := range wr.op.Updates {
			uu := &pb.Update{Path: gn.Path("", "", u.Path, false, 0)}
			s.ambiguous[gn.Key(keyOfUpdate(n, uu))] = true
		}
		if len(wr.op.Deletes) > 0 {
			s.ambiguous["*"] = true
		}
	}
}

func (w *world) stepGrant(st Step) {
	if len(w.subs) == 0 {
		return
	}
	s := w.subs[st.Sub%len(w.subs)]
	if !s.started || s.ended || !s.spec.Gated {
		w.st.skippedSteps++
		return
	}
	n := st.N
	if n < 1 {
		n = 1
	}
	for i := 0; i < n; i++ {
		if _, parked, _ := s.stream.snapshot(); !parked {
			break
		}
		w.modelGrant(s, 1)
		s.stream.grant(1)
		synctest.Wait()
	}
	if w.fail != nil {
		panic(w.fail)
	}
	w.noteProgress()
	w.checkQueueStat(s)
}

func (w *world) stepPoll(st Step) {
	if len(w.subs) == 0 {
		return
	}
	s := w.subs[st.Sub%len(w.subs)]
	if !s.started || s.ended || s.spec.Mode != "poll" || s.eofSent {
		w.st.skippedSteps++
		return
	}
	// a trigger counts only when issued after the previous sync was received
	out, parked, _ := s.stream.snapshot()
	syncs := 0
	for _, o := range out {
		if o.r.GetSyncResponse() {
			syncs++
		}
	}
	if parked || syncs != s.polls+1 || len(out) == 0 || !out[len(out)-1].r.GetSyncResponse() || w.g.isParked(fmt.Sprintf("sub:%d", s.i)) {
		w.st.skippedSteps++
		return
	}
	s.polls++
	s.lastPollStep = w.step
	s.writesDuring = false
	s.snapshot = w.expected(s)
	s.stream.recvC <- &pb.SubscribeRequest{Request: &pb.SubscribeRequest_Poll{Poll: &pb.Poll{}}}
	synctest.Wait()
	w.st.pollRound = true
	w.noteProgress()
}

// stepPollFlood: the client of a POLL subscription stops reading and keeps sending poll triggers (the handler
// goes on reading requests and walking the cache whatever the send side does), now and then letting a send
// pass; then it reads again. The cache does not change meanwhile. C08: the backlog of the blocked subscriber
// holds at most one entry per distinct pending leaf (plus the one marker that becomes the sync response), so
// what it is sent after its last trigger is bounded by the matching leaves, not by the number of triggers.
func (w *world) stepPollFlood(st Step) {
	if len(w.subs) == 0 {
		return
	}
	s := w.subs[st.Sub%len(w.subs)]
	if !s.started || s.ended || s.spec.Mode != "poll" || !s.spec.Gated || s.eofSent || s.patErr || w.foreign || len(w.parked) > 0 {
		w.st.skippedSteps++
		return
	}
	out, parked, _ := s.stream.snapshot()
	if parked || len(out) == 0 || !out[len(out)-1].r.GetSyncResponse() || w.g.isParked(fmt.Sprintf("sub:%d", s.i)) {
		w.st.skippedSteps++ // the previous round is not complete: its leftovers would count against this one
		return
	}
drainTokens:
	for {
		select {
		case <-s.stream.tokens:
		default:
			break drainTokens
		}
	}
	polls, mark := 0, len(out)
	for _, tok := range st.Flood {
		if s.ended {
			break
		}
		if tok == 0 {
			s.stream.recvC <- &pb.SubscribeRequest{Request: &pb.SubscribeRequest_Poll{Poll: &pb.Poll{}}}
			synctest.Wait()
			polls++
			o, _, _ := s.stream.snapshot()
			mark = len(o)
			continue
		}
		for i := 0; i < tok; i++ {
			if _, p, _ := s.stream.snapshot(); !p {
				break
			}
			s.stream.grant(1)
			synctest.Wait()
		}
	}
	if w.fail != nil {
		panic(w.fail)
	}
	if polls == 0 {
		return
	}
	s.flooded = true
	if polls >= 2 {
		w.st.pollFlood = true
	}
	if polls >= 5 {
		w.st.pollFloodBig = true
	}
	if st.N == 1 {
		// the client stays away: the next sleep step judges the send timeout of this POLL subscription
		w.st.pollFloodLeftStalled = true
		w.noteProgress()
		return
	}
	leaves := len(w.expected(s))
	bound := leaves + 2 // the response in flight + one entry per distinct matching leaf + the sync marker
	for i := 0; i < bound+polls+8; i++ {
		if _, p, _ := s.stream.snapshot(); !p {
			break
		}
		s.stream.grant(1)
		synctest.Wait()
	}
	o, stillParked, _ := s.stream.snapshot()
	if got := len(o) - mark; got > bound || stillParked {
		w.failf("C08", "step %d: POLL subscription %d stopped reading, sent %d poll triggers and then read again: after its last trigger it was sent %d responses (more pending: %v) although only %d distinct leaves match its paths and the cache did not change: the backlog of a blocked subscriber holds at most one entry per distinct pending leaf (+1 in flight, +1 sync marker = %d), it must not grow with the number of triggers", w.step, s.i, polls, got, stillParked, leaves, bound)
	}
	syncs := 0
	for _, x := range o {
		if x.r.GetSyncResponse() {
			syncs++
		}
	}
	if syncs > 0 {
		s.polls = syncs - 1 // (bookkeeping of the C05 clauses, which do not judge flooded subscriptions)
	}
	w.noteProgress()
}

func (w *world) stepEOF(st Step) {
	if len(w.subs) == 0 {
		return
	}
	s := w.subs[st.Sub%len(w.subs)]
	if s.started && !s.ended && !s.eofSent && s.spec.Mode == "stream" && s.spec.First == "" {
		// A STREAM client that half-closes its sending side once its request is out (legal gRPC: Send, CloseSend,
		// Recv...): the receiving direction stays live, the subscription goes on as if nothing had happened.
		s.eofSent = true
		close(s.stream.recvC)
		synctest.Wait()
		w.st.streamHalfClosed = true
		return
	}
	if !s.started || s.ended || s.eofSent || s.spec.Mode != "poll" {
		w.st.skippedSteps++
		return
	}
	// the client closes its side only after it has received the sync of its last request
	out, parked, _ := s.stream.snapshot()
	if parked || len(out) == 0 || !out[len(out)-1].r.GetSyncResponse() || w.g.isParked(fmt.Sprintf("sub:%d", s.i)) {
		w.st.skippedSteps++
		return
	}
	s.eofSent = true
	close(s.stream.recvC)
	synctest.Wait()
}

func (w *world) stepCancel(st Step) {
	if len(w.subs) == 0 {
		return
	}
	s := w.subs[st.Sub%len(w.subs)]
	if !s.started || s.ended {
		w.st.skippedSteps++
		return
	}
	s.cancelled = true
	s.stream.cancel()
	synctest.Wait()
}

func (w *world) timeout() time.Duration {
	if w.sc.TimeoutSec > 0 {
		return time.Duration(w.sc.TimeoutSec) * time.Second
	}
	return time.Minute
}

func (w *world) stepSleep(st Step) {
	// remember who is parked in Send and since when
	type pk struct {
		s     *subState
		start int64
	}
	var parkedSubs []pk
	for _, s := range w.subs {
		if s.started && !s.ended {
			if _, parked, start := s.stream.snapshot(); parked {
				parkedSubs = append(parkedSubs, pk{s, start})
			}
		}
	}
	time.Sleep(time.Duration(st.N) * time.Second)
	synctest.Wait()
	if w.acl != nil {
		w.st.sleptWithACL = true
	}
	now := w.now()
	for _, p := range parkedSubs {
		s := p.s
		deadline := p.start + w.timeout().Nanoseconds()
		isSync := false
		// the response parked in Send is the sync marker when the model says so; the timeout clause is about any send
		switch {
		case now >= deadline:
			if !s.ended {
				w.failf("C08", "step %d: subscription %d has had a Send blocked since %dns; the timeout of %v expired at %dns (now %dns) but the RPC has not ended", w.step, s.i, p.start, w.timeout(), deadline, now)
			} else {
				if s.retErr == nil {
					w.failf("C08", "step %d: subscription %d ended after a blocked Send timed out but returned a nil error", w.step, s.i)
				}
				if s.endedAt != deadline {
					w.failf("C08", "step %d: subscription %d ended at %dns, the blocked Send began at %dns and the timeout is %v (expected end at exactly %dns)", w.step, s.i, s.endedAt, p.start, w.timeout(), deadline)
				}
				s.timedOut = true
				w.st.timeoutFired = true
			}
		default:
			if s.ended && !s.cancelled {
				w.failf("C08", "step %d: subscription %d ended (%v) at %dns although its Send had been blocked only since %dns (timeout %v)", w.step, s.i, s.retErr, s.endedAt, p.start, w.timeout())
			}
			w.st.shortStallSurvived = true
		}
		_ = isSync
	}
	w.noteProgress()
}

// feedGate parks the calling writer at the cbArm-th passage of point, if armed.
func (w *world) feedGate(point string) {
	w.cbMu.Lock()
	hit := false
	if w.cbPoint == point && w.cbArm > 0 {
		w.cbArm--
		hit = w.cbArm == 0
	}
	w.cbMu.Unlock()
	if hit {
		w.g.handler(point, nil)
	}
}

func (w *world) armFeedGate(point string, nth int, owner string) {
	w.cbMu.Lock()
	w.cbPoint, w.cbArm = point, nth
	w.cbMu.Unlock()
	w.g.arm(point, nil, owner)
}

func (w *world) disarmFeedGate() {
	w.cbMu.Lock()
	w.cbPoint, w.cbArm = "", 0
	w.cbMu.Unlock()
}

// resetParked reports whether a Reset is parked inside the feed callback: it holds the
// cache's read lock, so nothing that needs the write lock (Add, Remove) may be started.
func (w *world) resetParked() bool {
	for _, wr := range w.parked {
		if wr.op.Kind == "reset" {
			return true
		}
	}
	return false
}

// stepRemoveReadd removes a target while, on another goroutine, the same name is added
// again and updated. The remover is parked inside the feed callback of its whole-target
// delete, before the announcement is forwarded; the re-adder is started while it is parked
// (it proceeds only if Remove does not hold the cache lock across the announcement), the
// harness yields the processor a number of times and releases the remover. How far the
// re-adder gets during the yields only decides which interleaving is exercised; the
// oracles (convergence of every running subscriber with the cache's final content, clean
// end of single-target subscribers) are evaluated at the next quiescent points.
func (w *world) stepRemoveReadd(st Step) {
	op := st.W
	if op == nil || op.Kind != "noti" {
		w.st.skippedSteps++
		return
	}
	name := targetName(op.T % w.sc.Targets)
	if !w.live[name] || w.busy[name] || len(w.parked) > 0 {
		w.st.skippedSteps++
		return
	}
	// (the Remove of this step is parked inside the feed callback holding the cache's write lock while the
	// harness builds the racing notification: no query of the cache from the harness meanwhile)
	w.noCacheReads = true
	defer func() { w.noCacheReads = false }()
	for _, s := range w.subs {
		if s.started && !s.ended && s.regStep < 0 {
			// a subscription caught before its registration: not scheduled (see the remove step)
			w.st.skippedSteps++
			return
		}
		if s.started && !s.ended {
			s.writesDuring = true
		}
	}
	rm := &writer{owner: fmt.Sprintf("w:%d", w.step), target: name, op: &WOp{Kind: "remove", T: op.T}, step: w.step}
	for _, s := range w.subs {
		if s.started && !s.ended {
			rm.alive = append(rm.alive, s)
		}
		if s.started && s.syncStep < 0 {
			for k := range s.snapshot {
				if gn.Unkey(k)[0] == name {
					s.excused[k] = true
				}
			}
		}
	}
	w.armFeedGate("feed.before", 1, rm.owner)
	go w.doWriter(rm)
	synctest.Wait()
	if w.fail != nil {
		panic(w.fail)
	}
	if rm.done || !w.g.isParked(rm.owner) {
		panic(&failure{"INFRA", "Remove did not reach the feed callback"})
	}
	add := &writer{owner: rm.owner + "a", target: name, op: &WOp{Kind: "add", T: op.T}, step: w.step}
	upd := &writer{owner: rm.owner + "u", target: name, op: op, step: w.step}
	w.live[name] = true // for buildNoti's bookkeeping only; set again below
	upd.n = w.buildNoti(op)
	done := make(chan struct{})
	go func() {
		defer close(done)
		w.doWriter(add)
		w.doWriter(upd)
	}()
	for i := 0; i < 500; i++ {
		runtime.Gosched()
	}
	w.disarmFeedGate()
	w.g.release(rm.owner)
	synctest.Wait()
	if w.fail != nil {
		panic(w.fail)
	}
	select {
	case <-done:
	default:
		w.failf(w.prop, "step %d: Remove(%s) racing with Add(%s)+update: the operations did not all return", w.step, name, name)
	}
	if !rm.done {
		w.failf(w.prop, "step %d: Remove(%s) did not return", w.step, name)
	}
	w.afterWriter(rm)
	w.afterWriter(add)
	w.st.removeReaddRace = true
}

// stepWalkRace starts a subscription whose initial walk is parked inside its first queue insertion —
// i.e. inside the cache query's visitor, with every lock the walk holds still held — and starts a
// writer operation (Remove, Reset, or a delete notification) on another goroutine while it is parked.
// In the unchanged server the writer then waits for the walk's locks; the harness yields the processor
// a number of times, releases the walk and waits for quiescence. How far the writer got during the
// yields only selects the interleaving; convergence and sync discipline are judged at the next
// quiescent points (the leaves the writer may delete are excused from "sent before the sync").
func (w *world) stepWalkRace(st Step) {
	op := st.W
	if op == nil || len(w.subs) == 0 {
		w.st.skippedSteps++
		return
	}
	s := w.subs[st.Sub%len(w.subs)]
	name := targetName(op.T % w.sc.Targets)
	if s.started || !w.live[name] || w.busy[name] || len(w.parked) > 0 {
		w.st.skippedSteps++
		return
	}
	switch op.Kind {
	case "remove", "reset", "cancel":
	case "noti":
		if len(op.Deletes) == 0 {
			w.st.skippedSteps++
			return
		}
	default:
		w.st.skippedSteps++
		return
	}
	for _, o := range w.subs {
		if o.started && !o.ended && o.regStep < 0 {
			w.st.skippedSteps++
			return
		}
	}
	owner := fmt.Sprintf("sub:%d", s.i)
	w.stepStart(Step{Kind: "start", Sub: st.Sub, Park: "coalesce.insert.checked"})
	if !w.g.isParked(owner) {
		// the walk found nothing to insert (or the subscription was refused): nothing to race with
		w.g.release(owner)
		return
	}
	if s.spec.Mode == "stream" && s.regStep < 0 {
		// parked in the insertion of the sync marker of an updates_only subscription, which comes before
		// the registration: a Remove in that window is the case the generator does not schedule (10.2 (v))
		w.g.release(owner)
		synctest.Wait()
		w.noteProgress()
		return
	}
	w.st.walkParkedInInsert = true
	if op.Kind == "cancel" {
		// The RPC ends (its caller goes away) while its own walk is inside a queue insertion, past the closed
		// check: the handler returns and closes the queue; the walk then finishes its insertion into the closed
		// queue. Nobody may crash, the handler must have returned.
		s.cancelled = true
		s.stream.cancel()
		synctest.Wait()
		ended := s.ended
		w.g.release(owner)
		synctest.Wait()
		if w.fail != nil {
			panic(w.fail)
		}
		if ended {
			w.st.rpcEndedDuringItsWalk = true
		}
		w.noteProgress()
		return
	}
	wr := &writer{owner: fmt.Sprintf("w:%d", w.step), target: name, op: op, step: w.step}
	for _, o := range w.subs {
		if o.started && !o.ended {
			wr.alive = append(wr.alive, o)
			o.writesDuring = true
		}
	}
	if op.Kind == "noti" {
		wr.n = w.buildNoti(op)
	}
	for _, o := range w.subs {
		if !o.started || o.syncStep >= 0 {
			continue
		}
		for k := range o.snapshot {
			ku := gn.Unkey(k)
			if ku[0] != name {
				continue
			}
			switch op.Kind {
			case "reset", "remove":
				o.excused[k] = true
			case "noti":
				for _, d := range wr.n.Delete {
					if gn.Matches(keyOfDelete(wr.n, d), ku) {
						o.excused[k] = true
					}
				}
			}
		}
	}
	go w.doWriter(wr)
	for i := 0; i < 500; i++ {
		runtime.Gosched()
	}
	w.g.release(owner)
	synctest.Wait()
	if w.fail != nil {
		panic(w.fail)
	}
	if !wr.done {
		w.failf(w.prop, "step %d: %s on %s, started while a subscription's walk was parked inside a queue insertion, did not return after the walk was released", w.step, op.Kind, name)
	}
	w.afterWriter(wr)
	w.noteProgress()
}

func hasRich(es []gn.Elem) bool {
	for _, e := range es {
		switch e.Name {
		case "ab", "a/b", "a1", "aé":
			return true
		}
	}
	return false
}

// monitorSends is the C07 trace monitor plus the "no invention" clause.
func (w *world) monitorSends() {
	for _, s := range w.subs {
		if !s.started {
			continue
		}
		out, _, _ := s.stream.snapshot()
		for _, o := range out {
			n := o.r.GetUpdate()
			if n == nil {
				continue
			}
			tgt := n.GetPrefix().GetTarget()
			if w.acl != nil {
				// the grant is judged as of the step in which the server handed the response to Send (a Send
				// that blocks passes later); a flip takes effect for everything handed over in later steps
				if !w.acl.allowedAt(s.spec.User, tgt, o.call) && !w.acl.allowedAt(s.spec.User, tgt, o.call-1) {
					w.failf("C07", "step %d: subscription %d (user %d) was handed, during step %d, a response for target %q which its ACL denied at that time: %v", w.step, s.i, s.spec.User, o.call, tgt, n)
				}
			}
			if s.target != "*" && tgt != s.target {
				w.failf("C04", "step %d: subscription %d for target %s was sent a response for target %q", w.step, s.i, s.target, tgt)
			}
			// no invention: an update response equals a write some writer submitted
			for _, u := range n.Update {
				k := keyOfUpdate(n, u)
				if isMeta(k) {
					continue
				}
				var v string
				if n.Atomic {
					v = valRepr(n)
				} else {
					v = valRepr(&pb.Notification{Update: []*pb.Update{u}})
				}
				w.mu.Lock()
				ok := w.submitted[gn.Key(k)][fmt.Sprintf("%d|%s", n.Timestamp, v)]
				w.mu.Unlock()
				if !ok {
					w.failf(w.prop, "step %d: subscription %d was sent %q=%v at timestamp %d, which no writer ever submitted", w.step, s.i, k, u.GetVal(), n.Timestamp)
				}
				if n.Atomic {
					break
				}
			}
		}
		if w.acl != nil && s.ended {
			u := s.spec.User
			switch {
			case u < len(w.sc.ACL.FailUser) && w.sc.ACL.FailUser[u]:
				w.st.failUser = true
				if status.Code(s.retErr) != codes.Unauthenticated {
					w.failf("C07", "subscription %d: per-call authorisation could not be established but the RPC returned %v, want Unauthenticated", s.i, s.retErr)
				}
				if len(out) > 0 || s.stream.sendCalls > 0 {
					w.failf("C07", "subscription %d: unauthenticated RPC was sent %d responses", s.i, len(out))
				}
			case s.spec.First != "":
				// (not a request: refused before any target is looked at; with an unusable ACL backend the arm above applies)
				if len(out) > 0 || s.stream.sendCalls > 0 {
					w.failf("C07", "subscription %d: its first message was not a subscription request, yet it was sent %d responses", s.i, len(out))
				}
			case s.target != "*" && !w.acl.allowedAt(u, s.target, s.startStep):
				w.st.deniedSingle = true
				if s.retErr == nil {
					w.failf("C07", "subscription %d: single target %s is denied for user %d but the RPC returned nil", s.i, s.target, u)
				}
				if s.startLive && status.Code(s.retErr) != codes.PermissionDenied {
					w.failf("C07", "subscription %d: single target %s is denied for user %d but the RPC returned %v, want PermissionDenied", s.i, s.target, u, s.retErr)
				}
				if len(out) > 0 || s.stream.sendCalls > 0 {
					w.failf("C07", "subscription %d: denied RPC was sent %d responses", s.i, len(out))
				}
			}
		}
	}
}

// checkEnded: a STREAM RPC ends only when the scenario ends it.
func (w *world) checkEnded() {
	for _, s := range w.subs {
		if !s.started || !s.ended {
			continue
		}
		if s.spec.Mode != "stream" {
			// ONCE/POLL end on their own; only a server-side timeout nobody earned is judged here
			if !s.timedOut && !s.cancelled && strings.Contains(fmt.Sprint(s.retErr), "timed out") {
				if _, parked, _ := s.stream.snapshot(); !parked {
					w.failf(w.prop, "step %d: %s subscription %d was terminated by the server (%v) although none of its sends stayed blocked for the timeout of %v", w.step, s.spec.Mode, s.i, s.retErr, w.timeout())
				}
			}
			continue
		}
		if s.cancelled || s.timedOut || s.targetRemoved || s.patErr && !s.spec.UpdatesOnly {
			continue
		}
		if s.retErr != nil {
			c := status.Code(s.retErr)
			if c == codes.NotFound || c == codes.PermissionDenied || c == codes.Unauthenticated || c == codes.InvalidArgument {
				continue
			}
		}
		if _, parked, _ := s.stream.snapshot(); parked {
			continue // judged by the timeout clause
		}
		if strings.Contains(fmt.Sprint(s.retErr), "timed out") {
			// Virtual time only advances in sleep steps, and those attribute every legitimate
			// timeout (a Send parked for the whole timeout) by setting timedOut. Anything else
			// is a subscription killed although none of its sends was blocked that long.
			w.failf("C08", "step %d: subscription %d ended with %v although none of its sends stayed blocked for the timeout of %v", w.step, s.i, s.retErr, w.timeout())
			w.failf(w.prop, "step %d: %s subscription %d was terminated by the server (%v) although none of its sends stayed blocked for the timeout of %v", w.step, s.spec.Mode, s.i, s.retErr, w.timeout())
			continue
		}
		w.failf(w.prop, "step %d: STREAM subscription %d ended (%v) although nothing in the scenario ended it", w.step, s.i, s.retErr)
	}
}

// replayView rebuilds the subscriber's view from its responses.
func replayView(out []sent) (view map[string]string, syncs int, syncAt int) {
	var tr gn.Trie
	syncAt = -1
	for i, o := range out {
		if o.r.GetSyncResponse() {
			syncs++
			if syncAt < 0 {
				syncAt = i
			}
			continue
		}
		n := o.r.GetUpdate()
		if n == nil {
			continue
		}
		for _, d := range n.Delete {
			tr.DeleteMatching(keyOfDelete(n, d))
		}
		if n.Atomic && len(n.Update) > 0 {
			k := gn.RefIndex(n.Prefix, true)
			tr.DeleteBelow(gn.Unkey(gn.Key(k)))
			tr.Set(k, valRepr(n))
			continue
		}
		for _, u := range n.Update {
			tr.Set(keyOfUpdate(n, u), valRepr(&pb.Notification{Update: []*pb.Update{u}}))
		}
	}
	return tr.Map(), syncs, syncAt
}

func diffMaps(want, got map[string]string) string {
	var d []string
	for k, v := range want {
		g, ok := got[k]
		switch {
		case !ok:
			d = append(d, fmt.Sprintf("missing %q", gn.Unkey(k)))
		case g != v:
			d = append(d, fmt.Sprintf("stale value at %q", gn.Unkey(k)))
		}
	}
	for k := range got {
		if _, ok := want[k]; !ok {
			d = append(d, fmt.Sprintf("extra %q (deleted or never matching)", gn.Unkey(k)))
		}
	}
	sort.Strings(d)
	return strings.Join(d, "; ")
}

// checkAll evaluates the per-subscription oracles at a quiescent point.
// drained: every gate was released and every subscriber given credit.
// checkStored: a notification object the cache stores is never written to - the cache replaces a leaf's value by
// another object, and whoever serves subscribers works on copies (duplicate counts are per subscriber). A stored
// object whose content differs from what it was at an earlier quiescent point means that the cache no longer holds
// the update it accepted: no subscriber's replay can equal it, and an identical re-send is no longer "identical".
func (w *world) checkStored() {
	if w.stored == nil {
		w.stored = map[*pb.Notification]*pb.Notification{}
	}
	now := map[*pb.Notification]*pb.Notification{}
	n := 0
	for i := 0; i < w.sc.Targets; i++ {
		name := targetName(i)
		if !w.live[name] {
			continue
		}
		w.c.Query(name, []string{"*"}, func(_ []string, _ *ctree.Leaf, v interface{}) error {
			if nt, ok := v.(*pb.Notification); ok && n < 3000 {
				n++
				if was, seen := w.stored[nt]; seen {
					if !proto.Equal(was, nt) {
						w.failf(w.prop, "step %d: a notification stored in the cache was modified in place while subscribers were served (the cache replaces a leaf's value, it never edits the stored update): it was %v at an earlier quiescent point and reads %v now", w.step, was, nt)
					}
					now[nt] = was
				} else {
					now[nt] = proto.Clone(nt).(*pb.Notification)
				}
			}
			return nil
		})
	}
	w.stored = now
}

func (w *world) checkAll(drained bool) {
	w.checkStored()
	if w.acl != nil && w.acl.flipped() {
		return // grants changed while streams were open: only the trace monitor applies (see aclflip)
	}
	if w.foreign {
		return // a notification lives in another target's tree than the one it names: convergence is not defined
	}
	for _, s := range w.subs {
		if !s.started {
			continue
		}
		owner := fmt.Sprintf("sub:%d", s.i)
		if w.g.isParked(owner) {
			continue
		}
		out, parkedInSend, _ := s.stream.snapshot()
		if parkedInSend {
			continue // stalled: judged when it resumes
		}
		switch s.spec.Mode {
		case "stream":
			w.checkStream(s, out, drained)
		default:
			w.checkOncePoll(s, out, drained)
		}
	}
}

func (w *world) checkStream(s *subState, out []sent, drained bool) {
	if s.ended {
		if s.targetRemoved && !s.cancelled && !s.timedOut {
			// C14: the single target was removed: the stream delivers the target delete and ends cleanly
			if s.retErr != nil {
				w.failf("C14", "subscription %d: its target %s was removed; the stream must end cleanly but returned %v", s.i, s.target, s.retErr)
			}
			last := -1
			for i, o := range out {
				if o.r.GetUpdate() != nil {
					last = i
				}
			}
			ok := false
			if last >= 0 {
				n := out[last].r.GetUpdate()
				if len(n.Delete) == 1 && fmt.Sprint(keyOfDelete(n, n.Delete[0])) == fmt.Sprint([]string{s.target, "*"}) {
					ok = true
				}
			}
			if !ok {
				w.failf("C14", "subscription %d: its target %s was removed but the last response is not the whole-target delete", s.i, s.target)
			}
		}
		return
	}
	if s.targetRemoved && len(w.parked) == 0 {
		w.failf("C14", "step %d: subscription %d is for target %s which was removed at step %d, but the stream is still open", w.step, s.i, s.target, s.removedStep)
	}
	if s.regStep < 0 {
		return // never got as far as registering (rejected)
	}
	if len(w.parked) > 0 {
		return // a writer is between tree write and feed: not a quiescent cache
	}
	view, syncs, syncAt := replayView(out)
	if s.patErr && !s.spec.UpdatesOnly {
		return
	}
	// (b) sync discipline
	if syncs != 1 {
		w.failf("C04", "step %d: STREAM subscription %d has been sent %d sync responses at a quiescent point, want exactly 1", w.step, s.i, syncs)
		return
	}
	w.st.syncChecked = true
	if s.spec.UpdatesOnly {
		if syncAt != 0 {
			w.failf("C04", "step %d: updates_only subscription %d: the sync response is response #%d, want first", w.step, s.i, syncAt)
		}
	} else {
		before := map[string]bool{}
		for _, o := range out[:syncAt] {
			if n := o.r.GetUpdate(); n != nil {
				for _, u := range n.Update {
					before[gn.Key(keyOfUpdate(n, u))] = true
				}
			}
		}
		for k := range s.snapshot {
			if !before[k] && !s.excused[k] {
				w.failf("C04", "step %d: subscription %d: leaf %q was present and matching when the subscription started (step %d) and was not deleted since, but was not sent before the sync response", w.step, s.i, gn.Unkey(k), s.startStep)
			}
		}
	}
	// (a) convergence
	restricted := map[string]string{}
	for k, v := range view {
		ku := gn.Unkey(k)
		if s.matches(ku) && w.allowedTarget(s, ku[0]) {
			restricted[k] = v
		}
	}
	want := w.expected(s)
	if s.spec.UpdatesOnly {
		// only leaves changed after the registration are owed
		for k := range want {
			if !(w.lastTouch[k] > s.regStep) || s.ambiguous[k] || s.ambiguous["*"] {
				delete(want, k)
				delete(restricted, k)
			}
		}
		for k := range restricted {
			if _, ok := want[k]; !ok {
				if !(w.lastTouch[k] > s.regStep) || s.ambiguous[k] || s.ambiguous["*"] {
					delete(restricted, k)
				}
			}
		}
	}
	if d := diffMaps(want, restricted); d != "" {
		w.failf("C04", "step %d: subscription %d (target %s, patterns %q, updates_only=%v): replaying its %d responses does not give the cache's matching content: %s", w.step, s.i, s.target, s.patterns, s.spec.UpdatesOnly, len(out), d)
		w.failf("C07", "step %d: subscription %d: the view of authorised targets does not converge: %s", w.step, s.i, d)
		w.failf("C14", "step %d: subscription %d: view does not converge: %s", w.step, s.i, d)
		w.failf("C08", "step %d: subscription %d: view does not converge: %s", w.step, s.i, d)
	}
	w.st.convergenceChecked = true
	if len(want) > 0 {
		w.st.nonEmptyResult = true
	}
	if w.acl != nil && s.target == "*" {
		denied, allowed := false, false
		for _, f := range w.fed {
			if f.step <= s.syncStep || len(f.n.Update) == 0 {
				continue
			}
			tg := f.n.GetPrefix().GetTarget()
			if w.acl.allowed(s.spec.User, tg) {
				allowed = true
			} else {
				denied = true
			}
		}
		if denied && allowed {
			w.st.starDeniedAndAllowedAfterSync = true
		}
		if denied {
			w.st.deniedFiltered = true
		}
	}
	if drained {
		w.checkBacklog(s, out)
	}
}

func (w *world) checkOncePoll(s *subState, out []sent, drained bool) {
	if s.flooded {
		return
	}
	// rounds are separated by sync responses
	var rounds [][]sent
	cur := []sent{}
	for _, o := range out {
		if o.r.GetSyncResponse() {
			rounds = append(rounds, cur)
			cur = []sent{}
			continue
		}
		cur = append(cur, o)
	}
	trailing := cur
	rejected := s.ended && s.retErr != nil
	if s.patErr && !s.spec.UpdatesOnly { // (with updates_only there is no walk, hence nothing that completes the paths)
		if !s.ended && drained {
			w.failf("C05", "subscription %d has an invalid prefix/path origin combination but the RPC did not end", s.i)
		}
		if s.ended && s.retErr == nil && s.regOK() {
			w.failf("C05", "subscription %d has an invalid prefix/path origin combination but the RPC ended without an error", s.i)
		}
		if len(rounds) > 0 && rejected {
			// a sync after an error would claim completeness
		}
		return
	}
	if rejected {
		// an RPC may end with an error only for a reason the scenario gave it: an unknown target, an ACL
		// refusal, an invalid request, a cancellation, a send that stayed blocked for the timeout
		c := status.Code(s.retErr)
		attributable := s.cancelled || s.timedOut || c == codes.NotFound || c == codes.PermissionDenied || c == codes.Unauthenticated ||
			c == codes.InvalidArgument || strings.Contains(fmt.Sprint(s.retErr), "timed out")
		if !attributable {
			w.failf("C05", "step %d: %s subscription %d (target %s) ended with %v although its request is valid, nobody cancelled it and none of its sends timed out: every request is answered with the matching leaves, a sync response and, for ONCE, success", w.step, s.spec.Mode, s.i, s.target, s.retErr)
		}
		return
	}
	wantRounds := 1 + s.polls
	if s.cancelled {
		return
	}
	if len(rounds) > wantRounds {
		w.failf("C05", "step %d: %s subscription %d was sent %d sync responses for %d requests", w.step, s.spec.Mode, s.i, len(rounds), wantRounds)
	}
	if drained && len(rounds) != wantRounds {
		w.failf("C05", "step %d: %s subscription %d was sent %d sync responses for %d requests (initial + %d poll triggers issued after the previous sync)", w.step, s.spec.Mode, s.i, len(rounds), wantRounds, s.polls)
	}
	if len(rounds) == wantRounds && len(trailing) > 0 {
		w.failf("C05", "step %d: %s subscription %d was sent %d responses after its last sync response", w.step, s.spec.Mode, s.i, len(trailing))
	}
	// the last completed round against the snapshot taken when it was requested
	if len(rounds) == wantRounds && len(rounds) > 0 {
		r := rounds[len(rounds)-1]
		got := map[string]string{}
		for _, o := range r {
			n := o.r.GetUpdate()
			if n == nil {
				continue
			}
			if len(n.Delete) > 0 {
				w.failf("C05", "step %d: %s subscription %d was sent a delete in a snapshot round", w.step, s.spec.Mode, s.i)
			}
			for _, u := range n.Update {
				k := keyOfUpdate(n, u)
				v := valRepr(&pb.Notification{Update: []*pb.Update{u}})
				if n.Atomic {
					v = valRepr(n)
				}
				got[gn.Key(k)] = v
				if n.Atomic {
					break
				}
			}
		}
		for k := range got {
			ku := gn.Unkey(k)
			if !s.matches(ku) {
				w.failf("C05", "step %d: %s subscription %d (patterns %q) was sent %q which matches none of its paths", w.step, s.spec.Mode, s.i, s.patterns, ku)
			}
		}
		if s.spec.UpdatesOnly {
			// updates_only on ONCE/POLL: every request is answered with the sync response alone (gNMI
			// specification 3.5.1.2; the statement's "every matching leaf" is about requests without it)
			if len(got) > 0 {
				w.failf("C05", "step %d: %s subscription %d with updates_only: round %d carried %d leaves, want the sync response alone (in every round alike)", w.step, s.spec.Mode, s.i, len(rounds), len(got))
			}
			w.st.updatesOnlyRound = true
		} else if !s.writesDuring {
			if d := diffMaps(s.snapshot, got); d != "" {
				w.failf("C05", "step %d: %s subscription %d (target %s, patterns %q) round %d against an unchanging cache: %s", w.step, s.spec.Mode, s.i, s.target, s.patterns, len(rounds), d)
				w.failf("C07", "step %d: %s subscription %d: snapshot of authorised targets wrong: %s", w.step, s.spec.Mode, s.i, d)
			}
			w.st.staticRound = true
			if len(s.snapshot) > 0 {
				w.st.nonEmptyResult = true
			}
		} else {
			// leaves no writer touched since the round was requested matched for the whole call
			for k, v := range s.snapshot {
				if w.lastTouch[k] >= s.roundStep() {
					continue
				}
				if g, ok := got[k]; !ok || g != v {
					w.failf("C05", "step %d: %s subscription %d: leaf %q matched, and was untouched, for the whole round but was not returned with its value", w.step, s.spec.Mode, s.i, gn.Unkey(k))
				}
			}
			w.st.dynamicRound = true
			if len(got) > 0 {
				w.st.nonEmptyResult = true
			}
		}
	}
	if s.spec.Mode == "once" && drained {
		if !s.ended {
			w.failf("C05", "step %d: ONCE subscription %d did not end after its sync response", w.step, s.i)
		} else if s.retErr != nil {
			w.failf("C05", "step %d: ONCE subscription %d ended with %v, want success", w.step, s.i, s.retErr)
		}
		w.st.onceDone = true
	}
	if s.spec.Mode == "poll" && drained {
		if s.eofSent {
			if !s.ended {
				w.failf("C05", "step %d: POLL subscription %d did not end after the client closed its side", w.step, s.i)
			} else if s.retErr != nil {
				w.failf("C05", "step %d: POLL subscription %d ended with %v after the client closed its side, want success", w.step, s.i, s.retErr)
			}
		} else if s.ended {
			w.failf("C05", "step %d: POLL subscription %d ended (%v) although the client is still there", w.step, s.i, s.retErr)
		}
	}
}

func (s *subState) regOK() bool { return true }

// roundStep is the step at which the current round was requested.
func (s *subState) roundStep() int {
	if s.lastPollStep > 0 {
		return s.lastPollStep
	}
	return s.startStep
}

// finish: end every RPC and make sure every handler returns.
func (w *world) finish() {
	for _, s := range w.subs {
		if s.started && !s.ended {
			s.cancelled = true
			s.stream.free()
			s.stream.cancel()
		}
	}
	synctest.Wait()
	for _, s := range w.subs {
		if s.started && !s.ended {
			w.failf(w.prop, "subscription %d: the Subscribe handler did not return after its stream was cancelled", s.i)
		}
	}
}
