package subprop

import (
	"context"
	"fmt"
	"math/rand"
	"runtime/debug"
	"sync"
	"testing"
	"testing/synctest"
	"time"

	"github.com/openconfig/gnmi/cache"
	"github.com/openconfig/gnmi/ctree"
	pb "github.com/openconfig/gnmi/proto/gnmi"
	"github.com/openconfig/gnmi/subscribe"
	"verif/harness/internal/gn"
	"verif/harness/internal/vstat"
)

// StressScenario is a free-running workload: one writer goroutine per target
// (as in the collector) and subscribers starting at staggered virtual
// instants, all running concurrently on the real scheduler inside a synctest
// bubble. No gates: the interleaving is whatever the scheduler does; the
// oracles hold for every interleaving. synctest.Wait gives the final
// quiescent point without any wall-clock judgement.
type StressScenario struct {
	Seed        int64     `json:"seed"`
	Targets     int       `json:"targets"`
	EventDriven bool      `json:"event_driven"`
	Subs        []SubSpec `json:"subs"`
	StartAt     []int     `json:"start_at"` // virtual ns at which each subscription starts
	Writers     [][]WOp   `json:"writers"`  // per target
	Pause       [][]int   `json:"pause"`    // per target, per op: virtual ns to sleep before it (0 = none)
}

func genStress(seed int64) *StressScenario {
	r := rand.New(rand.NewSource(seed))
	sc := &StressScenario{Seed: seed, Targets: 1 + r.Intn(3), EventDriven: r.Intn(3) > 0}
	elem := func(glob bool) gn.Elem {
		alpha := []string{"a", "b", "c"}
		if glob {
			alpha = []string{"a", "b", "c", "*"}
		}
		return gn.Elem{Name: alpha[r.Intn(len(alpha))]}
	}
	elems := func(min, max int, glob bool) []gn.Elem {
		n := min + r.Intn(max-min+1)
		out := []gn.Elem{}
		for i := 0; i < n; i++ {
			out = append(out, elem(glob))
		}
		return out
	}
	for i := 0; i < 1+r.Intn(4); i++ {
		sp := SubSpec{Mode: "stream", Target: r.Intn(sc.Targets+1) - 1, UpdatesOnly: false}
		for j := 0; j < 1+r.Intn(2); j++ {
			sp.Paths = append(sp.Paths, PathSpec{Elems: elems(0, 2, true)})
		}
		sc.Subs = append(sc.Subs, sp)
		sc.StartAt = append(sc.StartAt, r.Intn(40))
	}
	for t := 0; t < sc.Targets; t++ {
		var ops []WOp
		var pauses []int
		for i := 0; i < 20+r.Intn(40); i++ {
			w := WOp{Kind: "noti", T: t}
			switch k := r.Intn(20); {
			case k == 0:
				w.Kind = "reset"
			case k <= 3:
				w.Deletes = [][]gn.Elem{elems(1, 2, true)}
			case k == 4:
				w.Atomic = true
				w.Prefix = elems(1, 1, false)
				w.Updates = []Upd{{Path: elems(1, 1, false), Val: gn.Val{Kind: "int", I: int64(r.Intn(4))}}}
			case k <= 6:
				w.Updates = []Upd{{Path: elems(1, 2, false), Val: gn.Val{Kind: "int", I: int64(r.Intn(4))}}, {Path: elems(1, 2, false), Val: gn.Val{Kind: "int", I: int64(r.Intn(4))}}}
				w.Deletes = [][]gn.Elem{elems(1, 2, true)}
			default:
				w.Updates = []Upd{{Path: elems(1, 2, false), Val: gn.Val{Kind: "int", I: int64(r.Intn(4))}}}
			}
			ops = append(ops, w)
			p := 0
			if r.Intn(4) == 0 {
				p = 1 + r.Intn(5)
			}
			pauses = append(pauses, p)
		}
		sc.Writers = append(sc.Writers, ops)
		sc.Pause = append(sc.Pause, pauses)
	}
	return sc
}

// runStress executes the workload and checks convergence, sync discipline and
// "no invention" at the final quiescent point.
func runStress(t *testing.T, sc *StressScenario) (overlap bool, err error) {
	defer vstat.Watchdog(30*time.Second, 5*time.Second)()
	synctest.Test(t, func(t *testing.T) {
		defer func() {
			if r := recover(); r != nil {
				if f, ok := r.(*failure); ok {
					err = f
				} else {
					err = fmt.Errorf("panic: %v\n%s", r, trimStack(debug.Stack()))
				}
			}
		}()
		var copts []cache.Option
		if !sc.EventDriven {
			copts = append(copts, cache.DisableEventDrivenEmulation())
		}
		var targets []string
		for i := 0; i < sc.Targets; i++ {
			targets = append(targets, targetName(i))
		}
		c := cache.New(targets, copts...)
		srv, _ := subscribe.NewServer(c)
		c.SetClient(srv.Update)
		base := time.Now()
		now := func() int64 { return time.Since(base).Nanoseconds() }
		w := &world{sc: &Scenario{Targets: sc.Targets}, prop: "C04", chk: map[string]bool{"C04": true}, c: c, srv: srv, live: map[string]bool{},
			submitted: map[string]map[string]bool{}, known: map[string]bool{}, lastTouch: map[string]int{}, gen: map[string]int{}, latestVal: map[string]string{}, g: &gates{}}
		for _, n := range targets {
			w.live[n] = true
		}
		var subs []*subState
		var wg sync.WaitGroup
		var mu sync.Mutex
		var firstErr error
		started := 0
		for i, sp := range sc.Subs {
			s := w.newSub(i, sp)
			s.stream = newMemStream(context.Background(), 0, i, now, func() int { return 0 })
			s.stream.free()
			s.started = true
			subs = append(subs, s)
			wg.Add(1)
			go func(s *subState, at int) {
				defer wg.Done()
				time.Sleep(time.Duration(at))
				mu.Lock()
				started++
				mu.Unlock()
				s.stream.recvC <- s.req
				go func() {
					defer func() {
						if r := recover(); r != nil {
							mu.Lock()
							firstErr = fmt.Errorf("panic in Subscribe: %v\n%s", r, trimStack(debug.Stack()))
							mu.Unlock()
						}
						s.ended = true
					}()
					s.retErr = srv.Subscribe(s.stream)
				}()
			}(s, sc.StartAt[i])
		}
		w.subs = subs
		var tsMu sync.Mutex
		for ti, ops := range sc.Writers {
			wg.Add(1)
			go func(ti int, ops []WOp) {
				defer wg.Done()
				defer func() {
					if r := recover(); r != nil {
						mu.Lock()
						firstErr = fmt.Errorf("panic in a writer: %v\n%s", r, trimStack(debug.Stack()))
						mu.Unlock()
					}
				}()
				name := targetName(ti)
				for oi, op := range ops {
					if p := sc.Pause[ti][oi]; p > 0 {
						time.Sleep(time.Duration(p))
					}
					switch op.Kind {
					case "reset":
						c.Reset(name)
					default:
						opc := op
						tsMu.Lock()
						n := w.buildNoti(&opc)
						tsMu.Unlock()
						w.recordSubmitted(n)
						c.GnmiUpdate(n)
					}
				}
			}(ti, ops)
		}
		wg.Wait()
		synctest.Wait()
		if firstErr != nil {
			err = firstErr
			return
		}
		mu.Lock()
		overlap = started > 0
		mu.Unlock()
		// final quiescent point
		for _, s := range subs {
			out, _, _ := s.stream.snapshot()
			if s.ended {
				if s.patErr {
					continue
				}
				w.failf("C04", "stress: STREAM subscription %d ended (%v) although nothing ended it", s.i, s.retErr)
			}
			view, syncs, syncAt := replayView(out)
			if s.patErr {
				continue
			}
			if syncs != 1 {
				w.failf("C04", "stress: subscription %d received %d sync responses", s.i, syncs)
			}
			_ = syncAt
			restricted := map[string]string{}
			for k, v := range view {
				ku := gn.Unkey(k)
				if s.matches(ku) && w.allowedTarget(s, ku[0]) {
					restricted[k] = v
				}
			}
			want := w.expected(s)
			if d := diffMaps(want, restricted); d != "" {
				w.failf("C04", "stress (seed %d): subscription %d (target %s, patterns %q): replaying its %d responses does not give the cache's matching content: %s", sc.Seed, s.i, s.target, s.patterns, len(out), d)
			}
		}
		w.subs = subs
		w.monitorSends()
		for _, s := range subs {
			s.stream.cancel()
		}
		synctest.Wait()
	})
	return overlap, err
}

var _ = ctree.DetachedLeaf
var _ *pb.Notification
