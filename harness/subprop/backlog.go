package subprop

import (
	"fmt"
	"strings"

	pb "github.com/openconfig/gnmi/proto/gnmi"
	"verif/harness/internal/gn"
)

// The C08 backlog model. For a gated STREAM subscription it mirrors the
// per-subscriber coalescing queue from the moment the queue is known to be
// empty with the sender idle (after a drain): a FIFO of distinct pending
// items with counters; the item the sender has already taken and is blocked
// sending is "in flight", not pending. Every change the cache feeds that the
// streaming filter offers to the subscription is inserted; every credit lets
// one Send pass, after which the sender takes the next pending item.

// registrations returns the paths under which the server registers the subscription.
func (s *subState) registrations() [][]string {
	var out [][]string
	sl := s.req.GetSubscribe()
	prefix := gn.RefIndex(sl.GetPrefix(), true)
	for _, sub := range sl.GetSubscription() {
		p := sub.GetPath()
		q := append([]string{}, prefix...)
		if o := p.GetOrigin(); sl.GetPrefix().GetOrigin() == "" && o != "" {
			q = append(q, o)
		}
		q = append(q, gn.RefIndex(p, false)...)
		out = append(out, q)
	}
	return out
}

// offered reports whether a fed notification is offered to the subscription.
func (s *subState) offered(n *pb.Notification) bool {
	prefix := gn.RefIndex(n.GetPrefix(), true)
	var paths [][]string
	for _, u := range n.Update {
		paths = append(paths, append(append([]string{}, prefix...), gn.RefIndex(u.GetPath(), false)...))
	}
	for _, d := range n.Delete {
		paths = append(paths, append(append([]string{}, prefix...), gn.RefIndex(d, false)...))
	}
	for _, q := range s.registrations() {
		for _, p := range paths {
			if gn.Compatible(q, p) {
				return true
			}
		}
	}
	return false
}

// offerToModels is called (under w.mu) for every fed change.
func (w *world) offerToModels(n *pb.Notification) {
	for _, s := range w.subs {
		if !s.modelValid || s.ended || !s.spec.Gated || w.prop != "C08" {
			continue
		}
		if !s.offered(n) {
			continue
		}
		s.offers++
		if s.idleAtStart && s.offers >= 2 {
			// the sender was idle when this step began: whether it takes the first item
			// before the second arrives is up to the scheduler, so the model is not exact
			s.modelValid = false
			w.st.modelAmbiguous = true
			continue
		}
		it := &qitem{tgt: n.GetPrefix().GetTarget()}
		if len(n.Delete) > 0 {
			it.kind = "del"
			it.n = n
			it.id = fmt.Sprintf("del#%d", len(w.fed))
			it.key = gn.Key(keyOfDelete(n, n.Delete[0]))
			w.st.burstWithDelete = w.st.burstWithDelete || s.inflight != nil
		} else {
			it.kind = "upd"
			it.key = gn.Key(keyOfUpdate(n, n.Update[0]))
			it.id = fmt.Sprintf("%s#%d", it.key, w.gen[it.key])
		}
		s.modelInsert(w, it)
	}
}

func (s *subState) modelInsert(w *world, it *qitem) {
	for _, p := range s.pending {
		if p.id == it.id {
			p.count++
			if p.count >= 1 {
				w.st.burstCoalesced = true
			}
			return
		}
	}
	s.pending = append(s.pending, it)
	if s.inflight == nil {
		s.modelTake(w)
	}
}

// modelTake: the idle sender takes the head of the queue. A response for a
// target the ACL denies is consumed without being sent.
func (s *subState) modelTake(w *world) {
	for s.inflight == nil && len(s.pending) > 0 {
		it := s.pending[0]
		s.pending = s.pending[1:]
		if w.acl != nil && !w.acl.allowed(s.spec.User, it.tgt) {
			continue
		}
		d := qdeliver{kind: it.kind, key: it.key, dup: it.count}
		if it.kind == "upd" {
			// the value is read when the item is taken: the newest value fed for that leaf object
			d.val = w.latestVal[it.id]
		}
		s.inflight = it
		s.expect = append(s.expect, d)
		if s.spec.Gated {
			return
		}
		// a free-flowing stream sends at once
		s.inflight = nil
	}
}

// modelGrant: n credits let n Sends pass.
func (w *world) modelGrant(s *subState, n int) {
	if !s.modelValid {
		return
	}
	for i := 0; i < n; i++ {
		if s.inflight == nil {
			return
		}
		s.inflight = nil
		s.modelTake(w)
	}
}

// validateModel (re)starts the model when the queue is known to be empty.
func (w *world) validateModel(s *subState, out []sent) {
	s.modelValid = true
	s.inflight = nil
	s.pending = nil
	s.expect = nil
	s.seenOut = len(out)
}

// checkBacklog compares what was delivered since the model became valid with
// what the model predicts, then restarts the model. Called after a drain.
func (w *world) checkBacklog(s *subState, out []sent) {
	if s.spec.Mode != "stream" || s.ended || s.syncStep < 0 || len(w.parked) > 0 || !s.spec.Gated || w.prop != "C08" {
		return
	}
	if s.modelValid {
		got := out[s.seenOut:]
		if s.inflight != nil || len(s.pending) > 0 {
			// drain grants through modelGrant; anything left means the real sender was not parked when the model expected it
			w.failf("C08", "step %d: subscription %d: after draining, the backlog model still holds %d pending items (in flight: %v): the real queue delivered %d messages since the stall began; model expected %s", w.step, s.i, len(s.pending), s.inflight != nil, len(got), fmtDeliveries(s.expect))
		}
		var gd []qdeliver
		for _, o := range got {
			n := o.r.GetUpdate()
			if n == nil {
				continue
			}
			if len(n.Delete) > 0 {
				gd = append(gd, qdeliver{kind: "del", key: gn.Key(keyOfDelete(n, n.Delete[0]))})
				continue
			}
			v := valRepr(n)
			gd = append(gd, qdeliver{kind: "upd", key: gn.Key(keyOfUpdate(n, n.Update[0])), val: v, dup: n.Update[0].GetDuplicates()})
		}
		exp := s.expect
		bad := len(gd) != len(exp)
		for i := 0; !bad && i < len(gd); i++ {
			e, g := exp[i], gd[i]
			if e.kind != g.kind || e.key != g.key {
				bad = true
			} else if e.kind == "upd" && (e.val != g.val || e.dup != g.dup) {
				bad = true
			}
		}
		if bad {
			w.failf("C08", "step %d: subscription %d: deliveries since the queue was last empty differ from the coalescing model (first-insertion order, one entry per pending leaf with its newest value and duplicates = coalesced updates, one per delete):\n got  %s\n want %s", w.step, s.i, fmtDeliveries(gd), fmtDeliveries(exp))
		}
		if len(exp) > 0 {
			w.st.exactChecked = true
		}
	}
	w.validateModel(s, out)
}

func fmtDeliveries(ds []qdeliver) string {
	var parts []string
	for _, d := range ds {
		if d.kind == "del" {
			parts = append(parts, fmt.Sprintf("del%q", gn.Unkey(d.key)))
		} else {
			v := d.val
			if len(v) > 12 {
				v = v[:12]
			}
			parts = append(parts, fmt.Sprintf("%q=%s dup=%d", gn.Unkey(d.key), v, d.dup))
		}
	}
	return "[" + strings.Join(parts, ", ") + "]"
}

// checkQueueStat compares the exported queue size with the model's backlog.
func (w *world) checkQueueStat(s *subState) {
	if !s.modelValid || s.ended {
		return
	}
	pfx := fmt.Sprintf("mem:%d:", s.i)
	for k, cs := range w.srv.ClientStats() {
		if !strings.HasPrefix(k, pfx) {
			continue
		}
		// the size is recorded when an item is taken; with an item in flight it is the number still pending then
		if s.inflight != nil && cs.QueueSize > int64(len(s.pending)) {
			w.failf("C08", "step %d: subscription %d: exported queue size %d exceeds the %d distinct pending leaves/deletes of the model", w.step, s.i, cs.QueueSize, len(s.pending))
		}
	}
}
