package subprop

import (
	"fmt"

	"pgregory.net/rapid"
	"verif/harness/internal/gn"
)

// PathSpec is one subscription path.
type PathSpec struct {
	Origin string    `json:"origin,omitempty"`
	Elems  []gn.Elem `json:"elems,omitempty"`
	// Unset: the path field of the Subscription is absent (only honoured when the spec has neither
	// origin nor elements): in proto3 an unset path means "the prefix itself".
	Unset bool `json:"unset,omitempty"`
	// Element: this path uses the deprecated string elements.
	Element bool `json:"element,omitempty"`
}

// SubSpec is one Subscribe RPC.
type SubSpec struct {
	Mode        string     `json:"mode"`   // stream once poll
	Target      int        `json:"target"` // index of the target, -1 = "*"
	UpdatesOnly bool       `json:"updates_only,omitempty"`
	POrigin     string     `json:"porigin,omitempty"`
	PElems      []gn.Elem  `json:"pelems,omitempty"`
	Paths       []PathSpec `json:"paths"`
	User        int        `json:"user"`
	Gated       bool       `json:"gated,omitempty"`    // Send needs credit from grant steps (else it always passes)
	PElement    bool       `json:"pelement,omitempty"` // the prefix uses the deprecated string elements
	Deadline    bool       `json:"deadline,omitempty"` // the stream's context carries a (distant) RPC deadline
	// HalfClose: the client half-closes its sending side right after its request (legal gRPC: Send, CloseSend, Recv...);
	// ONCE and STREAM only.
	HalfClose bool `json:"half_close,omitempty"`
	// First: what the client sends first instead of the well-formed request: "" (the request), "eof" (half-close
	// before any request), "poll" (a Poll trigger), "noprefix" (a SubscriptionList without prefix), "notarget"
	// (prefix without target), "empty" (a request with no arm). The RPC then ends at once: only the ACL clauses apply.
	First string `json:"first,omitempty"`
	// Dress: seed of the values given to the request fields the server does not implement (list: qos,
	// allow_aggregation, use_models, encoding; per subscription: mode, sample_interval, suppress_redundant,
	// heartbeat_interval - drawn independently per subscription). 0 = plain request.
	Dress int `json:"dress,omitempty"`
}

// Upd is one update.
type Upd struct {
	Path []gn.Elem `json:"path"`
	Val  gn.Val    `json:"val"`
}

// WOp is one writer operation on the cache.
type WOp struct {
	Kind    string      `json:"kind"` // noti reset remove add sync connect updmeta
	T       int         `json:"t"`
	Origin  string      `json:"origin,omitempty"`
	Prefix  []gn.Elem   `json:"prefix,omitempty"`
	Atomic  bool        `json:"atomic,omitempty"`
	Updates []Upd       `json:"updates,omitempty"`
	Deletes [][]gn.Elem `json:"deletes,omitempty"`
	Old     bool        `json:"old,omitempty"` // timestamp older than anything stored
	// Pick>0 re-addresses the first update (or, without updates, the first
	// delete) to the Pick-th leaf currently known for the target (sorted,
	// modulo their number): origin and prefix are dropped, the path becomes
	// that leaf's index path as plain elements.
	Pick int `json:"pick,omitempty"`
	// Enc: path encoding of the notification: 0 structured, 1 deprecated strings, 2 prefix deprecated + paths
	// structured, 3 prefix structured + paths deprecated, 4 structured plus stray deprecated strings.
	Enc int `json:"enc,omitempty"`
	// Twist: an atomic notification re-sends the container last sent at the same prefix with the same values,
	// in the same order, but attached to the member paths rotated by one (same values, other assignment).
	Twist bool `json:"twist,omitempty"`
	// Star: a re-addressed delete replaces the last element of the picked
	// leaf's path by "*" (a glob delete over its siblings).
	Star bool `json:"star,omitempty"`
	// Back>0: the timestamp lies Back operations in the past (between the
	// timestamps of earlier operations) instead of being the newest.
	Back int `json:"back,omitempty"`
	// Bulk adds N updates At/k<Start>..At/k<Start+N-1>[/Leaf] with value V.
	Bulk *Bulk `json:"bulk,omitempty"`
	// Near: the first update, re-addressed by Pick to a stored leaf, carries the smallest change of the value stored
	// there (next integer, one more digit of a decimal, next representable double / float, one more character).
	Near bool `json:"near,omitempty"`
	// Via>0: the notification (whose prefix names target T) is handed to the exported per-target entry point
	// cache.GetTarget(<target (T+Via) mod n>).GnmiUpdate: it is stored in ANOTHER target's tree while every
	// response built from it still names T. Scenarios with such a write are judged by the trace monitors only.
	Via int `json:"via,omitempty"`
}

// Bulk is a run of sibling leaves written by one notification: sizes past the
// usual capacity steps (32, 64, 128, 256).
type Bulk struct {
	At    []gn.Elem `json:"at,omitempty"`
	Start int       `json:"start"`
	N     int       `json:"n"`
	Leaf  string    `json:"leaf,omitempty"`
	V     int64     `json:"v"`
}

// Step is one step of the schedule; the harness waits for quiescence after each.
type Step struct {
	// Kind: w start release relw grant poll eof cancel sleep check drain
	Kind     string `json:"kind"`
	Sub      int    `json:"sub,omitempty"`
	Park     string `json:"park,omitempty"` // start/release: gate at which the subscription parks next
	W        *WOp   `json:"w,omitempty"`
	ParkFeed bool   `json:"park_feed,omitempty"` // w: park between tree write and feed
	ParkCB   int    `json:"park_cb,omitempty"`   // w (noti, reset): park inside the feed callback after its ParkCB-th entry was forwarded
	N        int    `json:"n,omitempty"`         // grant: credits; sleep: virtual seconds; relw: which parked writer
	// pollflood: what the client of POLL subscription Sub does while its receive side is stalled
	// (no credit): 0 = one more poll trigger, k>0 = let k sends pass.
	Flood []int `json:"flood,omitempty"`
}

// ACLSpec is the access-control table.
type ACLSpec struct {
	Allow    [][]bool `json:"allow"`               // [user][target]
	FailUser []bool   `json:"fail_user"`           // NewRPCACL fails for this user
	FailKind []string `json:"fail_kind,omitempty"` // ... with this kind of error value (see aclError)
	Dynamic  bool     `json:"dynamic,omitempty"`   // aclflip steps take effect (grants change while streams are open)
}

// Scenario is the whole case.
type Scenario struct {
	Targets     int       `json:"targets"`
	EventDriven bool      `json:"event_driven"`
	TimeoutSec  int       `json:"timeout_sec"` // server send timeout, 0 = default (1 minute)
	ACL         *ACLSpec  `json:"acl,omitempty"`
	Subs        []SubSpec `json:"subs"`
	Steps       []Step    `json:"steps"`
	TNames      []string  `json:"tnames,omitempty"` // target names (default t0, t1, ...)
}

// targetNames, if set by the scenario being run, replaces the default names t0, t1, ... (target names
// are free-form strings: host names, names containing the glob character without being the glob, ...).
var targetNames []string

func targetName(i int) string {
	if i >= 0 && i < len(targetNames) && targetNames[i] != "" {
		return targetNames[i]
	}
	return fmt.Sprintf("t%d", i)
}

var oddTargetNames = [][]string{
	{"*.pop3.example.net", "t*", "T0", "t0 "},
	{"Dev-1", "dev-1", "*x", "x*y"},
	{"a/b", "a", "a:b", "é"},
}

// ---- generators ----------------------------------------------------------------------

type profile struct {
	minTargets, maxTargets int
	modes                  []string
	acl                    bool
	gatedPct               int // percentage of gated subscriptions
	weights                map[string]int
	maxSteps               int
	timeout                bool
	wkinds                 []string
	parks                  []string
	maxSubs                int
	preload                int // writer steps generated before anything else
	starPct                int // percentage of all-targets subscriptions
	pickPct                int // percentage of writer notifications addressed to an existing leaf
	aclPct                 int // percentage of scenarios with an access-control table (acl=true means 100)
	bulkPct                int // percentage of writer notifications that carry a bulk run
	bulkNs                 []int
	viaPct                 int // percentage of scenarios in which writers also use another target's per-target entry point
	firstPct               int // percentage of subscriptions whose first message is not the well-formed request
}

var profiles = map[string]profile{
	"C04": {minTargets: 1, maxTargets: 2, modes: []string{"stream"}, gatedPct: 25, maxSteps: 30, maxSubs: 3, preload: 3, starPct: 30, pickPct: 40, bulkPct: 4, bulkNs: []int{5, 33, 40, 70, 130},
		weights: map[string]int{"w": 14, "start": 5, "release": 5, "relw": 3, "grant": 3, "check": 2, "drain": 2, "sleep": 1, "wrace": 2, "cancel": 2, "eof": 1},
		wkinds:  []string{"noti", "noti", "noti", "noti", "noti", "noti", "noti", "noti", "reset", "sync", "updmeta"},
		parks:   []string{"", "sub.pre-register", "sub.registered", "sub.walk.begin", "sub.walk.end", "coalesce.next.empty"}},
	"C05": {minTargets: 1, maxTargets: 3, modes: []string{"once", "poll", "poll"}, gatedPct: 20, maxSteps: 24, maxSubs: 3, preload: 5, starPct: 35, pickPct: 30, bulkPct: 5, bulkNs: []int{5, 33, 70, 130, 257, 300, 520}, viaPct: 10,
		weights: map[string]int{"w": 6, "start": 6, "release": 3, "poll": 6, "eof": 2, "grant": 2, "drain": 2, "sleep": 2, "wrace": 2},
		wkinds:  []string{"noti", "noti", "noti", "noti", "noti", "noti", "noti", "noti", "reset", "reset", "remove", "remove", "add", "add", "readd"},
		parks:   []string{"", "", "sub.walk.begin", "sub.walk.end", "coalesce.next.empty", "coalesce.next.empty"}},
	"C07": {minTargets: 2, maxTargets: 4, modes: []string{"stream", "stream", "once", "poll"}, acl: true, gatedPct: 15, maxSteps: 30, maxSubs: 4, preload: 4, starPct: 60, pickPct: 30, timeout: true, bulkPct: 3, bulkNs: []int{5, 40, 70}, viaPct: 10, firstPct: 8,
		weights: map[string]int{"w": 14, "start": 6, "release": 3, "relw": 2, "poll": 2, "grant": 2, "check": 2, "drain": 2, "sleep": 2, "aclflip": 2, "eof": 1},
		wkinds:  []string{"noti", "noti", "noti", "noti", "noti", "noti", "reset", "remove", "add"},
		parks:   []string{"", "", "sub.registered", "sub.walk.begin"}},
	"C08": {minTargets: 1, maxTargets: 2, modes: []string{"stream"}, gatedPct: 70, maxSteps: 36, maxSubs: 3, preload: 3, timeout: true, starPct: 30, pickPct: 60, aclPct: 25, bulkPct: 5, bulkNs: []int{5, 33, 40, 70, 130},
		weights: map[string]int{"w": 18, "start": 4, "grant": 6, "sleep": 4, "check": 3, "drain": 3, "wrace": 2},
		wkinds:  []string{"noti", "noti", "noti", "noti", "noti", "noti", "noti", "noti", "noti", "noti", "noti", "noti", "noti", "noti", "reset", "updmeta", "updmeta", "sync"},
		parks:   []string{""}},
	"C14": {minTargets: 2, maxTargets: 4, modes: []string{"stream"}, gatedPct: 30, maxSteps: 30, maxSubs: 4, preload: 4, starPct: 35, pickPct: 30, bulkPct: 4, bulkNs: []int{5, 40, 70},
		weights: map[string]int{"w": 14, "start": 6, "release": 2, "relw": 2, "check": 2, "drain": 3, "rmadd": 2, "wrace": 3, "grant": 2, "cancel": 1, "eof": 1},
		wkinds:  []string{"noti", "noti", "noti", "noti", "noti", "reset", "reset", "remove", "remove", "add", "add"},
		parks:   []string{"", "", "sub.registered"}},
}

var stepOrder = []string{"w", "start", "release", "relw", "grant", "poll", "eof", "cancel", "sleep", "check", "drain", "rmadd", "wrace", "aclflip", "pollflood"}

// richNames switches the element alphabet of the scenario being generated to
// names of which one is a string prefix of another and one contains the "/"
// that a joined representation would use as its separator (set from a rapid
// draw at the start of every scenario; generation is single-threaded).
var richNames bool

// viaScenario: in the scenario being generated some writer notifications are handed to the per-target entry
// point of another target than the one their prefix names (WOp.Via).
var viaScenario bool

// fineScenario: in one scenario out of ten most values are "fine" ones (large decimals and integers, doubles that
// differ in their last bits, ...), so that the smallest change of a stored value (WOp.Near) meets them often.
var fineScenario bool

func siblingOdds() int {
	if richNames {
		return 3
	}
	return 1
}

func genElem(t *rapid.T, glob bool) gn.Elem {
	alpha := []string{"a", "b", "c"}
	if richNames {
		alpha = []string{"a", "b", "ab", "a/b", "a1", "aé"}
	}
	if glob {
		alpha = append(append([]string{}, alpha...), "*", "*")
	}
	e := gn.Elem{Name: rapid.SampledFrom(alpha).Draw(t, "name")}
	if e.Name != "*" && rapid.IntRange(0, 7).Draw(t, "keyed") == 0 {
		vals := []string{"1", "2"}
		if richNames {
			vals = []string{"1", "10", "1/0", "2"}
		}
		if glob {
			vals = append(append([]string{}, vals...), "*")
		}
		e.Keys = map[string]string{"k": rapid.SampledFrom(vals).Draw(t, "kval")}
	}
	return e
}

func genElems(t *rapid.T, min, max int, glob bool) []gn.Elem {
	n := rapid.IntRange(min, max).Draw(t, "nelem")
	out := make([]gn.Elem, 0, n)
	for i := 0; i < n; i++ {
		out = append(out, genElem(t, glob))
	}
	return out
}

func genVal(t *rapid.T) gn.Val {
	if (fineScenario && rapid.IntRange(0, 2).Draw(t, "fine-mostly") > 0) || rapid.IntRange(0, 7).Draw(t, "fine-values") == 5 {
		// values that differ from their neighbours only beyond the precision of a float32 / float64, and the
		// less common value types: "did the value change?" decides what an event-driven cache forwards
		switch rapid.IntRange(0, 8).Draw(t, "fine-kind") {
		case 0, 7, 8:
			return gn.Val{Kind: "decimal", F: 2, I: rapid.SampledFrom([]int64{100000001, 100000002, 16777216, 16777217, 5}).Draw(t, "digits")}
		case 1:
			return gn.Val{Kind: rapid.SampledFrom([]string{"int", "uint"}).Draw(t, "bigkind"), I: rapid.SampledFrom([]int64{16777216, 16777217, 1 << 53, 1<<53 + 1}).Draw(t, "big")}
		case 2:
			return gn.Val{Kind: "double", F: rapid.SampledFrom([]float64{1e16, 1e16 + 2, 0.1, 0.1 + 1e-12, 4000000000001, 4000000000002}).Draw(t, "closef")}
		case 3:
			return gn.Val{Kind: "float", F: rapid.SampledFrom([]float64{2.5, 2.5000002}).Draw(t, "closef32")}
		case 4:
			l := []gn.Val{{Kind: "int", I: int64(rapid.IntRange(0, 1).Draw(t, "l0"))}, {Kind: "string", S: "x"}}
			if rapid.Bool().Draw(t, "lswap") {
				l[0], l[1] = l[1], l[0] // the same members in another order are another value
			}
			return gn.Val{Kind: "leaflist", L: l}
		case 5:
			return gn.Val{Kind: rapid.SampledFrom([]string{"json", "jsonietf", "ascii", "bytes"}).Draw(t, "textkind"), S: rapid.SampledFrom([]string{`{"a":1}`, `{"a": 1}`, "x"}).Draw(t, "text")}
		default:
			return gn.Val{Kind: "double", S: rapid.SampledFrom([]string{"nan", "inf", "-0"}).Draw(t, "special")}
		}
	}
	switch rapid.IntRange(0, 6).Draw(t, "vkind") {
	case 6:
		// the deprecated Update.value field
		return gn.Val{Kind: "deprecated", S: rapid.SampledFrom([]string{`1`, `2`, `"x"`}).Draw(t, "dep")}
	case 0, 1, 2:
		return gn.Val{Kind: "int", I: int64(rapid.IntRange(0, 3).Draw(t, "i"))}
	case 3:
		return gn.Val{Kind: "string", S: rapid.SampledFrom([]string{"", "x", "y"}).Draw(t, "s")}
	case 4:
		return gn.Val{Kind: "double", F: rapid.SampledFrom([]float64{0, 1.5}).Draw(t, "f")}
	default:
		return gn.Val{Kind: "bool", B: rapid.Bool().Draw(t, "b")}
	}
}

func genWOp(pr profile, targets int) func(t *rapid.T) *WOp {
	return func(t *rapid.T) *WOp {
		w := &WOp{Kind: rapid.SampledFrom(pr.wkinds).Draw(t, "wkind"), T: rapid.IntRange(0, targets-1).Draw(t, "wt")}
		if w.Kind != "noti" {
			return w
		}
		if rapid.IntRange(0, 99).Draw(t, "relative") < pr.pickPct {
			w.Pick = rapid.IntRange(1, 5).Draw(t, "pick")
		}
		w.Origin = rapid.SampledFrom([]string{"", "", "", "o", "o", "openconfig"}).Draw(t, "origin")
		w.Enc = rapid.SampledFrom([]int{0, 0, 0, 0, 0, 0, 0, 1, 2, 3, 4}).Draw(t, "enc")
		w.Prefix = genElems(t, 0, 1, false)
		w.Old = rapid.IntRange(0, 9).Draw(t, "old") == 0
		if w.Pick > 0 {
			w.Star = rapid.IntRange(0, 2).Draw(t, "star") == 0
			w.Near = rapid.IntRange(0, 2).Draw(t, "near") > 0
		}
		if rapid.IntRange(0, 5).Draw(t, "backdated") == 0 {
			w.Back = rapid.IntRange(1, 6).Draw(t, "back")
		}
		if viaScenario && targets > 1 && rapid.IntRange(0, 99).Draw(t, "via") < 30 {
			w.Via = rapid.IntRange(1, targets-1).Draw(t, "via-target")
		}
		if pr.bulkPct > 0 && rapid.IntRange(0, 99).Draw(t, "bulk") < pr.bulkPct {
			defer func() {
				if w.Atomic {
					return
				}
				w.Bulk = &Bulk{
					At:    genElems(t, 0, 1, false),
					Start: rapid.SampledFrom([]int{0, 0, 20, 100}).Draw(t, "bulk-start"),
					N:     rapid.SampledFrom(pr.bulkNs).Draw(t, "bulk-n"),
					Leaf:  rapid.SampledFrom([]string{"", "", "a"}).Draw(t, "bulk-leaf"),
					V:     int64(rapid.IntRange(0, 1).Draw(t, "bulk-v")),
				}
			}()
		}
		switch shape := rapid.IntRange(0, 9).Draw(t, "shape"); {
		case shape <= 4:
			w.Updates = []Upd{{Path: genElems(t, 1, 2, false), Val: genVal(t)}}
		case shape == 5:
			w.Deletes = [][]gn.Elem{genElems(t, 1, 2, true)}
		case shape == 6 || shape == 7:
			nu := rapid.IntRange(1, 3).Draw(t, "nu")
			for i := 0; i < nu; i++ {
				w.Updates = append(w.Updates, Upd{Path: genElems(t, 1, 2, false), Val: genVal(t)})
			}
			if rapid.Bool().Draw(t, "withdel") {
				w.Deletes = [][]gn.Elem{genElems(t, 1, 2, true)}
			}
		default:
			w.Atomic = true
			if len(w.Prefix) == 0 {
				w.Prefix = genElems(t, 1, 1, false)
			}
			nu := rapid.IntRange(1, 3).Draw(t, "nu")
			for i := 0; i < nu; i++ {
				w.Updates = append(w.Updates, Upd{Path: genElems(t, 1, 1, false), Val: genVal(t)})
			}
			w.Twist = rapid.Bool().Draw(t, "twist")
			if w.Twist {
				w.Origin = "" // (so that it meets the container sent before at that prefix more often)
			}
		}
		return w
	}
}

func genSub(pr profile, targets, users int) func(t *rapid.T) SubSpec {
	return func(t *rapid.T) SubSpec {
		s := SubSpec{Mode: rapid.SampledFrom(pr.modes).Draw(t, "mode")}
		s.Target = rapid.IntRange(0, targets-1).Draw(t, "target")
		if rapid.IntRange(0, 99).Draw(t, "star") < pr.starPct {
			s.Target = -1
		}
		if s.Mode == "stream" {
			s.UpdatesOnly = rapid.IntRange(0, 5).Draw(t, "updonly") == 0
		} else {
			s.UpdatesOnly = rapid.IntRange(0, 7).Draw(t, "updonly") == 0
		}
		s.User = rapid.IntRange(0, users-1).Draw(t, "user")
		s.Gated = rapid.IntRange(0, 99).Draw(t, "gated") < pr.gatedPct
		s.Deadline = rapid.IntRange(0, 3).Draw(t, "deadline") == 0
		// origin: none / in the prefix / in the paths / (rarely) conflicting
		where := rapid.SampledFrom([]string{"none", "none", "none", "none", "none", "none", "prefix", "prefix", "path", "path", "both", "path+pelems", "per-path", "per-path"}).Draw(t, "originwhere")
		oname := rapid.SampledFrom([]string{"o", "o", "o", "openconfig"}).Draw(t, "origin-name")
		if where == "prefix" || where == "both" {
			s.POrigin = oname
		}
		s.PElems = genElems(t, 0, 1, true)
		if where == "path" || where == "per-path" {
			s.PElems = nil
		}
		s.PElement = rapid.IntRange(0, 9).Draw(t, "pelement") == 0
		if where == "path+pelems" && len(s.PElems) == 0 {
			s.PElems = genElems(t, 1, 1, false)
		}
		if s.Mode != "poll" {
			s.HalfClose = rapid.IntRange(0, 7).Draw(t, "half-close") == 6
		}
		np := rapid.IntRange(1, 3).Draw(t, "npaths")
		if pr.acl && rapid.IntRange(0, 9).Draw(t, "empty-list") == 9 {
			// a SubscriptionList without subscriptions (C07 profile only: a STREAM that registers nothing is never
			// told of its target's removal, which C14 does not speak about)
			np = 0
		}
		for i := 0; i < np; i++ {
			p := PathSpec{Elems: genElems(t, 0, rapid.SampledFrom([]int{0, 1, 1, 2, 3}).Draw(t, "maxlen"), true)}
			if i > 0 && len(s.Paths[i-1].Elems) > 0 && rapid.IntRange(0, 5).Draw(t, "sibling") < siblingOdds() {
				// a sibling of the previous path: same parent, another last element
				prev := s.Paths[i-1].Elems
				p.Elems = append(append([]gn.Elem{}, prev[:len(prev)-1]...), genElem(t, true))
			}
			if where == "path" || where == "both" || where == "path+pelems" {
				p.Origin = oname
			}
			if where == "per-path" {
				// every path names its own origin (or none)
				p.Origin = rapid.SampledFrom([]string{"", "o", "openconfig"}).Draw(t, "path-origin")
			}
			if i > 0 && richNames && rapid.IntRange(0, 2).Draw(t, "twin") == 0 {
				// a twin of the previous path: another path whose elements, joined with "/", read the same
				if tw, ok := twinOf(s.Paths[i-1].Elems); ok {
					p.Elems = tw
				}
			}
			p.Element = rapid.IntRange(0, 9).Draw(t, "element") == 0
			if len(p.Elems) == 0 && p.Origin == "" {
				p.Unset = rapid.Bool().Draw(t, "unset")
			}
			s.Paths = append(s.Paths, p)
		}
		if pr.firstPct > 0 && rapid.IntRange(0, 99).Draw(t, "first") >= 100-pr.firstPct {
			s.First = rapid.SampledFrom([]string{"eof", "poll", "noprefix", "notarget", "empty"}).Draw(t, "first-kind")
		}
		if rapid.IntRange(0, 2).Draw(t, "dressed") == 0 {
			s.Dress = rapid.IntRange(1, 1<<20).Draw(t, "dress")
		}
		return s
	}
}

// twinOf returns a path that differs from p but reads the same once its index strings are joined with "/":
// an element "a/b" becomes the two elements a, b; two plain elements a, b become the one element "a/b";
// a key value "1/0" becomes the key value 1 followed by an element 0.
func twinOf(p []gn.Elem) ([]gn.Elem, bool) {
	for i, e := range p {
		if len(e.Keys) == 0 && e.Name == "a/b" {
			out := append(append([]gn.Elem{}, p[:i]...), gn.Elem{Name: "a"}, gn.Elem{Name: "b"})
			return append(out, p[i+1:]...), true
		}
		if i+1 < len(p) && len(e.Keys) == 0 && len(p[i+1].Keys) == 0 && e.Name == "a" && p[i+1].Name == "b" {
			out := append(append([]gn.Elem{}, p[:i]...), gn.Elem{Name: "a/b"})
			return append(out, p[i+2:]...), true
		}
		if e.Keys["k"] == "1/0" {
			out := append(append([]gn.Elem{}, p[:i]...), gn.Elem{Name: e.Name, Keys: map[string]string{"k": "1"}}, gn.Elem{Name: "0"})
			return append(out, p[i+1:]...), true
		}
	}
	return nil, false
}

func genStep(pr profile, targets, nsubs int) func(t *rapid.T) Step {
	total := 0
	for _, k := range stepOrder {
		total += pr.weights[k]
	}
	wop := rapid.Custom(genWOp(pr, targets))
	return func(t *rapid.T) Step {
		s := Step{}
		w := rapid.IntRange(0, total-1).Draw(t, "stepkind")
		for _, k := range stepOrder {
			if w < pr.weights[k] {
				s.Kind = k
				break
			}
			w -= pr.weights[k]
		}
		switch s.Kind {
		case "w":
			s.W = wop.Draw(t, "w")
			s.ParkFeed = len(pr.parks) > 1 && rapid.IntRange(0, 5).Draw(t, "parkfeed") == 0
			if len(pr.parks) > 1 && !s.ParkFeed && rapid.IntRange(0, 4).Draw(t, "parkcb") == 0 {
				s.ParkCB = rapid.SampledFrom([]int{1, 1, 2, 3}).Draw(t, "parkcb-n")
			}
		case "start", "release":
			s.Sub = rapid.IntRange(0, nsubs-1).Draw(t, "sub")
			s.Park = rapid.SampledFrom(pr.parks).Draw(t, "park")
		case "rmadd":
			s.W = wop.Draw(t, "w")
			s.W.Kind, s.W.Atomic = "noti", false
			if len(s.W.Updates) == 0 {
				s.W.Updates = []Upd{{Path: genElems(t, 1, 2, false), Val: genVal(t)}}
			}
		case "aclflip":
			s.Sub = rapid.IntRange(0, 2).Draw(t, "flip-user")
			s.N = rapid.IntRange(0, targets-1).Draw(t, "flip-target")
		case "wrace":
			s.Sub = rapid.IntRange(0, nsubs-1).Draw(t, "sub")
			s.W = wop.Draw(t, "w")
			switch rapid.IntRange(0, 3).Draw(t, "wrace-kind") {
			case 3:
				s.W = &WOp{Kind: "cancel", T: s.W.T}
			case 0:
				s.W = &WOp{Kind: "remove", T: s.W.T}
			case 1:
				s.W = &WOp{Kind: "reset", T: s.W.T}
			default:
				s.W.Kind, s.W.Atomic, s.W.Updates, s.W.Bulk = "noti", false, nil, nil
				if len(s.W.Deletes) == 0 {
					s.W.Deletes = [][]gn.Elem{genElems(t, 1, 2, true)}
				}
			}
		case "relw":
			s.N = rapid.IntRange(0, 2).Draw(t, "which")
		case "grant":
			s.Sub = rapid.IntRange(0, nsubs-1).Draw(t, "sub")
			s.N = rapid.SampledFrom([]int{1, 1, 2, 3, 50}).Draw(t, "credits")
		case "poll", "eof", "cancel":
			s.Sub = rapid.IntRange(0, nsubs-1).Draw(t, "sub")
		case "sleep":
			s.N = rapid.SampledFrom([]int{1, 3, 5, 9, 10, 11, 30, 59, 60, 61}).Draw(t, "secs")
		}
		return s
	}
}

// genBurstScenario is the structured C08 shape: subscribers start and are
// drained, then rounds of update bursts hit a few leaves while some
// subscribers have no credit, followed by partial credit, sleeps and drains.
func genBurstScenario(t *rapid.T) *Scenario {
	pr := profiles["C08"]
	sc := &Scenario{Targets: rapid.IntRange(1, 2).Draw(t, "targets")}
	sc.EventDriven = rapid.Bool().Draw(t, "eventdriven")
	sc.TimeoutSec = rapid.SampledFrom([]int{0, 10, 10, 30}).Draw(t, "timeout")
	nsubs := rapid.IntRange(1, 3).Draw(t, "nsubs")
	for i := 0; i < nsubs; i++ {
		sp := SubSpec{Mode: "stream", Target: rapid.IntRange(-1, sc.Targets-1).Draw(t, "target"), Gated: i == 0 || rapid.Bool().Draw(t, "gated")}
		sp.UpdatesOnly = rapid.IntRange(0, 4).Draw(t, "updonly") == 0
		sp.Deadline = rapid.IntRange(0, 2).Draw(t, "deadline") == 0
		np := rapid.IntRange(1, 2).Draw(t, "npaths")
		for j := 0; j < np; j++ {
			sp.Paths = append(sp.Paths, PathSpec{Elems: genElems(t, 0, 1, true)})
		}
		sc.Subs = append(sc.Subs, sp)
	}
	single := func(label string) *WOp {
		w := &WOp{Kind: "noti", T: rapid.IntRange(0, sc.Targets-1).Draw(t, label+"t")}
		switch rapid.IntRange(0, 11).Draw(t, label+"shape") {
		case 11:
			// the collector's periodic metadata refresh (every changed metadata leaf of every target is fed)
			w.Kind = rapid.SampledFrom([]string{"updmeta", "updmeta", "sync"}).Draw(t, label+"metakind")
		case 10:
			// an atomic container (one leaf carrying 2-3 updates) reported again and again under one prefix
			w.Atomic = true
			w.Prefix = []gn.Elem{{Name: rapid.SampledFrom([]string{"a", "b"}).Draw(t, label+"aprefix")}}
			nu := rapid.IntRange(2, 3).Draw(t, label+"anu")
			for i := 0; i < nu; i++ {
				w.Updates = append(w.Updates, Upd{Path: []gn.Elem{{Name: []string{"x", "y", "z"}[i]}}, Val: genVal(t)})
			}
			w.Twist = rapid.Bool().Draw(t, label+"twist")
		case 0:
			w.Deletes = [][]gn.Elem{genElems(t, 1, 2, true)}
			w.Pick = rapid.IntRange(0, 3).Draw(t, label+"pick")
		case 1:
			w.Updates = []Upd{{Path: genElems(t, 1, 2, false), Val: genVal(t)}, {Path: genElems(t, 1, 2, false), Val: genVal(t)}}
			w.Pick = rapid.IntRange(0, 3).Draw(t, label+"pick")
		default:
			w.Updates = []Upd{{Path: genElems(t, 1, 2, false), Val: genVal(t)}}
			w.Pick = rapid.IntRange(0, 3).Draw(t, label+"pick")
		}
		return w
	}
	for i := 0; i < 4; i++ {
		sc.Steps = append(sc.Steps, Step{Kind: "w", W: single("pre")})
	}
	for i := 0; i < nsubs; i++ {
		sc.Steps = append(sc.Steps, Step{Kind: "start", Sub: i})
	}
	sc.Steps = append(sc.Steps, Step{Kind: "drain"})
	rounds := rapid.IntRange(1, 3).Draw(t, "rounds")
	for r := 0; r < rounds; r++ {
		if rapid.IntRange(0, 3).Draw(t, "big") == 0 {
			// a big round: a backlog of many distinct leaves builds up behind a subscriber without
			// credit, some of it is taken, more distinct leaves arrive, then everything drains
			bulk := func(label string, start, n int) *WOp {
				return &WOp{Kind: "noti", T: rapid.IntRange(0, sc.Targets-1).Draw(t, label+"t"),
					Bulk: &Bulk{Start: start, N: n, V: int64(rapid.IntRange(0, 1).Draw(t, label+"v"))}}
			}
			// (a fifth of the big rounds: a backlog past a thousand entries, worked down to a fraction of its
			// peak without being emptied, then leaves that are still pending are written again)
			n1 := rapid.SampledFrom([]int{20, 33, 40, 65, 70, 130, 33, 65, 1030, 1100}).Draw(t, "big1n")
			if rapid.IntRange(0, 3).Draw(t, "primer") > 0 {
				// one update first: the sender takes it and blocks in Send, so that the whole burst queues up behind an
				// item in flight (the backlog model is exact only then)
				sc.Steps = append(sc.Steps, Step{Kind: "w", W: &WOp{Kind: "noti", T: rapid.IntRange(0, sc.Targets-1).Draw(t, "primert"),
					Updates: []Upd{{Path: []gn.Elem{{Name: "primer"}}, Val: gn.Val{Kind: "int", I: int64(r)}}}}})
			}
			sc.Steps = append(sc.Steps, Step{Kind: "w", W: bulk("big1", 0, n1)})
			credits := []int{1, 3, 10, 33}
			if n1 > 200 {
				credits = []int{1, 33, n1/2 + 1, n1*3/4 + 6, n1*3/4 + 6, n1 - 40}
			}
			sc.Steps = append(sc.Steps, Step{Kind: "grant", Sub: rapid.IntRange(0, nsubs-1).Draw(t, "bgsub"), N: rapid.SampledFrom(credits).Draw(t, "bgn")})
			starts := []int{0, 50, 200}
			if n1 > 200 {
				starts = []int{0, n1 - 30, n1 - 30, n1 - 100}
			}
			sc.Steps = append(sc.Steps, Step{Kind: "w", W: bulk("big2", rapid.SampledFrom(starts).Draw(t, "big2start"), rapid.SampledFrom([]int{20, 33, 40, 65, 70, 130}).Draw(t, "big2n"))})
			if rapid.Bool().Draw(t, "bigdel") {
				sc.Steps = append(sc.Steps, Step{Kind: "w", W: &WOp{Kind: "noti", T: rapid.IntRange(0, sc.Targets-1).Draw(t, "bdt"), Deletes: [][]gn.Elem{{{Name: "*"}}}, Back: rapid.IntRange(0, 2).Draw(t, "bdback")}})
			}
			sc.Steps = append(sc.Steps, Step{Kind: "drain"})
			continue
		}
		n := rapid.IntRange(2, 9).Draw(t, "burst")
		for i := 0; i < n; i++ {
			sc.Steps = append(sc.Steps, Step{Kind: "w", W: single("b")})
			if rapid.IntRange(0, 7).Draw(t, "midgrant") == 0 {
				sc.Steps = append(sc.Steps, Step{Kind: "grant", Sub: rapid.IntRange(0, nsubs-1).Draw(t, "gsub"), N: rapid.IntRange(1, 2).Draw(t, "gn")})
			}
		}
		switch rapid.IntRange(0, 4).Draw(t, "after") {
		case 0:
			sc.Steps = append(sc.Steps, Step{Kind: "sleep", N: rapid.SampledFrom([]int{1, 5, 9, 10, 11, 29, 30, 31, 59, 60, 61}).Draw(t, "secs")})
		case 1:
			sc.Steps = append(sc.Steps, Step{Kind: "check"})
		case 2:
			sc.Steps = append(sc.Steps, Step{Kind: "grant", Sub: rapid.IntRange(0, nsubs-1).Draw(t, "gsub2"), N: rapid.IntRange(1, 3).Draw(t, "gn2")})
		}
		sc.Steps = append(sc.Steps, Step{Kind: "drain"})
	}
	_ = pr
	return sc
}

// genFlood draws what an impatient POLL client does while it is not reading: poll triggers, now and then letting a send pass.
func genFlood(t *rapid.T) []int {
	k := rapid.SampledFrom([]int{1, 2, 2, 3, 3, 5, 8, 17, 40, 300}).Draw(t, "flood-polls")
	var out []int
	for i := 0; i < k; i++ {
		out = append(out, 0)
		if i < 12 && rapid.IntRange(0, 5).Draw(t, "flood-grant") == 0 {
			out = append(out, rapid.IntRange(1, 2).Draw(t, "flood-credits"))
		}
	}
	return out
}

// genPollFloodScenario is the second structured C08 shape: a POLL client that stops reading and keeps
// polling (the handler goes on reading requests and walking the cache whatever the send side does), next to
// other subscribers; then sleeps around the send timeout and drains.
func genPollFloodScenario(t *rapid.T) *Scenario {
	sc := &Scenario{Targets: rapid.IntRange(1, 2).Draw(t, "targets")}
	sc.EventDriven = rapid.Bool().Draw(t, "eventdriven")
	sc.TimeoutSec = rapid.SampledFrom([]int{0, 10, 10, 30}).Draw(t, "timeout")
	nsubs := rapid.IntRange(1, 3).Draw(t, "nsubs")
	for i := 0; i < nsubs; i++ {
		sp := SubSpec{Mode: "poll", Target: rapid.IntRange(-1, sc.Targets-1).Draw(t, "target"), Gated: true}
		if i > 0 {
			sp.Mode = rapid.SampledFrom([]string{"poll", "stream", "stream"}).Draw(t, "mode")
			sp.Gated = rapid.Bool().Draw(t, "gated")
		}
		sp.UpdatesOnly = rapid.IntRange(0, 5).Draw(t, "updonly") == 0
		sp.Deadline = rapid.IntRange(0, 3).Draw(t, "deadline") == 0
		np := rapid.IntRange(1, 2).Draw(t, "npaths")
		for j := 0; j < np; j++ {
			sp.Paths = append(sp.Paths, PathSpec{Elems: genElems(t, 0, 1, true)})
		}
		sc.Subs = append(sc.Subs, sp)
	}
	single := func(label string) *WOp {
		w := &WOp{Kind: "noti", T: rapid.IntRange(0, sc.Targets-1).Draw(t, label+"t")}
		switch rapid.IntRange(0, 9).Draw(t, label+"shape") {
		case 0:
			w.Deletes = [][]gn.Elem{genElems(t, 1, 2, true)}
			w.Pick = rapid.IntRange(0, 3).Draw(t, label+"pick")
		case 1:
			w.Bulk = &Bulk{Start: 0, N: rapid.SampledFrom([]int{5, 20, 33, 70}).Draw(t, label+"n"), V: int64(rapid.IntRange(0, 1).Draw(t, label+"v"))}
		case 2:
			w.Kind = rapid.SampledFrom([]string{"sync", "updmeta", "reset"}).Draw(t, label+"kind")
		default:
			w.Updates = []Upd{{Path: genElems(t, 1, 2, false), Val: genVal(t)}}
			w.Pick = rapid.IntRange(0, 3).Draw(t, label+"pick")
		}
		return w
	}
	for i, n := 0, rapid.IntRange(1, 6).Draw(t, "preload"); i < n; i++ {
		sc.Steps = append(sc.Steps, Step{Kind: "w", W: single("pre")})
	}
	for i := 0; i < nsubs; i++ {
		sc.Steps = append(sc.Steps, Step{Kind: "start", Sub: i})
	}
	sc.Steps = append(sc.Steps, Step{Kind: "drain"})
	rounds := rapid.IntRange(1, 3).Draw(t, "rounds")
	for r := 0; r < rounds; r++ {
		for i, n := 0, rapid.IntRange(0, 3).Draw(t, "writes"); i < n; i++ {
			sc.Steps = append(sc.Steps, Step{Kind: "w", W: single("w")})
		}
		if rapid.Bool().Draw(t, "drain-first") {
			sc.Steps = append(sc.Steps, Step{Kind: "drain"})
		}
		sc.Steps = append(sc.Steps, Step{Kind: "pollflood", Sub: rapid.IntRange(0, nsubs-1).Draw(t, "fsub"), Flood: genFlood(t), N: rapid.SampledFrom([]int{0, 0, 0, 1}).Draw(t, "stay-away")})
		switch rapid.IntRange(0, 3).Draw(t, "after") {
		case 0:
			sc.Steps = append(sc.Steps, Step{Kind: "sleep", N: rapid.SampledFrom([]int{1, 9, 10, 11, 30, 60, 61}).Draw(t, "secs")})
		case 1:
			sc.Steps = append(sc.Steps, Step{Kind: "w", W: single("a")})
		}
		sc.Steps = append(sc.Steps, Step{Kind: "drain"})
	}
	return sc
}

func genScenario(prop string) func(t *rapid.T) *Scenario {
	pr := profiles[prop]
	return func(t *rapid.T) *Scenario {
		if prop == "C08" {
			switch shape := rapid.IntRange(0, 7).Draw(t, "structured"); {
			case shape == 2:
				richNames, fineScenario = false, false
				return genPollFloodScenario(t)
			case shape > 2:
				richNames = false
				fineScenario = rapid.IntRange(0, 9).Draw(t, "fine-scenario") == 4
				return genBurstScenario(t)
			}
		}
		richNames = rapid.IntRange(0, 2).Draw(t, "rich-names") == 0
		fineScenario = rapid.IntRange(0, 9).Draw(t, "fine-scenario") == 4
		viaScenario = pr.viaPct > 0 && rapid.IntRange(0, 99).Draw(t, "via-scenario") >= 100-pr.viaPct
		var tnames []string
		if rapid.IntRange(0, 5).Draw(t, "odd-target-names") == 0 {
			tnames = rapid.SampledFrom(oddTargetNames).Draw(t, "tnames")
		}
		sc := &Scenario{Targets: rapid.IntRange(pr.minTargets, pr.maxTargets).Draw(t, "targets")}
		sc.EventDriven = rapid.IntRange(0, 3).Draw(t, "eventdriven") > 0
		if pr.timeout {
			sc.TimeoutSec = rapid.SampledFrom([]int{0, 10, 10, 30}).Draw(t, "timeout")
		}
		users := 1
		if pr.acl || (pr.aclPct > 0 && rapid.IntRange(0, 99).Draw(t, "withacl") < pr.aclPct) {
			users = rapid.IntRange(1, 3).Draw(t, "users")
			acl := &ACLSpec{}
			for u := 0; u < users; u++ {
				row := make([]bool, sc.Targets)
				for i := range row {
					row[i] = rapid.IntRange(0, 2).Draw(t, "allow") > 0
				}
				acl.Allow = append(acl.Allow, row)
				acl.FailUser = append(acl.FailUser, rapid.IntRange(0, 7).Draw(t, "failuser") == 0)
				acl.FailKind = append(acl.FailKind, rapid.SampledFrom([]string{"", "", "status-unavailable", "status-denied", "wrapped-status", "status-ok", "canceled", "empty-text"}).Draw(t, "failkind"))
			}
			acl.Dynamic = rapid.IntRange(0, 3).Draw(t, "dynamic-acl") == 0
			sc.ACL = acl
		}
		sc.TNames = tnames
		sc.Subs = rapid.SliceOfN(rapid.Custom(genSub(pr, sc.Targets, users)), 1, pr.maxSubs).Draw(t, "subs")
		wop := rapid.Custom(genWOp(pr, sc.Targets))
		for i := 0; i < pr.preload; i++ {
			sc.Steps = append(sc.Steps, Step{Kind: "w", W: wop.Draw(t, "preload")})
		}
		sc.Steps = append(sc.Steps, rapid.SliceOfN(rapid.Custom(genStep(pr, sc.Targets, len(sc.Subs))), 3, pr.maxSteps).Draw(t, "steps")...)
		return sc
	}
}

// genHugeScenario: a target with more leaves than any internal bound one might think of (65536, ...), one or two
// subscribers that stall at once, writers that need the tree's write lock meanwhile (new leaf, delete, Reset).
// Few steps: every step of such a case costs a walk over the whole target.
func genHugeScenario(t *rapid.T) *Scenario {
	sc := &Scenario{Targets: 1, TimeoutSec: 10}
	sc.EventDriven = rapid.Bool().Draw(t, "eventdriven")
	n := rapid.SampledFrom([]int{65530, 65537, 70000}).Draw(t, "leaves")
	sc.Steps = append(sc.Steps, Step{Kind: "w", W: &WOp{Kind: "noti", T: 0, Bulk: &Bulk{Start: 0, N: n, V: 1}}})
	nsubs := rapid.IntRange(1, 2).Draw(t, "nsubs")
	for i := 0; i < nsubs; i++ {
		// (ONCE and POLL too: their walk queues the whole target behind a sender that is blocked from the first response on)
		mode := "stream"
		if i == 0 {
			mode = rapid.SampledFrom([]string{"stream", "once", "poll"}).Draw(t, "mode")
		}
		sc.Subs = append(sc.Subs, SubSpec{Mode: mode, Target: rapid.IntRange(-1, 0).Draw(t, "target"), Gated: i == 0 || rapid.Bool().Draw(t, "gated"), Paths: []PathSpec{{}}})
		sc.Steps = append(sc.Steps, Step{Kind: "start", Sub: i})
	}
	switch rapid.IntRange(0, 2).Draw(t, "writer") {
	case 0:
		sc.Steps = append(sc.Steps, Step{Kind: "w", W: &WOp{Kind: "noti", T: 0, Updates: []Upd{{Path: []gn.Elem{{Name: "new"}}, Val: gn.Val{Kind: "int", I: 1}}}}})
	case 1:
		sc.Steps = append(sc.Steps, Step{Kind: "w", W: &WOp{Kind: "noti", T: 0, Deletes: [][]gn.Elem{{{Name: "k7"}}}}})
	default:
		sc.Steps = append(sc.Steps, Step{Kind: "w", W: &WOp{Kind: "reset", T: 0}})
	}
	sc.Steps = append(sc.Steps, Step{Kind: "grant", Sub: 0, N: rapid.SampledFrom([]int{1, 50}).Draw(t, "credits")})
	sc.Steps = append(sc.Steps, Step{Kind: "sleep", N: rapid.SampledFrom([]int{1, 11}).Draw(t, "secs")})
	return sc
}

// genHugeACLScenario: an all-targets subscriber that is denied a target holding 10000-70000 leaves (counts past any
// "every N-th" bookkeeping one might think of) and allowed a small one: the snapshot and every later refresh of the
// big target must be withheld completely, the small target delivered completely.
func genHugeACLScenario(t *rapid.T) *Scenario {
	sc := &Scenario{Targets: 2, TimeoutSec: 10}
	sc.EventDriven = rapid.Bool().Draw(t, "eventdriven")
	big := rapid.IntRange(0, 1).Draw(t, "denied-target")
	allow := []bool{true, true}
	allow[big] = false
	sc.ACL = &ACLSpec{Allow: [][]bool{allow}, FailUser: []bool{false}, FailKind: []string{""}}
	n := rapid.SampledFrom([]int{10000, 10240, 20001, 32768, 65537}).Draw(t, "leaves")
	sc.Steps = append(sc.Steps, Step{Kind: "w", W: &WOp{Kind: "noti", T: big, Bulk: &Bulk{Start: 0, N: n, V: 1}}})
	sc.Steps = append(sc.Steps, Step{Kind: "w", W: &WOp{Kind: "noti", T: 1 - big, Bulk: &Bulk{Start: 0, N: rapid.IntRange(1, 5).Draw(t, "small"), V: 1}}})
	mode := rapid.SampledFrom([]string{"stream", "stream", "once", "poll"}).Draw(t, "mode")
	sc.Subs = append(sc.Subs, SubSpec{Mode: mode, Target: -1, Paths: []PathSpec{{}}})
	sc.Steps = append(sc.Steps, Step{Kind: "start", Sub: 0}, Step{Kind: "drain"})
	for i, k := 0, rapid.IntRange(1, 2).Draw(t, "refreshes"); i < k; i++ {
		// the whole big target again with another value (every leaf is fed), then something for the small one
		sc.Steps = append(sc.Steps, Step{Kind: "w", W: &WOp{Kind: "noti", T: big, Bulk: &Bulk{Start: 0, N: n, V: int64(2 + i)}}})
		sc.Steps = append(sc.Steps, Step{Kind: "w", W: &WOp{Kind: "noti", T: 1 - big, Updates: []Upd{{Path: []gn.Elem{{Name: "fresh"}}, Val: gn.Val{Kind: "int", I: int64(i)}}}}})
		if mode == "poll" {
			sc.Steps = append(sc.Steps, Step{Kind: "poll", Sub: 0})
		}
		sc.Steps = append(sc.Steps, Step{Kind: "drain"})
	}
	if rapid.Bool().Draw(t, "delete-all") {
		sc.Steps = append(sc.Steps, Step{Kind: "w", W: &WOp{Kind: "noti", T: big, Deletes: [][]gn.Elem{{{Name: "*"}}}}}, Step{Kind: "drain"})
	}
	return sc
}

// genHugeOnceScenario: a ONCE / POLL subscriber whose reader is slower than the walk over a target of 9000-70000
// leaves (the whole answer queues up behind it), reads a few thousand responses, then reads freely; a second
// round for POLL. The cache does not change: every round is exactly the matching set, then one sync response.
func genHugeOnceScenario(t *rapid.T) *Scenario {
	sc := &Scenario{Targets: 1, TimeoutSec: 0}
	sc.EventDriven = rapid.Bool().Draw(t, "eventdriven")
	n := rapid.SampledFrom([]int{9000, 12000, 16385, 33000, 65537}).Draw(t, "leaves")
	sc.Steps = append(sc.Steps, Step{Kind: "w", W: &WOp{Kind: "noti", T: 0, Bulk: &Bulk{Start: 0, N: n, V: 1}}})
	mode := rapid.SampledFrom([]string{"once", "poll"}).Draw(t, "mode")
	sc.Subs = append(sc.Subs, SubSpec{Mode: mode, Target: rapid.IntRange(-1, 0).Draw(t, "target"), Gated: true, Paths: []PathSpec{{}}})
	sc.Steps = append(sc.Steps, Step{Kind: "start", Sub: 0})
	for i, k := 0, rapid.IntRange(1, 3).Draw(t, "sips"); i < k; i++ {
		sc.Steps = append(sc.Steps, Step{Kind: "grant", Sub: 0, N: rapid.SampledFrom([]int{1, 100, 4095, 4096, 4097, 5000, 8192, 9000}).Draw(t, "sip")})
	}
	sc.Steps = append(sc.Steps, Step{Kind: "free", Sub: 0}, Step{Kind: "drain"})
	if mode == "poll" {
		sc.Steps = append(sc.Steps, Step{Kind: "poll", Sub: 0}, Step{Kind: "drain"})
	}
	return sc
}
