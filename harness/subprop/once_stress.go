package subprop

import (
	"context"
	"fmt"
	"io"
	"runtime/debug"
	"sync"
	"sync/atomic"
	"testing"
	"testing/synctest"
	"time"

	"github.com/openconfig/gnmi/cache"
	pb "github.com/openconfig/gnmi/proto/gnmi"
	"github.com/openconfig/gnmi/subscribe"
	"google.golang.org/grpc/metadata"
	"google.golang.org/grpc/peer"
	"verif/harness/internal/gn"
	"verif/harness/internal/vstat"
)

// C05, part "stress": ONCE and POLL calls on the real scheduler while writers keep updating leaves the calls
// match - the half of the quantifier ("with or without concurrent writers") that the stepwise engine, whose
// steps run to quiescence, reaches only at its gates. One writer goroutine per hot leaf (each leaf sees its
// updates in one goroutine's program order, value = the update's serial number), a few leaves nobody touches,
// several client goroutines issuing ONCE calls / POLL rounds back to back. Oracles that hold under every
// schedule: every call/round carries every matching leaf at least once, a static leaf with its value, a hot
// leaf with a serial number between the last update completed before the request was issued and the last update
// started before its sync response arrived ("a value the leaf held during the call"); nothing that does not
// match; exactly one sync response per request, last; ONCE ends with success; every goroutine finishes
// (structural deadlock verdict by vstat.Watchdog, never a timeout).

type OnceStress struct {
	Seed    int64  `json:"seed"`
	Hot     int    `json:"hot"`     // hot leaves = writer goroutines
	Static  int    `json:"static"`  // leaves nobody updates
	Clients int    `json:"clients"` // client goroutines
	Calls   int    `json:"calls"`   // ONCE calls / POLL rounds per client
	Modes   string `json:"modes"`   // once | poll | mixed
	Path    string `json:"path"`    // all | hot (the subscription path: the whole target or the subtree of the hot leaves)
	GlogV   int    `json:"glog_v"`
	ACL     bool   `json:"acl,omitempty"` // the server is built WithACL (an ACL that admits everybody)
}

// admitAll is an access-control backend that admits every caller to every target.
type admitAll struct{}

func (admitAll) NewRPCACL(context.Context) (subscribe.RPCACL, error) { return admitAllRPC{}, nil }
func (admitAll) Check(string, string) bool                           { return true }

type admitAllRPC struct{}

func (admitAllRPC) Check(string) bool { return true }

func genOnceStress(seed int64) *OnceStress {
	r := uint64(seed)*2862933555777941757 + 3037000493
	next := func(n int) int { r = r*6364136223846793005 + 1442695040888963407; return int((r >> 33) % uint64(n)) }
	return &OnceStress{Seed: seed, Hot: 1 + next(8), Static: next(4), Clients: 1 + next(4), Calls: 20 + next(60),
		Modes: []string{"once", "poll", "mixed"}[next(3)], Path: []string{"all", "all", "hot"}[next(3)], GlogV: []int{0, 2, 2, 1, 3}[next(5)], ACL: next(3) == 0}
}

// chanStream is a pb.GNMI_SubscribeServer whose Send hands the response to the reading client goroutine.
type chanStream struct {
	ctx    context.Context
	cancel context.CancelFunc
	recvC  chan *pb.SubscribeRequest
	sendC  chan *pb.SubscribeResponse
}

func newChanStream(id int) *chanStream {
	ctx := peer.NewContext(context.Background(), &peer.Peer{Addr: addr{fmt.Sprintf("stress:%d", id)}})
	ctx, cancel := context.WithCancel(ctx)
	return &chanStream{ctx: ctx, cancel: cancel, recvC: make(chan *pb.SubscribeRequest, 4), sendC: make(chan *pb.SubscribeResponse, 16)}
}

func (s *chanStream) Context() context.Context     { return s.ctx }
func (s *chanStream) SetHeader(metadata.MD) error  { return nil }
func (s *chanStream) SendHeader(metadata.MD) error { return nil }
func (s *chanStream) SetTrailer(metadata.MD)       {}
func (s *chanStream) SendMsg(m interface{}) error  { return s.Send(m.(*pb.SubscribeResponse)) }
func (s *chanStream) RecvMsg(m interface{}) error  { return io.EOF }
func (s *chanStream) Send(r *pb.SubscribeResponse) error {
	select {
	case s.sendC <- r:
		return nil
	case <-s.ctx.Done():
		return s.ctx.Err()
	}
}
func (s *chanStream) Recv() (*pb.SubscribeRequest, error) {
	select {
	case r, ok := <-s.recvC:
		if !ok {
			return nil, io.EOF
		}
		return r, nil
	case <-s.ctx.Done():
		return nil, s.ctx.Err()
	}
}

type hotLeaf struct {
	started, done atomic.Int64 // serial numbers of the newest update begun / completed
}

func runOnceStress(t *testing.T, sc *OnceStress) (rounds int64, err error) {
	defer vstat.Watchdog(30*time.Second, 5*time.Second)()
	defer vstat.SetGlogV(sc.GlogV)()
	synctest.Test(t, func(t *testing.T) {
		defer func() {
			if r := recover(); r != nil {
				err = fmt.Errorf("panic: %v\n%s", r, trimStack(debug.Stack()))
			}
		}()
		c := cache.New([]string{"t0"})
		var sopts []subscribe.Option
		if sc.ACL {
			sopts = append(sopts, subscribe.WithACL(admitAll{}))
		}
		srv, serr := subscribe.NewServer(c, sopts...)
		if serr != nil {
			err = serr
			return
		}
		c.SetClient(srv.Update)
		upd := func(path []string, ts, v int64) error {
			var es []gn.Elem
			for _, p := range path {
				es = append(es, gn.Elem{Name: p})
			}
			return c.GnmiUpdate(&pb.Notification{Timestamp: ts, Prefix: &pb.Path{Target: "t0"}, Update: []*pb.Update{{Path: gn.Path("", "", es, false, 0), Val: gn.Val{Kind: "int", I: v}.TV()}}})
		}
		hot := make([]*hotLeaf, sc.Hot)
		for i := range hot {
			hot[i] = &hotLeaf{}
			if e := upd([]string{"hot", fmt.Sprintf("h%d", i)}, 1000, 0); e != nil {
				err = e
				return
			}
		}
		for i := 0; i < sc.Static; i++ {
			if e := upd([]string{"static", fmt.Sprintf("s%d", i)}, 1000, int64(100+i)); e != nil {
				err = e
				return
			}
		}
		var stop atomic.Bool
		var mu sync.Mutex
		var firstErr error
		fail := func(format string, a ...any) {
			mu.Lock()
			if firstErr == nil {
				firstErr = fmt.Errorf(format, a...)
			}
			mu.Unlock()
			stop.Store(true)
		}
		guard := func(who string) {
			if r := recover(); r != nil {
				fail("panic on the goroutine of %s: %v\n%s", who, r, trimStack(debug.Stack()))
			}
		}
		var writers, clients sync.WaitGroup
		for i := range hot {
			writers.Add(1)
			go func(i int) {
				defer writers.Done()
				defer guard("a writer")
				h := hot[i]
				for j := int64(1); !stop.Load() && j < 1_000_000; j++ {
					h.started.Store(j)
					if e := upd([]string{"hot", fmt.Sprintf("h%d", i)}, 1000+j, j); e != nil {
						fail("update %d of hot leaf %d (newer than everything stored, only this goroutine writes the leaf) was refused: %v", j, i, e)
						return
					}
					h.done.Store(j)
				}
			}(i)
		}
		var total atomic.Int64
		for ci := 0; ci < sc.Clients; ci++ {
			clients.Add(1)
			go func(ci int) {
				defer clients.Done()
				defer guard("a client")
				mode := sc.Modes
				if mode == "mixed" {
					mode = []string{"once", "poll"}[ci%2]
				}
				var elems []gn.Elem
				if sc.Path == "hot" {
					elems = []gn.Elem{{Name: "hot"}}
				}
				sl := &pb.SubscriptionList{Prefix: &pb.Path{Target: "t0"}, Subscription: []*pb.Subscription{{Path: gn.Path("", "", elems, false, 0)}}}
				// one round = from the request to its sync response
				readRound := func(st *chanStream, lo []int64, what string) bool {
					seenHot := make([]bool, sc.Hot)
					seenStatic := make([]bool, sc.Static)
					for {
						r, ok := <-st.sendC
						if !ok {
							fail("%s: the stream ended before the sync response", what)
							return false
						}
						if r.GetSyncResponse() {
							break
						}
						n := r.GetUpdate()
						if n == nil || len(n.Update) != 1 || len(n.Delete) != 0 {
							fail("%s: unexpected response %v", what, r)
							return false
						}
						k := append(gn.RefIndex(n.Prefix, false), gn.RefIndex(n.Update[0].Path, false)...)
						v := n.Update[0].GetVal().GetIntVal()
						var i int
						switch {
						case len(k) == 2 && k[0] == "hot":
							if _, e := fmt.Sscanf(k[1], "h%d", &i); e != nil || i >= sc.Hot {
								fail("%s: was sent %q which was never stored", what, k)
								return false
							}
							hi := hot[i].started.Load()
							if v < lo[i] || v > hi {
								fail("%s: hot leaf %d was returned with serial number %d; the last update completed before the request was issued is %d and the last one started by now is %d: not a value the leaf held during the call", what, i, v, lo[i], hi)
								return false
							}
							seenHot[i] = true
						case len(k) == 2 && k[0] == "static" && sc.Path == "all":
							if _, e := fmt.Sscanf(k[1], "s%d", &i); e != nil || i >= sc.Static || v != int64(100+i) {
								fail("%s: static leaf %q was returned with value %d", what, k, v)
								return false
							}
							seenStatic[i] = true
						default:
							fail("%s (path %s): was sent %q which does not match its path or was never stored", what, sc.Path, k)
							return false
						}
					}
					for i, s := range seenHot {
						if !s {
							fail("%s: hot leaf %d, which existed and matched for the whole call, was not returned before the sync response", what, i)
							return false
						}
					}
					if sc.Path == "all" {
						for i, s := range seenStatic {
							if !s {
								fail("%s: static leaf %d, which nobody touches, was not returned before the sync response", what, i)
								return false
							}
						}
					}
					total.Add(1)
					return true
				}
				snapshotLo := func() []int64 {
					lo := make([]int64, sc.Hot)
					for i := range hot {
						lo[i] = hot[i].done.Load()
					}
					return lo
				}
				if mode == "once" {
					sl.Mode = pb.SubscriptionList_ONCE
					for k := 0; k < sc.Calls && !stop.Load(); k++ {
						st := newChanStream(ci*1000 + k)
						lo := snapshotLo()
						st.recvC <- &pb.SubscribeRequest{Request: &pb.SubscribeRequest_Subscribe{Subscribe: sl}}
						ret := make(chan error, 1)
						go func() {
							defer guard("a Subscribe handler")
							e := srv.Subscribe(st)
							close(st.sendC)
							ret <- e
						}()
						what := fmt.Sprintf("client %d ONCE call %d", ci, k)
						if !readRound(st, lo, what) {
							st.cancel()
							return
						}
						if r, ok := <-st.sendC; ok {
							fail("%s: response %v after the sync response", what, r)
							st.cancel()
							return
						}
						if e := <-ret; e != nil {
							fail("%s ended with %v, want success", what, e)
							return
						}
						st.cancel()
					}
					return
				}
				sl.Mode = pb.SubscriptionList_POLL
				st := newChanStream(ci * 1000)
				defer st.cancel()
				ret := make(chan error, 1)
				go func() {
					defer guard("a Subscribe handler")
					ret <- srv.Subscribe(st)
				}()
				lo := snapshotLo()
				st.recvC <- &pb.SubscribeRequest{Request: &pb.SubscribeRequest_Subscribe{Subscribe: sl}}
				for k := 0; k < sc.Calls && !stop.Load(); k++ {
					if !readRound(st, lo, fmt.Sprintf("client %d POLL round %d", ci, k)) {
						return
					}
					lo = snapshotLo()
					st.recvC <- &pb.SubscribeRequest{Request: &pb.SubscribeRequest_Poll{Poll: &pb.Poll{}}}
				}
				if !stop.Load() && !readRound(st, lo, fmt.Sprintf("client %d POLL last round", ci)) {
					return
				}
				close(st.recvC)
				select {
				case e := <-ret:
					if e != nil {
						fail("client %d: POLL ended with %v after the client closed its side, want success", ci, e)
					}
				case <-st.ctx.Done():
				}
			}(ci)
		}
		clients.Wait()
		stop.Store(true)
		writers.Wait()
		synctest.Wait()
		rounds = total.Load()
		mu.Lock()
		err = firstErr
		mu.Unlock()
	})
	return rounds, err
}
