package e2e

import (
	"fmt"

	"pgregory.net/rapid"
	"verif/harness/internal/gn"
)

// Generators of the "slow" and "break" parts: one target (dev0) whose script is built in phases,
// watched WHILE it plays by client-library observers that are slow for a while (bursts) or attach
// around the instant the target's stream breaks.

type flowParams struct {
	profile  string // slow | break | resub
	maxFill  int    // largest bulk state (leaves) a case may give the target
	maxStorm int    // most observers attaching around one break
}

type flowGen struct {
	t      *rapid.T
	p      flowParams
	g      *tgen
	obs    []Observer
	early  []int // observers subscribed from the start
	breaks int
	conn   bool         // the target has its address for itself: closing the transport breaks only its stream
	narrow map[int]bool // observers whose client query gets paths (drawn when the scripts are complete)
	recon  []int        // reconnecting observers
	rt     bool         // some break is a silence: the target needs a receive timeout
}

func (f *flowGen) scope() int {
	if rapid.IntRange(0, 3).Draw(f.t, "scope") == 0 {
		return -1
	}
	return 0
}

// newValue: a value the target has not said before, of a form that Pad lengthens (from a target that speaks the old
// value encoding mostly a JSON string literal or BYTES payload in Update.value).
func (f *flowGen) newValue(prefix string) gn.Val {
	return f.g.distinct(prefix, true)
}

// burst: the early slow observers stop reading (their handler blocks on the tick), the target
// sends enough bytes to fill what gRPC buffers between the collector and them, then sends its
// containers, groups and leaves again and again: the collector has to coalesce.
func (f *flowGen) burst() {
	t, g := f.t, f.g
	var pausers []int
	for _, i := range f.early {
		if rapid.IntRange(0, 3).Draw(t, "pauses") > 0 {
			pausers = append(pausers, i)
		}
	}
	g.serial++
	g.emit(Op{Kind: "update", Path: []gn.Elem{{Name: "tick"}}, Val: gn.Val{Kind: "int", I: int64(g.serial)}})
	from := len(g.ops)
	for _, i := range pausers {
		g.emit(Op{Kind: "await", Obs: i, Event: "pause", N: len(f.obs[i].Pauses) + 1})
	}
	n := rapid.SampledFrom([]int{0, 10, 20, 20, 40}).Draw(t, "bulk")
	pad := rapid.SampledFrom([]int{2 << 10, 16 << 10, 16 << 10, 32 << 10}).Draw(t, "pad")
	w := rapid.IntRange(1, 4).Draw(t, "bulkleaves")
	for j := 0; j < n; j++ {
		g.emit(Op{Kind: "update", Path: []gn.Elem{{Name: "bulk"}, {Name: "b", Keys: map[string]string{"id": fmt.Sprint(j % w)}}, {Name: "data"}}, Val: f.newValue("b"), Pad: pad})
	}
	// a hot leaf: one plain leaf of the device's state changes in every round (its last change is what a subscriber
	// that was behind must end up with)
	hot := ""
	if ks := g.plainKeys(); len(ks) > 0 && rapid.IntRange(0, 3).Draw(t, "hot") > 0 {
		hot = ks[rapid.IntRange(0, len(ks)-1).Draw(t, "hotwhich")]
	}
	for r := rapid.IntRange(2, 4).Draw(t, "rounds"); r > 0; r-- {
		if hot != "" {
			g.rewrite(hot, g.distinct("h", false))
		}
		for i, k := range g.containers() {
			if i == 0 || rapid.IntRange(0, 3).Draw(t, "around") > 0 {
				g.resendAtomic(k)
			}
		}
		if len(g.groups) > 0 && rapid.Bool().Draw(t, "ground") {
			g.group()
		}
		for x := rapid.IntRange(0, 2).Draw(t, "steps"); x > 0; x-- {
			g.step()
		}
	}
	until := len(g.ops)
	for _, i := range pausers {
		u := until
		if rapid.IntRange(0, 3).Draw(t, "early") == 0 {
			u = rapid.IntRange(from, until).Draw(t, "until")
		}
		f.obs[i].Pauses = append(f.obs[i].Pauses, Pause{From: from, Until: u, SleepMs: rapid.SampledFrom([]int{0, 0, 10, 40}).Draw(t, "sleep")})
	}
	if n > 0 && rapid.Bool().Draw(t, "dropbulk") {
		g.emit(Op{Kind: "delete", Path: []gn.Elem{{Name: "bulk"}}})
	}
}

// breakPhase: the target's stream ends; new observers attach before / at / after that instant.
func (f *flowGen) breakPhase() {
	t, g := f.t, f.g
	f.breaks++
	// who ends the stream: the target (a status, the transport) or the collector (asked to through its
	// Collector service, or giving up a target that went quiet)
	o := Op{Kind: "break", Via: rapid.SampledFrom([]string{"error", "error", "conn", "conn", "rpc", "rpc", "silence", "silence"}).Draw(t, "via")}
	if o.Via == "conn" && !f.conn {
		o.Via = "error"
	}
	if o.Via == "error" {
		o.Code = rapid.SampledFrom([]string{"", "", "", "canceled", "internal", "deadline", "eof"}).Draw(t, "code")
	}
	if o.Via == "silence" {
		f.rt = true
	}
	// whoever ended it: the device may come back without some of what it had
	o.LoseMod = rapid.SampledFrom([]int{0, 1, 2, 2, 2, 3, 3, 5}).Draw(t, "losemod")
	o.LoseRem = rapid.IntRange(0, 4).Draw(t, "loserem")
	attach := func(start, maxDelay int) int {
		ob := Observer{Scope: f.scope(), Clock: 0, Start: start, Slow: rapid.IntRange(0, 4).Draw(t, "slowlate") == 0}
		if maxDelay > 0 {
			ob.DelayUs = rapid.IntRange(0, maxDelay).Draw(t, "delay")
		}
		f.obs = append(f.obs, ob)
		if rapid.IntRange(0, 2).Draw(t, "narrowlate") == 0 {
			f.narrow[len(f.obs)-1] = true
			f.obs[len(f.obs)-1].OnceFirst = rapid.IntRange(0, 2).Draw(t, "oncefirst") == 0
		}
		return len(f.obs) - 1
	}
	if rapid.IntRange(0, 4).Draw(t, "aimed") > 0 {
		// causal aim: an observer subscribes when the target reaches this point, and the stream
		// breaks as soon as that observer got somewhere (e.g. its first update: the collector is
		// probably still walking its cache for it)
		ev := rapid.SampledFrom([]string{"first", "first", "first", "first", "dialed", "start", "sync"}).Draw(t, "event")
		if rapid.IntRange(0, 5).Draw(t, "settle") > 0 {
			// first let the collector take in what was sent so far (an early observer has seen a tick
			// sent now): the break then reaches it as fast as the wire allows, not behind a backlog
			g.serial++
			g.emit(Op{Kind: "update", Path: []gn.Elem{{Name: "tick"}}, Val: gn.Val{Kind: "int", I: int64(g.serial)}})
			g.emit(Op{Kind: "await", Obs: f.early[0], Event: "tick", N: g.serial})
		}
		g.emit(Op{Kind: "await", Obs: len(f.obs), Event: ev})
		attach(len(g.ops), 0)
	}
	b := len(g.ops) // index of the break op: it has started when the position is b+1
	for s := rapid.IntRange(0, f.p.maxStorm).Draw(t, "storm"); s > 0; s-- {
		maxDelay := 4000
		if rapid.IntRange(0, 4).Draw(t, "longdelay") == 0 {
			maxDelay = 1200000 // somewhere inside the disconnected interval
		}
		attach(b+rapid.IntRange(0, 2).Draw(t, "when"), maxDelay)
	}
	g.emit(o)
	for x := rapid.IntRange(0, 3).Draw(t, "after"); x > 0; x-- {
		g.step()
	}
}

// subjects: observers whose client.Query value is used more than once - a ONCE first, and/or a
// client.ReconnectClient that loses its transport to the collector and subscribes again - mostly with query paths.
func (f *flowGen) subjects() {
	t := f.t
	for n := rapid.IntRange(1, 3).Draw(t, "subjects"); n > 0; n-- {
		ob := Observer{Scope: f.scope(), Clock: 0, Slow: rapid.IntRange(0, 5).Draw(t, "slowsubj") == 0}
		if rapid.Bool().Draw(t, "subjlate") {
			ob.Start = len(f.g.ops) // the collector has something to walk for it
			ob.DelayUs = rapid.IntRange(0, 4000).Draw(t, "subjdelay")
		}
		ob.Reconnect = rapid.IntRange(0, 3).Draw(t, "reconnect") > 0
		ob.OnceFirst = rapid.IntRange(0, 2).Draw(t, "oncefirst") == 0
		f.obs = append(f.obs, ob)
		i := len(f.obs) - 1
		f.narrow[i] = rapid.IntRange(0, 4).Draw(t, "narrowsubj") > 0
		if ob.Reconnect {
			f.recon = append(f.recon, i)
		}
	}
}

// cutPhase: a reconnecting observer loses its transport to the collector; the target goes on (the observer
// misses that), waits - bounded - until the library has subscribed again, and goes on again.
func (f *flowGen) cutPhase() {
	t, g := f.t, f.g
	i := f.recon[rapid.IntRange(0, len(f.recon)-1).Draw(t, "cutwho")]
	if len(f.obs[i].Cuts) == 0 {
		g.emit(Op{Kind: "await", Obs: i, Event: rapid.SampledFrom([]string{"sync", "sync", "first", "dialed"}).Draw(t, "cutwhen")})
	}
	f.obs[i].Cuts = append(f.obs[i].Cuts, len(g.ops))
	for x := rapid.IntRange(0, 3).Draw(t, "missed"); x > 0; x-- {
		g.step()
	}
	if rapid.IntRange(0, 5).Draw(t, "waitresub") > 0 {
		g.emit(Op{Kind: "await", Obs: i, Event: "resub", N: len(f.obs[i].Cuts)})
	}
	for x := rapid.IntRange(1, 4).Draw(t, "tracked"); x > 0; x-- {
		g.step()
	}
}

func genFlowScenario(t *rapid.T, p flowParams) *Scenario {
	sc := &Scenario{Servers: rapid.IntRange(1, 2).Draw(t, "servers"), Requests: rapid.IntRange(1, 2).Draw(t, "requests"), Subtree: rapid.IntRange(0, 5).Draw(t, "subtree")}
	f := &flowGen{t: t, p: p, conn: true, narrow: map[int]bool{}}
	tg := Target{Name: "dev0", Server: rapid.IntRange(0, sc.Servers-1).Draw(t, "server"), Request: rapid.IntRange(0, sc.Requests-1).Draw(t, "request")}
	var others []Target
	if rapid.IntRange(0, 3).Draw(t, "second") == 0 {
		o := genTarget(t, 1, 2, sc.Servers, sc.Requests)
		if o.Server == tg.Server {
			f.conn = false
		}
		others = append(others, o)
	}
	f.g = newTgen(t, tg.Name, peersOf(targetNames(1+len(others)), 0))
	g := f.g
	if p.profile == "slow" && g.legacy == 0 && rapid.IntRange(0, 3).Draw(t, "legacyslow") == 0 {
		// the slow part is where legacy values meet coalescing: somewhat more of its devices speak the old encoding
		g.legacy = rapid.SampledFrom([]int{60, 85, 100}).Draw(t, "legacyshare")
	}
	// observers subscribed before the target says anything
	slowOdds := 1
	if p.profile == "break" {
		slowOdds = 3
	}
	f.obs = append(f.obs, Observer{Scope: f.scope(), Slow: rapid.IntRange(0, slowOdds*4).Draw(t, "slow0") < 4})
	f.early = append(f.early, 0)
	if rapid.IntRange(0, 2).Draw(t, "secondobs") == 0 {
		f.obs = append(f.obs, Observer{Scope: f.scope(), Slow: rapid.Bool().Draw(t, "slow1")})
		f.early = append(f.early, 1)
	}
	// the device's initial state
	pre := rapid.IntRange(2, 6).Draw(t, "pre")
	syncAt := rapid.IntRange(0, pre).Draw(t, "syncat")
	for j := 0; j < pre; j++ {
		if j == syncAt {
			g.emit(Op{Kind: "sync"})
		}
		g.step()
	}
	for want, tries := rapid.IntRange(1, 3).Draw(t, "containers"), 0; want > 0 && tries < 8; tries++ {
		if g.atomic() {
			want--
		}
	}
	if rapid.Bool().Draw(t, "pregroup") {
		g.group()
	}
	fills := []int{0, 0, 0, 40, 300}
	if p.profile == "resub" && rapid.Bool().Draw(t, "subjearly") {
		f.subjects()
	}
	if p.profile == "break" {
		fills = []int{0, 300, p.maxFill / 2, p.maxFill, p.maxFill, p.maxFill}
	}
	if n := rapid.SampledFrom(fills).Draw(t, "fill"); n > 0 {
		g.emit(Op{Kind: "fill", N: n, Enc: g.fillEnc()})
	}
	if syncAt >= pre {
		g.emit(Op{Kind: "sync"})
	}
	for _, i := range f.early {
		g.emit(Op{Kind: "await", Obs: i, Event: "sync"})
	}
	if p.profile == "resub" && len(f.obs) == len(f.early) {
		f.subjects()
	}
	for ph := rapid.IntRange(1, 3).Draw(t, "phases"); ph > 0; ph-- {
		k := rapid.IntRange(0, 9).Draw(t, "phase")
		switch {
		case p.profile == "resub" && len(f.recon) > 0 && k < 7:
			f.cutPhase()
		case p.profile == "resub" && k < 8 && f.breaks < 1:
			f.breakPhase()
		case p.profile == "resub":
			for x := rapid.IntRange(1, 4).Draw(t, "plain"); x > 0; x-- {
				g.step()
			}
		case p.profile == "break" && f.breaks == 0 && ph == 1:
			f.breakPhase()
		case p.profile == "slow" && k < 7, p.profile == "break" && k < 2:
			f.burst()
		case k < 8 && f.breaks < 2:
			f.breakPhase()
		default:
			for x := rapid.IntRange(1, 4).Draw(t, "plain"); x > 0; x-- {
				g.step()
			}
		}
	}
	tg.Ops, tg.Legacy = g.ops, g.legacy
	if f.rt || (p.profile == "break" && rapid.IntRange(0, 7).Draw(t, "rtanyway") == 0) {
		tg.RecvTimeoutMs = rapid.SampledFrom([]int{500, 800}).Draw(t, "recvtimeout")
	}
	sc.Targets = append([]Target{tg}, others...)
	// the scripts are complete: now it is known where query paths may point
	for i := range f.obs {
		if f.narrow[i] {
			f.obs[i].Queries = newQueryGen(sc.Targets, f.obs[i].Scope).paths(t)
		}
	}
	sc.Observers = f.obs
	sc.Reuse = genReuse(t, sc.Targets)
	return sc
}

// ---- the "quiet" part: targets that have nothing to say for a long REAL time -----------------------------------
//
// Every other part's cases live for a few seconds, and the collector they run refreshes its metadata leaves five
// times a second: no stream is ever idle. Here the collector runs the way it does by default (no periodic
// metadata), the observers are plain applications - client-library STREAM subscriptions dialled by the library
// itself (client/gnmi.New) with a short Query.Timeout -, the targets report their state, say nothing for 35-45 s
// and then change leaves. The oracle is the one of every observer: after quiescence its view equals the targets'
// final state, and a subscription that ended although nobody cancelled it is a violation (it misses the change).
// Nothing in gRPC's, the collector's or the client's defaults gives an idle stream up (no keepalive on either
// side, idle/age limits infinite), so the wait decides nothing; how long a stream really was idle is a label.

var quietMin = 35000 // ms; flag -c01.quietmin (harness self-tests use a short one)

func genQuietScenario(t *rapid.T) *Scenario {
	sc := &Scenario{Servers: rapid.IntRange(1, 2).Draw(t, "servers"), Requests: rapid.IntRange(1, 2).Draw(t, "requests"), Subtree: rapid.IntRange(0, 5).Draw(t, "subtree"), NoMeta: true}
	n := rapid.IntRange(1, 2).Draw(t, "ntargets")
	names := targetNames(n)
	quiet := rapid.IntRange(quietMin, quietMin+10000).Draw(t, "quietms")
	for i := rapid.IntRange(2, 3).Draw(t, "nobs"); i > 0; i-- {
		sc.Observers = append(sc.Observers, Observer{Scope: rapid.IntRange(-1, n-1).Draw(t, "scope"), Clock: 0, Library: true,
			TimeoutMs: rapid.SampledFrom([]int{2000, 5000}).Draw(t, "timeout")})
	}
	narrow := map[int]bool{}
	for i := range sc.Observers {
		narrow[i] = rapid.IntRange(0, 3).Draw(t, "narrow") == 0
	}
	for i := 0; i < n; i++ {
		tg := Target{Name: names[i], Server: rapid.IntRange(0, sc.Servers-1).Draw(t, "server"), Request: rapid.IntRange(0, sc.Requests-1).Draw(t, "request")}
		g := newTgen(t, tg.Name, peersOf(names, i))
		// the device's state, complete (sync) before it goes quiet
		pre := rapid.IntRange(2, 6).Draw(t, "pre")
		syncAt := rapid.IntRange(0, pre).Draw(t, "syncat")
		for j := 0; j < pre; j++ {
			if j == syncAt {
				g.emit(Op{Kind: "sync"})
			}
			g.step()
		}
		if rapid.Bool().Draw(t, "container") {
			g.atomic()
		}
		if syncAt >= pre {
			g.emit(Op{Kind: "sync"})
		}
		// every observer that watches this target has its walk behind it (bounded: a machine too busy for that
		// makes the idle time shorter, nothing else)
		for j, ob := range sc.Observers {
			if ob.Scope < 0 || ob.Scope == i {
				g.emit(Op{Kind: "await", Obs: j, Event: "sync", MaxMs: 10000})
			}
		}
		g.emit(Op{Kind: "quiet", N: quiet})
		// then its state changes: leaves overwritten, added, deleted
		for before, tries := len(g.ops), 0; len(g.ops) == before && tries < 8; tries++ {
			g.update()
		}
		for x := rapid.IntRange(1, 5).Draw(t, "post"); x > 0; x-- {
			g.step()
		}
		tg.Ops, tg.Legacy = g.ops, g.legacy
		sc.Targets = append(sc.Targets, tg)
	}
	for i := range sc.Observers {
		if narrow[i] {
			sc.Observers[i].Queries = newQueryGen(sc.Targets, sc.Observers[i].Scope).paths(t)
		}
	}
	sc.Reuse = genReuse(t, sc.Targets)
	return sc
}
