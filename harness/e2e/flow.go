package e2e

import (
	"context"
	"crypto/tls"
	"fmt"
	"math"
	"net"
	"reflect"
	"strings"
	"time"

	"github.com/openconfig/gnmi/client"
	gclient "github.com/openconfig/gnmi/client/gnmi"
	"google.golang.org/grpc"
	"google.golang.org/grpc/credentials"
	"verif/harness/internal/gn"
)

// Observers that live WHILE the scripts play: client-library STREAM subscriptions through the
// collector that start at scripted positions, may stop reading for a while (slow consumers:
// the collector has to coalesce for them) and are judged like every other view: once every
// script has been sent and the observer has caught up (sentinel of every target in scope and
// the sync marker), its cache equals the targets' final state. Timing decides which windows are
// hit, never the verdict.

// Two client types around the real gNMI client implementation (client/gnmi), differing from the
// registered "gnmi" type only in how the connection is dialled:
// slowType has static 64KB HTTP/2 flow-control windows (no BDP growth), so that a handler that
// blocks stops the collector's sender after a bounded amount of data; plainType has the default
// windows. Both tell the case's hub when the connection stands (the subscribe request is what the
// library sends next), which lets a script aim an event at the instant a subscription registers.
const (
	slowType  = "gnmi_static_window"
	plainType = "gnmi_default_window"
)

type obsKey struct{}

func dialer(static bool) client.InitImpl {
	return func(ctx context.Context, d client.Destination) (client.Impl, error) {
		dctx, cancel := context.WithTimeout(ctx, d.Timeout)
		defer cancel()
		opts := []grpc.DialOption{grpc.WithBlock(), grpc.WithDefaultCallOptions(grpc.MaxCallRecvMsgSize(math.MaxInt32)), grpc.WithTransportCredentials(credentials.NewTLS(d.TLS))}
		if static {
			opts = append(opts, grpc.WithInitialWindowSize(65535), grpc.WithInitialConnWindowSize(65535))
		}
		o, _ := ctx.Value(obsKey{}).(*obsState)
		if o != nil {
			// the harness owns the observer's end of the transport: it can cut it
			opts = append(opts, grpc.WithContextDialer(func(ctx context.Context, addr string) (net.Conn, error) {
				c, err := (&net.Dialer{}).DialContext(ctx, "tcp", addr)
				if err == nil {
					o.h.change(func() { o.raw = append(o.raw, c) })
				}
				return c, err
			}))
		}
		conn, err := grpc.DialContext(dctx, d.Addrs[0], opts...)
		if err != nil {
			return nil, fmt.Errorf("Dialer(%s, %v): %v", d.Addrs[0], d.Timeout, err)
		}
		if o != nil {
			o.h.change(func() { o.dialed, o.live = true, true })
		}
		return gclient.NewFromConn(ctx, conn, d)
	}
}

func init() {
	client.Register(slowType, dialer(true))
	client.Register(plainType, dialer(false))
	// reconnecting observers (client.Reconnect) retry quickly; read when a ReconnectClient is made
	client.RetryBaseDelay = 100 * time.Millisecond
	client.RetryMaxDelay = time.Second
}

// obsState is one running observer; everything but c, spec and the constants is guarded by hub.mu.
type obsState struct {
	h       *hub
	spec    Observer
	idx     int
	target  string            // what it subscribes to
	want    map[string]string // sentinel value per target in scope
	scope   map[string]bool
	atomics [][]string // prefixes (with target) of every container some script creates
	// leaves (key with target) whose FINAL value travels in the deprecated Update.value field and is the first (or only)
	// update of its notification -> that value as the reference view has it (for labels)
	legacyFinal map[string]interface{}
	c           *client.CacheClient
	cancel      context.CancelFunc

	started, dialed, first, synced, done, pausing, ended bool
	startedAt, pauseEnd, lastReset                       time.Time
	// reconnecting observers: the transport(s) of the current attempt, whether one stands and has delivered
	// something, how often the library subscribed again (reset callbacks), cuts made / made in vain
	raw                                            []net.Conn
	live, attemptFirst, cutting                    bool
	resets, cutsExecuted, cutNoEffect              int
	onceDone                                       bool
	err                                            error
	seen                                           map[string]bool
	nextPause, pausesEntered, pauseByBound         int
	dupUpdates                                     int
	maxTick                                        int64
	dupAtomic, wildBeforeSync, whileDown           bool
	dupLegacy, dupLegacyLast, dupLegacyLastBlocked bool
	// idle streams: when the current subscription delivered something last, and the longest time between two
	// deliveries of one subscription after its sync marker (a measurement for labels, never for a verdict)
	lastRecv time.Time
	maxIdle  time.Duration
}

// reached is called under hub.mu.
func (o *obsState) reached(event string, n int) bool {
	switch event {
	case "start":
		return o.started
	case "dialed":
		return o.dialed
	case "first":
		return o.first
	case "sync":
		return o.synced
	case "pause":
		return o.pausesEntered >= n
	case "tick":
		// it has received the tick leaf with value n: the collector has taken in everything the target sent before it
		return o.maxTick >= int64(n)
	case "resub":
		// the library has subscribed again n times (same Query value) and the new subscription's walk is complete
		return o.resets >= n && o.synced
	}
	return true
}

func (o *obsState) handle(h *hub, clock *play, n client.Notification) error {
	var pause *Pause
	h.mu.Lock()
	wake := false
	mark := func(b *bool) {
		if !*b {
			*b, wake = true, true
		}
	}
	mark(&o.attemptFirst)
	if o.spec.Library {
		mark(&o.dialed) // the library dialled for itself: that the connection stands shows only now
	}
	if now := time.Now(); true {
		if d := now.Sub(o.lastRecv); o.synced && !o.lastRecv.IsZero() && d > o.maxIdle {
			o.maxIdle = d
		}
		o.lastRecv = now
	}
	switch u := n.(type) {
	case client.Sync:
		mark(&o.first)
		mark(&o.synced)
	case client.Update:
		mark(&o.first)
		if u.Dups > 0 {
			o.dupUpdates++
			if w, ok := o.legacyFinal[gn.Key(u.Path)]; ok {
				o.dupLegacy = true
				if reflect.DeepEqual(u.Val, w) {
					o.dupLegacyLast = true
					o.dupLegacyLastBlocked = o.dupLegacyLastBlocked || o.pausesEntered > 0
				}
			}
			for _, p := range o.atomics {
				if len(u.Path) > len(p) && strings.Join(u.Path[:len(p)], "\x00") == strings.Join(p, "\x00") {
					o.dupAtomic = true
				}
			}
		}
		if v, ok := u.Val.(int64); ok && len(u.Path) == 3 && u.Path[2] == "tick" && v > o.maxTick {
			o.maxTick, wake = v, true
		}
		if len(u.Path) >= 3 && u.Path[len(u.Path)-1] == sentinelName {
			if s, _ := u.Val.(string); s == o.want[u.Path[0]] {
				o.seen[u.Path[0]] = true
			}
		}
	case client.Delete:
		mark(&o.first)
		if !o.synced && len(u.Path) == 3 && u.Path[2] == "*" {
			o.wildBeforeSync = true
		}
	}
	// Quiescence: the sentinel of every target in scope AND the sync marker (see observe).
	if o.synced && len(o.seen) == len(o.want) {
		mark(&o.done)
	}
	if o.nextPause < len(o.spec.Pauses) && clock.pos >= o.spec.Pauses[o.nextPause].From && !h.stop {
		pause = &o.spec.Pauses[o.nextPause]
		o.nextPause++
		o.pausesEntered++
		o.pausing, wake = true, true
	}
	if wake {
		close(h.ch)
		h.ch = make(chan struct{})
	}
	h.mu.Unlock()
	if pause != nil {
		// the application is busy: nothing is read from the stream meanwhile
		ok := h.wait(func() bool { return clock.pos >= pause.Until || clock.done || h.stop }, maxPause)
		if pause.SleepMs > 0 {
			time.Sleep(time.Duration(pause.SleepMs) * time.Millisecond)
		}
		h.change(func() {
			o.pausing, o.pauseEnd = false, time.Now()
			if !ok {
				o.pauseByBound++
			}
		})
	}
	return nil
}

func (o *obsState) run(h *hub, addr string, clock *play) {
	h.wait(func() bool { return clock.pos >= o.spec.Start || clock.done || h.stop }, 60*time.Second)
	if o.spec.DelayUs > 0 {
		time.Sleep(time.Duration(o.spec.DelayUs) * time.Microsecond)
	}
	ctx, cancel := context.WithCancel(context.Background())
	stop := false
	h.change(func() {
		stop = h.stop
		o.cancel = cancel
		o.started, o.startedAt = true, time.Now()
		o.whileDown = clock.conns > 0 && !clock.active
	})
	if stop {
		cancel()
		h.change(func() { o.ended = true })
		return
	}
	typ := plainType
	if o.spec.Slow {
		typ = slowType
	}
	if o.spec.Library {
		typ = gclient.Type
	}
	timeout := 15 * time.Second
	if o.spec.TimeoutMs > 0 {
		timeout = time.Duration(o.spec.TimeoutMs) * time.Millisecond
	}
	// ONE Query value for everything this observer subscribes with
	q := client.Query{Addrs: []string{addr}, Target: o.target, Queries: clientPaths(o.spec.Queries), Type: client.Once, Timeout: timeout,
		TLS: &tls.Config{InsecureSkipVerify: true}}
	if o.spec.OnceFirst {
		// a snapshot first (the scripts are playing: what it shows is not judged, that it works is)
		oc := client.New()
		err := oc.Subscribe(ctx, q, typ)
		oc.Close()
		if err != nil && ctx.Err() == nil {
			h.change(func() { o.ended, o.err = true, fmt.Errorf("ONCE subscription made first: %v", err) })
			return
		}
		h.change(func() { o.onceDone = true })
	}
	ctx = context.WithValue(ctx, obsKey{}, o)
	q.Type = client.Stream
	q.NotificationHandler = func(n client.Notification) error { return o.handle(h, clock, n) }
	var err error
	if o.spec.Reconnect {
		rc := client.Reconnect(o.c, func() {
			// the subscription ended; no handler call is in flight or will come before the next attempt
			h.change(func() { o.live = false })
		}, func() {
			// about to subscribe again: what the callback is for - forget the old view; the new subscription's
			// walk, sync marker and (if the scripts are through) sentinel have to be seen again
			h.change(func() {
				o.resets++
				o.synced, o.done, o.attemptFirst = false, false, false
				o.lastRecv = time.Time{}
				o.seen = map[string]bool{}
				o.lastReset = time.Now()
			})
			o.c.Delete([]string{})
		})
		go o.cutter(h, clock)
		err = rc.Subscribe(ctx, q, typ)
	} else {
		err = o.c.Subscribe(ctx, q, typ)
	}
	h.change(func() { o.ended, o.err = true, err })
}

// cutter closes the observer's transport to the collector at the scripted positions. A cut is made only while a
// subscription stands and has delivered something; it is over when the library has subscribed again (reset
// callback) or a bound passed (then it was in vain: a label). Timing selects what is hit, never the verdict.
func (o *obsState) cutter(h *hub, clock *play) {
	for _, at := range o.spec.Cuts {
		h.wait(func() bool { return h.stop || ((clock.pos >= at || clock.done) && o.live && o.attemptFirst) }, 60*time.Second)
		var conns []net.Conn
		var r0 int
		h.change(func() {
			if h.stop || !o.live {
				return
			}
			o.cutting = true
			conns, o.raw = o.raw, nil
			r0 = o.resets
		})
		if conns == nil {
			h.change(func() { o.cutsExecuted++; o.cutNoEffect++ })
			continue
		}
		for _, c := range conns {
			c.Close()
		}
		ok := h.wait(func() bool { return h.stop || o.resets > r0 }, 8*time.Second)
		h.change(func() {
			o.cutting = false
			o.cutsExecuted++
			if !ok {
				o.cutNoEffect++
			}
		})
	}
}

// flowRun is the set of observers of one case.
type flowRun struct {
	h       *hub
	sc      *Scenario
	obs     []*obsState
	stopped bool
}

func newObservers(h *hub, sc *Scenario, id string) *flowRun {
	fr := &flowRun{h: h, sc: sc}
	var atomics [][]string
	for _, tg := range sc.Targets {
		for _, o := range tg.Ops {
			if o.Kind == "atomic" {
				atomics = append(atomics, append([]string{tg.Name}, contKey(o)...))
			}
		}
	}
	legacyFinal := map[string]interface{}{}
	if len(sc.Observers) > 0 {
		for _, tg := range sc.Targets {
			m := newModel()
			for _, o := range tg.Ops {
				m.apply(o, nil)
			}
			m.legacyHeads(tg.Name, legacyFinal)
		}
	}
	for i, spec := range sc.Observers {
		o := &obsState{h: h, spec: spec, idx: i, target: "*", want: map[string]string{}, scope: map[string]bool{}, seen: map[string]bool{}, atomics: atomics, legacyFinal: legacyFinal, c: client.New()}
		if spec.Scope >= 0 {
			o.target = sc.Targets[spec.Scope%len(sc.Targets)].Name
			o.want[o.target], o.scope[o.target] = id, true
		} else {
			for _, tg := range sc.Targets {
				o.want[tg.Name], o.scope[tg.Name] = id, true
			}
		}
		fr.obs = append(fr.obs, o)
	}
	h.change(func() { h.obs = fr.obs })
	return fr
}

func (fr *flowRun) start(addr string) {
	h, sc := fr.h, fr.sc
	for _, o := range fr.obs {
		clock := sc.Targets[0].Name
		if o.spec.Clock >= 0 {
			clock = sc.Targets[o.spec.Clock%len(sc.Targets)].Name
		}
		h.mu.Lock()
		p := h.plays[clock]
		h.mu.Unlock()
		go o.run(h, addr, p)
	}
}

// stop releases everything that waits and ends the subscriptions.
func (fr *flowRun) stop() {
	if fr.stopped {
		return
	}
	fr.stopped = true
	fr.h.change(func() { fr.h.stop = true })
	for _, o := range fr.obs {
		fr.h.mu.Lock()
		cancel := o.cancel
		fr.h.mu.Unlock()
		if cancel != nil {
			cancel()
		}
		o.c.Close()
	}
	// a handler may still be inside a scripted sleep; it only touches the hub
	fr.h.wait(func() bool {
		for _, o := range fr.obs {
			if o.started && !o.ended {
				return false
			}
		}
		return true
	}, 2*time.Second)
}

const hang = 20 * time.Second

// idleEnough: a subscriber's stream that carried nothing for this long and then an update went through what the
// "quiet" part is after (three keepalive intervals of gRPC's smallest period, and a margin). Only a label.
const idleEnough = 33 * time.Second

// wait returns when every script has been sent completely and every observer has caught up.
// The only wall-clock judgement is the hang rule of the engine: nothing moved for 20 s
// although everything is alive => the case has no verdict (run() starts it once more).
func (fr *flowRun) wait(col *collectorProc) error {
	h := fr.h
	for {
		var err error
		finished := true
		h.mu.Lock()
		now := time.Now()
		var flushed time.Time
		for name, p := range h.plays {
			if !p.done {
				finished = false
				limit := hang
				if p.pos > 0 && p.pos <= len(p.ops) && p.ops[p.pos-1].Kind == "break" && (p.ops[p.pos-1].Via == "rpc" || p.ops[p.pos-1].Via == "silence") {
					limit = 3 * hang // the op has its own bounds and ends the case without a verdict itself
				}
				if now.Sub(h.progress) > limit && err == nil {
					at := "before its first op"
					if p.pos > 0 && p.pos <= len(p.ops) {
						at = fmt.Sprintf("in op %d (%s)", p.pos-1, p.ops[p.pos-1].Kind)
					}
					err = &inconclusive{msg: fmt.Sprintf("the script of %s made no progress for %v %s, %d of %d ops started, %d subscribe calls from the collector", name, hang, at, p.pos, len(p.ops), p.conns), hang: true}
				}
			} else if p.flushed.After(flushed) {
				flushed = p.flushed
			}
		}
		if h.abort != "" {
			err = &inconclusive{msg: h.abort}
		}
		scriptsDone := finished
		for _, o := range fr.obs {
			if o.ended && err == nil {
				switch {
				case o.err != nil && strings.Contains(o.err.Error(), "Dialer("):
					err = &inconclusive{msg: fmt.Sprintf("observer %d could not connect to the collector: %v", o.idx, o.err)}
				default:
					idle := ""
					if !o.lastRecv.IsZero() {
						idle = fmt.Sprintf(" (nobody cancelled it; %v after its last delivery; whatever the targets stream from now on never reaches this client)", now.Sub(o.lastRecv).Round(100*time.Millisecond))
					}
					err = &violation{"rpc-error", fmt.Sprintf("observer %d: STREAM subscription for target %q through the collector ended%s: %v; %s", o.idx, o.target, idle, o.err, fr.describe(o))}
				}
			}
			if o.done && (o.cutsExecuted >= len(o.spec.Cuts) || !o.spec.Reconnect) {
				continue
			}
			finished = false
			if !scriptsDone || !o.started || o.pausing || o.cutting || o.done {
				continue
			}
			base := flushed
			for _, t := range []time.Time{o.startedAt, o.pauseEnd, o.lastReset} {
				if t.After(base) {
					base = t
				}
			}
			if now.Sub(base) > hang && err == nil {
				err = &inconclusive{msg: fmt.Sprintf("observer %d (target %q): sentinel seen for %v of %d targets, sync marker %v, %v after every scripted stream had been sent completely", o.idx, o.target, o.seen, len(o.want), o.synced, hang), hang: true}
			}
		}
		c := h.ch
		h.mu.Unlock()
		if !col.alive() {
			return col.died()
		}
		if err != nil || finished {
			return err
		}
		select {
		case <-c:
		case <-time.After(250 * time.Millisecond):
		}
	}
}

func (fr *flowRun) describe(o *obsState) string {
	d := fmt.Sprintf("observer %d (client cache, STREAM subscription to %s made when %s had started %d ops", o.idx, o.target, fr.sc.Targets[0].Name, o.spec.Start)
	if len(o.spec.Queries) > 0 {
		d += ", query paths " + describeQueries(o.spec.Queries)
	}
	if o.spec.OnceFirst {
		d += ", the same client.Query value used for a ONCE subscription before"
	}
	if o.spec.Reconnect {
		d += fmt.Sprintf(", client.ReconnectClient: transport to the collector cut %d time(s), subscribed again %d time(s) with the same client.Query value", o.cutsExecuted-o.cutNoEffect, o.resets)
	}
	if o.spec.Slow {
		d += ", static flow-control windows"
	}
	if o.spec.Library {
		d += fmt.Sprintf(", connection dialled by the client library, Query.Timeout %dms", o.spec.TimeoutMs)
	}
	if o.maxIdle >= 10*time.Second {
		d += fmt.Sprintf(", its stream carried nothing for %v at one time", o.maxIdle.Round(time.Second))
	}
	if len(o.spec.Pauses) > 0 {
		d += fmt.Sprintf(", handler blocked %d time(s)", o.pausesEntered)
	}
	if o.dupUpdates > 0 {
		d += fmt.Sprintf(", %d updates arrived coalesced", o.dupUpdates)
	}
	return d + ")"
}

// check compares every observer's cache with the reference and records what the schedule hit.
func (fr *flowRun) check(ref map[string]interface{}, st *stats) error {
	h := fr.h
	h.mu.Lock()
	for _, o := range fr.obs {
		st.observers++
		st.slowObserver = st.slowObserver || o.spec.Slow
		st.paused = st.paused || o.pausesEntered > 0
		st.coalesced = st.coalesced || o.dupUpdates > 0
		st.coalescedAtPaused = st.coalescedAtPaused || (o.dupUpdates > 0 && o.pausesEntered > 0)
		st.coalescedAtomic = st.coalescedAtomic || o.dupAtomic
		st.coalescedLegacy = st.coalescedLegacy || o.dupLegacy
		st.coalescedLegacyLast = st.coalescedLegacyLast || o.dupLegacyLast
		st.coalescedLegacyLastBlocked = st.coalescedLegacyLastBlocked || o.dupLegacyLastBlocked
		st.wildBeforeSync = st.wildBeforeSync || o.wildBeforeSync
		st.whileDown = st.whileDown || o.whileDown
		st.pauseByBound = st.pauseByBound || o.pauseByBound > 0
		st.lateObserver = st.lateObserver || o.spec.Start > 0
		st.narrowObserver = st.narrowObserver || len(o.spec.Queries) > 0
		st.slashQuery = st.slashQuery || slashInQueries(o.spec.Queries)
		for _, q := range o.spec.Queries {
			for _, e := range q.Path {
				st.bracketQuery = st.bracketQuery || strings.Contains(e, "[")
			}
		}
		st.onceFirst = st.onceFirst || o.onceDone
		st.reconnectObserver = st.reconnectObserver || o.spec.Reconnect
		st.cutsDone = st.cutsDone || o.cutsExecuted-o.cutNoEffect > 0
		st.cutNoEffect = st.cutNoEffect || o.cutNoEffect > 0
		st.resubscribed = st.resubscribed || o.resets > 0
		st.libraryObserver = st.libraryObserver || o.spec.Library
		st.idleObserver = st.idleObserver || o.maxIdle >= idleEnough
		if o.maxIdle > st.longestIdle {
			st.longestIdle = o.maxIdle
		}
	}
	st.boundHit = h.timedOut > 0
	for _, p := range h.plays {
		st.reconnected = st.reconnected || p.conns > 1
	}
	var what []string
	for _, o := range fr.obs {
		what = append(what, fr.describe(o))
	}
	h.mu.Unlock()
	for i, o := range fr.obs {
		// A reconnecting observer forgets its view whenever the library subscribes again. Its view is judged
		// only if no such instant falls between "it had caught up" and "its leaves were read" - a connection
		// lost late (a cut that took effect after its bound) leaves the case without a verdict.
		h.mu.Lock()
		r0, ok := o.resets, o.done
		h.mu.Unlock()
		leaves := o.c.Leaves()
		h.mu.Lock()
		ok = ok && o.resets == r0 && o.done
		h.mu.Unlock()
		if !ok {
			return &inconclusive{msg: fmt.Sprintf("observer %d lost its connection to the collector again while its view was read", o.idx)}
		}
		if err := compareLeaves(what[i], leaves, ref, o.scope, o.spec.Queries...); err != nil {
			return err
		}
	}
	return nil
}
