package e2e

import (
	"context"
	"crypto/ecdsa"
	"crypto/elliptic"
	"crypto/rand"
	"crypto/tls"
	"crypto/x509"
	"crypto/x509/pkix"
	"encoding/pem"
	"fmt"
	"math/big"
	"net"
	"os"
	"os/exec"
	"path/filepath"
	"regexp"
	"runtime"
	"strings"
	"sync"
	"time"

	cpb "github.com/openconfig/gnmi/proto/collector"
	pb "github.com/openconfig/gnmi/proto/gnmi"
	"google.golang.org/grpc"
	"google.golang.org/grpc/codes"
	"google.golang.org/grpc/credentials"
	"google.golang.org/grpc/status"
)

// env holds what is built once per test process: the two binaries and a certificate.
type env struct {
	dir       string
	collector string
	cli       string
	cert, key string
	tlsCert   tls.Certificate
}

var (
	envOnce sync.Once
	theEnv  *env
	envErr  error
)

// repoDir finds the tree the harness is built against: the replace target in the harness's go.mod.
func repoDir() (string, error) {
	_, file, _, ok := runtime.Caller(0)
	if !ok {
		return "", fmt.Errorf("no caller information")
	}
	mod := filepath.Join(filepath.Dir(filepath.Dir(file)), "go.mod")
	b, err := os.ReadFile(mod)
	if err != nil {
		return "", err
	}
	m := regexp.MustCompile(`(?m)^replace github.com/openconfig/gnmi [^=]*=> (\S+)`).FindSubmatch(b)
	if m == nil {
		return "", fmt.Errorf("no replace directive for github.com/openconfig/gnmi in %s", mod)
	}
	return string(m[1]), nil
}

func getEnv(workDir string) (*env, error) {
	envOnce.Do(func() {
		e := &env{}
		e.dir, envErr = os.MkdirTemp(workDir, "e2e-env-")
		if envErr != nil {
			return
		}
		repo, err := repoDir()
		if err != nil {
			envErr = err
			return
		}
		// the production toolchain and language semantics for the two programs
		cmd := exec.Command("go", "build", "-tags", "verif", "-o", e.dir+string(os.PathSeparator), "./cmd/gnmi_collector", "./cmd/gnmi_cli")
		cmd.Dir = repo
		cmd.Env = append(os.Environ(), "GOFLAGS=-mod=readonly", "GOPROXY=off", "GOSUMDB=off", "GOTOOLCHAIN=local")
		if out, err := cmd.CombinedOutput(); err != nil {
			envErr = fmt.Errorf("building the collector and CLI binaries from %s failed: %v\n%s", repo, err, out)
			return
		}
		e.collector = filepath.Join(e.dir, "gnmi_collector")
		e.cli = filepath.Join(e.dir, "gnmi_cli")
		// self-signed certificate
		priv, err := ecdsa.GenerateKey(elliptic.P256(), rand.Reader)
		if err != nil {
			envErr = err
			return
		}
		tmpl := &x509.Certificate{SerialNumber: big.NewInt(1), Subject: pkix.Name{CommonName: "verif"}, NotBefore: time.Now().Add(-time.Hour), NotAfter: time.Now().Add(240 * time.Hour),
			KeyUsage: x509.KeyUsageDigitalSignature | x509.KeyUsageKeyEncipherment, ExtKeyUsage: []x509.ExtKeyUsage{x509.ExtKeyUsageServerAuth}, IPAddresses: []net.IP{net.ParseIP("127.0.0.1")}, DNSNames: []string{"localhost"}}
		der, err := x509.CreateCertificate(rand.Reader, tmpl, tmpl, &priv.PublicKey, priv)
		if err != nil {
			envErr = err
			return
		}
		kb, _ := x509.MarshalECPrivateKey(priv)
		certPEM := pem.EncodeToMemory(&pem.Block{Type: "CERTIFICATE", Bytes: der})
		keyPEM := pem.EncodeToMemory(&pem.Block{Type: "EC PRIVATE KEY", Bytes: kb})
		e.cert, e.key = filepath.Join(e.dir, "cert.pem"), filepath.Join(e.dir, "key.pem")
		os.WriteFile(e.cert, certPEM, 0o600)
		os.WriteFile(e.key, keyPEM, 0o600)
		e.tlsCert, envErr = tls.X509KeyPair(certPEM, keyPEM)
		theEnv = e
	})
	return theEnv, envErr
}

// ---- scripted gNMI target server -------------------------------------------------------------

// hub is where the scripted targets and the observers of one case see each other's progress.
// Every wait on it is bounded; a bound that passes never decides a verdict.
type hub struct {
	mu       sync.Mutex
	ch       chan struct{} // closed (and replaced) on every change
	plays    map[string]*play
	obs      []*obsState
	progress time.Time // last time a script moved
	timedOut int       // bounded waits that ended by their bound
	abort    string    // infrastructure trouble that leaves the case without a verdict
	stop     bool      // the case is over: nobody waits any more
}

func newHub() *hub {
	return &hub{ch: make(chan struct{}), plays: map[string]*play{}, progress: time.Now()}
}

// change runs f under the lock and wakes every waiter.
func (h *hub) change(f func()) {
	h.mu.Lock()
	f()
	close(h.ch)
	h.ch = make(chan struct{})
	h.mu.Unlock()
}

// wait blocks until pred (evaluated under the lock) holds or max passed; it reports whether pred held.
func (h *hub) wait(pred func() bool, max time.Duration) bool {
	timer := time.NewTimer(max)
	defer timer.Stop()
	for {
		h.mu.Lock()
		if pred() {
			h.mu.Unlock()
			return true
		}
		c := h.ch
		h.mu.Unlock()
		select {
		case <-c:
		case <-timer.C:
			h.mu.Lock()
			ok := pred()
			if !ok {
				h.timedOut++
			}
			h.mu.Unlock()
			return ok
		}
	}
}

// play is one target's script being played. Fields are guarded by hub.mu except where noted.
type play struct {
	serial  sync.Mutex // one Subscribe handler per target plays at a time
	name    string
	ops     []Op
	id      string // value of the sentinel
	pos     int    // ops started
	conns   int    // Subscribe calls seen
	done    bool   // script and sentinel sent completely
	active  bool   // a stream from the collector is being served
	flushed time.Time
	// only touched by the handler holding serial
	m  *model
	ts int64
}

const (
	maxAwait = 3 * time.Second // a script waits at most this long for an observer
	maxPause = 3 * time.Second // an observer's handler blocks at most this long for a script
)

type trackListener struct {
	net.Listener
	mu    sync.Mutex
	conns []net.Conn
}

func (l *trackListener) Accept() (net.Conn, error) {
	c, err := l.Listener.Accept()
	if err == nil {
		l.mu.Lock()
		l.conns = append(l.conns, c)
		l.mu.Unlock()
	}
	return c, err
}

func (l *trackListener) closeAll() {
	l.mu.Lock()
	cs := l.conns
	l.conns = nil
	l.mu.Unlock()
	for _, c := range cs {
		c.Close()
	}
}

type scriptedServer struct {
	pb.UnimplementedGNMIServer
	mu       sync.Mutex
	requests map[string][]*pb.SubscribeRequest // what arrived, by target name in the prefix
	h        *hub
	colAddr  func() string // the collector's address (for the "rpc" break), known once it runs
	e        *env
	lis      *trackListener
	srv      *grpc.Server
	addr     string
}

func (s *scriptedServer) addScript(tg Target, id string) {
	p := &play{name: tg.Name, ops: tg.Ops, id: id, m: newModel(), ts: time.Now().UnixNano()}
	s.h.change(func() { s.h.plays[tg.Name] = p })
}

func sentinelResp(id string, ts *int64) *pb.SubscribeResponse {
	return resp(&pb.Notification{Timestamp: next(ts), Prefix: &pb.Path{},
		Update: []*pb.Update{{Path: &pb.Path{Elem: []*pb.PathElem{{Name: sentinelName}}}, Val: &pb.TypedValue{Value: &pb.TypedValue_StringVal{StringVal: id}}}}})
}

func (s *scriptedServer) Subscribe(stream pb.GNMI_SubscribeServer) error {
	req, err := stream.Recv()
	if err != nil {
		return err
	}
	name := req.GetSubscribe().GetPrefix().GetTarget()
	s.mu.Lock()
	s.requests[name] = append(s.requests[name], req)
	s.mu.Unlock()
	h := s.h
	h.mu.Lock()
	p := h.plays[name]
	h.mu.Unlock()
	if p == nil {
		<-stream.Context().Done()
		return nil
	}
	p.serial.Lock()
	defer p.serial.Unlock()
	var again bool
	h.change(func() { p.conns++; again = p.conns > 1; p.active = true; h.progress = time.Now() })
	defer h.change(func() { p.active = false })
	send := func(rs []*pb.SubscribeResponse) error {
		for _, r := range rs {
			if err := stream.Send(r); err != nil {
				return err
			}
		}
		return nil
	}
	if again {
		// a device that is subscribed to again reports its current state, then marks it complete
		if err := send(append(p.m.report(&p.ts), syncResp())); err != nil {
			return err
		}
	}
	for {
		var o Op
		var end bool
		h.change(func() {
			if end = p.pos >= len(p.ops); !end {
				o = p.ops[p.pos]
				p.pos++
				h.progress = time.Now()
			}
		})
		if end {
			break
		}
		switch o.Kind {
		case "await":
			h.wait(func() bool { return h.stop || (o.Obs < len(h.obs) && h.obs[o.Obs].reached(o.Event, o.N)) }, maxAwait)
		case "wait":
			time.Sleep(time.Duration(o.N) * time.Millisecond)
		case "break":
			p.m.apply(o, nil)
			switch o.Via {
			case "rpc":
				// the collector is asked to drop and re-establish this target's stream; whether and
				// when it does is its business: nothing is lost, so the final state is the same
				rc := make(chan error, 1)
				go func() { rc <- reconnectRPC(s.colAddr(), name) }()
				select {
				case <-stream.Context().Done():
				case err := <-rc:
					// accepted: the manager has cancelled this stream's context, the cancellation is on its way.
					// Anything else leaves it open whether a reconnect is still to come: no verdict for this case.
					if err == nil {
						select {
						case <-stream.Context().Done():
						case <-time.After(20 * time.Second):
							err = fmt.Errorf("stream still open 20s later")
						}
					}
					if err != nil {
						h.change(func() { h.abort = fmt.Sprintf("Reconnect RPC for %s: %v", name, err) })
					}
				}
				return status.Error(codes.Canceled, "stream cancelled")
			case "conn":
				s.lis.closeAll()
				return status.Error(codes.Unavailable, "scripted transport failure")
			default:
				return status.Error(codes.Unavailable, "scripted stream failure")
			}
		default:
			p.m.apply(o, nil)
			if err := send(wire(o, &p.ts)); err != nil {
				return err
			}
		}
	}
	if err := send([]*pb.SubscribeResponse{sentinelResp(p.id, &p.ts)}); err != nil {
		return err
	}
	h.change(func() { p.done = true; p.flushed = time.Now(); h.progress = p.flushed })
	<-stream.Context().Done()
	return nil
}

func reconnectRPC(addr, target string) error {
	ctx, cancel := context.WithTimeout(context.Background(), 15*time.Second)
	defer cancel()
	conn, err := grpc.DialContext(ctx, addr, grpc.WithBlock(), grpc.WithTransportCredentials(credentials.NewTLS(&tls.Config{InsecureSkipVerify: true})))
	if err != nil {
		return err
	}
	defer conn.Close()
	_, err = cpb.NewCollectorClient(conn).Reconnect(ctx, &cpb.ReconnectRequest{Target: []string{target}})
	return err
}

func startScripted(e *env, h *hub, colAddr func() string) (*scriptedServer, error) {
	lis, err := net.Listen("tcp", "127.0.0.1:0")
	if err != nil {
		return nil, err
	}
	s := &scriptedServer{requests: map[string][]*pb.SubscribeRequest{}, h: h, colAddr: colAddr, e: e, lis: &trackListener{Listener: lis}, addr: lis.Addr().String()}
	s.srv = grpc.NewServer(grpc.Creds(credentials.NewTLS(&tls.Config{Certificates: []tls.Certificate{e.tlsCert}})))
	pb.RegisterGNMIServer(s.srv, s)
	go s.srv.Serve(s.lis)
	return s, nil
}

// ---- collector process -------------------------------------------------------------------------

type collectorProc struct {
	cmd  *exec.Cmd
	addr string
	log  string
	done chan struct{}
}

func freePort() (int, error) {
	l, err := net.Listen("tcp", "127.0.0.1:0")
	if err != nil {
		return 0, err
	}
	defer l.Close()
	return l.Addr().(*net.TCPAddr).Port, nil
}

func startCollector(e *env, dir, configFile string) (*collectorProc, error) {
	for attempt := 0; attempt < 3; attempt++ {
		port, err := freePort()
		if err != nil {
			return nil, err
		}
		logf := filepath.Join(dir, fmt.Sprintf("collector.%d.log", attempt))
		f, err := os.Create(logf)
		if err != nil {
			return nil, err
		}
		cmd := exec.Command(e.collector, "-config_file", configFile, "-cert_file", e.cert, "-key_file", e.key, "-port", fmt.Sprint(port),
			"-dial_timeout", "10s", "-logtostderr", "-metadata_update_period", "200ms")
		cmd.Stdout, cmd.Stderr = f, f
		if err := cmd.Start(); err != nil {
			f.Close()
			return nil, err
		}
		p := &collectorProc{cmd: cmd, addr: fmt.Sprintf("127.0.0.1:%d", port), log: logf, done: make(chan struct{})}
		go func() { cmd.Wait(); f.Close(); close(p.done) }()
		// wait until it listens (a process that died - port taken meanwhile? - is started again on another port;
		// a successful dial proves nothing if it died: somebody else may own the port now)
		deadline := time.Now().Add(15 * time.Second)
		for time.Now().Before(deadline) && p.alive() {
			c, err := net.DialTimeout("tcp", p.addr, 200*time.Millisecond)
			if err == nil {
				c.Close()
				if p.alive() {
					return p, nil
				}
				break
			}
			time.Sleep(20 * time.Millisecond)
		}
		p.stop()
	}
	return nil, fmt.Errorf("the collector did not start listening")
}

// died is the verdict on a collector process that is gone: a violation, unless its log says it
// lost the race for its port (the harness picks a free port, closes it and hands the number over).
func (p *collectorProc) died() error {
	lg, _ := os.ReadFile(p.log)
	if strings.Contains(string(lg), "address already in use") {
		return &inconclusive{msg: "the collector could not bind its port: " + tailOf(string(lg), 300)}
	}
	return &violation{"collector-died", fmt.Sprintf("the collector process died: %s", tailOf(string(lg), 1500))}
}

func (p *collectorProc) alive() bool {
	select {
	case <-p.done:
		return false
	default:
		return true
	}
}

func (p *collectorProc) stop() {
	if p.cmd.Process != nil {
		p.cmd.Process.Kill()
	}
	select {
	case <-p.done:
	case <-time.After(5 * time.Second):
	}
}

// runCLI runs the gnmi_cli binary and returns its standard output.
func runCLI(e *env, args ...string) (string, string, error) {
	ctx, cancel := context.WithTimeout(context.Background(), 30*time.Second)
	defer cancel()
	cmd := exec.CommandContext(ctx, e.cli, append(args, "-logtostderr")...)
	var out, errb bytesBuffer
	cmd.Stdout, cmd.Stderr = &out, &errb
	err := cmd.Run()
	return out.String(), errb.String(), err
}

type bytesBuffer struct {
	mu sync.Mutex
	b  []byte
}

func (b *bytesBuffer) Write(p []byte) (int, error) {
	b.mu.Lock()
	defer b.mu.Unlock()
	b.b = append(b.b, p...)
	return len(p), nil
}
func (b *bytesBuffer) String() string { b.mu.Lock(); defer b.mu.Unlock(); return string(b.b) }
