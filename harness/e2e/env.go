package e2e

import (
	"context"
	"crypto/ecdsa"
	"crypto/elliptic"
	"crypto/rand"
	"crypto/tls"
	"crypto/x509"
	"crypto/x509/pkix"
	"encoding/pem"
	"fmt"
	"math/big"
	"net"
	"os"
	"os/exec"
	"path/filepath"
	"regexp"
	"runtime"
	"strings"
	"sync"
	"sync/atomic"
	"time"

	"github.com/openconfig/gnmi/client"
	cpb "github.com/openconfig/gnmi/proto/collector"
	pb "github.com/openconfig/gnmi/proto/gnmi"
	"google.golang.org/grpc"
	"google.golang.org/grpc/codes"
	"google.golang.org/grpc/credentials"
	"google.golang.org/grpc/status"
	"google.golang.org/protobuf/proto"
)

// env holds what is built once per test process: the two binaries and a certificate.
type env struct {
	dir       string
	collector string
	cli       string
	cert, key string
	tlsCert   tls.Certificate
}

var (
	envOnce sync.Once
	theEnv  *env
	envErr  error
)

// repoDir finds the tree the harness is built against: the replace target in the harness's go.mod.
func repoDir() (string, error) {
	_, file, _, ok := runtime.Caller(0)
	if !ok {
		return "", fmt.Errorf("no caller information")
	}
	mod := filepath.Join(filepath.Dir(filepath.Dir(file)), "go.mod")
	b, err := os.ReadFile(mod)
	if err != nil {
		return "", err
	}
	m := regexp.MustCompile(`(?m)^replace github.com/openconfig/gnmi [^=]*=> (\S+)`).FindSubmatch(b)
	if m == nil {
		return "", fmt.Errorf("no replace directive for github.com/openconfig/gnmi in %s", mod)
	}
	return string(m[1]), nil
}

func getEnv(workDir string) (*env, error) {
	envOnce.Do(func() {
		e := &env{}
		e.dir, envErr = os.MkdirTemp(workDir, "e2e-env-")
		if envErr != nil {
			return
		}
		repo, err := repoDir()
		if err != nil {
			envErr = err
			return
		}
		// the production toolchain and language semantics for the two programs
		cmd := exec.Command("go", "build", "-tags", "verif", "-o", e.dir+string(os.PathSeparator), "./cmd/gnmi_collector", "./cmd/gnmi_cli")
		cmd.Dir = repo
		cmd.Env = append(os.Environ(), "GOFLAGS=-mod=readonly", "GOPROXY=off", "GOSUMDB=off", "GOTOOLCHAIN=local")
		if out, err := cmd.CombinedOutput(); err != nil {
			envErr = fmt.Errorf("building the collector and CLI binaries from %s failed: %v\n%s", repo, err, out)
			return
		}
		e.collector = filepath.Join(e.dir, "gnmi_collector")
		e.cli = filepath.Join(e.dir, "gnmi_cli")
		// self-signed certificate
		priv, err := ecdsa.GenerateKey(elliptic.P256(), rand.Reader)
		if err != nil {
			envErr = err
			return
		}
		tmpl := &x509.Certificate{SerialNumber: big.NewInt(1), Subject: pkix.Name{CommonName: "verif"}, NotBefore: time.Now().Add(-time.Hour), NotAfter: time.Now().Add(240 * time.Hour),
			KeyUsage: x509.KeyUsageDigitalSignature | x509.KeyUsageKeyEncipherment, ExtKeyUsage: []x509.ExtKeyUsage{x509.ExtKeyUsageServerAuth}, IPAddresses: []net.IP{net.ParseIP("127.0.0.1")}, DNSNames: []string{"localhost"}}
		der, err := x509.CreateCertificate(rand.Reader, tmpl, tmpl, &priv.PublicKey, priv)
		if err != nil {
			envErr = err
			return
		}
		kb, _ := x509.MarshalECPrivateKey(priv)
		certPEM := pem.EncodeToMemory(&pem.Block{Type: "CERTIFICATE", Bytes: der})
		keyPEM := pem.EncodeToMemory(&pem.Block{Type: "EC PRIVATE KEY", Bytes: kb})
		e.cert, e.key = filepath.Join(e.dir, "cert.pem"), filepath.Join(e.dir, "key.pem")
		os.WriteFile(e.cert, certPEM, 0o600)
		os.WriteFile(e.key, keyPEM, 0o600)
		e.tlsCert, envErr = tls.X509KeyPair(certPEM, keyPEM)
		theEnv = e
	})
	return theEnv, envErr
}

// ---- scripted gNMI target server -------------------------------------------------------------

// hub is where the scripted targets and the observers of one case see each other's progress.
// Every wait on it is bounded; a bound that passes never decides a verdict.
type hub struct {
	mu       sync.Mutex
	ch       chan struct{} // closed (and replaced) on every change
	plays    map[string]*play
	obs      []*obsState
	progress time.Time // last time a script moved
	timedOut int       // bounded waits that ended by their bound
	abort    string    // infrastructure trouble that leaves the case without a verdict
	stop     bool      // the observers that lived while the scripts played are done: nobody waits any more
	over     bool      // the case is over: what happens to the streams now is the harness's doing
}

func newHub() *hub {
	return &hub{ch: make(chan struct{}), plays: map[string]*play{}, progress: time.Now()}
}

// change runs f under the lock and wakes every waiter.
func (h *hub) change(f func()) {
	h.mu.Lock()
	f()
	close(h.ch)
	h.ch = make(chan struct{})
	h.mu.Unlock()
}

// wait blocks until pred (evaluated under the lock) holds or max passed; it reports whether pred held.
func (h *hub) wait(pred func() bool, max time.Duration) bool {
	timer := time.NewTimer(max)
	defer timer.Stop()
	for {
		h.mu.Lock()
		if pred() {
			h.mu.Unlock()
			return true
		}
		c := h.ch
		h.mu.Unlock()
		select {
		case <-c:
		case <-timer.C:
			h.mu.Lock()
			ok := pred()
			if !ok {
				h.timedOut++
			}
			h.mu.Unlock()
			return ok
		}
	}
}

// play is one target's script being played. Fields are guarded by hub.mu except where noted.
type play struct {
	serial  sync.Mutex // one Subscribe handler per target plays at a time
	name    string
	ops     []Op
	id      string // value of the sentinel
	pos     int    // ops started
	conns   int    // Subscribe calls seen
	done    bool   // script and sentinel sent completely
	active  bool   // a stream from the collector is being served
	flushed time.Time
	// a target configured with a receive timeout sends heartbeats; rt is the timeout
	rt         time.Duration
	hbSent     int64 // value of the last heartbeat whose Send returned
	unscripted int   // streams that ended without the script asking for it (before the case was over)
	hbNext     atomic.Int64
	stalled    bool
	// resubExpected: the next Subscribe call is one the script expects (the first, or the one after a scripted break)
	resubExpected bool
	// the SubscribeResponses this target sent (measured where they are sent; labels and the non-trivial rule only)
	sizes sizeStats
	// only touched by the handler holding serial
	m  *model
	ts int64
}

// sizeStats: what the largest single SubscribeResponses of a target looked like.
type sizeStats struct {
	maxBytes, maxUpdates, maxValue     int
	over4Burst, over4Stream, over8     bool // encoded size above 4 MiB before / after the stream's sync_response; above 8 MiB
	manyBurst, manyStream              bool // >= 1000 updates in one response, before / after the stream's sync_response
	over4Atomic, over4WhileObserved    bool
	over16Atomic                       bool
	bigString, bigBytes, resentOnAgain bool
	bigLegacy                          bool // a value of >= 512 KiB in the deprecated Update.value field
}

const (
	mib         = 1 << 20
	manyUpdates = 1000
)

// guarded is one stream of a scripted target: the script and the heartbeats share it.
type guarded struct {
	mu     sync.Mutex
	stream pb.GNMI_SubscribeServer
	quiet  bool // a "silence" break: nothing is sent any more
	// only touched by the handler that plays the script
	h      *hub
	p      *play
	again  bool // not the target's first stream
	synced bool // this stream's sync_response has been sent
}

// measure records the size of a response the script is about to send.
func (g *guarded) measure(r *pb.SubscribeResponse) {
	if r.GetSyncResponse() {
		g.synced = true
		return
	}
	n := r.GetUpdate()
	size, ups := proto.Size(r), len(n.GetUpdate())
	if size <= mib && ups < manyUpdates {
		return
	}
	h, z := g.h, &g.p.sizes
	h.mu.Lock()
	defer h.mu.Unlock()
	if size > z.maxBytes {
		z.maxBytes = size
	}
	if ups > z.maxUpdates {
		z.maxUpdates = ups
	}
	for _, u := range n.GetUpdate() {
		var l int
		switch v := u.GetVal().GetValue().(type) {
		case *pb.TypedValue_StringVal:
			l = len(v.StringVal)
			z.bigString = z.bigString || l >= mib/2
		case *pb.TypedValue_BytesVal:
			l = len(v.BytesVal)
			z.bigBytes = z.bigBytes || l >= mib/2
		}
		if lv := len(u.GetValue().GetValue()); u.Val == nil && lv > 0 {
			l = lv
			z.bigLegacy = z.bigLegacy || l >= mib/2
		}
		if l > z.maxValue {
			z.maxValue = l
		}
	}
	if size > 4*mib {
		if g.synced {
			z.over4Stream = true
		} else {
			z.over4Burst = true
		}
		z.over8 = z.over8 || size > 8*mib
		z.over4Atomic = z.over4Atomic || n.GetAtomic()
		z.over16Atomic = z.over16Atomic || (n.GetAtomic() && size > 16*mib)
		z.resentOnAgain = z.resentOnAgain || g.again
		for _, o := range h.obs {
			if o.synced && !o.ended && (o.target == "*" || o.target == g.p.name) {
				z.over4WhileObserved = true
			}
		}
	}
	if ups >= manyUpdates {
		if g.synced {
			z.manyStream = true
		} else {
			z.manyBurst = true
		}
	}
}

func (g *guarded) send(rs []*pb.SubscribeResponse) error {
	for _, r := range rs {
		g.measure(r)
		g.mu.Lock()
		err := g.stream.Send(r)
		g.mu.Unlock()
		if err != nil {
			return err
		}
	}
	return nil
}

// heartbeats keeps the collector's receive timer from expiring while the script has nothing to say: a leaf
// outside every view, value = a counter, sent every tenth of the timeout. It returns what stops them (and
// waits for the sender: nothing may be sent once the handler has returned).
func (p *play) heartbeats(h *hub, g *guarded) (stop func()) {
	quit, done := make(chan struct{}), make(chan struct{})
	period := p.rt / 10
	if period < 10*time.Millisecond {
		period = 10 * time.Millisecond
	}
	go func() {
		defer close(done)
		tk := time.NewTicker(period)
		defer tk.Stop()
		for {
			select {
			case <-quit:
				return
			case <-g.stream.Context().Done():
				return
			case <-tk.C:
			}
			if debugStall > 0 {
				// self-test of the harness (flag -c01.stall): once, after the script is through, behave like a stalled machine
				h.mu.Lock()
				stall := p.done && !p.stalled
				p.stalled = p.stalled || stall
				h.mu.Unlock()
				if stall {
					time.Sleep(debugStall)
				}
			}
			g.mu.Lock()
			if g.quiet {
				g.mu.Unlock()
				continue
			}
			n := p.hbNext.Add(1)
			err := g.stream.Send(resp(&pb.Notification{Timestamp: time.Now().UnixNano(), Prefix: &pb.Path{},
				Update: []*pb.Update{{Path: &pb.Path{Elem: []*pb.PathElem{{Name: heartbeatName}}}, Val: &pb.TypedValue{Value: &pb.TypedValue_IntVal{IntVal: n}}}}}))
			g.mu.Unlock()
			if err != nil {
				return
			}
			h.change(func() {
				if n > p.hbSent {
					p.hbSent = n
				}
			})
		}
	}()
	return func() { close(quit); <-done }
}

// debugStall (flag -c01.stall) makes the heartbeats of a target with a receive timeout pause once for this long
// after the script is through: the collector's watchdog then fires at an instant no script chose. Cases must
// end without a verdict against the code (or pass); used to test the harness, 0 in every registered part.
var debugStall time.Duration

const (
	maxAwait = 3 * time.Second // a script waits at most this long for an observer
	maxPause = 3 * time.Second // an observer's handler blocks at most this long for a script
)

type trackListener struct {
	net.Listener
	mu    sync.Mutex
	conns []net.Conn
}

func (l *trackListener) Accept() (net.Conn, error) {
	c, err := l.Listener.Accept()
	if err == nil {
		l.mu.Lock()
		l.conns = append(l.conns, c)
		l.mu.Unlock()
	}
	return c, err
}

func (l *trackListener) closeAll() {
	l.mu.Lock()
	cs := l.conns
	l.conns = nil
	l.mu.Unlock()
	for _, c := range cs {
		c.Close()
	}
}

type scriptedServer struct {
	pb.UnimplementedGNMIServer
	mu       sync.Mutex
	requests map[string][]*pb.SubscribeRequest // what arrived, by target name in the prefix
	h        *hub
	colAddr  func() string // the collector's address (for the "rpc" break), known once it runs
	e        *env
	lis      *trackListener
	srv      *grpc.Server
	addr     string
}

func (s *scriptedServer) addScript(tg Target, id string) {
	p := &play{name: tg.Name, ops: tg.Ops, id: id, m: newModel(), ts: time.Now().UnixNano(), rt: time.Duration(tg.RecvTimeoutMs) * time.Millisecond, resubExpected: true}
	s.h.change(func() { s.h.plays[tg.Name] = p })
}

func sentinelResp(id string, ts *int64) *pb.SubscribeResponse {
	return resp(&pb.Notification{Timestamp: next(ts), Prefix: &pb.Path{},
		Update: []*pb.Update{{Path: &pb.Path{Elem: []*pb.PathElem{{Name: sentinelName}}}, Val: &pb.TypedValue{Value: &pb.TypedValue_StringVal{StringVal: id}}}}})
}

func (s *scriptedServer) Subscribe(stream pb.GNMI_SubscribeServer) error {
	req, err := stream.Recv()
	if err != nil {
		return err
	}
	name := req.GetSubscribe().GetPrefix().GetTarget()
	s.mu.Lock()
	s.requests[name] = append(s.requests[name], req)
	s.mu.Unlock()
	h := s.h
	h.mu.Lock()
	p := h.plays[name]
	h.mu.Unlock()
	if p == nil {
		<-stream.Context().Done()
		return nil
	}
	g := &guarded{stream: stream, h: h, p: p}
	var again bool
	h.change(func() {
		p.conns++
		again = p.conns > 1
		p.active = true
		// A Subscribe call is progress of the script when the script waits for one: the first, and the one after a
		// break it made. A collector that loses the stream on its own and subscribes again and again is not moving
		// the script (hang rule: nothing the script does happened for 20 s).
		if p.resubExpected {
			h.progress = time.Now()
		}
		p.resubExpected = false
	})
	g.again = again
	defer h.change(func() { p.active = false })
	// a stream that ends without the script asking for it (the collector's receive timeout on a loaded machine,
	// say) is no violation and decides nothing, but a case in which it happened cannot end with a verdict against
	// the code: the collector drops the target's state at that instant and gets it again, observers see both
	scripted := false
	defer func() {
		if !scripted {
			h.change(func() {
				if !h.over {
					p.unscripted++
				}
			})
		}
	}()
	if p.rt > 0 {
		// before the script's turn: a stream that waits for the previous handler must not look dead
		defer p.heartbeats(h, g)()
	}
	p.serial.Lock()
	defer p.serial.Unlock()
	send := g.send
	if again {
		// a device that is subscribed to again reports its current state, then marks it complete
		if err := send(append(p.m.report(&p.ts), syncResp())); err != nil {
			return err
		}
	}
	for {
		var o Op
		var end bool
		h.change(func() {
			if end = p.pos >= len(p.ops); !end {
				o = p.ops[p.pos]
				p.pos++
				h.progress = time.Now()
			}
		})
		if end {
			break
		}
		switch o.Kind {
		case "await":
			max := maxAwait
			if o.MaxMs > 0 {
				max = time.Duration(o.MaxMs) * time.Millisecond
			}
			h.wait(func() bool { return h.stop || (o.Obs < len(h.obs) && h.obs[o.Obs].reached(o.Event, o.N)) }, max)
		case "quiet":
			// the device has nothing to say for a while - REAL time, its stream stays open: whatever gives an idle
			// stream up (here, in the collector, between the collector and its subscribers) gets its chance. The
			// script counts as moving meanwhile (hang rule). A stream that ends nevertheless is picked up like any
			// other: the target reports its state on the next one and goes on with the script.
			for end := time.Now().Add(time.Duration(o.N) * time.Millisecond); ; {
				rem := time.Until(end)
				if rem <= 0 {
					break
				}
				if rem > time.Second {
					rem = time.Second
				}
				select {
				case <-stream.Context().Done():
					return status.Error(codes.Canceled, "stream cancelled")
				case <-time.After(rem):
				}
				h.mu.Lock()
				h.progress = time.Now()
				over := h.over
				h.mu.Unlock()
				if over {
					break
				}
			}
		case "wait":
			time.Sleep(time.Duration(o.N) * time.Millisecond)
		case "break":
			p.m.apply(o, nil)
			scripted = true
			h.change(func() { p.resubExpected = true })
			switch {
			case o.Via == "rpc":
				// the collector is asked to drop and re-establish this target's stream; the handler returns when
				// the stream HAS ended (or the case is given up): what the target reports on the next one counts
				rc := make(chan error, 1)
				go func() { rc <- reconnectRPC(s.colAddr(), name) }()
				select {
				case <-stream.Context().Done():
				case err := <-rc:
					// accepted: the manager has cancelled this stream's context, the cancellation is on its way.
					// Anything else leaves it open whether a reconnect is still to come: no verdict for this case.
					if err == nil {
						select {
						case <-stream.Context().Done():
						case <-time.After(20 * time.Second):
							err = fmt.Errorf("stream still open 20s later")
						}
					}
					if err != nil {
						h.change(func() { h.abort = fmt.Sprintf("Reconnect RPC for %s: %v", name, err) })
					}
				}
				return status.Error(codes.Canceled, "stream cancelled")
			case o.Via == "silence" && p.rt > 0:
				// the device goes quiet; the collector's receive timeout ends the stream
				g.mu.Lock()
				g.quiet = true
				g.mu.Unlock()
				select {
				case <-stream.Context().Done():
				case <-time.After(p.rt + 20*time.Second):
					h.change(func() {
						h.abort = fmt.Sprintf("%s sent nothing for %v (receive_timeout %v) and its stream is still open", name, p.rt+20*time.Second, p.rt)
					})
				}
				return status.Error(codes.Canceled, "stream cancelled")
			case o.Via == "conn":
				s.lis.closeAll()
				return status.Error(codes.Unavailable, "scripted transport failure")
			default:
				switch o.Code {
				case "eof":
					return nil
				case "canceled":
					return status.Error(codes.Canceled, "scripted stream failure")
				case "internal":
					return status.Error(codes.Internal, "scripted stream failure")
				case "deadline":
					return status.Error(codes.DeadlineExceeded, "scripted stream failure")
				}
				return status.Error(codes.Unavailable, "scripted stream failure")
			}
		default:
			p.m.apply(o, nil)
			if err := send(wire(o, &p.ts)); err != nil {
				return err
			}
		}
	}
	if err := send([]*pb.SubscribeResponse{sentinelResp(p.id, &p.ts)}); err != nil {
		return err
	}
	h.change(func() { p.done = true; p.flushed = time.Now(); h.progress = p.flushed })
	<-stream.Context().Done()
	return nil
}

func reconnectRPC(addr, target string) error {
	ctx, cancel := context.WithTimeout(context.Background(), 15*time.Second)
	defer cancel()
	conn, err := grpc.DialContext(ctx, addr, grpc.WithBlock(), grpc.WithTransportCredentials(credentials.NewTLS(&tls.Config{InsecureSkipVerify: true})))
	if err != nil {
		return err
	}
	defer conn.Close()
	_, err = cpb.NewCollectorClient(conn).Reconnect(ctx, &cpb.ReconnectRequest{Target: []string{target}})
	return err
}

func startScripted(e *env, h *hub, colAddr func() string) (*scriptedServer, error) {
	lis, err := net.Listen("tcp", "127.0.0.1:0")
	if err != nil {
		return nil, err
	}
	s := &scriptedServer{requests: map[string][]*pb.SubscribeRequest{}, h: h, colAddr: colAddr, e: e, lis: &trackListener{Listener: lis}, addr: lis.Addr().String()}
	s.srv = grpc.NewServer(grpc.Creds(credentials.NewTLS(&tls.Config{Certificates: []tls.Certificate{e.tlsCert}})))
	pb.RegisterGNMIServer(s.srv, s)
	go s.srv.Serve(s.lis)
	return s, nil
}

// ---- collector process -------------------------------------------------------------------------

type collectorProc struct {
	cmd  *exec.Cmd
	addr string
	log  string
	done chan struct{}
}

func freePort() (int, error) {
	l, err := net.Listen("tcp", "127.0.0.1:0")
	if err != nil {
		return 0, err
	}
	defer l.Close()
	return l.Addr().(*net.TCPAddr).Port, nil
}

func startCollector(e *env, dir, configFile string, noMeta bool, dialTimeout time.Duration) (*collectorProc, error) {
	if dialTimeout <= 0 {
		dialTimeout = 10 * time.Second
	}
	for attempt := 0; attempt < 3; attempt++ {
		port, err := freePort()
		if err != nil {
			return nil, err
		}
		logf := filepath.Join(dir, fmt.Sprintf("collector.%d.log", attempt))
		f, err := os.Create(logf)
		if err != nil {
			return nil, err
		}
		args := []string{"-config_file", configFile, "-cert_file", e.cert, "-key_file", e.key, "-port", fmt.Sprint(port), "-dial_timeout", dialTimeout.String(), "-logtostderr"}
		if !noMeta {
			args = append(args, "-metadata_update_period", "200ms")
		}
		cmd := exec.Command(e.collector, args...)
		cmd.Stdout, cmd.Stderr = f, f
		if err := cmd.Start(); err != nil {
			f.Close()
			return nil, err
		}
		p := &collectorProc{cmd: cmd, addr: fmt.Sprintf("127.0.0.1:%d", port), log: logf, done: make(chan struct{})}
		go func() { cmd.Wait(); f.Close(); close(p.done) }()
		// wait until it listens (a process that died - port taken meanwhile? - is started again on another port;
		// a successful dial proves nothing if it died: somebody else may own the port now)
		deadline := time.Now().Add(15 * time.Second)
		for time.Now().Before(deadline) && p.alive() {
			c, err := net.DialTimeout("tcp", p.addr, 200*time.Millisecond)
			if err == nil {
				c.Close()
				if p.alive() {
					return p, nil
				}
				break
			}
			time.Sleep(20 * time.Millisecond)
		}
		p.stop()
	}
	return nil, fmt.Errorf("the collector did not start listening")
}

// died is the verdict on a collector process that is gone: a violation, unless its log says it
// lost the race for its port (the harness picks a free port, closes it and hands the number over).
func (p *collectorProc) died() error {
	lg, _ := os.ReadFile(p.log)
	if strings.Contains(string(lg), "address already in use") {
		return &inconclusive{msg: "the collector could not bind its port: " + tailOf(string(lg), 300)}
	}
	return &violation{"collector-died", fmt.Sprintf("the collector process died: %s", tailOf(string(lg), 1500))}
}

func (p *collectorProc) alive() bool {
	select {
	case <-p.done:
		return false
	default:
		return true
	}
}

func (p *collectorProc) stop() {
	if p.cmd.Process != nil {
		p.cmd.Process.Kill()
	}
	select {
	case <-p.done:
	case <-time.After(5 * time.Second):
	}
}

// runCLI runs the gnmi_cli binary and returns its standard output.
func runCLI(e *env, args ...string) (string, string, error) {
	ctx, cancel := context.WithTimeout(context.Background(), 30*time.Second)
	defer cancel()
	cmd := exec.CommandContext(ctx, e.cli, append(args, "-logtostderr")...)
	var out, errb bytesBuffer
	cmd.Stdout, cmd.Stderr = &out, &errb
	err := cmd.Run()
	return out.String(), errb.String(), err
}

type bytesBuffer struct {
	mu sync.Mutex
	b  []byte
}

func (b *bytesBuffer) Write(p []byte) (int, error) {
	b.mu.Lock()
	defer b.mu.Unlock()
	b.b = append(b.b, p...)
	return len(p), nil
}
func (b *bytesBuffer) String() string { b.mu.Lock(); defer b.mu.Unlock(); return string(b.b) }

// ---- targets with a receive timeout: was the stream stable around an observation? ---------------

// sizes merges what the targets of the case sent.
func (h *hub) sizes() sizeStats {
	h.mu.Lock()
	defer h.mu.Unlock()
	var z sizeStats
	for _, p := range h.plays {
		q := p.sizes
		if q.maxBytes > z.maxBytes {
			z.maxBytes = q.maxBytes
		}
		if q.maxUpdates > z.maxUpdates {
			z.maxUpdates = q.maxUpdates
		}
		if q.maxValue > z.maxValue {
			z.maxValue = q.maxValue
		}
		z.over4Burst = z.over4Burst || q.over4Burst
		z.over4Stream = z.over4Stream || q.over4Stream
		z.over8 = z.over8 || q.over8
		z.manyBurst = z.manyBurst || q.manyBurst
		z.manyStream = z.manyStream || q.manyStream
		z.over4Atomic = z.over4Atomic || q.over4Atomic
		z.over16Atomic = z.over16Atomic || q.over16Atomic
		z.over4WhileObserved = z.over4WhileObserved || q.over4WhileObserved
		z.bigString = z.bigString || q.bigString
		z.bigBytes = z.bigBytes || q.bigBytes
		z.bigLegacy = z.bigLegacy || q.bigLegacy
		z.resentOnAgain = z.resentOnAgain || q.resentOnAgain
	}
	return z
}

// unscriptedEnds counts the streams of targets WITH a receive timeout that ended although the script had not asked for it.
func (h *hub) unscriptedEnds() int {
	h.mu.Lock()
	defer h.mu.Unlock()
	n := 0
	for _, p := range h.plays {
		if p.rt > 0 {
			n += p.unscripted
		}
	}
	return n
}

// confirmStreams is called when a case is about to end with a violation. For every target with a receive
// timeout it demands positive evidence that the collector did not give the target's stream up at an instant
// the script had not chosen (a stalled machine): no stream ended unscripted so far, and a heartbeat that the
// target sends on its current stream from now on arrives in the collector's cache while that stream is still
// the current one. The collector resets a target only when its stream ends and every new stream is counted
// before anything is sent on it, so the stream that carried the heartbeat was the collector's source for the
// whole time between the end of the script and the observation. nil: confirmed (or nothing to confirm).
func (h *hub) confirmStreams(addr string) *inconclusive {
	type rtPlay struct {
		p      *play
		c0     int
		n0     int64
		broken bool
	}
	var rts []rtPlay
	h.mu.Lock()
	for _, p := range h.plays {
		if p.rt > 0 {
			// every break the script made is followed by exactly one new Subscribe call
			breaks := 0
			for _, o := range p.ops[:p.pos] {
				if o.Kind == "break" {
					breaks++
				}
			}
			rts = append(rts, rtPlay{p: p, c0: p.conns, n0: p.hbSent, broken: p.unscripted > 0 || p.conns != 1+breaks})
		}
	}
	h.mu.Unlock()
	for _, r := range rts {
		p := r.p
		no := func(why string) *inconclusive {
			return &inconclusive{msg: fmt.Sprintf("a mismatch was observed, but target %s has a receive timeout (%v) and %s: the collector may have dropped and re-read its state on its own", p.name, p.rt, why)}
		}
		if r.broken {
			return no("a stream of it ended without the script asking for it (or the collector has not subscribed again yet)")
		}
		need := r.n0 + 2 // the Send of this one started after n0 was read
		ok := h.wait(func() bool { return p.hbSent >= need || p.conns != r.c0 || p.unscripted > 0 }, 10*time.Second)
		h.mu.Lock()
		moved := p.conns != r.c0 || p.unscripted > 0
		h.mu.Unlock()
		if !ok || moved {
			return no("its stream did not stay up afterwards")
		}
		arrived := false
		for deadline := time.Now().Add(10 * time.Second); !arrived && time.Now().Before(deadline); time.Sleep(50 * time.Millisecond) {
			leaves, err := subscribeView(baseQuery(addr, p.name, []QPath{{Path: []string{"openconfig", heartbeatName}, Index: []string{"openconfig", heartbeatName}}}, client.Once), nil, 5*time.Second)
			if err != nil {
				continue
			}
			for _, l := range leaves {
				if v, isInt := l.Val.(int64); isInt && len(l.Path) == 3 && l.Path[2] == heartbeatName && v >= need {
					arrived = true
				}
			}
		}
		h.mu.Lock()
		moved = p.conns != r.c0 || p.unscripted > 0
		h.mu.Unlock()
		if !arrived || moved {
			return no("a heartbeat sent afterwards did not arrive through the same stream")
		}
	}
	return nil
}
