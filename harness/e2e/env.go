package e2e

import (
	"context"
	"crypto/ecdsa"
	"crypto/elliptic"
	"crypto/rand"
	"crypto/tls"
	"crypto/x509"
	"crypto/x509/pkix"
	"encoding/pem"
	"fmt"
	"math/big"
	"net"
	"os"
	"os/exec"
	"path/filepath"
	"regexp"
	"runtime"
	"sync"
	"time"

	pb "github.com/openconfig/gnmi/proto/gnmi"
	"google.golang.org/grpc"
	"google.golang.org/grpc/credentials"
)

// env holds what is built once per test process: the two binaries and a certificate.
type env struct {
	dir       string
	collector string
	cli       string
	cert, key string
	tlsCert   tls.Certificate
}

var (
	envOnce sync.Once
	theEnv  *env
	envErr  error
)

// repoDir finds the tree the harness is built against: the replace target in the harness's go.mod.
func repoDir() (string, error) {
	_, file, _, ok := runtime.Caller(0)
	if !ok {
		return "", fmt.Errorf("no caller information")
	}
	mod := filepath.Join(filepath.Dir(filepath.Dir(file)), "go.mod")
	b, err := os.ReadFile(mod)
	if err != nil {
		return "", err
	}
	m := regexp.MustCompile(`(?m)^replace github.com/openconfig/gnmi [^=]*=> (\S+)`).FindSubmatch(b)
	if m == nil {
		return "", fmt.Errorf("no replace directive for github.com/openconfig/gnmi in %s", mod)
	}
	return string(m[1]), nil
}

func getEnv(workDir string) (*env, error) {
	envOnce.Do(func() {
		e := &env{}
		e.dir, envErr = os.MkdirTemp(workDir, "e2e-env-")
		if envErr != nil {
			return
		}
		repo, err := repoDir()
		if err != nil {
			envErr = err
			return
		}
		// the production toolchain and language semantics for the two programs
		cmd := exec.Command("go", "build", "-tags", "verif", "-o", e.dir+string(os.PathSeparator), "./cmd/gnmi_collector", "./cmd/gnmi_cli")
		cmd.Dir = repo
		cmd.Env = append(os.Environ(), "GOFLAGS=-mod=readonly", "GOPROXY=off", "GOSUMDB=off", "GOTOOLCHAIN=local")
		if out, err := cmd.CombinedOutput(); err != nil {
			envErr = fmt.Errorf("building the collector and CLI binaries from %s failed: %v\n%s", repo, err, out)
			return
		}
		e.collector = filepath.Join(e.dir, "gnmi_collector")
		e.cli = filepath.Join(e.dir, "gnmi_cli")
		// self-signed certificate
		priv, err := ecdsa.GenerateKey(elliptic.P256(), rand.Reader)
		if err != nil {
			envErr = err
			return
		}
		tmpl := &x509.Certificate{SerialNumber: big.NewInt(1), Subject: pkix.Name{CommonName: "verif"}, NotBefore: time.Now().Add(-time.Hour), NotAfter: time.Now().Add(240 * time.Hour),
			KeyUsage: x509.KeyUsageDigitalSignature | x509.KeyUsageKeyEncipherment, ExtKeyUsage: []x509.ExtKeyUsage{x509.ExtKeyUsageServerAuth}, IPAddresses: []net.IP{net.ParseIP("127.0.0.1")}, DNSNames: []string{"localhost"}}
		der, err := x509.CreateCertificate(rand.Reader, tmpl, tmpl, &priv.PublicKey, priv)
		if err != nil {
			envErr = err
			return
		}
		kb, _ := x509.MarshalECPrivateKey(priv)
		certPEM := pem.EncodeToMemory(&pem.Block{Type: "CERTIFICATE", Bytes: der})
		keyPEM := pem.EncodeToMemory(&pem.Block{Type: "EC PRIVATE KEY", Bytes: kb})
		e.cert, e.key = filepath.Join(e.dir, "cert.pem"), filepath.Join(e.dir, "key.pem")
		os.WriteFile(e.cert, certPEM, 0o600)
		os.WriteFile(e.key, keyPEM, 0o600)
		e.tlsCert, envErr = tls.X509KeyPair(certPEM, keyPEM)
		theEnv = e
	})
	return theEnv, envErr
}

// ---- scripted gNMI target server -------------------------------------------------------------

type scriptedServer struct {
	pb.UnimplementedGNMIServer
	mu       sync.Mutex
	scripts  map[string][]*pb.SubscribeResponse // by target name
	requests map[string][]*pb.SubscribeRequest  // what arrived, by target name in the prefix
	flushed  map[string]time.Time               // when the whole script of a target had been sent
	srv      *grpc.Server
	addr     string
}

func (s *scriptedServer) Subscribe(stream pb.GNMI_SubscribeServer) error {
	req, err := stream.Recv()
	if err != nil {
		return err
	}
	name := req.GetSubscribe().GetPrefix().GetTarget()
	s.mu.Lock()
	s.requests[name] = append(s.requests[name], req)
	script := s.scripts[name]
	s.mu.Unlock()
	for _, r := range script {
		if err := stream.Send(r); err != nil {
			return err
		}
	}
	s.mu.Lock()
	s.flushed[name] = time.Now()
	s.mu.Unlock()
	<-stream.Context().Done()
	return nil
}

func startScripted(e *env) (*scriptedServer, error) {
	lis, err := net.Listen("tcp", "127.0.0.1:0")
	if err != nil {
		return nil, err
	}
	s := &scriptedServer{scripts: map[string][]*pb.SubscribeResponse{}, requests: map[string][]*pb.SubscribeRequest{}, flushed: map[string]time.Time{}, addr: lis.Addr().String()}
	s.srv = grpc.NewServer(grpc.Creds(credentials.NewTLS(&tls.Config{Certificates: []tls.Certificate{e.tlsCert}})))
	pb.RegisterGNMIServer(s.srv, s)
	go s.srv.Serve(lis)
	return s, nil
}

// ---- collector process -------------------------------------------------------------------------

type collectorProc struct {
	cmd  *exec.Cmd
	addr string
	log  string
	done chan struct{}
}

func freePort() (int, error) {
	l, err := net.Listen("tcp", "127.0.0.1:0")
	if err != nil {
		return 0, err
	}
	defer l.Close()
	return l.Addr().(*net.TCPAddr).Port, nil
}

func startCollector(e *env, dir, configFile string) (*collectorProc, error) {
	for attempt := 0; attempt < 3; attempt++ {
		port, err := freePort()
		if err != nil {
			return nil, err
		}
		logf := filepath.Join(dir, fmt.Sprintf("collector.%d.log", attempt))
		f, err := os.Create(logf)
		if err != nil {
			return nil, err
		}
		cmd := exec.Command(e.collector, "-config_file", configFile, "-cert_file", e.cert, "-key_file", e.key, "-port", fmt.Sprint(port),
			"-dial_timeout", "10s", "-logtostderr", "-metadata_update_period", "200ms")
		cmd.Stdout, cmd.Stderr = f, f
		if err := cmd.Start(); err != nil {
			f.Close()
			return nil, err
		}
		p := &collectorProc{cmd: cmd, addr: fmt.Sprintf("127.0.0.1:%d", port), log: logf, done: make(chan struct{})}
		go func() { cmd.Wait(); f.Close(); close(p.done) }()
		// wait until it listens
		deadline := time.Now().Add(15 * time.Second)
		for time.Now().Before(deadline) {
			select {
			case <-p.done:
				deadline = time.Now() // died (port taken?): try again
			default:
			}
			c, err := net.DialTimeout("tcp", p.addr, 200*time.Millisecond)
			if err == nil {
				c.Close()
				return p, nil
			}
			time.Sleep(20 * time.Millisecond)
		}
		p.stop()
	}
	return nil, fmt.Errorf("the collector did not start listening")
}

func (p *collectorProc) alive() bool {
	select {
	case <-p.done:
		return false
	default:
		return true
	}
}

func (p *collectorProc) stop() {
	if p.cmd.Process != nil {
		p.cmd.Process.Kill()
	}
	select {
	case <-p.done:
	case <-time.After(5 * time.Second):
	}
}

// runCLI runs the gnmi_cli binary and returns its standard output.
func runCLI(e *env, args ...string) (string, string, error) {
	ctx, cancel := context.WithTimeout(context.Background(), 30*time.Second)
	defer cancel()
	cmd := exec.CommandContext(ctx, e.cli, append(args, "-logtostderr")...)
	var out, errb bytesBuffer
	cmd.Stdout, cmd.Stderr = &out, &errb
	err := cmd.Run()
	return out.String(), errb.String(), err
}

type bytesBuffer struct {
	mu sync.Mutex
	b  []byte
}

func (b *bytesBuffer) Write(p []byte) (int, error) {
	b.mu.Lock()
	defer b.mu.Unlock()
	b.b = append(b.b, p...)
	return len(p), nil
}
func (b *bytesBuffer) String() string { b.mu.Lock(); defer b.mu.Unlock(); return string(b.b) }
