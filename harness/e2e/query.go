package e2e

import (
	"sort"
	"strings"

	"github.com/openconfig/gnmi/client"
	"pgregory.net/rapid"
	"verif/harness/internal/gn"
)

// Client queries that address PART of a target: paths given as client.Query.Queries (strings, the form
// gnmi_cli -q and most library users hand over), with elements that contain '/' and with list keys either
// as index strings or in the name[key=value] syntax. The oracle is the one of every observer - after
// quiescence the view equals the targets' final state - restricted to what the paths address.
//
// Kept out by construction (the behaviour there belongs to other properties or is an open finding):
//   - a query path that runs BELOW a leaf the collector stores at some time (an atomic container is one leaf
//     at its prefix; a plain leaf above a longer query): query and streaming filter disagree there by design;
//   - a path whose last string ends with '/' (open finding D15, property C19: the client's string form loses it).

const heartbeatName = "zz-heartbeat"

// isHarnessLeaf: leaves the scripted target sends for the harness's own use; they are outside every view.
func isHarnessLeaf(last string) bool { return last == sentinelName || last == heartbeatName }

// qcand is one cache leaf some script writes: where a query may point.
type qcand struct {
	origin  string
	elems   []gn.Elem
	element bool
	key     string // cache key without target
}

func (c qcand) slashAt() int {
	for i, e := range c.elems {
		if strings.Contains(strings.Join(gn.IndexOfElems([]gn.Elem{e}, c.element), "\x00"), "/") {
			return i
		}
	}
	return -1
}

func candOf(origin string, elems []gn.Elem, element bool) qcand {
	if origin == "" {
		origin = "openconfig"
	}
	return qcand{origin: origin, elems: elems, element: element, key: gn.Key(append([]string{origin}, gn.IndexOfElems(elems, element)...))}
}

// opCands: the cache leaves an op writes (an atomic notification is ONE leaf at its prefix).
func opCands(o Op) []qcand {
	join := func(a, b []gn.Elem) []gn.Elem { return append(append([]gn.Elem{}, a...), b...) }
	switch o.Kind {
	case "update", "multi":
		return []qcand{candOf(o.Origin, join(o.Prefix, o.Path), o.Element)}
	case "atomic":
		return []qcand{candOf(o.Origin, o.Prefix, false)}
	case "group":
		var out []qcand
		for _, u := range o.Ups {
			out = append(out, candOf(o.Origin, join(o.Prefix, u.Path), false))
		}
		return out
	case "fill":
		if o.N > 0 {
			f := fillOp(o, 0)
			f.Path[1].Keys = map[string]string{"id": "*"} // stands for every id
			return []qcand{candOf("", f.Path, false)}
		}
	}
	return nil
}

// queryAllowed: no leaf the collector ever stores for the targets in scope lies strictly above the query path.
func queryAllowed(qi []string, ever [][]string) bool {
	for _, k := range ever {
		if len(k) < len(qi) && gn.Compatible(k, qi[:len(k)]) {
			return false
		}
	}
	return true
}

type queryGen struct {
	cands []qcand
	slash []qcand
	final map[string]bool // cache keys present in some in-scope target's final state
	ever  [][]string
}

// newQueryGen collects, for the targets in scope (-1: all), where queries may point.
func newQueryGen(targets []Target, scope int) *queryGen {
	g := &queryGen{final: map[string]bool{}}
	g.ever = append(g.ever, []string{"openconfig", sentinelName}, []string{"openconfig", heartbeatName})
	seen := map[string]bool{}
	for i, tg := range targets {
		if scope >= 0 && i != scope%len(targets) {
			continue
		}
		m := newModel()
		for _, o := range tg.Ops {
			m.apply(o, nil)
			for _, c := range opCands(o) {
				if !seen[c.key] {
					seen[c.key] = true
					g.cands = append(g.cands, c)
					g.ever = append(g.ever, gn.Unkey(c.key))
					if c.slashAt() >= 0 {
						g.slash = append(g.slash, c)
					}
				}
			}
		}
		for k := range m.units {
			g.final[k] = true
		}
	}
	return g
}

// path draws one query path, or reports that none was found.
func (g *queryGen) path(t *rapid.T) (QPath, bool) {
	if len(g.cands) == 0 {
		return QPath{}, false
	}
	for try := 0; try < 6; try++ {
		pool := g.cands
		if len(g.slash) > 0 && rapid.IntRange(0, 3).Draw(t, "qslash") > 0 {
			pool = g.slash
		}
		if rapid.IntRange(0, 2).Draw(t, "qfinal") > 0 {
			// prefer what is still there in the end: a view that should be empty shows little
			var alive []qcand
			for _, c := range pool {
				if g.final[c.key] || strings.HasPrefix(c.key, "openconfig"+gn.Sep+"fill"+gn.Sep) {
					alive = append(alive, c)
				}
			}
			if len(alive) > 0 {
				pool = alive
			}
		}
		c := pool[rapid.IntRange(0, len(pool)-1).Draw(t, "qwhich")]
		min := 1
		if s := c.slashAt(); s >= 0 {
			min = s + 1
		}
		n := rapid.IntRange(min, len(c.elems)).Draw(t, "qlen")
		bracket := rapid.Bool().Draw(t, "qbracket")
		rev := rapid.Bool().Draw(t, "qkeyorder")
		q := QPath{Path: []string{c.origin}, Index: []string{c.origin}}
		if rapid.IntRange(0, 7).Draw(t, "qanyorigin") == 0 {
			q.Path[0], q.Index[0] = "*", "*"
		}
		for _, e := range c.elems[:n] {
			idx := gn.IndexOfElems([]gn.Elem{e}, c.element)
			q.Index = append(q.Index, idx...)
			if bracket && !c.element && len(e.Keys) > 0 {
				ks := make([]string, 0, len(e.Keys))
				for k := range e.Keys {
					ks = append(ks, k)
				}
				sort.Strings(ks)
				if rev {
					for i, j := 0, len(ks)-1; i < j; i, j = i+1, j-1 {
						ks[i], ks[j] = ks[j], ks[i]
					}
				}
				s := e.Name
				for _, k := range ks {
					s += "[" + k + "=" + e.Keys[k] + "]"
				}
				q.Path = append(q.Path, s)
			} else {
				q.Path = append(q.Path, idx...)
			}
		}
		if strings.HasSuffix(q.Path[len(q.Path)-1], "/") || !queryAllowed(q.Index, g.ever) {
			continue
		}
		return q, true
	}
	return QPath{}, false
}

// paths draws the 1-3 paths of one client query (nil: nothing suitable, the caller subscribes to everything).
func (g *queryGen) paths(t *rapid.T) []QPath {
	var out []QPath
	for n := rapid.IntRange(1, 3).Draw(t, "qpaths"); n > 0; n-- {
		if q, ok := g.path(t); ok {
			out = append(out, q)
		}
	}
	return out
}

func genReuse(t *rapid.T, targets []Target) []Reuse {
	var out []Reuse
	for n := rapid.IntRange(0, 2).Draw(t, "reuses"); n > 0; n-- {
		r := Reuse{Scope: rapid.IntRange(-1, len(targets)-1).Draw(t, "rscope")}
		r.Queries = newQueryGen(targets, r.Scope).paths(t)
		if len(r.Queries) == 0 {
			continue
		}
		r.Modes = append([]string{}, rapid.SampledFrom([][]string{{"once", "once"}, {"once", "stream"}, {"stream", "once"}, {"stream", "stream"}, {"once", "once", "stream"}}).Draw(t, "rmodes")...)
		out = append(out, r)
	}
	return out
}

// clientPaths builds a fresh []client.Path for one client.Query VALUE (the scenario's own slices are never
// handed to the library). The sentinel's path is added so that quiescence stays observable.
func clientPaths(qs []QPath) []client.Path {
	if len(qs) == 0 {
		return []client.Path{{"*"}}
	}
	var out []client.Path
	for _, q := range qs {
		out = append(out, append(client.Path{}, q.Path...))
	}
	return append(out, client.Path{"openconfig", sentinelName})
}

// addressed: the leaf (index path starting with the target) is part of what the query paths ask for.
func addressed(qs []QPath, leaf []string) bool {
	if len(qs) == 0 {
		return true
	}
	for _, q := range qs {
		if gn.Matches(append([]string{leaf[0]}, q.Index...), leaf) {
			return true
		}
	}
	return false
}

func describeQueries(qs []QPath) string {
	if len(qs) == 0 {
		return `"*"`
	}
	var parts []string
	for _, q := range qs {
		parts = append(parts, "["+strings.Join(q.Path, " | ")+"]")
	}
	return strings.Join(parts, " ")
}

func slashInQueries(qs []QPath) bool {
	for _, q := range qs {
		for _, e := range q.Index {
			if strings.Contains(e, "/") {
				return true
			}
		}
	}
	return false
}
