package e2e

import (
	"encoding/json"
	"flag"
	"fmt"
	"os"
	"testing"

	"pgregory.net/rapid"
	"verif/harness/internal/vstat"
)

func TestMain(m *testing.M) {
	flag.IntVar(&quietMin, "c01.quietmin", quietMin, "shortest quiet period (ms) of the quiet part; the longest is 10 s more (harness self-tests only: the registered part uses the default)")
	flag.DurationVar(&debugStall, "c01.stall", 0, "harness self-test: heartbeats of a target with a receive timeout pause once for this long after its script is through")
	flag.Parse()
	os.Exit(m.Run())
}

func workDir() string {
	if *vstat.OutDir != "" {
		return *vstat.OutDir
	}
	return os.TempDir()
}

func TestC01Random(t *testing.T) {
	runPart(t, "random", func(rt *rapid.T) *Scenario { return genScenario(rt) }, func(st *stats) bool { return st.nontrivial() })
}

var (
	maxFill  = flag.Int("c01.maxfill", 1500, "largest bulk state (leaves) of a generated target in the break part")
	maxStorm = flag.Int("c01.maxstorm", 4, "most observers attaching around one stream break")
)

// TestC01Slow: observers that stop reading for a while, so that the collector has to coalesce
// what the target sends again and again meanwhile (atomic containers, groups, large leaves).
// Non-trivial additionally demands that a blocked observer demonstrably received a coalesced delivery.
func TestC01Slow(t *testing.T) {
	runPart(t, "slow", func(rt *rapid.T) *Scenario {
		return genFlowScenario(rt, flowParams{profile: "slow", maxFill: *maxFill, maxStorm: *maxStorm})
	}, func(st *stats) bool { return st.nontrivial() && st.coalescedAtPaused })
}

// TestC01Break: the target's stream breaks (status, transport, forced by RPC), the target comes
// back with its current state - possibly without some earlier leaves - and observers attach
// around that instant. Non-trivial additionally demands that the collector did subscribe again
// and that an observer attached mid-script.
func TestC01Break(t *testing.T) {
	runPart(t, "break", func(rt *rapid.T) *Scenario {
		return genFlowScenario(rt, flowParams{profile: "break", maxFill: *maxFill, maxStorm: *maxStorm})
	}, func(st *stats) bool { return st.nontrivial() && st.reconnected && st.lateObserver })
}

// TestC01Resub: client.Query values (paths as strings, elements with '/', list keys as index strings or in
// the name[key=value] syntax) that are used for more than one subscription: a ONCE before the STREAM, a
// client.ReconnectClient whose transport to the collector is cut while the target goes on, several
// subscriptions in a row after quiescence. Non-trivial additionally demands that the library did subscribe
// again with the same value.
func TestC01Resub(t *testing.T) {
	runPart(t, "resub", func(rt *rapid.T) *Scenario {
		return genFlowScenario(rt, flowParams{profile: "resub", maxFill: *maxFill, maxStorm: *maxStorm})
	}, func(st *stats) bool { return st.nontrivial() && st.resubscribed })
}

// TestC01Reach: targets configured with SEVERAL addresses of which only one answers gNMI - the others refuse the
// connection, accept it and stay silent, close it at once, answer without TLS, abort the TLS handshake - in every order,
// also listed twice and as address chains; the collector runs with a short -dial_timeout. Same oracle as every part.
// Non-trivial additionally demands a target with a dead address besides its live one.
func TestC01Reach(t *testing.T) {
	runPart(t, "reach", func(rt *rapid.T) *Scenario { return genReachScenario(rt) }, func(st *stats) bool { return st.nontrivial() && st.multiAddr })
}

var (
	maxCount = flag.Int("c01.maxcount", 20000, "most updates in one notification of the size part")
	maxNoti  = flag.Int("c01.maxnoti", 10, "largest notification (MiB) the size part makes out of many updates")
)

// TestC01Size: scripts with one or two unusually large SubscribeResponses - a few very large values (more than 4 MiB,
// sometimes more than 8 MiB in one response; plain or as an atomic container), thousands of updates in one notification,
// rarely a single value above 4 MiB - in the sync burst and after it, with observers streaming meanwhile.
// Same oracle as every part. Non-trivial additionally demands that a target did send a single response above 4 MiB or
// with >= 1000 updates (measured where it is sent).
func TestC01Size(t *testing.T) {
	runPart(t, "size", func(rt *rapid.T) *Scenario {
		return genSizeScenario(rt, sizeParams{maxCount: *maxCount, maxBytes: *maxNoti << 20})
	}, func(st *stats) bool { return st.nontrivial() && st.bigResponse() })
}

// TestC01Quiet: targets that say nothing for 35-45 s of REAL time while plain client-library applications
// (connection dialled by the library, short Query.Timeout) stay subscribed through a collector that runs
// without periodic metadata; then the targets' state changes. Same oracle as every part. Non-trivial
// additionally demands that an observer's stream demonstrably carried nothing for >= 33 s and then an update.
// Thorough tier only: a case lasts about a minute however fast the machine is.
func TestC01Quiet(t *testing.T) {
	runPart(t, "quiet", func(rt *rapid.T) *Scenario { return genQuietScenario(rt) }, func(st *stats) bool { return st.nontrivial() && st.idleObserver })
}

func runPart(t *testing.T, part string, gen func(*rapid.T) *Scenario, nontrivial func(*stats) bool) {
	if !vstat.Enabled("C01") {
		t.Skip()
	}
	rec := vstat.New("C01", part)
	if _, err := getEnv(workDir()); err != nil {
		rec.Note("INFRA: %v", err)
		rec.Flush(false)
		t.Skipf("cannot prepare the binaries: %v", err)
	}
	inconclusiveN := 0
	rec.RunRapid(t, func(rt *rapid.T) {
		sc := gen(rt)
		if inconclusiveN > 5 {
			// the machine cannot run this engine now: the part ends short of its budget (exit 2), not with a verdict
			return
		}
		rec.Current(sc)
		st, err := run(workDir(), sc)
		if inc, ok := err.(*inconclusive); ok {
			// infrastructure trouble (ports, process start, a wall-clock bound): never a violation
			inconclusiveN++
			rec.Label("inconclusive-case-skipped")
			rec.NoteOnce("inconclusive case skipped: %s", inc.msg)
			if inconclusiveN > 5 {
				rec.Note("more than 5 inconclusive cases: no further case is run")
				return
			}
			rt.Skip("inconclusive")
		}
		rec.Case(sc, nontrivial(st), st.labels()...)
		if err != nil {
			class := "oracle"
			if v, ok := err.(*violation); ok {
				class = v.class
			}
			rt.Fatalf("%s", rec.Fail(sc, class, "%v", err))
		}
	})
}

// TestReplay re-runs a saved scenario without the library.
func TestReplay(t *testing.T) {
	rf, ok, err := vstat.LoadReplay()
	if !ok {
		t.Skip()
	}
	if err != nil {
		t.Fatal(err)
	}
	rec := vstat.New(rf.Property, "replay")
	defer rec.Flush(true)
	var sc Scenario
	msg := ""
	if err := json.Unmarshal(rf.Scenario, &sc); err != nil || len(sc.Targets) == 0 {
		msg = fmt.Sprintf("bad scenario: %v", err)
	} else if _, err := run(workDir(), &sc); err != nil {
		if _, inc := err.(*inconclusive); inc {
			fmt.Println("REPLAY-INCONCLUSIVE:", err)
			t.Skip()
		}
		msg = err.Error()
	}
	if msg != "" {
		rec.AddViolation(json.RawMessage(rf.Scenario), rf.Kind, rf.Class, "%s", msg)
		fmt.Println("REPLAY-FAIL:", msg)
		t.Fail()
		return
	}
	rec.Case(json.RawMessage(rf.Scenario), false, "replayed")
	fmt.Println("REPLAY-OK")
}
