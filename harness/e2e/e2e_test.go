package e2e

import (
	"encoding/json"
	"flag"
	"fmt"
	"os"
	"testing"

	"pgregory.net/rapid"
	"verif/harness/internal/vstat"
)

func TestMain(m *testing.M) {
	flag.Parse()
	os.Exit(m.Run())
}

func workDir() string {
	if *vstat.OutDir != "" {
		return *vstat.OutDir
	}
	return os.TempDir()
}

func TestC01Random(t *testing.T) {
	if !vstat.Enabled("C01") {
		t.Skip()
	}
	rec := vstat.New("C01", "random")
	if _, err := getEnv(workDir()); err != nil {
		rec.Note("INFRA: %v", err)
		rec.Flush(false)
		t.Skipf("cannot prepare the binaries: %v", err)
	}
	inconclusiveN := 0
	rec.RunRapid(t, func(rt *rapid.T) {
		sc := genScenario(rt)
		rec.Current(sc)
		st, err := run(workDir(), sc)
		if inc, ok := err.(*inconclusive); ok {
			// infrastructure trouble (ports, process start): never a violation
			inconclusiveN++
			rec.NoteOnce("inconclusive case skipped: %s", inc.msg)
			if inconclusiveN > 5 {
				rt.Fatalf("too many inconclusive cases: %s", inc.msg)
			}
			rt.Skip("inconclusive")
		}
		rec.Case(sc, st.nontrivial(), st.labels()...)
		if err != nil {
			class := "oracle"
			if v, ok := err.(*violation); ok {
				class = v.class
			}
			rt.Fatalf("%s", rec.Fail(sc, class, "%v", err))
		}
	})
}

// TestReplay re-runs a saved scenario without the library.
func TestReplay(t *testing.T) {
	rf, ok, err := vstat.LoadReplay()
	if !ok {
		t.Skip()
	}
	if err != nil {
		t.Fatal(err)
	}
	rec := vstat.New(rf.Property, "replay")
	defer rec.Flush(true)
	var sc Scenario
	msg := ""
	if err := json.Unmarshal(rf.Scenario, &sc); err != nil || len(sc.Targets) == 0 {
		msg = fmt.Sprintf("bad scenario: %v", err)
	} else if _, err := run(workDir(), &sc); err != nil {
		if _, inc := err.(*inconclusive); inc {
			fmt.Println("REPLAY-INCONCLUSIVE:", err)
			t.Skip()
		}
		msg = err.Error()
	}
	if msg != "" {
		rec.AddViolation(json.RawMessage(rf.Scenario), rf.Kind, rf.Class, "%s", msg)
		fmt.Println("REPLAY-FAIL:", msg)
		t.Fail()
		return
	}
	rec.Case(json.RawMessage(rf.Scenario), false, "replayed")
	fmt.Println("REPLAY-OK")
}
