package e2e

import (
	"crypto/tls"
	"errors"
	"fmt"
	"io"
	"net"
	"sync"
	"syscall"

	"pgregory.net/rapid"
)

// The "reach" part: HOW the collector reaches a target. A target may be configured with several addresses
// (proto target.Target.addresses); the collector has to end up subscribed to the target as long as one of them
// answers, whatever is wrong with the others and wherever in the list they stand. The dead addresses are real
// endpoints owned by the case (so that nobody else can answer on them), dead in the ways a stale management
// address is: nothing listens, connections are accepted and never spoken to, accepted and closed, answered by
// something that does not speak TLS, answered by a TLS endpoint that aborts the handshake. The collector binary
// dials with grpc.WithBlock, so every one of them costs it up to one -dial_timeout per attempt; the cases run
// the collector with a short one. The oracle is the one of every part: after quiescence every view equals the
// targets' final state. Which address the collector tries first is its own (random) choice - a label.

var deadKinds = []string{"refused", "silent", "closing", "plaintext", "tlsfail"}

// deadEnd is one address nobody answers gNMI on.
type deadEnd struct {
	kind string
	addr string
	stop func()

	mu       sync.Mutex
	accepted int
	conns    []net.Conn
}

func (d *deadEnd) dialled() int {
	d.mu.Lock()
	defer d.mu.Unlock()
	return d.accepted
}

// refusedAddr binds a TCP socket to a loopback port and never listens on it: connecting to it is refused, and
// the port belongs to the case until release is called (a port that is merely unused could be handed to somebody
// else - another case's scripted target, say - at any time).
func refusedAddr() (addr string, release func(), err error) {
	fd, err := syscall.Socket(syscall.AF_INET, syscall.SOCK_STREAM, 0)
	if err != nil {
		return "", nil, err
	}
	syscall.CloseOnExec(fd)
	if err := syscall.Bind(fd, &syscall.SockaddrInet4{Addr: [4]byte{127, 0, 0, 1}}); err != nil {
		syscall.Close(fd)
		return "", nil, err
	}
	sa, err := syscall.Getsockname(fd)
	if err != nil {
		syscall.Close(fd)
		return "", nil, err
	}
	in4, ok := sa.(*syscall.SockaddrInet4)
	if !ok {
		syscall.Close(fd)
		return "", nil, errors.New("unexpected socket address type")
	}
	return fmt.Sprintf("127.0.0.1:%d", in4.Port), func() { syscall.Close(fd) }, nil
}

func startDead(e *env, kind string) (*deadEnd, error) {
	d := &deadEnd{kind: kind}
	if kind == "refused" {
		addr, release, err := refusedAddr()
		if err != nil {
			return nil, err
		}
		d.addr, d.stop = addr, release
		return d, nil
	}
	lis, err := net.Listen("tcp", "127.0.0.1:0")
	if err != nil {
		return nil, err
	}
	d.addr = lis.Addr().String()
	var wg sync.WaitGroup
	d.stop = func() {
		lis.Close()
		d.mu.Lock()
		cs := d.conns
		d.conns = nil
		d.mu.Unlock()
		for _, c := range cs {
			c.Close()
		}
		wg.Wait()
	}
	wg.Add(1)
	go func() {
		defer wg.Done()
		for {
			c, err := lis.Accept()
			if err != nil {
				return
			}
			d.mu.Lock()
			d.accepted++
			if kind != "closing" {
				d.conns = append(d.conns, c) // closed when the case ends, at the latest
			}
			d.mu.Unlock()
			switch kind {
			case "closing":
				c.Close()
			case "silent":
				// accepted and never spoken to
			case "plaintext":
				wg.Add(1)
				go func() {
					defer wg.Done()
					c.Write([]byte("HTTP/1.1 400 Bad Request\r\nConnection: close\r\n\r\n"))
					io.Copy(io.Discard, c)
					c.Close()
				}()
			case "tlsfail":
				wg.Add(1)
				go func() {
					defer wg.Done()
					// a TLS endpoint that has no certificate for anybody: the handshake ends with an alert
					tc := tls.Server(c, &tls.Config{GetCertificate: func(*tls.ClientHelloInfo) (*tls.Certificate, error) {
						return nil, errors.New("no certificate for this name")
					}})
					tc.Handshake()
					tc.Close()
				}()
			}
		}
	}()
	return d, nil
}

// deadEnds are the dead endpoints of one case, made when first referred to.
type deadEnds struct {
	e    *env
	ends map[string]*deadEnd
	keys []string
}

func (ds *deadEnds) get(a Addr) (*deadEnd, error) {
	kind := a.Kind
	ok := false
	for _, k := range deadKinds {
		ok = ok || k == kind
	}
	if !ok {
		return nil, fmt.Errorf("unknown address kind %q", kind)
	}
	key := fmt.Sprintf("%s/%d", kind, a.Inst)
	if d := ds.ends[key]; d != nil {
		return d, nil
	}
	d, err := startDead(ds.e, kind)
	if err != nil {
		return nil, err
	}
	if ds.ends == nil {
		ds.ends = map[string]*deadEnd{}
	}
	ds.ends[key] = d
	ds.keys = append(ds.keys, key)
	return d, nil
}

func (ds *deadEnds) stop() {
	for _, d := range ds.ends {
		d.stop()
	}
}

// addresses renders the configured address lines of a target whose scripted server listens on live, and records
// what the configuration contains.
func (ds *deadEnds) addresses(tg Target, live string, st *stats) ([]string, error) {
	if len(tg.Addrs) == 0 {
		return []string{live}, nil
	}
	var out []string
	hops := map[string]bool{}
	liveSeen := false
	for i, a := range tg.Addrs {
		hop := live
		if a.Kind != "live" {
			d, err := ds.get(a)
			if err != nil {
				return nil, err
			}
			hop = d.addr
			st.deadKinds[a.Kind] = true
			if !liveSeen {
				st.deadBeforeLive = true
			}
			key := fmt.Sprintf("%s/%d", a.Kind, a.Inst)
			if st.deadUsers[key] == nil {
				st.deadUsers[key] = map[string]bool{}
			}
			st.deadUsers[key][tg.Name] = true
		} else {
			if i == 0 {
				st.liveFirst = true
			}
			liveSeen = true
		}
		if hops[hop] {
			st.addrTwice = true
		}
		hops[hop] = true
		line := hop
		if a.Chain != "" {
			line += ";" + a.Chain
			st.addrChain = true
		}
		out = append(out, line)
	}
	if !liveSeen {
		return nil, fmt.Errorf("target %s has no live address", tg.Name)
	}
	if n := len(hops) - 1; n > st.deadPerTarget {
		st.deadPerTarget = n
	}
	st.multiAddr = st.multiAddr || len(hops) > 1
	return out, nil
}

// ---- generator ---------------------------------------------------------------------------------------------

var chains = []string{"", "", "", "", "", "", "", "", "", "", "device.example.net:6030", "10.1.1.1:9339;10.2.2.2:9339"}

// genAddrs draws the address list of one target: 1-3 dead addresses and the live one, anywhere in the list;
// sometimes a line is listed twice, sometimes a line is an address chain.
func genAddrs(t *rapid.T) []Addr {
	var dead []Addr
	for n := rapid.SampledFrom([]int{1, 1, 1, 2, 2, 3}).Draw(t, "ndead"); n > 0; n-- {
		dead = append(dead, Addr{Kind: rapid.SampledFrom(deadKinds).Draw(t, "deadkind"), Inst: rapid.IntRange(0, 1).Draw(t, "deadinst")})
	}
	at := 0
	switch rapid.IntRange(0, 4).Draw(t, "liveat") {
	case 0:
		at = 0 // the live address first: the dead ones must not get in its way either
	case 1:
		at = rapid.IntRange(0, len(dead)).Draw(t, "liveidx")
	default:
		at = len(dead) // the live address last
	}
	out := append(append(append([]Addr{}, dead[:at]...), Addr{Kind: "live"}), dead[at:]...)
	if rapid.IntRange(0, 4).Draw(t, "twice") == 0 {
		out = append(out, out[rapid.IntRange(0, len(out)-1).Draw(t, "which")])
	}
	for i := range out {
		// a chain matters most on the line that leads to the target
		if out[i].Kind == "live" && rapid.IntRange(0, 3).Draw(t, "livechain") == 0 {
			out[i].Chain = chains[len(chains)-1-rapid.IntRange(0, 1).Draw(t, "whichchain")]
			continue
		}
		out[i].Chain = rapid.SampledFrom(chains).Draw(t, "chain")
	}
	return out
}

// genReachScenario: the scenarios of the "random" part, with targets that are configured with several addresses.
func genReachScenario(t *rapid.T) *Scenario {
	sc := genScenario(t)
	sc.DialTimeoutMs = rapid.SampledFrom([]int{500, 800, 1200}).Draw(t, "dialtimeout")
	some := false
	for i := range sc.Targets {
		if rapid.IntRange(0, 3).Draw(t, "several") > 0 || (i == len(sc.Targets)-1 && !some) {
			sc.Targets[i].Addrs = genAddrs(t)
			some = true
		}
	}
	return sc
}
