// Package e2e decides C01: the collector binary, fed by scripted gNMI targets
// over real gRPC/TLS, must show every client exactly the targets' final state —
// through the client library's cache and through the gnmi_cli binary, however
// the request is handed to the CLI.
package e2e

import (
	"fmt"

	"pgregory.net/rapid"
	"verif/harness/internal/gn"
)

// Op is one message a scripted target sends.
type Op struct {
	// Kind: update delete sync
	Kind    string    `json:"kind"`
	Origin  string    `json:"origin,omitempty"` // prefix origin ("" = none: the collector files it under "openconfig")
	Prefix  []gn.Elem `json:"prefix,omitempty"`
	Path    []gn.Elem `json:"path,omitempty"`
	Element bool      `json:"element,omitempty"` // deprecated path encoding
	Val     gn.Val    `json:"val,omitempty"`
	Cut     int       `json:"cut,omitempty"` // multi: the delete path is the first Cut elements of prefix+path
}

// Target is one configured target and its stream.
type Target struct {
	Name    string `json:"name"`
	Server  int    `json:"server"`  // which scripted server address it lives on
	Request int    `json:"request"` // which request of the configuration it references
	Ops     []Op   `json:"ops"`
}

// Scenario is a collector configuration plus the streams of its targets.
type Scenario struct {
	Targets  []Target `json:"targets"`
	Servers  int      `json:"servers"`
	Requests int      `json:"requests"`
	Subtree  int      `json:"subtree"` // CLI: which leaf's top-level subtree is queried besides the whole target
}

var names = []string{"a", "b", "c", "iface", "state"}

func genElem(t *rapid.T, glob bool) gn.Elem {
	alpha := names
	if glob {
		alpha = append(append([]string{}, names...), "*")
	}
	e := gn.Elem{Name: rapid.SampledFrom(alpha).Draw(t, "name")}
	if e.Name != "*" && rapid.IntRange(0, 3).Draw(t, "keyed") == 0 {
		e.Keys = map[string]string{}
		for i := rapid.IntRange(1, 2).Draw(t, "nkeys"); i > 0; i-- {
			e.Keys[rapid.SampledFrom([]string{"name", "id"}).Draw(t, "key")] = rapid.SampledFrom([]string{"eth0", "eth1", "7"}).Draw(t, "kval")
		}
	}
	return e
}

func genElems(t *rapid.T, min, max int, glob bool) []gn.Elem {
	n := rapid.IntRange(min, max).Draw(t, "nelem")
	out := make([]gn.Elem, 0, n)
	for i := 0; i < n; i++ {
		out = append(out, genElem(t, glob))
	}
	return out
}

func genVal(t *rapid.T) gn.Val {
	switch rapid.IntRange(0, 10).Draw(t, "vkind") {
	case 0:
		return gn.Val{Kind: "string", S: rapid.SampledFrom([]string{"up", "", "héllo", "a b"}).Draw(t, "s")}
	case 1:
		return gn.Val{Kind: "int", I: rapid.SampledFrom([]int64{0, -5, 42, 1 << 40}).Draw(t, "i")}
	case 2:
		return gn.Val{Kind: "uint", I: rapid.SampledFrom([]int64{0, 7, 1 << 41}).Draw(t, "u")}
	case 3:
		return gn.Val{Kind: "bool", B: rapid.Bool().Draw(t, "b")}
	case 4:
		return gn.Val{Kind: "bytes", S: rapid.SampledFrom([]string{"\x01\x02", "xyz"}).Draw(t, "by")}
	case 5:
		return gn.Val{Kind: "float", F: rapid.SampledFrom([]float64{0.5, -2.25}).Draw(t, "f")}
	case 6:
		return gn.Val{Kind: "double", F: rapid.SampledFrom([]float64{0, 1.5, 1e100}).Draw(t, "d")}
	case 7:
		return gn.Val{Kind: "decimal", I: rapid.SampledFrom([]int64{125, -30}).Draw(t, "digits"), F: float64(rapid.IntRange(0, 2).Draw(t, "prec"))}
	case 8:
		return gn.Val{Kind: "leaflist", L: []gn.Val{{Kind: "int", I: 1}, {Kind: "string", S: "x"}, {Kind: "bool", B: true}}}
	case 9:
		return gn.Val{Kind: "json", S: rapid.SampledFrom([]string{`{"a":1}`, `[1,2]`, `"s"`}).Draw(t, "j")}
	default:
		return gn.Val{Kind: "jsonietf", S: rapid.SampledFrom([]string{`{"b":"c"}`, `3`}).Draw(t, "ji")}
	}
}

// opKey is the index (without target) under which the collector files an update.
func opKey(o Op) []string {
	origin := o.Origin
	if origin == "" {
		origin = "openconfig"
	}
	k := []string{origin}
	k = append(k, gn.IndexOfElems(o.Prefix, o.Element)...)
	return append(k, gn.IndexOfElems(o.Path, o.Element)...)
}

func genTarget(t *rapid.T, i, servers, requests int) Target {
	tg := Target{Name: fmt.Sprintf("dev%d", i), Server: rapid.IntRange(0, servers-1).Draw(t, "server"), Request: rapid.IntRange(0, requests-1).Draw(t, "request")}
	stored := map[string]bool{}
	conflict := func(k []string) bool {
		for s := range stored {
			p := gn.Unkey(s)
			if gn.IsProperPrefix(p, k) || gn.IsProperPrefix(k, p) {
				return true
			}
		}
		return false
	}
	n := rapid.IntRange(2, 10).Draw(t, "nops")
	syncAt := rapid.IntRange(0, n).Draw(t, "syncat")
	for j := 0; j < n; j++ {
		if j == syncAt {
			tg.Ops = append(tg.Ops, Op{Kind: "sync"})
		}
		if rapid.IntRange(0, 3).Draw(t, "isdelete") == 0 && len(stored) > 0 {
			// delete an existing leaf exactly, its parent subtree, or through a glob
			var ks []string
			for s := range stored {
				ks = append(ks, s)
			}
			sortStrings(ks)
			leaf := gn.Unkey(ks[rapid.IntRange(0, len(ks)-1).Draw(t, "dwhich")])
			o := Op{Kind: "delete", Origin: leaf[0]}
			if o.Origin == "openconfig" {
				o.Origin = ""
			}
			p := leaf[1:]
			switch rapid.IntRange(0, 3).Draw(t, "dshape") {
			case 1:
				if len(p) > 1 {
					p = p[:len(p)-1]
				}
			case 2:
				p = append([]string{}, p...)
				p[rapid.IntRange(0, len(p)-1).Draw(t, "globat")] = "*"
			case 3:
				p = []string{"*"}
			}
			for _, e := range p {
				o.Path = append(o.Path, gn.Elem{Name: e})
			}
			tg.Ops = append(tg.Ops, o)
			pat := opKey(o)
			for s := range stored {
				if gn.Matches(pat, gn.Unkey(s)) {
					delete(stored, s)
				}
			}
			continue
		}
		o := Op{Kind: "update", Origin: rapid.SampledFrom([]string{"", "", "oc2"}).Draw(t, "origin"), Element: rapid.IntRange(0, 5).Draw(t, "element") == 0}
		o.Prefix = genElems(t, 0, 1, false)
		o.Path = genElems(t, 1, 2, false)
		if rapid.IntRange(0, 2).Draw(t, "again") == 0 && len(stored) > 0 {
			// overwrite an existing leaf with a new value
			var ks []string
			for s := range stored {
				ks = append(ks, s)
			}
			sortStrings(ks)
			leaf := gn.Unkey(ks[rapid.IntRange(0, len(ks)-1).Draw(t, "which")])
			o.Origin, o.Element, o.Prefix, o.Path = leaf[0], false, nil, nil
			if o.Origin == "openconfig" {
				o.Origin = ""
			}
			for _, e := range leaf[1:] {
				o.Path = append(o.Path, gn.Elem{Name: e})
			}
		}
		o.Val = genVal(t)
		k := opKey(o)
		if conflict(k) {
			continue // keep the leaf set prefix-free (conflicts belong to C02/C09)
		}
		if !o.Element && rapid.IntRange(0, 4).Draw(t, "replace") == 0 {
			// a "replace": the same notification deletes a subtree that covers this update
			all := len(o.Prefix) + len(o.Path)
			o.Kind = "multi"
			o.Cut = rapid.IntRange(1, all).Draw(t, "cut")
			origin := o.Origin
			if origin == "" {
				origin = "openconfig"
			}
			pat := append([]string{origin}, gn.IndexOfElems(append(append([]gn.Elem{}, o.Prefix...), o.Path...)[:o.Cut], false)...)
			for s := range stored {
				if gn.Matches(pat, gn.Unkey(s)) {
					delete(stored, s)
				}
			}
		}
		stored[gn.Key(k)] = true
		tg.Ops = append(tg.Ops, o)
	}
	if syncAt >= n {
		tg.Ops = append(tg.Ops, Op{Kind: "sync"})
	}
	return tg
}

func sortStrings(s []string) {
	for i := 1; i < len(s); i++ {
		for j := i; j > 0 && s[j] < s[j-1]; j-- {
			s[j], s[j-1] = s[j-1], s[j]
		}
	}
}

func genScenario(t *rapid.T) *Scenario {
	sc := &Scenario{Servers: rapid.IntRange(1, 2).Draw(t, "servers"), Requests: rapid.IntRange(1, 2).Draw(t, "requests"), Subtree: rapid.IntRange(0, 5).Draw(t, "subtree")}
	n := rapid.IntRange(1, 3).Draw(t, "ntargets")
	for i := 0; i < n; i++ {
		sc.Targets = append(sc.Targets, genTarget(t, i, sc.Servers, sc.Requests))
	}
	return sc
}
